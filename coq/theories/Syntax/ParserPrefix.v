(* Syntax/ParserPrefix.v — C03, containment half, "entries before": what the parser does BEFORE a
   line start q does not depend on what follows q, as long as what follows begins like a message
   or term (an ASCII letter or '-' in column 0) and the run up to q meets no error.

   Setting: bs1 = pre ++ post1, bs2 = pre ++ post2, q = length pre, pre ends with '\n', post1 and
   post2 begin with an "e-byte" (letter or '-').  Two judgments over the parser monad:
     SB_at p m       : started at or after q, m (on bs1) ends at or after q          ("stays beyond")
     CL_at p Q m1 m2 : started before q, if m1 (on bs1) ends before q with Ok a / Err e then m2
                       (on bs2) ends in the same way, and Q a p' holds                ("claims")
   Both compose along `bind`; the recursive knot is done by the same kind of stepping tactic as the
   fuel-monotonicity proof.  On top of that, the functions that may legitimately END at q (pattern,
   attributes, message, term, comment, blank block) are shown to end there in both runs.          *)
From FluentV Require Import Syntax.ParserModel Syntax.ParserAccounting.
From FluentV Require Syntax.RuntimeAgree Syntax.ParserIsolation.
From Coq Require Import Lia ZifyBool ZifyNat ZifyN List.
Import ListNotations.
Arguments N.add : simpl never. Arguments N.sub : simpl never. Arguments N.eqb : simpl never.
Arguments N.ltb : simpl never. Arguments N.leb : simpl never.

(* a byte that begins a message or a term *)
Definition ebyte (c : N) : bool := is_ascii_alphabetic c || N.eqb c 45.
Definition starts_e (l : bytes) : Prop := exists c r, l = c :: r /\ ebyte c = true.

Ltac ecls :=
  unfold ebyte, is_ascii_alphabetic, is_ascii_digit, is_ascii_hexdigit, is_ident_char, is_ascii_alphanumeric,
         is_space, is_cont, is_ascii, in_rng, c_lf, c_cr, c_sp in *;
  first [ lia
        | repeat match goal with
                 | H : nth_error _ _ = _ |- _ => clear H
                 | H : byte_at _ _ = _ |- _ => clear H
                 | H : starts_e _ |- _ => clear H
                 end; lia ].

Lemma alpha_not_lf b : is_ascii_alphabetic b = true -> N.eqb b c_lf = false.
Proof. intros H. ecls. Qed.
Lemma ebyte_props c : ebyte c = true ->
  is_space c = false /\ N.eqb c c_lf = false /\ N.eqb c c_cr = false /\ is_cont c = false /\
  N.eqb c 35 = false /\ N.eqb c 46 = false /\ N.eqb c 123 = false.
Proof. intros H. repeat split; ecls. Qed.

(* ================= A. lists that end with a line feed ================= *)
Lemma scan_stop_lf f (L' r : bytes) : f c_lf = false ->
  scan_while f ((L' ++ [c_lf]) ++ r) = scan_while f (L' ++ [c_lf]) /\ scan_while f (L' ++ [c_lf]) <= length L'.
Proof.
  intros Hf. induction L' as [|a L IH]; cbn [app scan_while length].
  - rewrite Hf. split; [reflexivity|lia].
  - destruct (f a); [|split; [reflexivity|lia]]. destruct IH as [IH1 IH2]. split; [f_equal; exact IH1|lia].
Qed.

Lemma eol_len_lf_indep (L' r1 r2 : bytes) :
  eol_len ((L' ++ [c_lf]) ++ r1) = eol_len ((L' ++ [c_lf]) ++ r2) /\
  eol_len ((L' ++ [c_lf]) ++ r1) <= length (L' ++ [c_lf]).
Proof.
  destruct L' as [|a [|b L]]; cbn [app eol_len length].
  - change (N.eqb c_lf c_lf) with true. split; [reflexivity|lia].
  - destruct (N.eqb a c_lf); [split; [reflexivity|lia]|].
    destruct (N.eqb a c_cr); [|split; [reflexivity|lia]].
    change (N.eqb c_lf c_lf) with true. split; [reflexivity|lia].
  - destruct (N.eqb a c_lf); [split; [reflexivity|lia]|].
    destruct (N.eqb a c_cr); [|split; [reflexivity|lia]].
    destruct (N.eqb b c_lf); split; try reflexivity; lia.
Qed.

(* lists that are empty or end with a line feed *)
Definition nlend (L : bytes) : Prop := L = [] \/ exists L', L = L' ++ [c_lf].

Lemma nlend_skipn k L : nlend L -> k <= length L -> nlend (skipn k L).
Proof.
  intros [->|[L' ->]] Hk; [left; destruct k; reflexivity|].
  rewrite app_length in Hk. cbn [length] in Hk.
  destruct (Nat.eq_dec k (length L' + 1)) as [->|Hne].
  - left. apply skipn_all2. rewrite app_length. cbn [length]. lia.
  - right. exists (skipn k L'). rewrite skipn_app. replace (k - length L') with 0 by lia. reflexivity.
Qed.

Lemma blank_len_e c r : ebyte c = true -> blank_len (c :: r) = 0.
Proof.
  intros H. cbn [blank_len].
  assert (E1 : N.eqb c c_sp || N.eqb c c_lf = false) by ecls. rewrite E1.
  assert (E2 : N.eqb c c_cr = false) by ecls. rewrite E2. reflexivity.
Qed.

Lemma blank_len_agree c1 r1 c2 r2 : ebyte c1 = true -> ebyte c2 = true ->
  forall n L, length L <= n -> nlend L ->
  blank_len (L ++ c1 :: r1) = blank_len (L ++ c2 :: r2) /\ blank_len (L ++ c1 :: r1) <= length L.
Proof.
  intros H1 H2. induction n as [|n IH]; intros L Hn HL.
  - destruct L; [|cbn in Hn; lia]. cbn [app length]. rewrite !blank_len_e by assumption. split; [reflexivity|lia].
  - destruct L as [|a L]; [cbn [app length]; rewrite !blank_len_e by assumption; split; [reflexivity|lia]|].
    assert (HL1 : nlend L) by (apply (nlend_skipn 1 (a :: L) HL); cbn [length]; lia).
    cbn [app blank_len length].
    destruct (N.eqb a c_sp || N.eqb a c_lf).
    { destruct (IH L ltac:(cbn [length] in Hn; lia) HL1) as [I1 I2]. split; [f_equal; exact I1|lia]. }
    destruct (N.eqb a c_cr) eqn:Ecr; [|split; [reflexivity|lia]].
    destruct L as [|b L2].
    { (* a :: [] is nlend: a = lf, contradiction with a = cr *)
      exfalso. destruct HL as [HL|[L' HL]]; [discriminate|].
      destruct L' as [|x [|y L'']]; cbn in HL; try discriminate. injection HL as ->. vm_compute in Ecr. discriminate. }
    cbn [app]. destruct (N.eqb b c_lf); [|split; [reflexivity|lia]].
    assert (HL2 : nlend L2) by (apply (nlend_skipn 2 (a :: b :: L2) HL); cbn [length]; lia).
    destruct (IH L2 ltac:(cbn [length] in Hn; lia) HL2) as [I1 I2]. split; [do 2 f_equal; exact I1|cbn [length]; lia].
Qed.

Lemma blank_block_e k c r : ebyte c = true -> blank_block k (c :: r) = (0, 0).
Proof.
  intros H. destruct k as [|k]; [reflexivity|]. cbn [blank_block scan_while].
  assert (E0 : is_space c = false) by ecls. rewrite E0. cbn [skipn eol_len].
  assert (E1 : N.eqb c c_lf = false) by ecls. assert (E2 : N.eqb c c_cr = false) by ecls.
  rewrite E1, E2. reflexivity.
Qed.

Lemma blank_block_agree c1 r1 c2 r2 : ebyte c1 = true -> ebyte c2 = true ->
  forall k L, nlend L ->
  blank_block k (L ++ c1 :: r1) = blank_block k (L ++ c2 :: r2) /\ snd (blank_block k (L ++ c1 :: r1)) <= length L.
Proof.
  intros H1 H2. induction k as [|k IH]; intros L HL; [split; [reflexivity|cbn; lia]|].
  destruct HL as [->|[L' ->]].
  { cbn [app]. rewrite !blank_block_e by assumption. split; [reflexivity|cbn; lia]. }
  cbn [blank_block].
  destruct (scan_stop_lf is_space L' (c1 :: r1) eq_refl) as [S1 S1'].
  destruct (scan_stop_lf is_space L' (c2 :: r2) eq_refl) as [S2 _].
  rewrite S1, S2. set (s := scan_while is_space (L' ++ [c_lf])) in *.
  assert (Hs : s <= length (L' ++ [c_lf])) by (rewrite app_length; cbn [length]; lia).
  rewrite (skipn_app s (L' ++ [c_lf]) (c1 :: r1)), (skipn_app s (L' ++ [c_lf]) (c2 :: r2)).
  replace (s - length (L' ++ [c_lf])) with 0 by lia. cbn [skipn].
  assert (HL1 : exists L1, skipn s (L' ++ [c_lf]) = L1 ++ [c_lf]).
  { exists (skipn s L'). rewrite skipn_app. replace (s - length L') with 0 by lia. reflexivity. }
  destruct HL1 as [L1 HL1]. rewrite HL1.
  destruct (eol_len_lf_indep L1 (c1 :: r1) (c2 :: r2)) as [E1 E2]. rewrite <- E1.
  destruct (eol_len ((L1 ++ [c_lf]) ++ c1 :: r1)) as [|e] eqn:Ee; [split; [reflexivity|cbn; lia]|].
  change (match (L1 ++ [c_lf]) ++ c1 :: r1 with [] => [] | _ :: l => skipn e l end)
    with (skipn (S e) ((L1 ++ [c_lf]) ++ c1 :: r1)).
  change (match (L1 ++ [c_lf]) ++ c2 :: r2 with [] => [] | _ :: l => skipn e l end)
    with (skipn (S e) ((L1 ++ [c_lf]) ++ c2 :: r2)).
  rewrite (skipn_app (S e) (L1 ++ [c_lf]) (c1 :: r1)), (skipn_app (S e) (L1 ++ [c_lf]) (c2 :: r2)).
  replace (S e - length (L1 ++ [c_lf])) with 0 by lia. change (skipn 0 (c1 :: r1)) with (c1 :: r1).
  change (skipn 0 (c2 :: r2)) with (c2 :: r2).
  assert (HL2 : nlend (skipn (S e) (L1 ++ [c_lf]))).
  { apply nlend_skipn; [right; eauto|lia]. }
  destruct (IH _ HL2) as [I1 I2]. rewrite <- I1.
  destruct (blank_block k (skipn (S e) (L1 ++ [c_lf]) ++ c1 :: r1)) as [c m]. cbn [snd] in *.
  split; [reflexivity|].
  assert (Hlen : length (skipn (S e) (L1 ++ [c_lf])) = length (L1 ++ [c_lf]) - S e) by apply skipn_length.
  assert (Hlen1 : length (L1 ++ [c_lf]) = length (L' ++ [c_lf]) - s) by (rewrite <- HL1; apply skipn_length).
  lia.
Qed.

(* enough fuel: one more than the length *)
Lemma blank_block_fuel : forall k k' l, length l < k -> length l < k' -> blank_block k l = blank_block k' l.
Proof.
  induction k as [|k IH]; intros k' l Hk Hk'; [lia|]. destruct k' as [|k']; [lia|].
  cbn [blank_block]. set (s := scan_while is_space l). set (l1 := skipn s l).
  destruct (eol_len l1) as [|e] eqn:Ee; [reflexivity|].
  assert (Hl1 : length l1 <= length l) by (unfold l1; rewrite skipn_length; lia).
  assert (Hl2 : length (skipn (S e) l1) < length l1).
  { rewrite skipn_length. destruct l1; [discriminate|]. cbn [length]. lia. }
  rewrite (IH k' (skipn (S e) l1)) by lia. reflexivity.
Qed.

Lemma memchr3_lf (L' r : bytes) :
  exists i, memchr3 ((L' ++ [c_lf]) ++ r) = Some i /\ i <= length L' /\
            (forall r', memchr3 ((L' ++ [c_lf]) ++ r') = Some i).
Proof.
  induction L' as [|a L IH]; cbn [app memchr3 length].
  - change (N.eqb c_lf c_lf) with true. cbn [orb]. exists 0. split; [reflexivity|]. split; [lia|reflexivity].
  - destruct (N.eqb a c_lf || N.eqb a 123 || N.eqb a 125).
    + exists 0. split; [reflexivity|]. split; [lia|reflexivity].
    + destruct IH as (i & E & Hi & Hr). exists (S i). rewrite E. split; [reflexivity|]. split; [lia|].
      intros r'. rewrite Hr. reflexivity.
Qed.


(* ================= A'. generic facts about the parser (any input) ================= *)
Lemma bind_ext {A B} (m : M A) (k k' : A -> M B) p :
  (forall a q0, k a q0 = k' a q0) -> bind m k p = bind m k' p.
Proof. intros H. unfold bind. destruct (m p); auto. Qed.

Lemma bind_eq2 {A B} (m1 m2 : M A) (k1 k2 : A -> M B) p :
  m1 p = m2 p -> (forall a p1, m1 p = Ok a p1 -> k1 a p1 = k2 a p1) -> bind m1 k1 p = bind m2 k2 p.
Proof. intros Hm Hk. unfold bind. rewrite <- Hm. destruct (m1 p) as [a p1| | |]; try reflexivity. apply Hk. reflexivity. Qed.

(* a placeable ends right after a '}' *)
Lemma placeable_ends_brace bs n p e p1 : get_placeable bs n p = Ok e p1 -> 1 <= p1 /\ byte_at bs (p1 - 1) = Some 125%N.
Proof.
  destruct n as [|n]; [discriminate|]. cbn [get_placeable]. fold_knot bs. intros H.
  RuntimeAgree.bind_inv H u1 q1 H1. RuntimeAgree.bind_inv H xp q2 H2. RuntimeAgree.bind_inv H k q3 H3.
  RuntimeAgree.bind_inv H u4 q4 H4.
  assert (G : ret xp q4 = Ok e p1 \/ (exists k0, error_here (A:=expression) k0 q4 = Ok e p1) -> 1 <= p1 /\ byte_at bs (p1 - 1) = Some 125%N).
  { intros [G|[k0 G]]; [|discriminate]. cbv [ret] in G. injection G as _ <-.
    unfold expect_byte in H4. destruct (is_byte_at bs 125 q3) eqn:E; [|discriminate]. injection H4 as _ <-.
    split; [lia|]. replace (S q3 - 1) with q3 by lia. apply RuntimeAgree.is_byte_at_true. exact E. }
  apply G. destruct xp as [s v|i]; [left; exact H|].
  destruct i as [v|v|id a|id at_|id [at_|] a|id|e0]; try (left; exact H). right. eauto.
Qed.

Lemma ga_mono bs : forall n acc p l p', get_attributes bs n acc p = Ok l p' -> p <= p'.
Proof.
  induction n as [|n' IH]; intros acc p l p' H; [discriminate|]. cbn [get_attributes] in H.
  RuntimeAgree.bind_inv H ls p0 H0. cbv [get_ptr] in H0. injection H0 as <- <-.
  RuntimeAgree.bind_inv H k p1 H1. unfold skip_blank_inline in H1. injection H1 as _ <-.
  RuntimeAgree.bind_inv H dot p2 H2.
  assert (Hp2 : scan_while is_space (rest bs p) + p <= p2).
  { unfold take_byte_if in H2. destruct (is_byte_at bs 46 _); injection H2 as _ <-; lia. }
  destruct dot; cbn [negb] in H.
  - RuntimeAgree.bind_inv H r p3 H3. unfold try_ in H3.
    destruct (get_attribute bs n' p2) as [attr p4|e p4|t|] eqn:E; try discriminate; injection H3 as <- <-.
    + pose proof (get_attribute_spec bs n' p2) as G. unfold spec in G. rewrite E in G. apply IH in H. lia.
    + RuntimeAgree.bind_inv H u p5 H5. cbv [set_ptr] in H5. injection H5 as _ <-. cbv [ret] in H. injection H as _ <-. lia.
  - RuntimeAgree.bind_inv H u p5 H5. cbv [set_ptr] in H5. injection H5 as _ <-. cbv [ret] in H. injection H as _ <-. lia.
Qed.


Lemma spec_ok {A} (m : M A) p Q E a p' : spec m p Q E -> m p = Ok a p' -> Q a p'.
Proof. intros H Ha. unfold spec in H. rewrite Ha in H. exact H. Qed.

Lemma message_progress bs n es p e p1 : get_message bs n es p = Ok e p1 -> p < p1.
Proof.
  unfold get_message. intros H. destruct (knot_mono_all bs n) as (M1 & _).
  RuntimeAgree.bind_inv H idn pa Ha. RuntimeAgree.bind_inv H k pb Hb. RuntimeAgree.bind_inv H u pc Hc.
  RuntimeAgree.bind_inv H pat pd Hd. RuntimeAgree.bind_inv H c pe He. RuntimeAgree.bind_inv H attrs pf Hf.
  assert (pf = p1).
  { destruct pat; [cbv [ret] in H; injection H as _ <-; reflexivity|].
    destruct attrs; [|cbv [ret] in H; injection H as _ <-; reflexivity].
    RuntimeAgree.bind_inv H x p7 H7. discriminate. }
  subst pf.
  pose proof (spec_ok _ _ _ _ _ _ (sp_get_identifier bs _) Ha) as G1. cbv beta in G1.
  pose proof (spec_ok _ _ _ _ _ _ (sp_skip_blank_inline bs _) Hb) as G2. cbv beta in G2.
  pose proof (spec_ok _ _ _ _ _ _ (sp_expect_byte bs _ _) Hc) as G3. cbv beta in G3.
  pose proof (spec_ok _ _ _ _ _ _ (M1 _) Hd) as G4. cbv beta in G4.
  pose proof (spec_ok _ _ _ _ _ _ (sp_skip_blank_block bs _) He) as G5. cbv beta in G5.
  pose proof (ga_mono bs _ _ _ _ _ Hf). lia.
Qed.

Lemma term_progress bs n es p e p1 : get_term bs n es p = Ok e p1 -> p < p1.
Proof.
  unfold get_term. intros H. destruct (knot_mono_all bs n) as (M1 & _).
  RuntimeAgree.bind_inv H u0 p0 H0. RuntimeAgree.bind_inv H idn pa Ha. RuntimeAgree.bind_inv H k pb Hb.
  RuntimeAgree.bind_inv H u pc Hc. RuntimeAgree.bind_inv H k' pc' Hc'.
  RuntimeAgree.bind_inv H pat pd Hd. RuntimeAgree.bind_inv H c pe He. RuntimeAgree.bind_inv H attrs pf Hf.
  assert (pf = p1).
  { destruct pat; [cbv [ret] in H; injection H as _ <-; reflexivity|].
    RuntimeAgree.bind_inv H x p7 H7. discriminate. }
  subst pf.
  pose proof (spec_ok _ _ _ _ _ _ (sp_expect_byte bs _ _) H0) as G0. cbv beta in G0.
  pose proof (spec_ok _ _ _ _ _ _ (sp_get_identifier bs _) Ha) as G1. cbv beta in G1.
  pose proof (spec_ok _ _ _ _ _ _ (sp_skip_blank_inline bs _) Hb) as G2. cbv beta in G2.
  pose proof (spec_ok _ _ _ _ _ _ (sp_expect_byte bs _ _) Hc) as G3. cbv beta in G3.
  pose proof (spec_ok _ _ _ _ _ _ (sp_skip_blank_inline bs _) Hc') as G3'. cbv beta in G3'.
  pose proof (spec_ok _ _ _ _ _ _ (M1 _) Hd) as G4. cbv beta in G4.
  pose proof (spec_ok _ _ _ _ _ _ (sp_skip_blank_block bs _) He) as G5. cbv beta in G5.
  pose proof (ga_mono bs _ _ _ _ _ Hf). lia.
Qed.

(* an entry that begins with a letter or '-' consumes at least one byte *)
Lemma entry_progress_e bs n p c e p1 : byte_at bs p = Some c -> ebyte c = true ->
  get_entry bs n p p = Ok e p1 -> p < p1.
Proof.
  intros Hb Hc H. unfold get_entry in H. unfold bind at 1 in H. unfold current_byte in H. rewrite Hb in H.
  assert (E35 : N.eqb c 35 = false) by (apply ebyte_props; exact Hc). rewrite E35 in H.
  destruct (N.eqb c 45); [eapply term_progress|eapply message_progress]; exact H.
Qed.

(* ================= B. one string  bs = pre ++ post ================= *)
Section One.
Variables pre post bs : bytes.
Hypothesis Hb : bs = pre ++ post.
Notation q := (length pre).
Hypothesis Hnl : nth_error pre (q - 1) = Some c_lf.
Hypothesis He : starts_e post.
Set Default Proof Using "All".

Lemma q_pos : 1 <= q.
Proof. destruct pre; [discriminate Hnl|cbn [length]; lia]. Qed.

Lemma pre_split : pre = firstn (q - 1) pre ++ [c_lf].
Proof.
  pose proof q_pos as Hq. rewrite <- (firstn_skipn (q - 1) pre) at 1. f_equal.
  pose proof (RuntimeAgree.skipn_cons_nth pre (q - 1) c_lf Hnl) as H. rewrite H. f_equal.
  apply skipn_all2. lia.
Qed.

Lemma tail_lf p : p < q -> exists L', skipn p pre = L' ++ [c_lf] /\ length L' = q - 1 - p.
Proof.
  intros Hp. exists (skipn p (firstn (q - 1) pre)). split.
  - rewrite pre_split at 1. rewrite skipn_app. rewrite firstn_length.
    replace (p - Nat.min (q - 1) q) with 0 by lia. reflexivity.
  - rewrite skipn_length, firstn_length. lia.
Qed.

Lemma nlend_tail p : p <= q -> nlend (skipn p pre).
Proof.
  intros Hp. destruct (Nat.eq_dec p q) as [->|Hne]; [left; apply skipn_all|].
  destruct (tail_lf p ltac:(lia)) as (L' & E & _). right. eauto.
Qed.

Lemma rest_le p : p <= q -> rest bs p = skipn p pre ++ post.
Proof. intros Hp. unfold rest. rewrite Hb, skipn_app. replace (p - q) with 0 by lia. reflexivity. Qed.

Lemma rest_lt p : p < q -> exists L', rest bs p = (L' ++ [c_lf]) ++ post /\ length L' = q - 1 - p.
Proof. intros Hp. destruct (tail_lf p Hp) as (L' & E & HL). exists L'. rewrite rest_le by lia. rewrite E. auto. Qed.

Lemma byte_lt p : p < q -> byte_at bs p = nth_error pre p.
Proof. intros Hp. unfold byte_at. rewrite Hb. apply nth_error_app1. exact Hp. Qed.

Lemma byte_q : exists c, byte_at bs q = Some c /\ ebyte c = true.
Proof.
  destruct He as (c & r & -> & Hc). exists c. split; [|exact Hc].
  unfold byte_at. rewrite Hb, nth_error_app2 by lia. rewrite Nat.sub_diag. reflexivity.
Qed.

Lemma byte_q1 : byte_at bs (q - 1) = Some c_lf.
Proof. pose proof q_pos. rewrite byte_lt by lia. exact Hnl. Qed.

Lemma len_gt : q < length_ bs.
Proof. destruct He as (c & r & -> & _). unfold length_. rewrite Hb, app_length. cbn [length]. lia. Qed.

Lemma ltb_len p : p <= q -> Nat.ltb p (length_ bs) = true.
Proof. intros Hp. pose proof len_gt. apply Nat.ltb_lt. lia. Qed.

Lemma is_byte_at_q b : ebyte b = false -> is_byte_at bs b q = false.
Proof.
  intros Hbb. destruct byte_q as (c & Hc & Hec). unfold is_byte_at. rewrite Hc.
  apply N.eqb_neq. intros ->. congruence.
Qed.

(* scanning a class that excludes '\n' from below q stops below q *)
Lemma scan_lt f p : f c_lf = false -> p < q ->
  exists L', rest bs p = (L' ++ [c_lf]) ++ post /\
             scan_while f (rest bs p) = scan_while f (L' ++ [c_lf]) /\ scan_while f (rest bs p) + p < q.
Proof.
  intros Hf Hp. destruct (rest_lt p Hp) as (L' & E & HL). exists L'. split; [exact E|].
  rewrite E. destruct (scan_stop_lf f L' post Hf) as [S1 S2]. split; [exact S1|]. rewrite S1. lia.
Qed.
End One.

(* ================= C. two strings with the same prefix: the primitives below q ================= *)
Section Two.
Variables pre post1 post2 bs1 bs2 : bytes.
Hypothesis Hb1 : bs1 = pre ++ post1.
Hypothesis Hb2 : bs2 = pre ++ post2.
Notation q := (length pre).
Hypothesis Hnl : nth_error pre (q - 1) = Some c_lf.
Hypothesis He1 : starts_e post1.
Hypothesis He2 : starts_e post2.
Set Default Proof Using "All".

Lemma rests p : p < q -> exists L',
  rest bs1 p = (L' ++ [c_lf]) ++ post1 /\ rest bs2 p = (L' ++ [c_lf]) ++ post2 /\ length L' = q - 1 - p.
Proof.
  intros Hp. destruct (tail_lf pre post1 bs1 Hb1 Hnl He1 p Hp) as (L' & E & HL). exists L'.
  rewrite (rest_le pre post1 bs1 Hb1 Hnl He1 p), (rest_le pre post2 bs2 Hb2 Hnl He2 p) by lia. rewrite E. auto.
Qed.

Lemma eq_byte p : p < q -> byte_at bs1 p = byte_at bs2 p.
Proof. intros Hp. rewrite (byte_lt pre post1 bs1 Hb1 Hnl He1 p Hp), (byte_lt pre post2 bs2 Hb2 Hnl He2 p Hp). reflexivity. Qed.

Lemma eq_is_byte_at b p : p < q -> is_byte_at bs1 b p = is_byte_at bs2 b p.
Proof. intros Hp. unfold is_byte_at. rewrite eq_byte by exact Hp. reflexivity. Qed.

Lemma eq_is_byte_at_S b p : p < q -> ebyte b = false -> is_byte_at bs1 b (S p) = is_byte_at bs2 b (S p).
Proof.
  intros Hp Hbb. destruct (Nat.eq_dec (S p) q) as [E|E].
  - rewrite E. rewrite (is_byte_at_q pre post1 bs1 Hb1 Hnl He1 b Hbb), (is_byte_at_q pre post2 bs2 Hb2 Hnl He2 b Hbb). reflexivity.
  - apply eq_is_byte_at. lia.
Qed.

Lemma eq_scan f p : f c_lf = false -> p < q ->
  scan_while f (rest bs1 p) = scan_while f (rest bs2 p) /\ scan_while f (rest bs1 p) + p < q.
Proof.
  intros Hf Hp. destruct (rests p Hp) as (L' & E1 & E2 & HL). rewrite E1, E2.
  destruct (scan_stop_lf f L' post1 Hf) as [S1 S1']. destruct (scan_stop_lf f L' post2 Hf) as [S2 _].
  rewrite S1, S2. split; [reflexivity|lia].
Qed.

Lemma eq_eol_len p : p < q ->
  eol_len (rest bs1 p) = eol_len (rest bs2 p) /\ eol_len (rest bs1 p) + p <= q.
Proof.
  intros Hp. destruct (rests p Hp) as (L' & E1 & E2 & HL). rewrite E1, E2.
  destruct (eol_len_lf_indep L' post1 post2) as [H1 H2]. split; [exact H1|].
  rewrite app_length in H2. cbn [length] in H2. lia.
Qed.

Lemma eq_blank_len p : p <= q ->
  blank_len (rest bs1 p) = blank_len (rest bs2 p) /\ blank_len (rest bs1 p) + p <= q.
Proof.
  intros Hp. rewrite (rest_le pre post1 bs1 Hb1 Hnl He1 p Hp), (rest_le pre post2 bs2 Hb2 Hnl He2 p Hp).
  pose proof (nlend_tail pre post1 bs1 Hb1 Hnl He1 p Hp) as HL.
  destruct He1 as (c1 & r1 & -> & Hc1). destruct He2 as (c2 & r2 & -> & Hc2).
  destruct (blank_len_agree c1 r1 c2 r2 Hc1 Hc2 (length (skipn p pre)) (skipn p pre) (le_n _) HL) as [H1 H2].
  split; [exact H1|]. rewrite skipn_length in H2. lia.
Qed.

Lemma eq_skip_blank_block p : p <= q ->
  skip_blank_block bs1 p = skip_blank_block bs2 p /\
  (forall c p', skip_blank_block bs1 p = Ok c p' -> p <= p' <= q).
Proof.
  intros Hp. unfold skip_blank_block.
  rewrite (rest_le pre post1 bs1 Hb1 Hnl He1 p Hp), (rest_le pre post2 bs2 Hb2 Hnl He2 p Hp).
  pose proof (nlend_tail pre post1 bs1 Hb1 Hnl He1 p Hp) as HL.
  destruct He1 as (c1 & r1 & Hp1 & Hc1). destruct He2 as (c2 & r2 & Hp2 & Hc2).
  set (K := S (length_ bs1 - p) + S (length_ bs2 - p)).
  assert (F1 : blank_block (S (length_ bs1 - p)) (skipn p pre ++ post1) = blank_block K (skipn p pre ++ post1)).
  { apply blank_block_fuel; [|unfold K]; rewrite app_length, skipn_length; unfold length_; rewrite Hb1, app_length; lia. }
  assert (F2 : blank_block (S (length_ bs2 - p)) (skipn p pre ++ post2) = blank_block K (skipn p pre ++ post2)).
  { apply blank_block_fuel; [|unfold K]; rewrite app_length, skipn_length; unfold length_; rewrite Hb2, app_length; lia. }
  rewrite F1, F2. subst post1 post2.
  destruct (blank_block_agree c1 r1 c2 r2 Hc1 Hc2 K (skipn p pre) HL) as [H1 H2]. rewrite <- H1.
  destruct (blank_block K (skipn p pre ++ c1 :: r1)) as [c m]. cbn [snd] in H2. rewrite skipn_length in H2.
  split; [reflexivity|]. intros c0 p' H. injection H as _ <-. lia.
Qed.

Lemma eq_char_boundary b : b <= q -> is_char_boundary bs1 b = is_char_boundary bs2 b.
Proof.
  intros Hle. unfold is_char_boundary. destruct (Nat.eqb b 0); [reflexivity|].
  pose proof (len_gt pre post1 bs1 Hb1 Hnl He1) as L1. pose proof (len_gt pre post2 bs2 Hb2 Hnl He2) as L2.
  unfold length_ in L1, L2.
  assert (C1 : Nat.compare b (length bs1) = Lt) by (apply Nat.compare_lt_iff; lia).
  assert (C2 : Nat.compare b (length bs2) = Lt) by (apply Nat.compare_lt_iff; lia).
  rewrite C1, C2. destruct (Nat.eq_dec b q) as [->|Hne].
  - destruct (byte_q pre post1 bs1 Hb1 Hnl He1) as (c1 & B1 & E1). destruct (byte_q pre post2 bs2 Hb2 Hnl He2) as (c2 & B2 & E2).
    unfold byte_at in B1, B2. rewrite B1, B2.
    assert (is_cont c1 = false) by ecls. assert (is_cont c2 = false) by ecls. congruence.
  - pose proof (eq_byte b ltac:(lia)) as E. unfold byte_at in E. rewrite E. reflexivity.
Qed.

Lemma eq_slice a b : b <= q -> slice bs1 a b = slice bs2 a b.
Proof.
  intros Hle. unfold slice. destruct (Nat.leb_spec a b) as [Hab|Hab]; [|reflexivity]. cbn [andb].
  pose proof (len_gt pre post1 bs1 Hb1 Hnl He1) as L1. pose proof (len_gt pre post2 bs2 Hb2 Hnl He2) as L2.
  unfold length_ in L1, L2.
  assert (B1 : Nat.leb b (length bs1) = true) by (apply Nat.leb_le; lia).
  assert (B2 : Nat.leb b (length bs2) = true) by (apply Nat.leb_le; lia).
  rewrite B1, B2, (eq_char_boundary a), (eq_char_boundary b) by lia.
  assert (E : firstn (b - a) (skipn a bs1) = firstn (b - a) (skipn a bs2)).
  { change (skipn a bs1) with (rest bs1 a). change (skipn a bs2) with (rest bs2 a).
    rewrite (rest_le pre post1 bs1 Hb1 Hnl He1 a), (rest_le pre post2 bs2 Hb2 Hnl He2 a) by lia.
    rewrite !firstn_app, skipn_length. replace (b - a - (q - a)) with 0 by lia. reflexivity. }
  rewrite E. reflexivity.
Qed.

Lemma eq_line_len : forall k1 k2 p, p < q -> q - p <= k1 -> q - p <= k2 ->
  line_len bs1 k1 p = line_len bs2 k2 p /\ line_len bs1 k1 p + p < q.
Proof.
  induction k1 as [|k1 IH]; intros k2 p Hp H1 H2; [lia|]. destruct k2 as [|k2]; [lia|].
  cbn [line_len]. rewrite <- (eq_byte p Hp), <- (eq_is_byte_at_S c_lf p Hp eq_refl).
  destruct (byte_at bs1 p) as [b|] eqn:Eb; [|split; [reflexivity|lia]].
  destruct (N.eqb b c_lf) eqn:Elf; [split; [reflexivity|lia]|].
  destruct (N.eqb b c_cr && is_byte_at bs1 c_lf (S p)); [split; [reflexivity|lia]|].
  assert (Hp1 : S p < q).
  { destruct (Nat.eq_dec (S p) q) as [E|E]; [|lia]. exfalso.
    pose proof (byte_q1 pre post1 bs1 Hb1 Hnl He1) as Hq1. replace (q - 1) with p in Hq1 by lia.
    rewrite Eb in Hq1. injection Hq1 as ->. vm_compute in Elf. discriminate. }
  destruct (IH k2 (S p) Hp1 ltac:(lia) ltac:(lia)) as [I1 I2]. split; [f_equal; exact I1|lia].
Qed.

(* ---- the monadic primitives, started below q ---- *)
Lemma eq_current_byte p : p < q -> current_byte bs1 p = current_byte bs2 p.
Proof. intros Hp. unfold current_byte. rewrite eq_byte by exact Hp. reflexivity. Qed.
Lemma eq_is_current_byte b p : p < q -> is_current_byte bs1 b p = is_current_byte bs2 b p.
Proof. intros Hp. unfold is_current_byte. rewrite eq_byte by exact Hp. reflexivity. Qed.
Lemma eq_is_eol p : p < q -> is_eol bs1 p = is_eol bs2 p.
Proof. intros Hp. unfold is_eol. rewrite eq_byte by exact Hp. rewrite (eq_is_byte_at_S c_lf p Hp eq_refl). reflexivity. Qed.
Lemma eq_is_identifier_start p : p < q -> is_identifier_start bs1 p = is_identifier_start bs2 p.
Proof. intros Hp. unfold is_identifier_start. rewrite eq_byte by exact Hp. reflexivity. Qed.
Lemma eq_is_number_start p : p < q -> is_number_start bs1 p = is_number_start bs2 p.
Proof. intros Hp. unfold is_number_start. rewrite eq_byte by exact Hp. reflexivity. Qed.
Lemma eq_take_byte_if b p : p < q -> take_byte_if bs1 b p = take_byte_if bs2 b p.
Proof. intros Hp. unfold take_byte_if. rewrite eq_is_byte_at by exact Hp. reflexivity. Qed.
Lemma eq_expect_byte b p : p < q -> expect_byte bs1 b p = expect_byte bs2 b p.
Proof. intros Hp. unfold expect_byte. rewrite eq_is_byte_at by exact Hp. reflexivity. Qed.
Lemma eq_skip_eol p : p < q -> skip_eol bs1 p = skip_eol bs2 p.
Proof. intros Hp. unfold skip_eol. rewrite (proj1 (eq_eol_len p Hp)). reflexivity. Qed.
Lemma eq_skip_blank p : p <= q -> skip_blank bs1 p = skip_blank bs2 p.
Proof. intros Hp. unfold skip_blank. rewrite (proj1 (eq_blank_len p Hp)). reflexivity. Qed.
Lemma eq_skip_blank_inline p : p < q -> skip_blank_inline bs1 p = skip_blank_inline bs2 p.
Proof. intros Hp. unfold skip_blank_inline. rewrite (proj1 (eq_scan is_space p eq_refl Hp)). reflexivity. Qed.
Lemma eq_skip_digits p : p < q -> skip_digits bs1 p = skip_digits bs2 p.
Proof. intros Hp. unfold skip_digits. rewrite (proj1 (eq_scan is_ascii_digit p eq_refl Hp)). reflexivity. Qed.
Lemma eq_source_slice a b p : b <= q -> source_slice bs1 a b p = source_slice bs2 a b p.
Proof. intros Hb. unfold source_slice. rewrite eq_slice by exact Hb. reflexivity. Qed.

Lemma eq_giu p : p < q -> get_identifier_unchecked bs1 p = get_identifier_unchecked bs2 p.
Proof.
  intros Hp. unfold get_identifier_unchecked.
  destruct (eq_scan is_ident_char p eq_refl Hp) as [E1 E2]. rewrite <- E1.
  rewrite (eq_slice (p - 1) (scan_while is_ident_char (rest bs1 p) + p)) by lia. reflexivity.
Qed.

Lemma eq_skip_unicode k p : p < q -> skip_unicode_escape_sequence bs1 k p = skip_unicode_escape_sequence bs2 k p.
Proof.
  intros Hp. unfold skip_unicode_escape_sequence.
  destruct (eq_scan is_ascii_hexdigit p eq_refl Hp) as [E1 E2]. rewrite <- E1.
  set (got := Nat.min k (scan_while is_ascii_hexdigit (rest bs1 p))).
  destruct (Nat.eqb got k); [reflexivity|].
  pose proof (len_gt pre post1 bs1 Hb1 Hnl He1) as L1. pose proof (len_gt pre post2 bs2 Hb2 Hnl He2) as L2.
  assert (Hg : got + p < q) by (unfold got; lia).
  assert (B1 : Nat.leb (length_ bs1) (got + p) = false) by (apply Nat.leb_gt; lia).
  assert (B2 : Nat.leb (length_ bs2) (got + p) = false) by (apply Nat.leb_gt; lia).
  rewrite B1, B2.
  assert (Hc : scan_while is_cont (skipn (S (got + p)) bs1) = scan_while is_cont (skipn (S (got + p)) bs2) /\
               S (got + p) + scan_while is_cont (skipn (S (got + p)) bs1) <= q).
  { destruct (Nat.eq_dec (S (got + p)) q) as [E|E].
    - rewrite E. change (skipn q bs1) with (rest bs1 q). change (skipn q bs2) with (rest bs2 q).
      rewrite (rest_le pre post1 bs1 Hb1 Hnl He1 q), (rest_le pre post2 bs2 Hb2 Hnl He2 q) by lia. rewrite skipn_all. cbn [app].
      destruct He1 as (c1 & r1 & -> & Hc1). destruct He2 as (c2 & r2 & -> & Hc2). cbn [scan_while].
      assert (X1 : is_cont c1 = false) by ecls. assert (X2 : is_cont c2 = false) by ecls. rewrite X1, X2. split; [reflexivity|lia].
    - destruct (eq_scan is_cont (S (got + p)) eq_refl ltac:(lia)) as [F1 F2]. split; [exact F1|]. unfold rest in F2. lia. }
  destruct Hc as [Hc1 Hc2]. rewrite <- Hc1. rewrite eq_slice by lia. reflexivity.
Qed.

Lemma eq_get_comment_line p : p < q -> get_comment_line bs1 p = get_comment_line bs2 p.
Proof.
  intros Hp. unfold get_comment_line.
  pose proof (len_gt pre post1 bs1 Hb1 Hnl He1) as L1. pose proof (len_gt pre post2 bs2 Hb2 Hnl He2) as L2.
  destruct (eq_line_len (S (length_ bs1) - p) (S (length_ bs2) - p) p Hp ltac:(lia) ltac:(lia)) as [E1 E2].
  rewrite <- E1. rewrite eq_slice by lia. reflexivity.
Qed.

Lemma eq_get_text_slice p : p < q ->
  get_text_slice bs1 p = get_text_slice bs2 p /\
  (forall a b nb t p', get_text_slice bs1 p = Ok (a, b, nb, t) p' ->
     b <= p' /\ p <= p' <= q /\ (p' = q -> t = TLineFeed \/ t = TCrlf)) /\
  (forall e p', get_text_slice bs1 p = Err e p' -> p <= p' < q).
Proof.
  intros Hp. unfold get_text_slice.
  pose proof (len_gt pre post1 bs1 Hb1 Hnl He1) as L1. pose proof (len_gt pre post2 bs2 Hb2 Hnl He2) as L2.
  assert (B1 : Nat.ltb (length_ bs1) p = false) by (apply Nat.ltb_ge; lia).
  assert (B2 : Nat.ltb (length_ bs2) p = false) by (apply Nat.ltb_ge; lia).
  rewrite B1, B2. cbv zeta.
  destruct (rests p Hp) as (L' & E1 & E2 & HL). rewrite E1, E2.
  destruct (memchr3_lf L' post1) as (i & M1 & Hi & Mr). rewrite M1, (Mr post2).
  assert (Hn : forall j r, j <= i -> nth_error ((L' ++ [c_lf]) ++ r) j = nth_error (L' ++ [c_lf]) j).
  { intros j r Hj. apply nth_error_app1. rewrite app_length. cbn [length]. lia. }
  assert (Hf : forall j r, j <= i -> firstn j ((L' ++ [c_lf]) ++ r) = firstn j (L' ++ [c_lf])).
  { intros j r Hj. rewrite firstn_app. replace (j - length (L' ++ [c_lf])) with 0 by (rewrite app_length; cbn [length]; lia).
    cbn [firstn]. apply app_nil_r. }
  rewrite !(Hn i) by lia. destruct (nth_error (L' ++ [c_lf]) i) as [b|] eqn:Eb; [|split; [reflexivity|split; intros; discriminate]].
  destruct (N.eqb b 125) eqn:E125.
  { split; [reflexivity|]. split; [intros; discriminate|]. intros e p' H. injection H as _ <-.
    (* '}' found at index i: it is not the final '\n' *)
    assert (i <> length L').
    { intros ->. rewrite nth_error_app2 in Eb by lia. rewrite Nat.sub_diag in Eb. injection Eb as <-. vm_compute in E125. discriminate. }
    lia. }
  destruct (N.eqb b c_lf) eqn:Elf.
  - destruct i as [|i'].
    + rewrite !(Hf 0) by lia. split; [reflexivity|]. split; [|intros; discriminate].
      intros a b0 nb t p' H. injection H as <- <- _ <- <-. split; [lia|]. split; [lia|]. intros _. left; reflexivity.
    + rewrite !(Hn i') by lia. rewrite !(Hf i'), !(Hf (S i')) by lia.
      destruct (match nth_error (L' ++ [c_lf]) i' with Some c => N.eqb c c_cr | None => false end).
      * split; [reflexivity|]. split; [|intros; discriminate].
        intros a b0 nb t p' H. injection H as <- <- _ <- <-. split; [lia|]. split; [lia|]. intros _. right; reflexivity.
      * split; [reflexivity|]. split; [|intros; discriminate].
        intros a b0 nb t p' H. injection H as <- <- _ <- <-. split; [lia|]. split; [lia|]. intros _. left; reflexivity.
  - rewrite !(Hf i) by lia. split; [reflexivity|]. split; [|intros; discriminate].
    intros a b0 nb t p' H. injection H as <- <- _ <- <-.
    assert (i <> length L').
    { intros ->. rewrite nth_error_app2 in Eb by lia. rewrite Nat.sub_diag in Eb. injection Eb as <-. vm_compute in Elf. discriminate. }
    split; [lia|]. split; [lia|]. intros Hq. lia.
Qed.

(* ================= D. the two judgments ================= *)
Definition geq {A} : A -> nat -> Prop := fun _ p' => q <= p'.
Definition geqe : perror -> nat -> Prop := fun _ p' => q <= p'.

(* claims: started below q *)
Definition CL_at {A} (p : nat) (Q : A -> nat -> Prop) (m1 m2 : M A) : Prop :=
  p < q ->
  match m1 p with
  | Ok a p' => p' < q -> m2 p = Ok a p' /\ Q a p'
  | Err e p' => p' < q -> m2 p = Err e p'
  | _ => True
  end.

Lemma CL_bind {A B} p (Q1 : A -> nat -> Prop) (Q : B -> nat -> Prop) (m1 m2 : M A) (k1 k2 : A -> M B) :
  CL_at p Q1 m1 m2 ->
  (forall a p1, m1 p = Ok a p1 -> q <= p1 -> spec (k1 a) p1 geq geqe) ->
  (forall a p1, m1 p = Ok a p1 -> p1 < q -> Q1 a p1 -> CL_at p1 Q (k1 a) (k2 a)) ->
  CL_at p Q (bind m1 k1) (bind m2 k2).
Proof.
  intros Hm Hsb Hk Hp. unfold bind. specialize (Hm Hp).
  destruct (m1 p) as [a p1|e p1|t|] eqn:E; try exact Logic.I.
  - destruct (Nat.lt_ge_cases p1 q) as [Hlt|Hge].
    + destruct (Hm Hlt) as [E2 HQ]. rewrite E2. exact (Hk a p1 eq_refl Hlt HQ Hlt).
    + specialize (Hsb a p1 eq_refl Hge). unfold spec, geq, geqe in Hsb.
      destruct (k1 a p1); try exact Logic.I; intros; lia.
  - intros Hlt. rewrite (Hm Hlt). reflexivity.
Qed.

Lemma CL_eq {A} p (Q : A -> nat -> Prop) (m1 m2 : M A) :
  (p < q -> m1 p = m2 p) -> (forall a p', p < q -> m1 p = Ok a p' -> Q a p') -> CL_at p Q m1 m2.
Proof.
  intros He HQ Hp. specialize (He Hp). destruct (m1 p) as [a p'|e p'|t|] eqn:E; try exact Logic.I.
  - intros _. split; [symmetry; exact He|]. apply (HQ a p' Hp eq_refl).
  - intros _. symmetry. exact He.
Qed.

Lemma CL_weaken {A} p (Q Q' : A -> nat -> Prop) (m1 m2 : M A) :
  CL_at p Q m1 m2 -> (forall a p', Q a p' -> Q' a p') -> CL_at p Q' m1 m2.
Proof.
  intros H HQ Hp. specialize (H Hp). destruct (m1 p); try exact H. intros Hlt. destruct (H Hlt). split; auto.
Qed.

Lemma CL_ret {A} p (Q : A -> nat -> Prop) (a : A) : Q a p -> CL_at p Q (ret a) (ret a).
Proof. intros HQ Hp. cbn. intros _. split; [reflexivity|exact HQ]. Qed.

Lemma CL_same {A} p (m : M A) : CL_at p (fun _ _ => True) m m.
Proof. intros Hp. destruct (m p); auto. Qed.

Definition Qtry {A} (Q : A -> nat -> Prop) : perror + A -> nat -> Prop :=
  fun r p' => match r with inr a => Q a p' | inl _ => True end.

Lemma CL_try {A} p (Q : A -> nat -> Prop) (m1 m2 : M A) :
  CL_at p Q m1 m2 -> CL_at p (Qtry Q) (try_ m1) (try_ m2).
Proof.
  intros H Hp. unfold try_. specialize (H Hp). destruct (m1 p); try exact Logic.I.
  - intros Hlt. destruct (H Hlt) as [-> HQ]. split; [reflexivity|exact HQ].
  - intros Hlt. rewrite (H Hlt). split; [reflexivity|exact Logic.I].
Qed.

Definition T {A} : A -> nat -> Prop := fun _ _ => True.

(* leaves *)
Lemma CL_get_ptr p : CL_at p (fun a p' => a = p' /\ p' = p) get_ptr get_ptr.
Proof. apply CL_eq; [reflexivity|]. intros a p' _ H. injection H as <- <-. auto. Qed.
Lemma CL_current_byte p : CL_at p (fun a p' => a = byte_at bs1 p /\ p' = p) (current_byte bs1) (current_byte bs2).
Proof. apply CL_eq; [apply eq_current_byte|]. intros a p' _ H. injection H as <- <-. auto. Qed.
Lemma CL_take_byte_if b p :
  CL_at p (fun a p' => (a = true /\ p' = S p /\ is_byte_at bs1 b p = true) \/ (a = false /\ p' = p))
        (take_byte_if bs1 b) (take_byte_if bs2 b).
Proof.
  apply CL_eq; [apply eq_take_byte_if|]. intros a p' _. unfold take_byte_if.
  destruct (is_byte_at bs1 b p); intros H; injection H as <- <-; auto.
Qed.
Lemma CL_get_text_slice p :
  CL_at p (fun ts p' => snd (fst (fst ts)) <= p' /\ fst (fst (fst ts)) = p) (get_text_slice bs1) (get_text_slice bs2).
Proof.
  intros Hp. destruct (eq_get_text_slice p Hp) as (E & HO & HE). rewrite <- E.
  destruct (get_text_slice bs1 p) as [[[[a b] nb] t] p'|e p'|t|] eqn:G; try exact Logic.I.
  - intros _. split; [reflexivity|]. cbn [fst snd]. destruct (HO a b nb t p' eq_refl) as (H1 & _ & _).
    split; [exact H1|]. unfold get_text_slice in G.
    destruct (Nat.ltb (length_ bs1) p); [injection G as <- _ _ _ _; reflexivity|]. cbv zeta in G.
    destruct (memchr3 (rest bs1 p)) as [i|]; [|injection G as <- _ _ _ _; reflexivity].
    destruct (nth_error (rest bs1 p) i) as [x|]; [|discriminate].
    destruct (N.eqb x 125); [discriminate|]. destruct (N.eqb x c_lf).
    + destruct i as [|i']; [injection G as <- _ _ _ _; reflexivity|].
      destruct (match nth_error (rest bs1 p) i' with Some c => N.eqb c c_cr | None => false end);
        injection G as <- _ _ _ _; reflexivity.
    + injection G as <- _ _ _ _; reflexivity.
  - intros _. reflexivity.
Qed.

Ltac cl_eq L := apply CL_eq; [intros; apply L; solve [assumption | lia] | intros; exact Logic.I].

Lemma CL_leaf_is_current_byte b p : CL_at p T (is_current_byte bs1 b) (is_current_byte bs2 b).
Proof. cl_eq eq_is_current_byte. Qed.
Lemma CL_leaf_is_eol p : CL_at p T (is_eol bs1) (is_eol bs2).
Proof. cl_eq eq_is_eol. Qed.
Lemma CL_leaf_is_identifier_start p : CL_at p T (is_identifier_start bs1) (is_identifier_start bs2).
Proof. cl_eq eq_is_identifier_start. Qed.
Lemma CL_leaf_is_number_start p : CL_at p T (is_number_start bs1) (is_number_start bs2).
Proof. cl_eq eq_is_number_start. Qed.
Lemma CL_leaf_expect_byte b p : CL_at p T (expect_byte bs1 b) (expect_byte bs2 b).
Proof. cl_eq eq_expect_byte. Qed.
Lemma CL_leaf_skip_eol p : CL_at p T (skip_eol bs1) (skip_eol bs2).
Proof. cl_eq eq_skip_eol. Qed.
Lemma CL_leaf_skip_blank p : CL_at p T (skip_blank bs1) (skip_blank bs2).
Proof. cl_eq eq_skip_blank. Qed.
Lemma CL_leaf_skip_blank_inline p : CL_at p T (skip_blank_inline bs1) (skip_blank_inline bs2).
Proof. cl_eq eq_skip_blank_inline. Qed.
Lemma CL_leaf_skip_blank_block p : CL_at p T (skip_blank_block bs1) (skip_blank_block bs2).
Proof. apply CL_eq; [intros; apply eq_skip_blank_block; lia | intros; exact Logic.I]. Qed.
Lemma CL_leaf_skip_digits p : CL_at p T (skip_digits bs1) (skip_digits bs2).
Proof. cl_eq eq_skip_digits. Qed.
Lemma CL_leaf_skip_unicode k p : CL_at p T (skip_unicode_escape_sequence bs1 k) (skip_unicode_escape_sequence bs2 k).
Proof. cl_eq eq_skip_unicode. Qed.
Lemma CL_leaf_giu p : CL_at p T (get_identifier_unchecked bs1) (get_identifier_unchecked bs2).
Proof. cl_eq eq_giu. Qed.
Lemma CL_leaf_get_comment_line p : CL_at p T (get_comment_line bs1) (get_comment_line bs2).
Proof. cl_eq eq_get_comment_line. Qed.
Lemma CL_leaf_source_slice a b p : b <= q -> CL_at p T (source_slice bs1 a b) (source_slice bs2 a b).
Proof. intros Hb. apply CL_eq; [intros; apply eq_source_slice; exact Hb | intros; exact Logic.I]. Qed.

Lemma CL_intro {A} p (Q : A -> nat -> Prop) (m1 m2 : M A) : (p < q -> CL_at p Q m1 m2) -> CL_at p Q m1 m2.
Proof. intros H Hp. exact (H Hp Hp). Qed.


(* ---- "stays beyond": a lean prover for the side condition of CL_bind ---- *)
Definition SB_at {A} (p : nat) (m : M A) : Prop := q <= p -> spec m p geq geqe.

Lemma SB_bind {A B} p (m : M A) (k : A -> M B) :
  SB_at p m -> (forall a p1, m p = Ok a p1 -> q <= p1 -> SB_at p1 (k a)) -> SB_at p (bind m k).
Proof.
  intros Hm Hk Hp. specialize (Hm Hp). unfold spec, bind, geq, geqe in *.
  destruct (m p) as [a p1|e p1|t|] eqn:E; try exact Hm. exact (Hk a p1 eq_refl Hm Hm).
Qed.
Lemma SB_mono {A} p (m : M A) (E : perror -> nat -> Prop) :
  spec m p (fun _ p' => p <= p') (fun e p' => p <= p' /\ E e p') -> SB_at p m.
Proof. intros H Hp. unfold spec, geq, geqe in *. destruct (m p); try exact H; lia. Qed.
Lemma SB_mono_ps {A} p (m : M A) :
  spec m p (fun _ q0 => p <= q0) (fun e q0 => p <= q0 /\ pos_start e = q0) -> SB_at p m.
Proof. apply SB_mono. Qed.
Lemma SB_mono' {A} p (m : M A) : spec m p (fun _ p' => p <= p') EF -> SB_at p m.
Proof. intros H Hp. unfold spec, geq, geqe, EF in *. destruct (m p); try exact H; try lia. Qed.
Lemma SB_eqp {A} p (m : M A) : spec m p (fun _ p' => p' = p) EF -> SB_at p m.
Proof. intros H Hp. unfold spec, geq, geqe, EF in *. destruct (m p); try exact H; try lia. Qed.
Lemma SB_ret {A} p (a : A) : SB_at p (ret a).
Proof. intros Hp. exact Hp. Qed.
Lemma SB_fuel {A} p : SB_at p (@out_of_fuel A).
Proof. intros Hp. exact Logic.I. Qed.
Lemma SB_panic {A} p t : SB_at p (@panic A t).
Proof. intros Hp. exact Logic.I. Qed.
Lemma SB_error_here {A} p k : SB_at p (@error_here A k).
Proof. intros Hp. exact Hp. Qed.
Lemma SB_error_range {A} p k a b : SB_at p (@error_range A k a b).
Proof. intros Hp. exact Hp. Qed.
Lemma SB_err {A} p e : SB_at p (fun q0 => @Err A e q0).
Proof. intros Hp. exact Hp. Qed.
Lemma SB_get_ptr p : SB_at p get_ptr.
Proof. intros Hp. exact Hp. Qed.
Lemma SB_set_ptr p x : q <= x -> SB_at p (set_ptr x).
Proof. intros Hx Hp. exact Hx. Qed.
Lemma SB_advance p k : SB_at p (advance k).
Proof. intros Hp. unfold spec, advance, geq. lia. Qed.
Lemma SB_retreat p k : q <= p - k -> SB_at p (retreat k).
Proof. intros Hx Hp. unfold spec, retreat, geq. destruct (Nat.leb k p); [exact Hx|exact Logic.I]. Qed.
Lemma SB_current_byte p : SB_at p (current_byte bs1). Proof. intros Hp. exact Hp. Qed.
Lemma SB_is_current_byte p b : SB_at p (is_current_byte bs1 b). Proof. intros Hp. exact Hp. Qed.
Lemma SB_is_eol p : SB_at p (is_eol bs1). Proof. intros Hp. exact Hp. Qed.
Lemma SB_is_identifier_start p : SB_at p (is_identifier_start bs1). Proof. intros Hp. exact Hp. Qed.
Lemma SB_is_number_start p : SB_at p (is_number_start bs1). Proof. intros Hp. exact Hp. Qed.
Lemma SB_take_byte_if p b : SB_at p (take_byte_if bs1 b).
Proof. intros Hp. unfold spec, take_byte_if, geq. destruct (is_byte_at bs1 b p); lia. Qed.
Lemma SB_expect_byte p b : SB_at p (expect_byte bs1 b).
Proof. intros Hp. unfold spec, expect_byte, geq, geqe. destruct (is_byte_at bs1 b p); lia. Qed.
Lemma SB_skip_eol p : SB_at p (skip_eol bs1).
Proof. intros Hp. unfold spec, skip_eol, geq. destruct (eol_len (rest bs1 p)); lia. Qed.
Lemma SB_skip_blank p : SB_at p (skip_blank bs1).
Proof. intros Hp. unfold spec, skip_blank, geq. lia. Qed.
Lemma SB_skip_blank_inline p : SB_at p (skip_blank_inline bs1).
Proof. intros Hp. unfold spec, skip_blank_inline, geq. lia. Qed.
Lemma SB_skip_blank_block p : SB_at p (skip_blank_block bs1).
Proof. intros Hp. unfold spec, skip_blank_block, geq. destruct (blank_block _ _). lia. Qed.
Lemma SB_skip_digits p : SB_at p (skip_digits bs1).
Proof. apply (SB_mono p _ (fun e p' => pos_start e = p)). pose proof (sp_skip_digits bs1 p) as H. unfold spec in *.
  destruct (skip_digits bs1 p); try exact H. destruct H as (-> & H). split; [lia|exact H]. Qed.
Lemma SB_skip_unicode p k : SB_at p (skip_unicode_escape_sequence bs1 k).
Proof.
  intros Hp. unfold spec, skip_unicode_escape_sequence, geq, geqe.
  destruct (Nat.eqb _ k); [lia|]. destruct (slice bs1 p _); try exact Logic.I. lia.
Qed.
Lemma SB_giu p : SB_at p (get_identifier_unchecked bs1).
Proof.
  intros Hp. unfold spec, get_identifier_unchecked, geq.
  destruct (Nat.leb 1 p); [|exact Logic.I]. destruct (slice bs1 _ _); try exact Logic.I. lia.
Qed.
Lemma SB_get_comment_line p : SB_at p (get_comment_line bs1).
Proof. intros Hp. unfold spec, get_comment_line, geq. destruct (slice bs1 _ _); try exact Logic.I. lia. Qed.
Lemma SB_source_slice p a b : SB_at p (source_slice bs1 a b).
Proof. intros Hp. unfold spec, source_slice, lift_outcome, geq. destruct (slice bs1 a b); try exact Logic.I. exact Hp. Qed.
Lemma SB_get_text_slice p : SB_at p (get_text_slice bs1).
Proof. apply (SB_mono p _ (fun e p' => pos_start e = p')). pose proof (sp_get_text_slice bs1 p) as H. unfold spec in *.
  destruct (get_text_slice bs1 p); try exact H. exact (proj1 H). Qed.
Lemma SB_try {A} p (m : M A) : SB_at p m -> SB_at p (try_ m).
Proof. intros H Hp. specialize (H Hp). unfold spec, try_, geq, geqe in *. destruct (m p); exact H. Qed.

Ltac sb_leaf :=
  first [ apply SB_ret | apply SB_fuel | apply SB_panic | apply SB_error_here | apply SB_error_range | apply SB_err
        | apply SB_get_ptr | apply SB_set_ptr; lia | apply SB_advance | apply SB_retreat; lia
        | apply SB_current_byte | apply SB_is_current_byte | apply SB_is_eol | apply SB_is_identifier_start
        | apply SB_is_number_start | apply SB_take_byte_if | apply SB_expect_byte | apply SB_skip_eol
        | apply SB_skip_blank | apply SB_skip_blank_inline | apply SB_skip_blank_block | apply SB_skip_digits
        | apply SB_skip_unicode | apply SB_giu | apply SB_get_comment_line | apply SB_source_slice
        | apply SB_get_text_slice
        | apply SB_mono_ps; solve [auto 2]
        | eapply SB_mono; solve [eauto 2]
        | apply SB_eqp; solve [eauto 2] ].
Ltac sb_intro :=
  let a := fresh "a" in let p1 := fresh "p" in let Heq := fresh "Heq" in let Hge := fresh "Hge" in
  intros a p1 Heq Hge; try (cbv [get_ptr] in Heq; injection Heq as <- <-); try clear Heq.
Ltac sb_step :=
  first [ sb_leaf
        | apply SB_try
        | eapply SB_bind; [ | sb_intro ]
        | match goal with |- SB_at _ (match ?x with _ => _ end) => destruct x end ].
Ltac sbf := repeat sb_step.

(* ---- stepping ---- *)
Ltac cl_same := match goal with |- CL_at _ _ ?m ?m => apply CL_same end.
Ltac cl_leaf :=
  first [ apply CL_get_ptr | cl_same | apply CL_current_byte | apply CL_take_byte_if | apply CL_get_text_slice
        | apply CL_leaf_is_current_byte | apply CL_leaf_is_eol | apply CL_leaf_is_identifier_start
        | apply CL_leaf_is_number_start | apply CL_leaf_expect_byte | apply CL_leaf_skip_eol | apply CL_leaf_skip_blank
        | apply CL_leaf_skip_blank_inline | apply CL_leaf_skip_blank_block | apply CL_leaf_skip_digits
        | apply CL_leaf_skip_unicode | apply CL_leaf_giu | apply CL_leaf_get_comment_line
        | apply CL_leaf_source_slice; lia ].

Ltac cl_tail := eapply CL_weaken; [ cl_leaf | intros; exact Logic.I ].

(* the side condition of CL_bind: the continuation, started at or after q, ends at or after q *)
Ltac sb :=
  let a := fresh "a" in let p1 := fresh "p" in let Heq := fresh "Heq" in let Hge := fresh "Hge" in
  intros a p1 Heq Hge; try (cbv [get_ptr] in Heq; injection Heq as <- <-); try clear Heq;
  let Hc := fresh "Hge" in pose proof Hge as Hc; revert Hge;
  match goal with |- _ -> spec ?m ?x _ _ => change (SB_at x m) end; sbf.

(* bring the equalities between the two strings to bear on pure conditions *)
Ltac cl_norm :=
  repeat match goal with
         | H : ?x < q |- context [is_byte_at bs2 ?b ?x] => rewrite <- (eq_is_byte_at b x H)
         | H : ?x < q |- context [is_byte_at bs2 ?b (S ?x)] => rewrite <- (eq_is_byte_at_S b x H eq_refl)
         | H : ?x < q |- context [byte_at bs2 ?x] => rewrite <- (eq_byte x H)
         | H : ?x < q |- context [Nat.ltb ?x (length_ bs1)] =>
             rewrite (ltb_len pre post1 bs1 Hb1 Hnl He1 x ltac:(lia))
         | H : ?x < q |- context [Nat.ltb ?x (length_ bs2)] =>
             rewrite (ltb_len pre post2 bs2 Hb2 Hnl He2 x ltac:(lia))
         end.

Ltac subst_safe :=
  repeat match goal with
         | H : ?x = ?y |- _ => is_var x; lazymatch type of x with bytes => fail | _ => subst x end
         | H : ?y = ?x |- _ => is_var x; lazymatch type of x with bytes => fail | _ => subst x end
         end.

Ltac cl_intro :=
  let a := fresh "a" in let p1 := fresh "p" in let Heq := fresh "Heq" in let Hlt := fresh "Hlt" in
  let HQ := fresh "HQ" in
  intros a p1 Heq Hlt HQ; cbv beta in HQ; clear Heq;
  repeat match goal with H : _ /\ _ |- _ => destruct H end; subst_safe; cbv beta; cl_norm.

Ltac cl_step tac :=
  first
   [ tac
   | cl_same
   | cl_tail
   | eapply CL_bind; [ solve [cl_leaf | tac | apply CL_try; first [cl_leaf | tac]] | sb | cl_intro ]
   | eapply (CL_bind _ T); [ | sb | cl_intro ]
   | apply CL_try
   | match goal with |- CL_at _ _ _ (match ?x with _ => _ end) => destruct x eqn:? end ].
Ltac cl_go tac := repeat cl_step tac.

(* a byte other than '\n' below q is not the last byte of pre *)
Lemma not_lf_lt p b : p < q -> byte_at bs1 p = Some b -> N.eqb b c_lf = false -> S p < q.
Proof.
  intros Hp Hb Hn. destruct (Nat.eq_dec (S p) q) as [E|E]; [|lia]. exfalso.
  pose proof (byte_q1 pre post1 bs1 Hb1 Hnl He1) as H1. replace (q - 1) with p in H1 by lia.
  rewrite Hb in H1. injection H1 as ->. vm_compute in Hn. discriminate.
Qed.

Lemma CL_get_number_literal p : CL_at p T (get_number_literal bs1) (get_number_literal bs2).
Proof. unfold get_number_literal. cl_go fail. Qed.

Lemma CL_get_identifier p : CL_at p T (get_identifier bs1) (get_identifier bs2).
Proof. unfold get_identifier. cl_go fail. Qed.

Lemma CL_get_attribute_accessor p : CL_at p T (get_attribute_accessor bs1) (get_attribute_accessor bs2).
Proof.
  pose proof (mono_get_identifier bs1) as Hid. unfold mono in Hid.
  unfold get_attribute_accessor. cl_go ltac:(apply CL_get_identifier).
Qed.

Lemma CL_get_variant_key p : CL_at p T (get_variant_key bs1) (get_variant_key bs2).
Proof.
  pose proof (mono_get_identifier bs1) as Hid. pose proof (mono_get_number_literal bs1) as Hnum.
  unfold mono in Hid, Hnum.
  unfold get_variant_key. cl_go ltac:(first [apply CL_get_identifier | apply CL_get_number_literal]).
Qed.

Lemma CL_get_comment_level p : CL_at p T (get_comment_level bs1) (get_comment_level bs2).
Proof. unfold get_comment_level. cl_go fail. Qed.

(* stored text slices end at or before q *)
Definition ph_le (ph : placeholder) : Prop :=
  match ph with PHText _ b _ _ => b <= q | PHPlaceable _ => True end.
Definition inv (st : pstate) : Prop := Forall ph_le (elements st).

Lemma eq_finish_element lnb common i ph p : ph_le ph ->
  finish_element bs1 lnb common i ph p = finish_element bs2 lnb common i ph p.
Proof.
  destruct ph as [e|a b ind r]; cbn [ph_le finish_element]; [reflexivity|]. intros Hb.
  match goal with |- context [Nat.eqb ?x b] => destruct (Nat.eqb x b); [reflexivity|] end.
  unfold bind. rewrite eq_source_slice by exact Hb. reflexivity.
Qed.

Lemma eq_finish_elements lnb common : forall phs i p, Forall ph_le phs ->
  finish_elements bs1 lnb common i phs p = finish_elements bs2 lnb common i phs p.
Proof.
  induction phs as [|ph r IH]; intros i p H; [reflexivity|].
  pose proof (Forall_inv H) as H1. pose proof (Forall_inv_tail H) as H2.
  cbn [finish_elements]. unfold bind. rewrite (eq_finish_element lnb common i ph p H1).
  destruct (finish_element bs2 lnb common i ph p) as [x p1| | |]; try reflexivity.
  rewrite (IH (S i) p1 H2). reflexivity.
Qed.

Lemma Forall_firstn_le {A} (P : A -> Prop) n l : Forall P l -> Forall P (firstn n l).
Proof. revert l; induction n as [|n IH]; intros [|x l] H; cbn [firstn]; auto. inversion H. constructor; auto. Qed.

Lemma eq_finish_pattern st p : inv st -> finish_pattern bs1 st p = finish_pattern bs2 st p.
Proof.
  intros H. unfold finish_pattern. destruct (last_non_blank st) as [l|]; [|reflexivity].
  unfold bind. rewrite eq_finish_elements; [reflexivity|].
  apply Forall_firstn_le. apply Forall_rev. exact H.
Qed.

Lemma CL_finish_pattern st p : inv st -> CL_at p T (finish_pattern bs1 st) (finish_pattern bs2 st).
Proof. intros H. apply CL_eq; [intros; apply eq_finish_pattern; exact H | intros; exact Logic.I]. Qed.

(* ================= E. the recursive knot (claims) ================= *)
Definition knot_cl (n : nat) : Prop :=
  (forall p, CL_at p T (get_pattern bs1 n) (get_pattern bs2 n)) /\
  (forall st p, inv st -> CL_at p (fun st' _ => inv st') (pattern_loop bs1 n st) (pattern_loop bs2 n st)) /\
  (forall p, CL_at p T (get_placeable bs1 n) (get_placeable bs2 n)) /\
  (forall p, CL_at p T (get_expression bs1 n) (get_expression bs2 n)) /\
  (forall p, CL_at p T (get_variants bs1 n) (get_variants bs2 n)) /\
  (forall acc hd p, CL_at p T (variants_loop bs1 n acc hd) (variants_loop bs2 n acc hd)) /\
  (forall ol p, CL_at p T (get_inline_expression bs1 n ol) (get_inline_expression bs2 n ol)) /\
  (forall p, CL_at p T (string_loop bs1 n) (string_loop bs2 n)) /\
  (forall p, CL_at p T (get_call_arguments bs1 n) (get_call_arguments bs2 n)) /\
  (forall a b c p, CL_at p T (args_loop bs1 n a b c) (args_loop bs2 n a b c)).

Ltac unf2 f := cbn [f]; fold_knot bs1; fold_knot bs2.
Ltac cl_lib :=
  first [ apply CL_get_number_literal | apply CL_get_identifier | apply CL_get_attribute_accessor
        | apply CL_get_variant_key | apply CL_get_comment_level ].

Lemma knot_cl_all : forall n, knot_cl n.
Proof.
  pose proof (mono_get_identifier bs1) as Hid. pose proof (mono_get_number_literal bs1) as Hnum.
  pose proof (mono_get_attribute_accessor bs1) as Hacc. pose proof (mono_get_variant_key bs1) as Hkey.
  pose proof (sp_finish_pattern bs1) as Hfin.
  unfold mono in Hid, Hnum, Hacc, Hkey.
  induction n as [|n' IH].
  - repeat split; intros; apply CL_same.
  - destruct IH as (I1 & I2 & I3 & I4 & I5 & I6 & I7 & I8 & I9 & I10).
    destruct (knot_mono_all bs1 n') as (M1 & M2 & M3 & M4 & M5 & M6 & M7 & M8 & M9 & M10).
    unfold mono in M1, M2, M3, M4, M5, M6, M7, M8, M9, M10.
    repeat split; intros.
    + unf2 get_pattern.
      cl_go ltac:(first [cl_lib | apply I2; apply Forall_nil | apply CL_finish_pattern; assumption]).
    + destruct st as [els ne lnb ci r]. unf2 pattern_loop.
      cbn [elements n_elements last_non_blank common_indent role] in *.
      cl_go ltac:(first [cl_lib | apply I3 | apply CL_ret; assumption]).
      all: try match goal with
               | Hlt : ?x < q |- SB_at (scan_while is_space (rest bs1 ?x) + ?x) _ =>
                   intros Hge'; exfalso; pose proof (proj2 (eq_scan is_space x eq_refl Hlt)); lia
               end.
      all: repeat match goal with |- context [match ?c with _ => _ end] => destruct c end.
      all: cbn [elements n_elements last_non_blank common_indent role fst snd] in *.
      all: try (apply I2; unfold inv in *; cbn [elements] in *;
                first [assumption | constructor; [cbn [ph_le]; first [exact Logic.I | lia] | assumption]]).
    + unf2 get_placeable. cl_go ltac:(first [cl_lib | apply I4]).
    + unf2 get_expression. cl_go ltac:(first [cl_lib | apply I7 | apply I5]).
    + unf2 get_variants. cl_go ltac:(first [cl_lib | apply I6]).
    + unf2 variants_loop. cl_go ltac:(first [cl_lib | apply I1 | apply I6]).
    + apply CL_intro; intros Hp0. unf2 get_inline_expression.
      cl_go ltac:(first [cl_lib | apply I8 | apply I9 | apply I3]).
      match goal with
      | Hb : byte_at bs1 ?x = Some ?b, Hc : (N.eqb ?b 45 && _)%bool = true, Hlt : ?x < q |- SB_at (S ?x) (retreat 1) =>
          intros Hge'; exfalso;
          assert (Hnlf : N.eqb b c_lf = false)
            by (apply andb_prop in Hc; destruct Hc as [Hc _]; apply N.eqb_eq in Hc; subst b; reflexivity);
          pose proof (not_lf_lt x b Hlt Hb Hnlf); lia
      end.
    + apply CL_intro; intros Hp0. unf2 string_loop.
      eapply CL_bind; [apply CL_current_byte | sb | cl_intro].
      destruct (byte_at bs1 p) as [b|] eqn:Eb; [|apply CL_same].
      destruct (N.eqb b 92) eqn:E92.
      * assert (Hn : N.eqb b c_lf = false) by (apply N.eqb_eq in E92; subst b; reflexivity).
        pose proof (not_lf_lt p b Hp0 Eb Hn) as HS.
        cl_go ltac:(first [cl_lib | apply I8]).
      * cl_go ltac:(first [cl_lib | apply I8]).
    + unf2 get_call_arguments. cl_go ltac:(first [cl_lib | apply I10]).
    + unf2 args_loop. cl_go ltac:(first [cl_lib | apply I7 | apply I10]).
Qed.

(* ================= F. the functions that may end exactly at q ================= *)
Lemma CLpat n p : CL_at p T (get_pattern bs1 n) (get_pattern bs2 n).
Proof. exact (proj1 (knot_cl_all n) p). Qed.
Lemma CLpl n st p : inv st -> CL_at p (fun st' _ => inv st') (pattern_loop bs1 n st) (pattern_loop bs2 n st).
Proof. exact (proj1 (proj2 (knot_cl_all n)) st p). Qed.
Lemma CLplace n p : CL_at p T (get_placeable bs1 n) (get_placeable bs2 n).
Proof. exact (proj1 (proj2 (proj2 (knot_cl_all n))) p). Qed.

(* using a claim *)
Lemma CL_ok {A} p (Q : A -> nat -> Prop) (m1 m2 : M A) a p' :
  CL_at p Q m1 m2 -> p < q -> m1 p = Ok a p' -> p' < q -> m2 p = Ok a p' /\ Q a p'.
Proof. intros H Hp E Hlt. specialize (H Hp). rewrite E in H. exact (H Hlt). Qed.
Lemma CL_err {A} p (Q : A -> nat -> Prop) (m1 m2 : M A) e p' :
  CL_at p Q m1 m2 -> p < q -> m1 p = Err e p' -> p' < q -> m2 p = Err e p'.
Proof. intros H Hp E Hlt. specialize (H Hp). rewrite E in H. exact (H Hlt). Qed.

(* monotonicity on bs1, from ParserAccounting *)
Lemma mono_ok {A} (m : M A) p a p' : mono m -> m p = Ok a p' -> p <= p'.
Proof. intros H E. specialize (H p). unfold spec in H. rewrite E in H. exact H. Qed.

(* ---- at q itself: the line does not continue the entry ---- *)
Lemma rest_q post bs : bs = pre ++ post -> rest bs q = post.
Proof. intros ->. unfold rest. rewrite skipn_app, skipn_all, Nat.sub_diag. reflexivity. Qed.

Lemma pl_stop post bs n st : bs = pre ++ post -> starts_e post -> role st = LineStart ->
  pattern_loop bs (S n) st q = Ok st q.
Proof.
  intros Hb He Hr. pose proof (rest_q post bs Hb) as Hrest.
  destruct (byte_q pre post bs Hb Hnl He) as (c & Hc & Hec).
  pose proof (is_byte_at_q pre post bs Hb Hnl He) as Hq.
  cbn [pattern_loop]. unfold bind, get_ptr.
  rewrite (ltb_len pre post bs Hb Hnl He q (le_n _)). cbn [negb].
  unfold take_byte_if. rewrite (Hq 123%N eq_refl). rewrite Hr. cbn [is_line_start].
  unfold skip_blank_inline. rewrite Hrest. destruct He as (c' & r & -> & Hc').
  assert (c' = c).
  { unfold byte_at in Hc. rewrite Hb, nth_error_app2, Nat.sub_diag in Hc by lia. cbn in Hc. congruence. }
  subst c'. cbn [scan_while]. assert (E0 : is_space c = false) by ecls. rewrite E0. cbn [Nat.add].
  unfold current_byte. rewrite Hc. cbn [Nat.eqb]. unfold is_eol. rewrite Hc.
  assert (E1 : N.eqb c c_lf = false) by ecls. assert (E2 : N.eqb c c_cr = false) by ecls. rewrite E1, E2.
  reflexivity.
Qed.

Lemma ga_stop post bs n acc : bs = pre ++ post -> starts_e post ->
  get_attributes bs (S n) acc q = Ok (rev acc) q.
Proof.
  intros Hb He. pose proof (rest_q post bs Hb) as Hrest.
  pose proof (is_byte_at_q pre post bs Hb Hnl He) as Hq.
  cbn [get_attributes]. unfold bind, get_ptr, skip_blank_inline. rewrite Hrest.
  destruct He as (c & r & -> & Hc). cbn [scan_while]. assert (E0 : is_space c = false) by ecls. rewrite E0.
  cbn [Nat.add]. unfold take_byte_if. rewrite (Hq 46%N eq_refl). reflexivity.
Qed.

(* the state after a text slice (the `let st1 := ...` of pattern_loop, verbatim) *)
Definition text_step (st : pstate) (slice_start indent : nat) (ts : nat * nat * bool * termination) : pstate :=
  let '(start, end_, nonblank, term) := ts in
  let ls := is_line_start (role st) in
  let st1 :=
    if negb (Nat.eqb start end_) then
      let ci := if ls && nonblank
                then match common_indent st with
                     | Some c => if Nat.ltb indent c then Some indent else Some c
                     | None => Some indent
                     end
                else common_indent st in
      if negb ls || nonblank || (match term with TLineFeed => true | _ => false end) then
        let blank_line := ls && negb nonblank in
        PState (PHText (if blank_line then start else slice_start) end_ (if blank_line then 0 else indent) (role st)
                  :: elements st) (S (n_elements st))
               (if nonblank then Some (n_elements st) else last_non_blank st) ci (role st)
      else PState (elements st) (n_elements st) (last_non_blank st) ci (role st)
    else if ls && (match term with TPlaceableStart => true | _ => false end) then
      PState (PHText slice_start end_ indent (role st) :: elements st) (S (n_elements st)) (last_non_blank st)
             (Some (match common_indent st with None => indent | Some c => Nat.min c indent end))
             (role st)
    else st in
  let role' := match term with
               | TLineFeed | TCrlf => LineStart
               | TPlaceableStart | TEof => Continuation
               end in
  PState (elements st1) (n_elements st1) (last_non_blank st1) (common_indent st1) role'.

Lemma text_step_role st ss ind a b nb t :
  role (text_step st ss ind (a, b, nb, t)) = match t with TLineFeed | TCrlf => LineStart | _ => Continuation end.
Proof. reflexivity. Qed.

Lemma text_step_inv st ss ind a b nb t : inv st -> b <= q -> inv (text_step st ss ind (a, b, nb, t)).
Proof.
  intros Hi Hb. unfold inv, text_step. cbn [elements].
  repeat match goal with |- context [if ?c then _ else _] => destruct c end; cbn [elements];
    first [exact Hi | constructor; [exact Hb|exact Hi]].
Qed.

(* the LineStart prologue of pattern_loop, started below q: the same in both strings, ends below q *)
Definition prologue (bs : bytes) (ls : bool) (slice_start : nat) : M (option nat) :=
  if ls then
    indent <- skip_blank_inline bs ;;
    cb <- current_byte bs ;;
    match cb with
    | Some b =>
        if Nat.eqb indent 0 then
          eol <- is_eol bs ;;
          if negb eol then ret None else ret (Some indent)
        else if negb (is_byte_pattern_continuation b) then
          set_ptr slice_start ;;; ret None
        else ret (Some indent)
    | None => ret None
    end
  else ret (Some 0).

Lemma prologue_eq ls p : p < q ->
  prologue bs1 ls p p = prologue bs2 ls p p /\
  (forall pro p2, prologue bs1 ls p p = Ok pro p2 -> p <= p2 < q).
Proof.
  intros Hp. unfold prologue. destruct ls; [|split; [reflexivity|intros pro p2 H; injection H as _ <-; lia]].
  unfold bind, skip_blank_inline, current_byte, set_ptr, ret.
  destruct (eq_scan is_space p eq_refl Hp) as [E1 E2]. rewrite <- E1.
  set (k := scan_while is_space (rest bs1 p)) in *.
  rewrite <- (eq_byte (k + p) E2).
  destruct (byte_at bs1 (k + p)) as [b|]; [|split; [reflexivity|intros pro p2 H; injection H as _ <-; lia]].
  destruct (Nat.eqb k 0); cbv beta.
  - rewrite <- (eq_is_eol (k + p) E2). split; [reflexivity|]. intros pro p2.
    unfold is_eol. destruct (negb _); intros H; injection H as _ <-; lia.
  - split; [reflexivity|]. intros pro p2.
    destruct (negb (is_byte_pattern_continuation b)); intros H; injection H as _ <-; lia.
Qed.

Lemma C_pattern_loop : forall n st p st' p',
  pattern_loop bs1 n st p = Ok st' p' -> p' <= q ->
  (p < q \/ (p = q /\ role st = LineStart)) -> inv st ->
  pattern_loop bs2 n st p = Ok st' p' /\ inv st'.
Proof.
  induction n as [|n' IH]; intros st p st' p' H Hle Hp Hinv; [discriminate|].
  destruct Hp as [Hp|[-> Hr]].
  2:{ rewrite (pl_stop post1 bs1 n' st Hb1 He1 Hr) in H. injection H as <- <-.
      split; [apply (pl_stop post2 bs2 n' st Hb2 He2 Hr)|exact Hinv]. }
  destruct (knot_mono_all bs1 n') as (M1 & M2 & M3 & _).
  (* one iteration, in the form: head test; placeable or text *)
  assert (Hunf : forall bs, pattern_loop bs (S n') st p =
            if negb (Nat.ltb p (length_ bs)) then Ok st p
            else if is_byte_at bs 123 p then
              bind (get_placeable bs n') (fun exp =>
                pattern_loop bs n' (PState (PHPlaceable exp :: elements st) (S (n_elements st)) (Some (n_elements st))
                                           (if is_line_start (role st) then Some 0 else common_indent st) Continuation)) (S p)
            else
              bind (prologue bs (is_line_start (role st)) p) (fun pro =>
                match pro with
                | None => ret st
                | Some indent => bind (get_text_slice bs) (fun ts => pattern_loop bs n' (text_step st p indent ts))
                end) p).
  { intros bs. cbn [pattern_loop]. fold_knot bs. unfold bind at 1. unfold get_ptr at 1.
    destruct (negb (Nat.ltb p (length_ bs))); [reflexivity|].
    unfold bind at 1. unfold take_byte_if. destruct (is_byte_at bs 123 p); [reflexivity|].
    unfold bind at 1. unfold get_ptr at 1. unfold prologue.
    apply bind_ext. intros [indent|] p2; [|reflexivity].
    apply bind_ext. intros [[[a b] nb] t] p3. reflexivity. }
  rewrite Hunf in H. rewrite Hunf.
  rewrite (ltb_len pre post1 bs1 Hb1 Hnl He1 p ltac:(lia)) in H.
  rewrite (ltb_len pre post2 bs2 Hb2 Hnl He2 p ltac:(lia)). cbn [negb] in H |- *.
  rewrite <- (eq_is_byte_at 123 p Hp). destruct (is_byte_at bs1 123 p) eqn:E123.
  - (* placeable *)
    RuntimeAgree.bind_inv H xp p1 Hpl.
    pose proof (mono_ok _ _ _ _ (M3 : mono (get_placeable bs1 n')) Hpl) as G1.
    pose proof (mono_ok _ _ _ _ (M2 _ : mono (pattern_loop bs1 n' _)) H) as G2.
    destruct (Nat.eq_dec p1 q) as [->|Hne].
    { exfalso. destruct (placeable_ends_brace bs1 n' (S p) xp q Hpl) as [_ Hb].
      rewrite (byte_q1 pre post1 bs1 Hb1 Hnl He1) in Hb. discriminate Hb. }
    assert (Hp1 : p1 < q) by lia.
    destruct (CL_ok (S p) T _ _ xp p1 (CLplace n' (S p)) ltac:(lia) Hpl Hp1) as [Hpl2 _].
    rewrite (RuntimeAgree.bind_Ok_eq _ _ _ _ _ Hpl2).
    apply (IH _ p1 st' p' H Hle); [left; exact Hp1|].
    unfold inv in *. cbn [elements]. constructor; [exact Logic.I|exact Hinv].
  - (* text *)
    destruct (prologue_eq (is_line_start (role st)) p Hp) as [EP HP].
    RuntimeAgree.bind_inv H pro p2 Hpro. pose proof Hpro as Hpro2. rewrite EP in Hpro2.
    rewrite (RuntimeAgree.bind_Ok_eq _ _ _ _ _ Hpro2).
    destruct (HP pro p2 Hpro) as [G1 G2].
    destruct pro as [indent|].
    2:{ cbv [ret] in H |- *. injection H as <- <-. split; [reflexivity|exact Hinv]. }
    destruct (eq_get_text_slice p2 G2) as (ET & HO & _).
    RuntimeAgree.bind_inv H ts p3 Hts. pose proof Hts as Hts2. rewrite ET in Hts2.
    rewrite (RuntimeAgree.bind_Ok_eq _ _ _ _ _ Hts2).
    destruct ts as [[[a b] nb] t]. destruct (HO a b nb t p3 Hts) as (Hb & [G3 G4] & Hq).
    apply (IH _ p3 st' p' H Hle).
    + destruct (Nat.eq_dec p3 q) as [E|E]; [right|left; lia]. split; [exact E|].
      rewrite text_step_role. destruct (Hq E) as [-> | ->]; reflexivity.
    + apply text_step_inv; [exact Hinv|lia].
Qed.

Lemma C_get_pattern n p r p' :
  get_pattern bs1 n p = Ok r p' -> p < q -> p' <= q -> get_pattern bs2 n p = Ok r p'.
Proof.
  destruct n as [|n']; [discriminate|]. intros H Hp Hle. cbn [get_pattern] in H |- *. fold_knot bs1. fold_knot bs2.
  RuntimeAgree.bind_inv H k p1 H1. rewrite (eq_skip_blank_inline p Hp) in H1. rewrite (RuntimeAgree.bind_Ok_eq _ _ _ _ _ H1).
  assert (Hp1 : p1 < q).
  { unfold skip_blank_inline in H1. injection H1 as _ <-. rewrite <- (proj1 (eq_scan is_space p eq_refl Hp)).
    exact (proj2 (eq_scan is_space p eq_refl Hp)). }
  RuntimeAgree.bind_inv H eol p2 H2.
  assert (Hp2 : p1 <= p2 <= q /\ (eol = false -> p2 = p1)).
  { unfold skip_eol in H2. pose proof (proj2 (eq_eol_len p1 Hp1)) as G.
    destruct (eol_len (rest bs1 p1)); injection H2 as <- <-; split; try lia; intros; try reflexivity; discriminate. }
  rewrite (eq_skip_eol p1 Hp1) in H2. rewrite (RuntimeAgree.bind_Ok_eq _ _ _ _ _ H2).
  RuntimeAgree.bind_inv H rl p3 H3.
  assert (H3' : (if eol then bind (skip_blank_block bs2) (fun _ => ret LineStart) else ret InitialLineStart) p2 = Ok rl p3 /\
                (p3 < q \/ (p3 = q /\ rl = LineStart)) ).
  { destruct eol.
    - RuntimeAgree.bind_inv H3 c p4 H4. cbv [ret] in H3. injection H3 as <- <-.
      destruct (eq_skip_blank_block p2 ltac:(lia)) as [E4 G4]. destruct (G4 c p4 H4) as [G5 G6].
      rewrite E4 in H4. rewrite (RuntimeAgree.bind_Ok_eq _ _ _ _ _ H4). split; [reflexivity|].
      destruct (Nat.eq_dec p4 q); [right; auto|left; lia].
    - cbv [ret] in H3 |- *. injection H3 as <- <-. split; [reflexivity|]. left. destruct Hp2 as [_ Hp2].
      rewrite (Hp2 eq_refl). exact Hp1. }
  destruct H3' as [H3' Hp3]. rewrite (RuntimeAgree.bind_Ok_eq _ _ _ _ _ H3').
  RuntimeAgree.bind_inv H st' p4 H4. pose proof (RuntimeAgree.finish_pattern_pos bs1 st' p4 r p' H) as ->.
  destruct (C_pattern_loop n' _ p3 st' p4 H4 Hle) as [H4' Hinv].
  { destruct Hp3 as [Hp3|[Hp3 ->]]; [left; exact Hp3|right; auto]. }
  { apply Forall_nil. }
  rewrite (RuntimeAgree.bind_Ok_eq _ _ _ _ _ H4'). rewrite <- (eq_finish_pattern st' p4 Hinv). exact H.
Qed.

Lemma eq_get_identifier p : p < q ->
  get_identifier bs1 p = get_identifier bs2 p /\ (forall id p', get_identifier bs1 p = Ok id p' -> p < p' < q).
Proof.
  intros Hp. unfold get_identifier, bind, is_identifier_start, advance. rewrite <- (eq_byte p Hp).
  destruct (byte_at bs1 p) as [b|] eqn:Eb; [|split; [reflexivity|intros; discriminate]].
  destruct (is_ascii_alphabetic b) eqn:Ea; cbn [negb]; [|split; [reflexivity|intros; discriminate]].
  pose proof (alpha_not_lf b Ea) as Hn. pose proof (not_lf_lt p b Hp Eb Hn) as HS.
  change (1 + p) with (S p). rewrite <- (eq_giu (S p) HS). split; [reflexivity|].
  intros id p' H. pose proof (proj2 (eq_scan is_ident_char (S p) eq_refl HS)) as G.
  unfold get_identifier_unchecked in H. set (k := scan_while is_ident_char (rest bs1 (S p))) in *.
  destruct (Nat.leb 1 (S p)); [|discriminate].
  destruct (slice bs1 _ _); try discriminate. injection H as _ <-. lia.
Qed.

Lemma CL_get_attribute n p : CL_at p T (get_attribute bs1 n) (get_attribute bs2 n).
Proof.
  pose proof (mono_get_identifier bs1) as Hid. unfold mono in Hid.
  destruct (knot_mono_all bs1 n) as (M1 & _). unfold mono in M1.
  unfold get_attribute. cl_go ltac:(first [apply CL_get_identifier | apply CLpat]).
Qed.

(* the part of get_message / get_term / get_attribute in front of the pattern: `id [blank] =` *)
Lemma head_eq p : p < q ->
  forall id p1 k p2 p3, get_identifier bs1 p = Ok id p1 -> skip_blank_inline bs1 p1 = Ok k p2 ->
    expect_byte bs1 61 p2 = Ok tt p3 ->
    get_identifier bs2 p = Ok id p1 /\ skip_blank_inline bs2 p1 = Ok k p2 /\ expect_byte bs2 61 p2 = Ok tt p3 /\ p3 < q.
Proof.
  intros Hp id p1 k p2 p3 H1 H2 H3. destruct (eq_get_identifier p Hp) as [E1 G1]. destruct (G1 id p1 H1) as [_ Hp1].
  rewrite E1 in H1. split; [exact H1|].
  assert (Hp2 : p2 < q).
  { unfold skip_blank_inline in H2. injection H2 as _ <-. exact (proj2 (eq_scan is_space p1 eq_refl Hp1)). }
  rewrite (eq_skip_blank_inline p1 Hp1) in H2. split; [exact H2|].
  assert (Hp3 : p3 < q).
  { unfold expect_byte in H3. destruct (is_byte_at bs1 61 p2) eqn:E; [|discriminate]. injection H3 as <-.
    apply RuntimeAgree.is_byte_at_true in E. apply (not_lf_lt p2 61%N Hp2 E eq_refl). }
  rewrite (eq_expect_byte 61 p2 Hp2) in H3. auto.
Qed.

Lemma C_get_attribute n p a p' :
  get_attribute bs1 n p = Ok a p' -> p < q -> p' <= q -> get_attribute bs2 n p = Ok a p'.
Proof.
  intros H Hp Hle. unfold get_attribute in H |- *.
  RuntimeAgree.bind_inv H idn p1 H1. RuntimeAgree.bind_inv H k p2 H2. RuntimeAgree.bind_inv H u p3 H3. destruct u.
  destruct (head_eq p Hp idn p1 k p2 p3 H1 H2 H3) as (E1 & E2 & E3 & Hp3).
  rewrite (RuntimeAgree.bind_Ok_eq _ _ _ _ _ E1), (RuntimeAgree.bind_Ok_eq _ _ _ _ _ E2), (RuntimeAgree.bind_Ok_eq _ _ _ _ _ E3).
  RuntimeAgree.bind_inv H pat p4 H4.
  assert (p4 = p') by (destruct pat; [cbv [ret] in H; injection H as _ <-; reflexivity|discriminate]). subst p4.
  rewrite (RuntimeAgree.bind_Ok_eq _ _ _ _ _ (C_get_pattern n p3 pat p' H4 Hp3 Hle)). exact H.
Qed.

(* the escape: the entry ends at a line that looks like an attribute (spaces, then '.') *)
Definition dotline (p' : nat) : Prop :=
  p' < q /\ is_byte_at bs1 46 (scan_while is_space (rest bs1 p') + p') = true.

Lemma C_get_attributes : forall n acc p l p',
  get_attributes bs1 n acc p = Ok l p' -> p <= q -> p' <= q ->
  get_attributes bs2 n acc p = Ok l p' \/ dotline p'.
Proof.
  induction n as [|n' IH]; intros acc p l p' H Hp Hle; [discriminate|].
  destruct (Nat.eq_dec p q) as [->|Hne].
  { rewrite (ga_stop post1 bs1 n' acc Hb1 He1) in H. injection H as <- <-. left. apply (ga_stop post2 bs2 n' acc Hb2 He2). }
  assert (Hlt : p < q) by lia.
  cbn [get_attributes] in H |- *.
  rewrite (RuntimeAgree.bind_Ok_eq get_ptr _ p p p eq_refl) in H. rewrite (RuntimeAgree.bind_Ok_eq get_ptr _ p p p eq_refl).
  destruct (eq_scan is_space p eq_refl Hlt) as [E1 E2]. set (k := scan_while is_space (rest bs1 p)) in *.
  rewrite (RuntimeAgree.bind_Ok_eq (skip_blank_inline bs1) _ p k (k + p) eq_refl) in H.
  rewrite (RuntimeAgree.bind_Ok_eq (skip_blank_inline bs2) _ p k (k + p)) by (unfold skip_blank_inline; rewrite <- E1; reflexivity).
  RuntimeAgree.bind_inv H dot p2 H2. pose proof H2 as H2'. rewrite (eq_take_byte_if 46 (k + p) E2) in H2'.
  rewrite (RuntimeAgree.bind_Ok_eq _ _ _ _ _ H2').
  unfold take_byte_if in H2. destruct (is_byte_at bs1 46 (k + p)) eqn:E46; injection H2 as <- <-; cbn [negb] in H |- *.
  2:{ left. exact H. }
  assert (Hp2 : S (k + p) < q) by (apply (not_lf_lt (k + p) 46%N E2); [apply RuntimeAgree.is_byte_at_true; exact E46|reflexivity]).
  RuntimeAgree.bind_inv H r p3 H3. unfold try_ in H3.
  destruct (get_attribute bs1 n' (S (k + p))) as [attr p4|e p4|t|] eqn:E; try discriminate; injection H3 as <- <-.
  - pose proof (ga_mono bs1 _ _ _ _ _ H) as G.
    pose proof (C_get_attribute n' (S (k + p)) attr p4 E Hp2 ltac:(lia)) as E'.
    rewrite (RuntimeAgree.bind_Ok_eq (try_ (get_attribute bs2 n')) _ (S (k + p)) (inr attr) p4) by (unfold try_; rewrite E'; reflexivity).
    apply (IH _ p4 l p' H); lia.
  - destruct (Nat.lt_ge_cases p4 q) as [Hp4|Hp4].
    + pose proof (CL_err (S (k + p)) T _ _ e p4 (CL_get_attribute n' (S (k + p))) Hp2 E Hp4) as E'.
      rewrite (RuntimeAgree.bind_Ok_eq (try_ (get_attribute bs2 n')) _ (S (k + p)) (inl e) p4) by (unfold try_; rewrite E'; reflexivity).
      left. exact H.
    + right. RuntimeAgree.bind_inv H u p5 H5. cbv [set_ptr] in H5. injection H5 as _ <-. cbv [ret] in H. injection H as _ <-.
      split; [exact Hlt|]. fold k. exact E46.
Qed.

Lemma C_get_message n es p e p' :
  get_message bs1 n es p = Ok e p' -> p < q -> p' <= q ->
  get_message bs2 n es p = Ok e p' \/ dotline p'.
Proof.
  intros H Hp Hle. unfold get_message in H |- *.
  destruct (knot_mono_all bs1 n) as (M1 & _).
  RuntimeAgree.bind_inv H idn p1 H1. RuntimeAgree.bind_inv H k p2 H2. RuntimeAgree.bind_inv H u p3 H3. destruct u.
  destruct (head_eq p Hp idn p1 k p2 p3 H1 H2 H3) as (E1 & E2 & E3 & Hp3).
  rewrite (RuntimeAgree.bind_Ok_eq _ _ _ _ _ E1), (RuntimeAgree.bind_Ok_eq _ _ _ _ _ E2), (RuntimeAgree.bind_Ok_eq _ _ _ _ _ E3).
  RuntimeAgree.bind_inv H pat p4 H4. RuntimeAgree.bind_inv H c p5 H5. RuntimeAgree.bind_inv H attrs p6 H6.
  assert (p6 = p').
  { destruct pat; [cbv [ret] in H; injection H as _ <-; reflexivity|].
    destruct attrs; [|cbv [ret] in H; injection H as _ <-; reflexivity].
    RuntimeAgree.bind_inv H x p7 H7. discriminate. }
  subst p6.
  pose proof (mono_ok _ _ _ _ M1 H4) as G4. pose proof (ga_mono bs1 _ _ _ _ _ H6) as G6.
  assert (G5 : p4 <= p5).
  { pose proof (sp_skip_blank_block bs1 p4) as G. unfold spec in G. rewrite H5 in G. lia. }
  rewrite (RuntimeAgree.bind_Ok_eq _ _ _ _ _ (C_get_pattern n p3 pat p4 H4 Hp3 ltac:(lia))).
  destruct (eq_skip_blank_block p4 ltac:(lia)) as [E5 _]. rewrite E5 in H5. rewrite (RuntimeAgree.bind_Ok_eq _ _ _ _ _ H5).
  destruct (C_get_attributes n [] p5 attrs p' H6 ltac:(lia) Hle) as [E6|Hd]; [|right; exact Hd].
  rewrite (RuntimeAgree.bind_Ok_eq _ _ _ _ _ E6). left. exact H.
Qed.

Lemma C_get_term n es p e p' :
  get_term bs1 n es p = Ok e p' -> p < q -> p' <= q ->
  get_term bs2 n es p = Ok e p' \/ dotline p'.
Proof.
  intros H Hp Hle. unfold get_term in H |- *.
  destruct (knot_mono_all bs1 n) as (M1 & _).
  RuntimeAgree.bind_inv H u0 p0 H0.
  assert (Hp0 : p0 < q).
  { unfold expect_byte in H0. destruct (is_byte_at bs1 45 p) eqn:E; [|discriminate]. injection H0 as _ <-.
    apply RuntimeAgree.is_byte_at_true in E. apply (not_lf_lt p 45%N Hp E eq_refl). }
  rewrite (eq_expect_byte 45 p Hp) in H0. rewrite (RuntimeAgree.bind_Ok_eq _ _ _ _ _ H0).
  RuntimeAgree.bind_inv H idn p1 H1. RuntimeAgree.bind_inv H k p2 H2. RuntimeAgree.bind_inv H u p3 H3. destruct u.
  destruct (head_eq p0 Hp0 idn p1 k p2 p3 H1 H2 H3) as (E1 & E2 & E3 & Hp3).
  rewrite (RuntimeAgree.bind_Ok_eq _ _ _ _ _ E1), (RuntimeAgree.bind_Ok_eq _ _ _ _ _ E2), (RuntimeAgree.bind_Ok_eq _ _ _ _ _ E3).
  RuntimeAgree.bind_inv H k' p3' H3'.
  assert (Hp3' : p3' < q).
  { unfold skip_blank_inline in H3'. injection H3' as _ <-. exact (proj2 (eq_scan is_space p3 eq_refl Hp3)). }
  rewrite (eq_skip_blank_inline p3 Hp3) in H3'. rewrite (RuntimeAgree.bind_Ok_eq _ _ _ _ _ H3').
  RuntimeAgree.bind_inv H pat p4 H4. RuntimeAgree.bind_inv H c p5 H5. RuntimeAgree.bind_inv H attrs p6 H6.
  assert (p6 = p').
  { destruct pat; [cbv [ret] in H; injection H as _ <-; reflexivity|].
    RuntimeAgree.bind_inv H x p7 H7. discriminate. }
  subst p6.
  pose proof (mono_ok _ _ _ _ M1 H4) as G4. pose proof (ga_mono bs1 _ _ _ _ _ H6) as G6.
  assert (G5 : p4 <= p5).
  { pose proof (sp_skip_blank_block bs1 p4) as G. unfold spec in G. rewrite H5 in G. lia. }
  rewrite (RuntimeAgree.bind_Ok_eq _ _ _ _ _ (C_get_pattern n p3' pat p4 H4 Hp3' ltac:(lia))).
  destruct (eq_skip_blank_block p4 ltac:(lia)) as [E5 _]. rewrite E5 in H5. rewrite (RuntimeAgree.bind_Ok_eq _ _ _ _ _ H5).
  destruct (C_get_attributes n [] p5 attrs p' H6 ltac:(lia) Hle) as [E6|Hd]; [|right; exact Hd].
  rewrite (RuntimeAgree.bind_Ok_eq _ _ _ _ _ E6). left. exact H.
Qed.

(* comments: every step below q is the same in both strings *)
Lemma eq_get_comment_level p : p < q ->
  get_comment_level bs1 p = get_comment_level bs2 p /\
  (forall l p1, get_comment_level bs1 p = Ok l p1 -> p <= p1 < q).
Proof.
  intros Hp. unfold get_comment_level, bind, take_byte_if, ret.
  rewrite <- (eq_is_byte_at 35 p Hp). destruct (is_byte_at bs1 35 p) eqn:E1.
  2:{ split; [reflexivity|]. intros l p1 H. injection H as _ <-. lia. }
  assert (H1 : S p < q) by (apply (not_lf_lt p 35%N Hp); [apply RuntimeAgree.is_byte_at_true; exact E1|reflexivity]).
  rewrite <- (eq_is_byte_at 35 (S p) H1). destruct (is_byte_at bs1 35 (S p)) eqn:E2.
  2:{ split; [reflexivity|]. intros l p1 H. injection H as _ <-. lia. }
  assert (H2 : S (S p) < q) by (apply (not_lf_lt (S p) 35%N H1); [apply RuntimeAgree.is_byte_at_true; exact E2|reflexivity]).
  rewrite <- (eq_is_byte_at 35 (S (S p)) H2). destruct (is_byte_at bs1 35 (S (S p))) eqn:E3.
  2:{ split; [reflexivity|]. intros l p1 H. injection H as _ <-. lia. }
  assert (H3 : S (S (S p)) < q) by (apply (not_lf_lt (S (S p)) 35%N H2); [apply RuntimeAgree.is_byte_at_true; exact E3|reflexivity]).
  split; [reflexivity|]. intros l p1 H. injection H as _ <-. lia.
Qed.

Lemma eq_get_comment_loop : forall n lvl content p, p <= q ->
  get_comment_loop bs1 n lvl content p = get_comment_loop bs2 n lvl content p.
Proof.
  induction n as [|n' IH]; intros lvl content p Hp; [reflexivity|].
  cbn [get_comment_loop]. apply bind_eq2; [reflexivity|]. intros a p0 E. cbv [get_ptr] in E. injection E as <- <-.
  rewrite (ltb_len pre post1 bs1 Hb1 Hnl He1 p Hp), (ltb_len pre post2 bs2 Hb2 Hnl He2 p Hp). cbn [negb].
  destruct (Nat.eq_dec p q) as [->|Hne].
  { unfold bind at 1 4. unfold get_comment_level, bind, take_byte_if.
    rewrite (is_byte_at_q pre post1 bs1 Hb1 Hnl He1 35%N eq_refl), (is_byte_at_q pre post2 bs2 Hb2 Hnl He2 35%N eq_refl).
    reflexivity. }
  assert (Hlt : p < q) by lia.
  destruct (eq_get_comment_level p Hlt) as [EL HL].
  apply bind_eq2; [exact EL|]. intros l p1 E. destruct (HL l p1 E) as [G1 G2].
  destruct (level_eqb l LNone); [reflexivity|].
  destruct (negb (level_eqb lvl LNone) && negb (level_eqb l lvl)); [reflexivity|].
  apply bind_eq2; [reflexivity|]. intros a p0 E0. cbv [get_ptr] in E0. injection E0 as <- <-.
  pose proof (len_gt pre post1 bs1 Hb1 Hnl He1) as L1. pose proof (len_gt pre post2 bs2 Hb2 Hnl He2) as L2.
  assert (B1 : Nat.eqb p1 (length_ bs1) = false) by (apply Nat.eqb_neq; lia).
  assert (B2 : Nat.eqb p1 (length_ bs2) = false) by (apply Nat.eqb_neq; lia).
  rewrite B1, B2.
  assert (Hline : forall x cont, x < q ->
     bind (get_comment_line bs1) (fun line => bind (skip_eol bs1) (fun _ => get_comment_loop bs1 n' l (line :: cont))) x =
     bind (get_comment_line bs2) (fun line => bind (skip_eol bs2) (fun _ => get_comment_loop bs2 n' l (line :: cont))) x).
  { intros x cont Hx. apply bind_eq2; [apply eq_get_comment_line; exact Hx|]. intros line x2 E2.
    assert (Hx2 : x2 < q).
    { unfold get_comment_line in E2. destruct (slice bs1 x _); try discriminate. injection E2 as _ <-.
      exact (proj2 (eq_line_len (S (length_ bs1) - x) (S (length_ bs1) - x) x Hx ltac:(lia) ltac:(lia))). }
    apply bind_eq2; [apply eq_skip_eol; exact Hx2|]. intros b x3 E3.
    apply IH. unfold skip_eol in E3. pose proof (proj2 (eq_eol_len x2 Hx2)).
    destruct (eol_len (rest bs1 x2)); injection E3 as _ <-; lia. }
  apply bind_eq2; [apply eq_is_eol; exact G2|]. intros eol p0 E0. unfold is_eol in E0. injection E0 as _ <-.
  destruct eol.
  - apply Hline. exact G2.
  - apply bind_eq2; [unfold try_; rewrite (eq_expect_byte c_sp p1 G2); reflexivity|]. intros r p2 E2.
    destruct r as [e|u]; [reflexivity|].
    unfold try_, expect_byte in E2. destruct (is_byte_at bs1 c_sp p1) eqn:Esp; [|discriminate]. injection E2 as _ <-.
    apply Hline. apply (not_lf_lt p1 c_sp G2); [apply RuntimeAgree.is_byte_at_true; exact Esp|reflexivity].
Qed.

Lemma dotline_not_entry n p : dotline p -> forall e p1, get_entry bs1 n p p <> Ok e p1.
Proof.
  intros [Hp Hd] e p1 H. set (k := scan_while is_space (rest bs1 p)) in *.
  assert (Hb : exists b, byte_at bs1 p = Some b /\ ebyte b = false /\ N.eqb b 35 = false).
  { destruct k as [|k'] eqn:Ek.
    - exists 46%N. cbn [Nat.add] in Hd. apply RuntimeAgree.is_byte_at_true in Hd. auto.
    - destruct (RuntimeAgree.scan_rest_in bs1 is_space p 0) as (b & Hb & Fb); [fold k; lia|].
      rewrite Nat.add_0_r in Hb. exists b. split; [exact Hb|]. split; ecls. }
  destruct Hb as (b & Hb & Hnb & H35).
  assert (Hh : is_byte_at bs1 35 p = false) by (unfold is_byte_at; rewrite Hb; exact H35).
  rewrite (proj1 (RuntimeAgree.get_entry_nohash bs1 n p Hh)) in H.
  destruct (RuntimeAgree.get_mt_other bs1 n p b Hb) as [e' He'].
  { unfold RuntimeAgree.is_e_byte. exact Hnb. }
  rewrite He' in H. discriminate.
Qed.

Lemma C_get_entry n p e p1 :
  get_entry bs1 n p p = Ok e p1 -> p < q -> p1 <= q ->
  get_entry bs2 n p p = Ok e p1 \/ dotline p1.
Proof.
  intros H Hp Hle. unfold get_entry in H |- *. unfold bind at 1 in H. unfold bind at 1.
  unfold current_byte in H |- *. rewrite <- (eq_byte p Hp).
  destruct (byte_at bs1 p) as [b|]; [|apply (C_get_message n p p e p1 H Hp Hle)].
  destruct (N.eqb b 35).
  - left. unfold get_comment, bind in H |- *. rewrite <- (eq_get_comment_loop n LNone [] p ltac:(lia)). exact H.
  - destruct (N.eqb b 45); [apply (C_get_term n p p e p1 H Hp Hle)|apply (C_get_message n p p e p1 H Hp Hle)].
Qed.

(* ================= G. the entry loop up to q ================= *)
Lemma dotline_sbb p1 c h : dotline p1 -> skip_blank_block bs1 p1 = Ok c h -> h = p1.
Proof.
  intros [Hp Hd] H. unfold skip_blank_block in H. cbn [blank_block] in H.
  rewrite RuntimeAgree.skipn_rest in H. set (k := scan_while is_space (rest bs1 p1)) in *.
  apply RuntimeAgree.is_byte_at_true in Hd. rewrite (RuntimeAgree.rest_cons bs1 (k + p1) 46%N Hd) in H.
  cbn [eol_len] in H. change (N.eqb 46 c_lf) with false in H. change (N.eqb 46 c_cr) with false in H.
  cbv iota in H. injection H as _ <-. reflexivity.
Qed.

Lemma heads_agree res2 qf2 : parse_m bs2 (fuel_for bs2) 0 = Ok res2 qf2 ->
  forall n body errors lc cnt h, ParserIsolation.head bs1 n body errors lc cnt h ->
  errors = [] -> h <= q -> ~ dotline h ->
  exists n2, ParserIsolation.head bs2 n2 body [] lc cnt h.
Proof.
  intros Hdone n body errors lc cnt h Hh.
  induction Hh as [c p0 H0 | n body errors lc cnt p e p1 c h Hh IH Hlt He Hs
                   | n body errors lc cnt p err p1 ej q1 c h Hh IH Hlt He Hr Hs]; intros Herr Hle Hnd.
  - exists (fuel_for bs2). destruct (eq_skip_blank_block 0 ltac:(lia)) as [E _]. rewrite E in H0.
    apply (ParserIsolation.head_init bs2 c p0 H0).
  - subst errors.
    pose proof (spec_ok _ _ _ _ _ _ (get_entry_spec bs1 n p Hlt (ParserIsolation.head_boundary _ _ _ _ _ _ _ Hh)) He) as G1.
    cbv beta in G1. destruct G1 as (G1 & _).
    pose proof (spec_ok _ _ _ _ _ _ (sp_skip_blank_block bs1 p1) Hs) as G2. cbv beta in G2.
    assert (G2' : p1 <= h) by lia.
    destruct (IH eq_refl ltac:(lia) (fun Hd => dotline_not_entry n p Hd e p1 He)) as [n2 Hh2].
    assert (Hpq : p < q).
    { destruct (Nat.eq_dec p q) as [->|Hne]; [|lia]. exfalso.
      destruct (byte_q pre post1 bs1 Hb1 Hnl He1) as (c1 & Hc1 & Hec1).
      pose proof (entry_progress_e bs1 n q c1 e p1 Hc1 Hec1 He). lia. }
    destruct (C_get_entry n p e p1 He Hpq ltac:(lia)) as [Hent2|Hd].
    2:{ exfalso. apply Hnd. rewrite (dotline_sbb p1 c h Hd Hs). exact Hd. }
    pose proof (ParserIsolation.head_run bs2 _ _ _ _ _ _ Hh2) as Hrun. rewrite Hdone in Hrun.
    destruct n2 as [|n2']; [discriminate Hrun|].
    assert (Hlt2 : p < length_ bs2) by (pose proof (len_gt pre post2 bs2 Hb2 Hnl He2); lia).
    assert (Hent2' : get_entry bs2 n2' p p = Ok e p1).
    { rewrite <- Hent2. apply (RuntimeAgree.mono_indep (fun k => get_entry bs2 k p)).
      - intros a b Hab. apply ParserIsolation.get_entry_mono. exact Hab.
      - destruct (RuntimeAgree.parse_loop_cases bs2 n2' body [] lc cnt p res2 qf2 Hlt2 Hrun) as [(e' & p' & E)|(e' & p' & E)];
          rewrite E; discriminate.
      - rewrite Hent2. discriminate. }
    destruct (eq_skip_blank_block p1 ltac:(lia)) as [E _]. rewrite E in Hs.
    exists n2'. exact (ParserIsolation.head_ok bs2 n2' body [] lc cnt p e p1 c h Hh2 Hlt2 Hent2' Hs).
  - discriminate Herr.
Qed.

Lemma at_head_agree front lc cnt b2 e2 :
  ParserIsolation.at_head bs1 q front [] lc cnt -> parse bs2 = Done (b2, e2) ->
  ParserIsolation.at_head bs2 q front [] lc cnt.
Proof.
  intros (n & body & errors & Hh & -> & Herr) Hp. unfold parse in Hp.
  apply RuntimeAgree.to_outcome_done in Hp as [qf Hp].
  assert (errors = []) by (destruct errors; [reflexivity|]; apply (f_equal (@length _)) in Herr;
                           rewrite rev_length in Herr; discriminate).
  subst errors.
  destruct (heads_agree _ _ Hp n body [] lc cnt q Hh eq_refl (le_n _)) as [n2 Hh2].
  { intros [Hd _]. lia. }
  exists n2, body, []. auto.
Qed.

End Two.

(* ================= H. public statements ================= *)
Lemma starts_e_head_noncont l : starts_e l -> ParserIsolation.head_noncont l.
Proof. intros (c & r & -> & Hc). cbn. apply ebyte_props. exact Hc. Qed.

Lemma sbb_e l : starts_e l -> skip_blank_block l 0 = Ok 0 0.
Proof.
  intros (c & r & -> & Hc). unfold skip_blank_block. change (rest (c :: r) 0) with (c :: r).
  rewrite (blank_block_e _ c r Hc). reflexivity.
Qed.

(* Theorem 3: a prefix that the loop leaves at a head with no error so far is parsed in the same way
   whatever follows, provided what follows begins like a message or term *)
Theorem entries_before_unchanged pre post1 post2 front lc cnt b2 e2 :
  starts_e post1 -> starts_e post2 ->
  ParserIsolation.at_head (pre ++ post1) (length pre) front [] lc cnt ->
  parse (pre ++ post2) = Done (b2, e2) ->
  ParserIsolation.at_head (pre ++ post2) (length pre) front [] lc cnt.
Proof.
  intros He1 He2 Hat Hp.
  destruct pre as [|x pre'].
  - (* nothing in front: the head at 0 is the initial one *)
    cbn [app length] in *. destruct Hat as (n & body & errors & Hh & -> & Herr).
    assert (errors = []) by (destruct errors; [reflexivity|]; apply (f_equal (@length _)) in Herr;
                             rewrite rev_length in Herr; discriminate).
    subst errors.
    assert (Hinit : body = [] /\ lc = None /\ cnt = 0).
    { remember 0 as h eqn:Eh. remember (@nil perror) as er eqn:Eer.
      destruct Hh as [c p0 H0 | n body errors lc cnt p e p1 c h Hh Hlt He Hs
                      | n body errors lc cnt p err p1 ej q1 c h Hh Hlt He Hr Hs].
      - auto.
      - exfalso. subst h errors.
        pose proof (ParserIsolation.head_step_ok_le _ _ _ _ _ _ _ _ _ _ _ Hh Hlt He Hs) as G.
        assert (p = 0) by lia. subst p.
        destruct He1 as (c1 & r1 & -> & Hc1).
        pose proof (entry_progress_e (c1 :: r1) n 0 c1 e p1 eq_refl Hc1 He) as G1.
        pose proof (spec_ok _ _ _ _ _ _ (sp_skip_blank_block (c1 :: r1) p1) Hs) as G2. cbv beta in G2. lia.
      - discriminate Eer. }
    destruct Hinit as (-> & -> & ->).
    exists (fuel_for post2), [], []. split; [|auto].
    apply (ParserIsolation.head_init post2 0 0). apply sbb_e. exact He2.
  - set (pre := x :: pre') in *.
    assert (Hnl : nth_error pre (length pre - 1) = Some c_lf).
    { destruct Hat as (n & body & errors & Hh & _). apply ParserIsolation.head_boundary in Hh.
      destruct Hh as [Hb|[Hb|Hb]].
      - exfalso. destruct He1 as (c1 & r1 & -> & _). rewrite app_length in Hb. cbn [length] in Hb. lia.
      - discriminate Hb.
      - rewrite nth_error_app1 in Hb by (unfold pre; cbn [length]; lia). exact Hb. }
    exact (at_head_agree pre post1 post2 (pre ++ post1) (pre ++ post2) eq_refl eq_refl Hnl He1 He2
             front lc cnt b2 e2 Hat Hp).
Qed.

(* the property sentence: E is an entry of a resource whose part in front of it is error free; D is E
   damaged.  Both resources have a loop head where `post` begins.  Then the messages and terms outside
   the span of E resp. D are the same in both parses (comments stripped): those in front are `mts front`,
   those after are `mts tail` = the messages and terms of `parse post` *)
Theorem containment pre E D post front lc cnt bE eE bD eD :
  E <> [] -> D <> [] -> starts_e (E ++ post) -> starts_e (D ++ post) -> ParserIsolation.head_noncont post ->
  parse (pre ++ E ++ post) = Done (bE, eE) -> parse (pre ++ D ++ post) = Done (bD, eD) ->
  ParserIsolation.at_head (pre ++ E ++ post) (length pre) front [] lc cnt ->
  In (length (pre ++ E)) (ParserIsolation.loop_heads (pre ++ E ++ post)) ->
  In (length (pre ++ D)) (ParserIsolation.loop_heads (pre ++ D ++ post)) ->
  exists midE midD tail et,
    RuntimeAgree.mts bE = RuntimeAgree.mts front ++ midE ++ RuntimeAgree.mts tail /\
    RuntimeAgree.mts bD = RuntimeAgree.mts front ++ midD ++ RuntimeAgree.mts tail /\
    ParserIsolation.at_head (pre ++ D ++ post) (length pre) front [] lc cnt /\
    (forall r, parse post = Done r -> r = (tail, et)).
Proof.
  intros HE HD HsE HsD Hcb HpE HpD HatE HinE HinD.
  pose proof (entries_before_unchanged pre (E ++ post) (D ++ post) front lc cnt bD eD HsE HsD HatE HpD) as HatD.
  destruct (ParserIsolation.entries_after_unchanged pre E D post bE eE bD eD Hcb HpE HpD HinE HinD)
    as (f1 & ef1 & lc1 & cnt1 & f2 & ef2 & lc2 & cnt2 & tail & et & H1 & H2 & _ & _ & _ & _ & M1 & M2 & _ & _ & Hpost).
  assert (L1 : length pre < length (pre ++ E)) by (rewrite app_length; destruct E; [congruence|cbn [length]; lia]).
  assert (L2 : length pre < length (pre ++ D)) by (rewrite app_length; destruct D; [congruence|cbn [length]; lia]).
  destruct (ParserIsolation.at_head_ext _ _ _ _ _ _ _ _ _ _ _ HatE H1 L1) as [midE HmE].
  destruct (ParserIsolation.at_head_ext _ _ _ _ _ _ _ _ _ _ _ HatD H2 L2) as [midD HmD].
  exists midE, midD, tail, et. rewrite M1, M2, HmE, HmD, <- !app_assoc. auto.
Qed.

(* the same for a WELL-FORMED resource (parse reports no error): loop heads where the entry E begins
   and where `post` begins, E and what follows it begin with a letter or '-', and the damaged
   resource has a loop head where `post` begins.  Then there are front / tail such that
     mts (parse good) = mts front ++ (those of E) ++ mts tail
     mts (parse bad)  = mts front ++ (those of D) ++ mts tail                                       *)
Theorem containment_wellformed pre E D post bE bD eD :
  E <> [] -> D <> [] -> starts_e (E ++ post) -> starts_e (D ++ post) -> ParserIsolation.head_noncont post ->
  parse (pre ++ E ++ post) = Done (bE, []) -> parse (pre ++ D ++ post) = Done (bD, eD) ->
  In (length pre) (ParserIsolation.loop_heads (pre ++ E ++ post)) ->
  In (length (pre ++ E)) (ParserIsolation.loop_heads (pre ++ E ++ post)) ->
  In (length (pre ++ D)) (ParserIsolation.loop_heads (pre ++ D ++ post)) ->
  exists front midE midD tail et,
    RuntimeAgree.mts bE = RuntimeAgree.mts front ++ midE ++ RuntimeAgree.mts tail /\
    RuntimeAgree.mts bD = RuntimeAgree.mts front ++ midD ++ RuntimeAgree.mts tail /\
    In (length pre) (ParserIsolation.loop_heads (pre ++ E ++ post)) /\
    (exists lc cnt, ParserIsolation.at_head (pre ++ D ++ post) (length pre) front [] lc cnt) /\
    (forall r, parse post = Done r -> r = (tail, et)).
Proof.
  intros HE HD HsE HsD Hcb HpE HpD Hin0 HinE HinD.
  destruct (ParserIsolation.loop_heads_at_head _ _ Hin0) as (front & ef & lc & cnt & Hat).
  pose proof (ParserIsolation.at_head_no_errors _ _ _ _ _ _ _ Hat HpE) as ->.
  destruct (containment pre E D post front lc cnt bE [] bD eD HE HD HsE HsD Hcb HpE HpD Hat HinE HinD)
    as (midE & midD & tail & et & H1 & H2 & H3 & H4).
  exists front, midE, midD, tail, et. repeat split; eauto.
Qed.

(* Syntax/SerializerModel.v — executable model of fluent-syntax/src/serializer.rs.  Definitions only.

   TextWriter.buffer is kept REVERSED (`rbuf`): `ends_with`, `push`, `pop` act on the head.
   The only possible panic is `dedent` below zero (`checked_sub(1).expect(..)`).               *)
From FluentV Require Export Base.Bytes Base.Outcome Base.Utf8 Syntax.Ast.
From FluentV Require Import Gen.Extracted.

Record writer := Writer { rbuf : bytes; indent_level : nat }.
Record sstate := SState { w : writer; wrote_non_junk_entry : bool }.

Definition W := writer -> outcome writer.
Definition wseq (a b : W) : W := fun x => obind (a x) b.
Notation "a >> b" := (wseq a b) (at level 62, right associativity).
Definition wskip : W := fun x => Done x.

Definition ends_with (c : N) (x : writer) : bool :=
  match rbuf x with b :: _ => N.eqb b c | [] => false end.

(* TextWriter::indent / dedent *)
Definition indent : W := fun x => Done (Writer (rbuf x) (S (indent_level x))).
Definition dedent : W :=
  fun x => match indent_level x with
           | S k => Done (Writer (rbuf x) k)
           | O => Panic "Dedenting without a corresponding indent"
           end.

(* TextWriter::write_indent : indent_level copies of SERIALIZER_INDENT (regenerated from the source) *)
Fixpoint indent_bytes (k : nat) : bytes :=
  match k with O => [] | S k' => SERIALIZER_INDENT ++ indent_bytes k' end.
Definition push_bytes (item : bytes) (x : writer) : writer := Writer (rev item ++ rbuf x) (indent_level x).
Definition write_indent (x : writer) : writer := push_bytes (indent_bytes (indent_level x)) x.

(* TextWriter::newline *)
Definition newline : W :=
  fun x => let x1 := if ends_with 13 x then push_bytes [13%N] x else x in
           Done (push_bytes [10%N] x1).

(* TextWriter::write_literal *)
Definition write_literal (item : bytes) : W :=
  fun x => let x1 := if ends_with 10 x then write_indent x else x in
           let x2 := if ends_with 13 x1 && (match item with b :: _ => N.eqb b 10 | [] => false end)
                     then push_bytes [13%N] x1 else x1 in
           Done (push_bytes item x2).

(* String::pop : removes the last char (all its bytes) *)
Fixpoint pop_char (r : bytes) : bytes :=
  match r with
  | [] => []
  | b :: r' => if is_cont b then pop_char r' else r'
  end.

(* TextWriter::write_char_into_indent (ch is ASCII '*') *)
Definition write_char_into_indent (ch : N) : W :=
  fun x => let x1 := if ends_with 10 x then write_indent x else x in
           Done (Writer (ch :: pop_char (rbuf x1)) (indent_level x1)).

Definition lit (s : string) : W := write_literal (bytes_of_string s).

(* ---- Pattern helpers (impl Pattern) ---- *)
Fixpoint is_select_expr (e : expression) : bool :=
  match e with
  | Select _ _ => true
  | Inline (Placeable e') => is_select_expr e'
  | Inline _ => false
  end.

Definition contains_lf (v : bytes) : bool := existsb (N.eqb 10) v.

Definition is_multiline (p : pattern) : bool :=
  existsb (fun el => match el with
                     | TextElement v => contains_lf v
                     | PlaceableElement e => is_select_expr e
                     end) (pattern_elements p).

Definition has_leading_text_dot (p : pattern) : bool :=
  match pattern_elements p with
  | TextElement (b :: _) :: _ => N.eqb b 46 || N.eqb b 91 || N.eqb b 42       (* . [ * *)
  | _ => false
  end.

Definition starts_on_new_line (p : pattern) : bool := negb (has_leading_text_dot p) && is_multiline p.

(* ---- Serializer ---- *)
Definition serialize_variant_key (k : variant_key) : W :=
  match k with KeyNumber v | KeyIdentifier v => write_literal v end.

Definition sep_if (written : bool) : W := if written then lit ", " else wskip.

Fixpoint serialize_inline_expression (e : inline) : W :=
  match e with
  | StringLiteral v => lit """" >> write_literal v >> lit """"
  | NumberLiteral v => write_literal v
  | VariableReference v => lit "$" >> write_literal v
  | FunctionReference id args => write_literal id >> serialize_call_arguments args
  | MessageReference id attr =>
      write_literal id >> match attr with Some a => lit "." >> write_literal a | None => wskip end
  | TermReference id attr args =>
      lit "-" >> write_literal id >>
      match attr with Some a => lit "." >> write_literal a | None => wskip end >>
      match args with Some a => serialize_call_arguments a | None => wskip end
  | Placeable ex => lit "{" >> serialize_expression ex >> lit "}"
  end

with serialize_expression (e : expression) : W :=
  match e with
  | Inline i => serialize_inline_expression i
  | Select selector variants =>                       (* serialize_select_expression *)
      serialize_inline_expression selector >> lit " ->" >> newline >> indent >>
      (fix go (l : list variant) : W :=
         match l with
         | [] => wskip
         | v :: r => serialize_variant v >> newline >> go r
         end) variants >>
      dedent
  end

with serialize_variant (v : variant) : W :=
  match v with
  | Variant key value default =>
      (if default then write_char_into_indent 42 else wskip) >>
      lit "[" >> serialize_variant_key key >> lit "]" >> serialize_pattern value
  end

with serialize_pattern (p : pattern) : W :=
  match p with
  | Pattern els =>
      (if starts_on_new_line p then newline >> indent else lit " " >> indent) >>
      (fix go (l : list pattern_element) : W :=
         match l with
         | [] => wskip
         | el :: r => serialize_element el >> go r
         end) els >>
      dedent
  end

with serialize_element (el : pattern_element) : W :=
  match el with
  | TextElement v => write_literal v
  | PlaceableElement ex =>
      match ex with
      | Inline (Placeable inner) => lit "{{ " >> serialize_expression inner >> lit " }}"
      | Select _ _ => lit "{ " >> serialize_expression ex >> lit "}"
      | Inline _ => lit "{ " >> serialize_expression ex >> lit " }"
      end
  end

with serialize_call_arguments (a : call_args) : W :=
  match a with
  | CallArguments positional named =>
      lit "(" >>
      (fun x =>
         let* r1 :=
           (fix go (l : list inline) (written : bool) (x : writer) : outcome (writer * bool) :=
              match l with
              | [] => Done (x, written)
              | e :: r => let* x1 := (sep_if written >> serialize_inline_expression e) x in go r true x1
              end) positional false x in
         let* r2 :=
           (fix go (l : list named_arg) (written : bool) (x : writer) : outcome (writer * bool) :=
              match l with
              | [] => Done (x, written)
              | n :: r => let* x1 := (sep_if written >> serialize_named n) x in go r true x1
              end) named (snd r1) (fst r1) in
         Done (fst r2)) >>
      lit ")"
  end

with serialize_named (n : named_arg) : W :=
  match n with
  | NamedArgument name value => write_literal name >> lit ": " >> serialize_inline_expression value
  end.

Definition serialize_attribute (a : attribute) : W :=
  lit "." >> write_literal (attr_id a) >> lit " =" >> serialize_pattern (attr_value a).

Fixpoint serialize_attrs_loop (attrs : list attribute) : W :=
  match attrs with
  | [] => wskip
  | a :: r => newline >> serialize_attribute a >> serialize_attrs_loop r
  end.

Definition serialize_attributes (attrs : list attribute) : W :=
  match attrs with
  | [] => wskip
  | _ => indent >> serialize_attrs_loop attrs >> dedent
  end.

(* line.trim_matches(matches_fluent_ws).is_empty() *)
Definition all_fluent_ws (l : bytes) : bool :=
  forallb (fun b => N.eqb b 32 || N.eqb b 13 || N.eqb b 10) l.

Fixpoint serialize_comment_lines (lines : list bytes) (prefix : bytes) : W :=
  match lines with
  | [] => wskip
  | line :: r =>
      write_literal prefix >>
      (if negb (all_fluent_ws line) then lit " " >> write_literal line else wskip) >>
      newline >> serialize_comment_lines r prefix
  end.
Definition serialize_comment (c : comment) (prefix : bytes) : W := serialize_comment_lines (content c) prefix.

Definition serialize_opt_comment (c : option comment) : W :=
  match c with Some c' => serialize_comment c' [35%N] | None => wskip end.

Definition serialize_message (id : bytes) (value : option pattern) (attrs : list attribute) (c : option comment) : W :=
  serialize_opt_comment c >> write_literal id >> lit " =" >>
  match value with Some v => serialize_pattern v | None => wskip end >>
  serialize_attributes attrs >> newline.

Definition serialize_term (id : bytes) (value : pattern) (attrs : list attribute) (c : option comment) : W :=
  serialize_opt_comment c >> lit "-" >> write_literal id >> lit " =" >>
  serialize_pattern value >> serialize_attributes attrs >> newline.

Definition serialize_free_comment (wrote : bool) (c : comment) (prefix : bytes) : W :=
  (if wrote then newline else wskip) >> serialize_comment c prefix >> newline.

Definition is_junk (e : entry) : bool := match e with Junk _ => true | _ => false end.

Definition serialize_entry (with_junk : bool) (st : sstate) (e : entry) : outcome sstate :=
  let* w' :=
    (match e with
     | Message id v a c => serialize_message id v a c
     | Term id v a c => serialize_term id v a c
     | CommentEntry c => serialize_free_comment (wrote_non_junk_entry st) c [35%N]
     | GroupComment c => serialize_free_comment (wrote_non_junk_entry st) c [35; 35]%N
     | ResourceComment c => serialize_free_comment (wrote_non_junk_entry st) c [35; 35; 35]%N
     | Junk content => if with_junk then write_literal content else wskip      (* serialize_junk *)
     end) (w st) in
  Done (SState w' (if with_junk || negb (is_junk e) then negb (is_junk e) else wrote_non_junk_entry st)).

Fixpoint serialize_resource (with_junk : bool) (st : sstate) (body : list entry) : outcome sstate :=
  match body with
  | [] => Done st
  | e :: r => let* st' := serialize_entry with_junk st e in serialize_resource with_junk st' r
  end.

(* serializer::serialize_with_options *)
Definition serialize_with_options (with_junk : bool) (res : resource) : outcome bytes :=
  let* st := serialize_resource with_junk (SState (Writer [] 0) false) res in
  Done (rev (rbuf (w st))).

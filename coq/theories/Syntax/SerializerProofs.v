(* Syntax/SerializerProofs.v — facts about the serializer model (SerializerModel.v), for property C04.

   Proved here, for ALL trees (not only parser outputs):
     * every serialize_xxx writer action returns Done, leaves indent_level unchanged and only
       extends the (reversed) buffer                          (ser_..._balanced, serialize_entry_ok)
     * serialize_with_options never panics                    (serialize_total)
     * write_char_into_indent replaces exactly one character  (write_char_into_indent_line_start etc.)
     * Junk is written verbatim / skipped                     (serialize_junk_verbatim, serialize_junk_skipped)
     * the text serialize_comment writes                      (serialize_comment_lines_spec)
   plus an induction principle for the mutual/nested AST (ast_mutind).                           *)
From FluentV Require Import Base.Bytes Base.Outcome Base.Utf8 Syntax.Ast Syntax.SerializerModel.
From FluentV Require Import Gen.Extracted.
From Coq Require Import Lia.

(* ---------------------------------------------------------------------------------------------- *)
(* Induction over the AST: the nested lists carry Forall hypotheses                                 *)

Definition opt_P {X} (P : X -> Prop) (o : option X) : Prop :=
  match o with Some x => P x | None => True end.

Section AstInd.
Variables (Pi : inline -> Prop) (Pe : expression -> Prop) (Pv : variant -> Prop)
          (Pp : pattern -> Prop) (Pel : pattern_element -> Prop)
          (Pa : call_args -> Prop) (Pn : named_arg -> Prop).
Hypothesis HStr : forall v, Pi (StringLiteral v).
Hypothesis HNum : forall v, Pi (NumberLiteral v).
Hypothesis HFn : forall id a, Pa a -> Pi (FunctionReference id a).
Hypothesis HMsg : forall id at_, Pi (MessageReference id at_).
Hypothesis HTerm : forall id at_ a, opt_P Pa a -> Pi (TermReference id at_ a).
Hypothesis HVarRef : forall id, Pi (VariableReference id).
Hypothesis HPl : forall e, Pe e -> Pi (Placeable e).
Hypothesis HSel : forall s vs, Pi s -> Forall Pv vs -> Pe (Select s vs).
Hypothesis HIn : forall i, Pi i -> Pe (Inline i).
Hypothesis HVariant : forall k p d, Pp p -> Pv (Variant k p d).
Hypothesis HPat : forall els, Forall Pel els -> Pp (Pattern els).
Hypothesis HText : forall v, Pel (TextElement v).
Hypothesis HPlEl : forall e, Pe e -> Pel (PlaceableElement e).
Hypothesis HArgs : forall pos named, Forall Pi pos -> Forall Pn named -> Pa (CallArguments pos named).
Hypothesis HNamed : forall n v, Pi v -> Pn (NamedArgument n v).

Fixpoint inline_ind' (i : inline) : Pi i :=
  match i with
  | StringLiteral v => HStr v
  | NumberLiteral v => HNum v
  | FunctionReference id a => HFn id a (args_ind' a)
  | MessageReference id at_ => HMsg id at_
  | TermReference id at_ a =>
      HTerm id at_ a (match a return opt_P Pa a with Some a' => args_ind' a' | None => Logic.I end)
  | VariableReference id => HVarRef id
  | Placeable e => HPl e (expr_ind' e)
  end
with expr_ind' (e : expression) : Pe e :=
  match e with
  | Select s vs =>
      HSel s vs (inline_ind' s)
           ((fix go (l : list variant) : Forall Pv l :=
               match l with
               | [] => Forall_nil Pv
               | v :: r => Forall_cons v (variant_ind' v) (go r)
               end) vs)
  | Inline i => HIn i (inline_ind' i)
  end
with variant_ind' (v : variant) : Pv v :=
  match v with
  | Variant k p d => HVariant k p d (pattern_ind' p)
  end
with pattern_ind' (p : pattern) : Pp p :=
  match p with
  | Pattern els =>
      HPat els ((fix go (l : list pattern_element) : Forall Pel l :=
                   match l with
                   | [] => Forall_nil Pel
                   | x :: r => Forall_cons x (element_ind' x) (go r)
                   end) els)
  end
with element_ind' (x : pattern_element) : Pel x :=
  match x with
  | TextElement v => HText v
  | PlaceableElement e => HPlEl e (expr_ind' e)
  end
with args_ind' (a : call_args) : Pa a :=
  match a with
  | CallArguments pos named =>
      HArgs pos named
            ((fix go (l : list inline) : Forall Pi l :=
                match l with
                | [] => Forall_nil Pi
                | x :: r => Forall_cons x (inline_ind' x) (go r)
                end) pos)
            ((fix go (l : list named_arg) : Forall Pn l :=
                match l with
                | [] => Forall_nil Pn
                | x :: r => Forall_cons x (named_ind' x) (go r)
                end) named)
  end
with named_ind' (n : named_arg) : Pn n :=
  match n with
  | NamedArgument name v => HNamed name v (inline_ind' v)
  end.

Theorem ast_mutind :
  (forall i, Pi i) /\ (forall e, Pe e) /\ (forall v, Pv v) /\ (forall p, Pp p) /\
  (forall x, Pel x) /\ (forall a, Pa a) /\ (forall n, Pn n).
Proof.
  repeat split;
    [exact inline_ind' | exact expr_ind' | exact variant_ind' | exact pattern_ind'
     | exact element_ind' | exact args_ind' | exact named_ind'].
Qed.
End AstInd.

(* ---------------------------------------------------------------------------------------------- *)
(* Writer steps                                                                                     *)

(* x' has the same indent level as x and its buffer extends the buffer of x *)
Definition step_ok (x x' : writer) : Prop :=
  indent_level x' = indent_level x /\ exists added, rbuf x' = added ++ rbuf x.

(* a writer action that always returns, keeps the indent level and only appends *)
Definition balanced (a : W) : Prop := forall x, exists x', a x = Done x' /\ step_ok x x'.

Lemma step_ok_refl x : step_ok x x.
Proof. split; [reflexivity | exists []; reflexivity]. Qed.

Lemma step_ok_trans x y z : step_ok x y -> step_ok y z -> step_ok x z.
Proof.
  intros [L1 [a1 E1]] [L2 [a2 E2]]. split; [congruence|].
  exists (a2 ++ a1). rewrite E2, E1, app_assoc. reflexivity.
Qed.

Lemma push_bytes_step item x : step_ok x (push_bytes item x).
Proof. split; [reflexivity | exists (rev item); reflexivity]. Qed.

Lemma write_indent_step x : step_ok x (write_indent x).
Proof. apply push_bytes_step. Qed.

Lemma balanced_wskip : balanced wskip.
Proof. intros x. exists x. split; [reflexivity | apply step_ok_refl]. Qed.

Lemma balanced_wseq a b : balanced a -> balanced b -> balanced (a >> b).
Proof.
  intros Ha Hb x. destruct (Ha x) as [x1 [E1 S1]]. destruct (Hb x1) as [x2 [E2 S2]].
  exists x2. unfold wseq. rewrite E1. cbn [obind]. split; [exact E2 | eapply step_ok_trans; eassumption].
Qed.

Lemma balanced_ext a b : (forall x, a x = b x) -> balanced a -> balanced b.
Proof. intros E Ha x. rewrite <- E. apply Ha. Qed.

Lemma wseq_assoc a b c x : ((a >> b) >> c) x = (a >> b >> c) x.
Proof. unfold wseq. destruct (a x); reflexivity. Qed.

Lemma balanced_write_literal item : balanced (write_literal item).
Proof.
  intros x. unfold write_literal. eexists. split; [reflexivity|].
  eapply step_ok_trans; [|apply push_bytes_step].
  eapply step_ok_trans with (y := if ends_with 10 x then write_indent x else x).
  - destruct (ends_with 10 x); [apply write_indent_step | apply step_ok_refl].
  - match goal with |- step_ok ?y (if ?c then _ else _) => destruct c end;
      [apply push_bytes_step | apply step_ok_refl].
Qed.

Lemma balanced_lit s : balanced (lit s).
Proof. apply balanced_write_literal. Qed.

Lemma newline_ok x : exists x', newline x = Done x' /\ step_ok x x' /\ ends_with 10 x' = true.
Proof.
  unfold newline. eexists. split; [reflexivity|]. split.
  - eapply step_ok_trans; [|apply push_bytes_step].
    destruct (ends_with 13 x); [apply push_bytes_step | apply step_ok_refl].
  - reflexivity.
Qed.

Lemma balanced_newline : balanced newline.
Proof. intros x. destruct (newline_ok x) as [x' [E [S _]]]. exists x'. split; assumption. Qed.

(* indent ... dedent brackets *)
Lemma balanced_bracket a : balanced a -> balanced (indent >> a >> dedent).
Proof.
  intros Ha x. unfold wseq at 1. unfold indent at 1. cbn [obind].
  destruct (Ha (Writer (rbuf x) (S (indent_level x)))) as [x1 [E1 [L1 [ad A1]]]].
  cbn [indent_level rbuf] in L1, A1.
  unfold wseq. rewrite E1. cbn [obind]. unfold dedent. rewrite L1.
  eexists. split; [reflexivity|]. split; [reflexivity | exists ad; exact A1].
Qed.

Lemma balanced_bracket' a b : balanced a -> balanced b -> balanced ((a >> indent) >> b >> dedent).
Proof.
  intros Ha Hb. eapply balanced_ext; [intros x; symmetry; apply wseq_assoc|].
  apply balanced_wseq; [exact Ha | apply balanced_bracket, Hb].
Qed.

(* ---------------------------------------------------------------------------------------------- *)
(* write_char_into_indent                                                                          *)

Lemma indent_bytes_repeat k : indent_bytes k = repeat 32%N (4 * k).
Proof.
  induction k as [|k IH]; [reflexivity|].
  cbn [indent_bytes]. rewrite IH. unfold SERIALIZER_INDENT.
  replace (4 * S k) with (S (S (S (S (4 * k))))) by lia. reflexivity.
Qed.

Lemma rev_repeat {X} (a : X) n : rev (repeat a n) = repeat a n.
Proof.
  induction n as [|n IH]; [reflexivity|].
  cbn [repeat rev]. rewrite IH. clear IH.
  induction n as [|n IH]; [reflexivity|]. cbn [repeat app]. rewrite IH. reflexivity.
Qed.

(* at the start of a line, inside at least one indent: the last space of the indentation becomes ch.
   Forward reading: buffer ++ (4*k+3 spaces) ++ [ch], where the level is k+1. *)
Lemma write_char_into_indent_line_start ch x k :
  ends_with 10 x = true -> indent_level x = S k ->
  write_char_into_indent ch x = Done (Writer (ch :: repeat 32%N (4 * k + 3) ++ rbuf x) (S k)).
Proof.
  intros He Hl. unfold write_char_into_indent. rewrite He.
  unfold write_indent, push_bytes. cbn [rbuf indent_level]. rewrite Hl.
  rewrite indent_bytes_repeat, rev_repeat.
  replace (4 * S k) with (S (4 * k + 3)) by lia. cbn [repeat app pop_char].
  reflexivity.
Qed.

(* elsewhere: the last character of the buffer (here: a one-byte character b) is replaced by ch *)
Lemma write_char_into_indent_elsewhere ch x b r :
  rbuf x = b :: r -> N.eqb b 10 = false -> is_cont b = false ->
  write_char_into_indent ch x = Done (Writer (ch :: r) (indent_level x)).
Proof.
  intros Hr Hb Hc. unfold write_char_into_indent, ends_with. rewrite Hr, Hb.
  cbv iota. rewrite Hr. cbn [pop_char]. rewrite Hc. reflexivity.
Qed.

(* in both cases the level is unchanged and exactly one more... the general form *)
Lemma write_char_into_indent_general ch x :
  write_char_into_indent ch x =
  Done (Writer (ch :: pop_char (rbuf (if ends_with 10 x then write_indent x else x))) (indent_level x)).
Proof.
  unfold write_char_into_indent. destruct (ends_with 10 x); reflexivity.
Qed.

(* ---------------------------------------------------------------------------------------------- *)
(* The serializer proper                                                                            *)

Definition indented_line_start (x : writer) : Prop :=
  ends_with 10 x = true /\ indent_level x <> 0.

Lemma star_step x :
  indented_line_start x -> exists x', write_char_into_indent 42 x = Done x' /\ step_ok x x'.
Proof.
  intros [He Hl]. destruct (indent_level x) as [|k] eqn:E; [congruence|].
  rewrite (write_char_into_indent_line_start 42 x k He E). eexists. split; [reflexivity|].
  split; [cbn [indent_level]; congruence|].
  exists (42%N :: repeat 32%N (4 * k + 3)). reflexivity.
Qed.

Definition variant_ok (v : variant) : Prop :=
  forall x, (match v with Variant _ _ d => d = false end \/ indented_line_start x) ->
            exists x', serialize_variant v x = Done x' /\ step_ok x x'.

Lemma balanced_variant_key k : balanced (serialize_variant_key k).
Proof. destruct k; apply balanced_write_literal. Qed.

Lemma balanced_sep_if b : balanced (sep_if b).
Proof. destruct b; [apply balanced_lit | apply balanced_wskip]. Qed.

Lemma balanced_opt_attr (attr : option bytes) :
  balanced (match attr with Some a => lit "." >> write_literal a | None => wskip end).
Proof.
  destruct attr; [apply balanced_wseq; [apply balanced_lit | apply balanced_write_literal]
                 | apply balanced_wskip].
Qed.

(* The element `{{ inner }}` serialises the INNER expression of a nested placeable directly, so the
   induction carries the balance of that inner expression along. *)
Definition inner_ok_i (i : inline) : Prop :=
  match i with Placeable e => balanced (serialize_expression e) | _ => True end.
Definition inner_ok_e (e : expression) : Prop :=
  match e with Inline i => inner_ok_i i | _ => True end.

Lemma args_loop_pos_ok (f : inline -> W) (l : list inline) :
  Forall (fun e => balanced (f e)) l ->
  forall written x, exists x' w',
    (fix go (l : list inline) (written : bool) (x : writer) : outcome (writer * bool) :=
       match l with
       | [] => Done (x, written)
       | e :: r => let* x1 := (sep_if written >> f e) x in go r true x1
       end) l written x = Done (x', w') /\ step_ok x x'.
Proof.
  induction 1 as [|e r He Hr IH]; intros written x.
  - exists x, written. split; [reflexivity | apply step_ok_refl].
  - destruct (balanced_wseq _ _ (balanced_sep_if written) He x) as [x1 [E1 S1]].
    destruct (IH true x1) as [x2 [w2 [E2 S2]]].
    exists x2, w2. rewrite E1. cbn [obind]. split; [exact E2 | eapply step_ok_trans; eassumption].
Qed.

Lemma args_loop_named_ok (f : named_arg -> W) (l : list named_arg) :
  Forall (fun e => balanced (f e)) l ->
  forall written x, exists x' w',
    (fix go (l : list named_arg) (written : bool) (x : writer) : outcome (writer * bool) :=
       match l with
       | [] => Done (x, written)
       | e :: r => let* x1 := (sep_if written >> f e) x in go r true x1
       end) l written x = Done (x', w') /\ step_ok x x'.
Proof.
  induction 1 as [|e r He Hr IH]; intros written x.
  - exists x, written. split; [reflexivity | apply step_ok_refl].
  - destruct (balanced_wseq _ _ (balanced_sep_if written) He x) as [x1 [E1 S1]].
    destruct (IH true x1) as [x2 [w2 [E2 S2]]].
    exists x2, w2. rewrite E1. cbn [obind]. split; [exact E2 | eapply step_ok_trans; eassumption].
Qed.

Lemma serializer_balanced_aux :
  (forall i, balanced (serialize_inline_expression i) /\ inner_ok_i i) /\
  (forall e, balanced (serialize_expression e) /\ inner_ok_e e) /\
  (forall v, variant_ok v) /\
  (forall p, balanced (serialize_pattern p)) /\
  (forall el, balanced (serialize_element el)) /\
  (forall a, balanced (serialize_call_arguments a)) /\
  (forall n, balanced (serialize_named n)).
Proof.
  apply ast_mutind.
  - (* StringLiteral *)
    intros v. split; [|exact Logic.I]. cbn [serialize_inline_expression].
    repeat apply balanced_wseq; try apply balanced_lit; apply balanced_write_literal.
  - intros v. split; [|exact Logic.I]. cbn [serialize_inline_expression]. apply balanced_write_literal.
  - (* FunctionReference *)
    intros id a Ha. split; [|exact Logic.I]. cbn [serialize_inline_expression].
    apply balanced_wseq; [apply balanced_write_literal | exact Ha].
  - (* MessageReference *)
    intros id at_. split; [|exact Logic.I]. cbn [serialize_inline_expression].
    apply balanced_wseq; [apply balanced_write_literal | apply balanced_opt_attr].
  - (* TermReference *)
    intros id at_ a Ha. split; [|exact Logic.I]. cbn [serialize_inline_expression].
    apply balanced_wseq; [apply balanced_lit|].
    apply balanced_wseq; [apply balanced_write_literal|].
    apply balanced_wseq; [apply balanced_opt_attr|].
    destruct a as [a'|]; [exact Ha | apply balanced_wskip].
  - (* VariableReference *)
    intros id. split; [|exact Logic.I]. cbn [serialize_inline_expression].
    apply balanced_wseq; [apply balanced_lit | apply balanced_write_literal].
  - (* Placeable *)
    intros e [He _]. split; [|exact He]. cbn [serialize_inline_expression].
    apply balanced_wseq; [apply balanced_lit|].
    apply balanced_wseq; [exact He | apply balanced_lit].
  - (* Select *)
    intros s vs [Hs _] Hvs. split; [|exact Logic.I]. cbn [serialize_expression].
    apply balanced_wseq; [exact Hs|].
    apply balanced_wseq; [apply balanced_lit|].
    match goal with |- balanced (newline >> indent >> ?g vs >> dedent) => set (go := g) end.
    assert (Hgo : forall x, indented_line_start x -> exists x', go vs x = Done x' /\ step_ok x x').
    { induction Hvs as [|v r Hv Hr IH]; intros x Hx.
      - exists x. split; [reflexivity | apply step_ok_refl].
      - cbn [go]. fold go.
        destruct (Hv x (or_intror Hx)) as [x1 [E1 S1]].
        destruct (newline_ok x1) as [x2 [E2 [S2 N2]]].
        destruct (IH x2) as [x3 [E3 S3]].
        { split; [exact N2|]. destruct S1 as [L1 _], S2 as [L2 _], Hx as [_ Hx]. congruence. }
        exists x3. unfold wseq. rewrite E1. cbn [obind]. rewrite E2. cbn [obind].
        split; [exact E3|]. eapply step_ok_trans; [exact S1|]. eapply step_ok_trans; eassumption. }
    intros x. destruct (newline_ok x) as [x1 [E1 [[L1 [ad1 A1]] N1]]].
    destruct (Hgo (Writer (rbuf x1) (S (indent_level x1)))) as [x2 [E2 [L2 [ad2 A2]]]].
    { split; [exact N1 | cbn [indent_level]; discriminate]. }
    cbn [indent_level rbuf] in L2, A2.
    unfold wseq. rewrite E1. cbn [obind]. unfold indent at 1. cbn [obind]. rewrite E2. cbn [obind].
    unfold dedent. rewrite L2. eexists. split; [reflexivity|].
    split; [exact L1|]. cbn [rbuf]. exists (ad2 ++ ad1). rewrite A2, A1, app_assoc. reflexivity.
  - (* Inline *)
    intros i [Hi Hin]. split; [|exact Hin]. cbn [serialize_expression]. exact Hi.
  - (* Variant *)
    intros k p d Hp x Hx. cbn [serialize_variant].
    assert (Hrest : balanced (lit "[" >> serialize_variant_key k >> lit "]" >> serialize_pattern p)).
    { apply balanced_wseq; [apply balanced_lit|].
      apply balanced_wseq; [apply balanced_variant_key|].
      apply balanced_wseq; [apply balanced_lit | exact Hp]. }
    destruct d.
    + destruct Hx as [Hx|Hx]; [discriminate|].
      destruct (star_step x Hx) as [x1 [E1 S1]]. destruct (Hrest x1) as [x2 [E2 S2]].
      exists x2. unfold wseq at 1. rewrite E1. cbn [obind].
      split; [exact E2 | eapply step_ok_trans; eassumption].
    + destruct (Hrest x) as [x2 [E2 S2]]. exists x2. split; [exact E2 | exact S2].
  - (* Pattern *)
    intros els Hels. cbn [serialize_pattern].
    match goal with |- balanced (_ >> ?g els >> dedent) => set (go := g) end.
    assert (Hgo : balanced (go els)).
    { induction Hels as [|el r Hel Hr IH].
      - apply balanced_wskip.
      - cbn [go]. fold go. apply balanced_wseq; assumption. }
    destruct (starts_on_new_line (Pattern els)).
    + apply balanced_bracket'; [apply balanced_newline | exact Hgo].
    + apply balanced_bracket'; [apply balanced_lit | exact Hgo].
  - (* TextElement *)
    intros v. cbn [serialize_element]. apply balanced_write_literal.
  - (* PlaceableElement *)
    intros e [He Hin]. cbn [serialize_element].
    destruct e as [s vs|i].
    + apply balanced_wseq; [apply balanced_lit|]. apply balanced_wseq; [exact He | apply balanced_lit].
    + destruct i;
        try (apply balanced_wseq; [apply balanced_lit|]; apply balanced_wseq; [exact He | apply balanced_lit]).
      apply balanced_wseq; [apply balanced_lit|]. apply balanced_wseq; [exact Hin | apply balanced_lit].
  - (* CallArguments *)
    intros pos named Hpos Hnamed. cbn [serialize_call_arguments].
    apply balanced_wseq; [apply balanced_lit|]. apply balanced_wseq; [|apply balanced_lit].
    intros x.
    assert (Hp : Forall (fun e => balanced (serialize_inline_expression e)) pos).
    { eapply Forall_impl; [|exact Hpos]. intros a [H _]. exact H. }
    destruct (args_loop_pos_ok serialize_inline_expression pos Hp false x) as [x1 [w1 [E1 S1]]].
    destruct (args_loop_named_ok serialize_named named Hnamed w1 x1) as [x2 [w2 [E2 S2]]].
    exists x2. rewrite E1. cbn [obind fst snd]. rewrite E2. cbn [obind fst].
    split; [reflexivity | eapply step_ok_trans; eassumption].
  - (* NamedArgument *)
    intros n v [Hv _]. cbn [serialize_named].
    apply balanced_wseq; [apply balanced_write_literal|]. apply balanced_wseq; [apply balanced_lit | exact Hv].
Qed.

Theorem ser_inline_balanced i : balanced (serialize_inline_expression i).
Proof. apply serializer_balanced_aux. Qed.
Theorem ser_expression_balanced e : balanced (serialize_expression e).
Proof. apply serializer_balanced_aux. Qed.
Theorem ser_variant_ok v : variant_ok v.
Proof. apply serializer_balanced_aux. Qed.
Theorem ser_pattern_balanced p : balanced (serialize_pattern p).
Proof. apply serializer_balanced_aux. Qed.
Theorem ser_element_balanced el : balanced (serialize_element el).
Proof. apply serializer_balanced_aux. Qed.
Theorem ser_call_arguments_balanced a : balanced (serialize_call_arguments a).
Proof. apply serializer_balanced_aux. Qed.

(* ---------------------------------------------------------------------------------------------- *)
(* Entries                                                                                          *)

Lemma balanced_attribute a : balanced (serialize_attribute a).
Proof.
  unfold serialize_attribute.
  apply balanced_wseq; [apply balanced_lit|].
  apply balanced_wseq; [apply balanced_write_literal|].
  apply balanced_wseq; [apply balanced_lit | apply ser_pattern_balanced].
Qed.

Lemma balanced_attrs_loop attrs : balanced (serialize_attrs_loop attrs).
Proof.
  induction attrs as [|a r IH]; cbn [serialize_attrs_loop]; [apply balanced_wskip|].
  apply balanced_wseq; [apply balanced_newline|].
  apply balanced_wseq; [apply balanced_attribute | exact IH].
Qed.

Lemma balanced_attributes attrs : balanced (serialize_attributes attrs).
Proof.
  destruct attrs as [|a r]; [apply balanced_wskip|].
  unfold serialize_attributes. apply balanced_bracket, balanced_attrs_loop.
Qed.

Lemma balanced_comment_lines lines prefix : balanced (serialize_comment_lines lines prefix).
Proof.
  induction lines as [|l r IH]; cbn [serialize_comment_lines]; [apply balanced_wskip|].
  apply balanced_wseq; [apply balanced_write_literal|].
  apply balanced_wseq.
  - destruct (negb (all_fluent_ws l)); [|apply balanced_wskip].
    apply balanced_wseq; [apply balanced_lit | apply balanced_write_literal].
  - apply balanced_wseq; [apply balanced_newline | exact IH].
Qed.

Lemma balanced_comment c prefix : balanced (serialize_comment c prefix).
Proof. apply balanced_comment_lines. Qed.

Lemma balanced_opt_comment c : balanced (serialize_opt_comment c).
Proof. destruct c; [apply balanced_comment | apply balanced_wskip]. Qed.

Lemma balanced_message id v attrs c : balanced (serialize_message id v attrs c).
Proof.
  unfold serialize_message.
  apply balanced_wseq; [apply balanced_opt_comment|].
  apply balanced_wseq; [apply balanced_write_literal|].
  apply balanced_wseq; [apply balanced_lit|].
  apply balanced_wseq; [destruct v; [apply ser_pattern_balanced | apply balanced_wskip]|].
  apply balanced_wseq; [apply balanced_attributes | apply balanced_newline].
Qed.

Lemma balanced_term id v attrs c : balanced (serialize_term id v attrs c).
Proof.
  unfold serialize_term.
  apply balanced_wseq; [apply balanced_opt_comment|].
  apply balanced_wseq; [apply balanced_lit|].
  apply balanced_wseq; [apply balanced_write_literal|].
  apply balanced_wseq; [apply balanced_lit|].
  apply balanced_wseq; [apply ser_pattern_balanced|].
  apply balanced_wseq; [apply balanced_attributes | apply balanced_newline].
Qed.

Lemma balanced_free_comment wrote c prefix : balanced (serialize_free_comment wrote c prefix).
Proof.
  unfold serialize_free_comment.
  apply balanced_wseq; [destruct wrote; [apply balanced_newline | apply balanced_wskip]|].
  apply balanced_wseq; [apply balanced_comment | apply balanced_newline].
Qed.

Theorem serialize_entry_ok with_junk st e :
  exists st', serialize_entry with_junk st e = Done st' /\ step_ok (w st) (w st').
Proof.
  unfold serialize_entry.
  match goal with |- context [obind (?a (w st)) _] => assert (Ha : balanced a) end.
  { destruct e; try apply balanced_free_comment;
      [apply balanced_message | apply balanced_term
       | destruct with_junk; [apply balanced_write_literal | apply balanced_wskip]]. }
  destruct (Ha (w st)) as [x' [E S]]. rewrite E. cbn [obind].
  eexists. split; [reflexivity | exact S].
Qed.

Theorem serialize_resource_ok with_junk body : forall st,
  exists st', serialize_resource with_junk st body = Done st' /\ step_ok (w st) (w st').
Proof.
  induction body as [|e r IH]; intros st; cbn [serialize_resource].
  - exists st. split; [reflexivity | apply step_ok_refl].
  - destruct (serialize_entry_ok with_junk st e) as [st1 [E1 S1]]. rewrite E1. cbn [obind].
    destruct (IH st1) as [st2 [E2 S2]]. exists st2. split; [exact E2 | eapply step_ok_trans; eassumption].
Qed.

Theorem serialize_total with_junk (t : resource) : exists s, serialize_with_options with_junk t = Done s.
Proof.
  unfold serialize_with_options.
  destruct (serialize_resource_ok with_junk t (SState (Writer [] 0) false)) as [st [E _]].
  rewrite E. cbn [obind]. eexists. reflexivity.
Qed.

(* the serializer ends every run at indent level 0 *)
Theorem serialize_resource_level0 with_junk body st st' :
  serialize_resource with_junk st body = Done st' -> indent_level (w st') = indent_level (w st).
Proof.
  intros H. destruct (serialize_resource_ok with_junk body st) as [st2 [E [L _]]].
  rewrite E in H. injection H as <-. exact L.
Qed.

(* ---------------------------------------------------------------------------------------------- *)
(* Junk                                                                                             *)

(* the writer is at the start of a line (nothing written yet, or the last byte is a line feed) *)
Definition at_line_start (x : writer) : Prop := rbuf x = [] \/ exists r, rbuf x = 10%N :: r.

Lemma at_line_start_no_cr x : at_line_start x -> ends_with 13 x = false.
Proof. unfold ends_with. intros [E | [r E]]; rewrite E; reflexivity. Qed.

Lemma write_indent_level0 x : indent_level x = 0 -> write_indent x = x.
Proof.
  intros H. unfold write_indent, push_bytes. rewrite H. cbn [indent_bytes rev app].
  destruct x as [r l]. cbn [indent_level] in H. subst l. reflexivity.
Qed.

(* at level 0, with no pending CR: a literal is appended as it is *)
Lemma write_literal_plain item x :
  indent_level x = 0 -> ends_with 13 x = false ->
  write_literal item x = Done (Writer (rev item ++ rbuf x) 0).
Proof.
  intros Hl Hc. unfold write_literal.
  replace (if ends_with 10 x then write_indent x else x) with x
    by (destruct (ends_with 10 x); [symmetry; apply write_indent_level0, Hl | reflexivity]).
  rewrite Hc. cbn [andb]. unfold push_bytes. rewrite Hl. reflexivity.
Qed.

Theorem serialize_junk_verbatim st content :
  at_line_start (w st) -> indent_level (w st) = 0 ->
  serialize_entry true st (Junk content) =
  Done (SState (Writer (rev content ++ rbuf (w st)) 0) false).
Proof.
  intros Hs Hl. unfold serialize_entry.
  rewrite (write_literal_plain content (w st) Hl (at_line_start_no_cr _ Hs)). reflexivity.
Qed.

Theorem serialize_junk_skipped st content :
  serialize_entry false st (Junk content) = Done st.
Proof. destruct st as [x b]. reflexivity. Qed.

(* ---------------------------------------------------------------------------------------------- *)
(* Comments                                                                                         *)

(* TextWriter::newline writes CR LF after a CR, LF otherwise *)
Definition line_end_after (written : bytes) : bytes :=
  match rev written with
  | b :: _ => if N.eqb b 13 then [13; 10]%N else [10%N]
  | [] => [10%N]
  end.

(* what serialize_comment writes for one content line *)
Definition comment_line_text (prefix l : bytes) : bytes :=
  let body := prefix ++ (if all_fluent_ws l then [] else 32%N :: l) in
  body ++ line_end_after body.

(* forward view of the buffer *)
Definition written (x : writer) : bytes := rev (rbuf x).

Lemma newline_after body x :
  indent_level x = 0 -> at_line_start x ->
  newline (Writer (rev body ++ rbuf x) 0) =
  Done (Writer (rev (body ++ line_end_after body) ++ rbuf x) 0).
Proof.
  intros Hl Hs. unfold newline, ends_with, line_end_after. cbn [rbuf].
  destruct (rev body) as [|b rb] eqn:E.
  - cbn [app]. apply (f_equal (@rev N)) in E. rewrite rev_involutive in E. cbn [rev] in E. subst body.
    cbn [app rev].
    replace (match rbuf x with [] => false | b :: _ => N.eqb b 13 end) with false
      by (destruct Hs as [E | [r E]]; rewrite E; reflexivity).
    unfold push_bytes. cbn [rev app rbuf indent_level]. reflexivity.
  - cbn [app]. rewrite rev_app_distr, E.
    destruct (N.eqb b 13); unfold push_bytes; cbn [rev app rbuf indent_level]; reflexivity.
Qed.

Theorem serialize_comment_lines_spec lines prefix : forall x,
  at_line_start x -> indent_level x = 0 ->
  exists x', serialize_comment_lines lines prefix x = Done x' /\
             at_line_start x' /\ indent_level x' = 0 /\
             written x' = written x ++ concat (map (comment_line_text prefix) lines).
Proof.
  induction lines as [|l r IH]; intros x Hs Hl; cbn [serialize_comment_lines].
  - exists x. repeat split; try assumption. cbn [map concat]. rewrite app_nil_r. reflexivity.
  - set (body := prefix ++ (if all_fluent_ws l then [] else 32%N :: l)).
    assert (Hbody : (write_literal prefix >>
                     (if negb (all_fluent_ws l) then lit " " >> write_literal l else wskip)) x
                    = Done (Writer (rev body ++ rbuf x) 0)).
    { unfold wseq at 1. rewrite (write_literal_plain prefix x Hl (at_line_start_no_cr _ Hs)). cbn [obind].
      unfold body. destruct (all_fluent_ws l); cbn [negb].
      - unfold wskip. rewrite app_nil_r. reflexivity.
      - unfold wseq, lit. cbn [bytes_of_string]. unfold write_literal at 1.
        replace (if ends_with 10 (Writer (rev prefix ++ rbuf x) 0)
                 then write_indent (Writer (rev prefix ++ rbuf x) 0)
                 else Writer (rev prefix ++ rbuf x) 0) with (Writer (rev prefix ++ rbuf x) 0)
          by (destruct (ends_with 10 _); [rewrite write_indent_level0; reflexivity | reflexivity]).
        replace (match [N_of_ascii " "] with b :: _ => N.eqb b 10 | [] => false end) with false by reflexivity.
        rewrite andb_false_r. cbn [obind]. unfold push_bytes at 1. cbn [rbuf indent_level].
        rewrite write_literal_plain; [|reflexivity|reflexivity].
        cbn [rbuf]. rewrite rev_app_distr. cbn [rev]. rewrite <- !app_assoc. reflexivity. }
    pose proof (newline_after body x Hl Hs) as Hnl.
    set (x1 := Writer (rev (body ++ line_end_after body) ++ rbuf x) 0) in *.
    assert (Hs1 : at_line_start x1).
    { right. unfold x1. cbn [rbuf]. rewrite rev_app_distr. unfold line_end_after.
      destruct (rev body) as [|b rb]; [eexists; reflexivity|].
      destruct (N.eqb b 13); eexists; reflexivity. }
    destruct (IH x1 Hs1 eq_refl) as [x2 [E2 [Hs2 [Hl2 W2]]]].
    exists x2. split; [|split; [exact Hs2 | split; [exact Hl2|]]].
    + rewrite <- wseq_assoc. unfold wseq at 1. rewrite Hbody. cbn [obind].
      unfold wseq. rewrite Hnl. cbn [obind]. exact E2.
    + rewrite W2. unfold written, x1. cbn [rbuf map concat].
      rewrite rev_app_distr, rev_involutive. unfold comment_line_text. fold body.
      rewrite <- app_assoc. reflexivity.
Qed.

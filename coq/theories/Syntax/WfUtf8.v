(* Syntax/WfUtf8.v — the part of well-formedness that Render.wf_resource leaves out: every byte string of
   the tree (identifiers, text, literals, keys, comment lines) is valid UTF-8, as it is for every tree whose
   strings are Rust `str`s.  Definitions only.                                                        *)
From FluentV Require Export Base.Bytes Base.Utf8 Syntax.Ast.

Definition utf8_opt (o : option bytes) : bool := match o with Some s => utf8_valid s | None => true end.

Fixpoint utf8_inline (i : inline) : bool :=
  match i with
  | StringLiteral v | NumberLiteral v | VariableReference v => utf8_valid v
  | FunctionReference id a => utf8_valid id && utf8_args a
  | MessageReference id at_ => utf8_valid id && utf8_opt at_
  | TermReference id at_ a =>
      utf8_valid id && utf8_opt at_ && match a with Some a' => utf8_args a' | None => true end
  | Placeable e => utf8_expr e
  end
with utf8_expr (e : expression) : bool :=
  match e with
  | Select s vs =>
      utf8_inline s &&
      (fix go (l : list variant) : bool := match l with [] => true | v :: r => utf8_variant v && go r end) vs
  | Inline i => utf8_inline i
  end
with utf8_variant (v : variant) : bool :=
  match v with
  | Variant k p _ => match k with KeyIdentifier n | KeyNumber n => utf8_valid n end && utf8_pattern p
  end
with utf8_pattern (p : pattern) : bool :=
  match p with
  | Pattern els =>
      (fix go (l : list pattern_element) : bool := match l with [] => true | x :: r => utf8_element x && go r end) els
  end
with utf8_element (x : pattern_element) : bool :=
  match x with
  | TextElement v => utf8_valid v
  | PlaceableElement e => utf8_expr e
  end
with utf8_args (a : call_args) : bool :=
  match a with
  | CallArguments pos named =>
      (fix go (l : list inline) : bool := match l with [] => true | x :: r => utf8_inline x && go r end) pos &&
      (fix go (l : list named_arg) : bool := match l with [] => true | x :: r => utf8_named x && go r end) named
  end
with utf8_named (n : named_arg) : bool :=
  match n with NamedArgument name v => utf8_valid name && utf8_inline v end.

Definition utf8_attribute (a : attribute) : bool := utf8_valid (attr_id a) && utf8_pattern (attr_value a).
Definition utf8_comment (c : comment) : bool := forallb utf8_valid (content c).
Definition utf8_opt_comment (c : option comment) : bool := match c with Some c' => utf8_comment c' | None => true end.

Definition utf8_entry (e : entry) : bool :=
  match e with
  | Message id v attrs c =>
      utf8_valid id && match v with Some p => utf8_pattern p | None => true end &&
      forallb utf8_attribute attrs && utf8_opt_comment c
  | Term id v attrs c => utf8_valid id && utf8_pattern v && forallb utf8_attribute attrs && utf8_opt_comment c
  | CommentEntry c | GroupComment c | ResourceComment c => utf8_comment c
  | Junk content => utf8_valid content
  end.

Definition wf_utf8_resource (t : resource) : bool := forallb utf8_entry t.

(* Syntax/ParserBridge.v — property C04 for every tree the parser returns whose JOINED form is a well-formed tree.

     parser_output_snest : parse bs = Done (t, errs) -> wf_resource (map join_entry t) = true ->
                           wf_utf8_resource (map join_entry t) = true -> exists d, snest_resource d t = true

   The shape of parser outputs (ParserShape.parse_shape: no empty text element, a line feed only as the last byte
   of a text element, ...) gives the part of SerializerNest.snest_resource that speaks about the SPLIT tree; the
   completeness of the fragments (WfComplete.wf_resource_nest) gives the part that speaks about the joined tree.
   What remains outside are the parser outputs whose joined tree is NOT well-formed in the sense of Render.v:
   Junk, a zero-line comment (D7), a blank line inside a pattern that keeps spaces beyond the common indentation,
   a lone CR in text, leading spaces left by D30.                                                       *)
From FluentV Require Import Base.Bytes Base.Outcome Base.Utf8 Base.Utf8Facts.
From FluentV Require Import Syntax.Ast Syntax.ParserModel Syntax.SerializerModel Syntax.Render Syntax.TreeNorm Syntax.WfUtf8.
From FluentV Require Import Syntax.ParseLemmas Syntax.RoundTrip Syntax.EntryLoop Syntax.RoundTripML Syntax.CallArgs Syntax.RoundTripSel
  Syntax.ArgsNest Syntax.RoundTripNest Syntax.WfComplete Syntax.SerializerLoop Syntax.SerializerML Syntax.SerializerNest.
From FluentV Require Import Syntax.ParserShape.
From Coq Require Import Lia.

Arguments N.eqb : simpl never.

(* ---- the text elements of a parser output are what goodn asks for ---- *)
Lemma text_pre_lf_last v : text_pre v -> lf_last v.
Proof.
  intros H. unfold lf_last. apply not_true_is_false. intros Hex. apply existsb_exists in Hex as (b & Hin & Hb).
  apply N.eqb_eq in Hb. subst b. apply In_nth_error in Hin as [i Hi].
  assert (Hlt : i < length (removelast v)) by (apply nth_error_Some; congruence).
  assert (Hv : v <> []) by (intros ->; cbn in Hlt; lia).
  rewrite (app_removelast_last 0%N Hv) in H.
  destruct (H i 10%N) as [_ H2]; [rewrite nth_error_app1 by exact Hlt; exact Hi|].
  apply H2; [rewrite app_length; cbn [length]; lia | reflexivity].
Qed.

Lemma gooda_S d i : gooda (S d) i = match i with Placeable e1 => goodn d e1 | _ => good_inl (gooda d) i end.
Proof. reflexivity. Qed.
Lemma goodn_S_inline d i : goodn (S d) (Inline i) = match i with Placeable e1 => goodn d e1 | _ => good_inl (gooda d) i end.
Proof. reflexivity. Qed.
Lemma goodn_S_select d s vs : goodn (S d) (Select s vs) =
  (good_inl (gooda d) s /\ Forall (fun v => match v with Variant _ (Pattern els) _ => Forall (text_ok (goodn d)) els end) vs).
Proof. reflexivity. Qed.

Lemma shape_good d :
  (forall i, shape_inline i -> gooda d i) /\ (forall e, shape_expr e -> goodn d e).
Proof.
  induction d as [|d [IHa IHn]]; [split; intros; exact Logic.I|].
  assert (Hargs : forall ca, shape_args ca -> good_args (gooda d) ca).
  { intros [pos named] H. apply shape_args_eq in H as [Hp _]. cbn [good_args]. apply (Forall_impl _ IHa Hp). }
  assert (Hinl : forall i, shape_inline i -> good_inl (gooda d) i).
  { intros i Hi. destruct i as [s | v | id ca | id att | id att [ca|] | id | e]; cbn [good_inl]; try exact Logic.I; apply Hargs, Hi. }
  split.
  - intros i Hi. rewrite gooda_S. destruct i; try apply (Hinl _ Hi). apply IHn, Hi.
  - intros e He. destruct e as [sel vs | i]; [rewrite goodn_S_select | rewrite goodn_S_inline].
    + apply shape_select in He as (Hs & _ & _ & Hvs). split; [apply (Hinl sel Hs)|].
      rewrite Forall_forall in *. intros v Hin. specialize (Hvs v Hin). destruct v as [k [els] d0]. cbn [shape_variant] in Hvs.
      apply shape_pattern_els in Hvs as (_ & _ & Hels). rewrite Forall_forall in *. intros x Hx. specialize (Hels x Hx).
      destruct x as [v | e]; cbn [shape_element text_ok] in *; [destruct Hels as [H1 H2]; split; [exact H1 | apply text_pre_lf_last, H2] | apply IHn, Hels].
    + change (shape_expr (Inline i)) with (shape_inline i) in He. destruct i; try exact (Hinl _ He). apply IHn, He.
Qed.

Lemma shape_text_ok d els : Forall shape_element els -> Forall (text_ok (goodn d)) els.
Proof.
  intros H. rewrite Forall_forall in *. intros x Hin. specialize (H x Hin). destruct x as [v | e]; cbn [shape_element text_ok] in *.
  - destruct H as [H1 H2]. split; [exact H1 | apply text_pre_lf_last, H2].
  - apply (proj2 (shape_good d)), H.
Qed.

(* ---- a parser output and its joined tree ---- *)
Definition brel (d : nat) (els' els : list pattern_element) : Prop :=
  join_pattern (Pattern els') = Pattern els /\ Forall (text_ok (goodn d)) els'.

Lemma brel_pattern d p : shape_pattern p -> rel_pattern (brel d) p (join_pattern p).
Proof.
  destruct p as [els]. intros H. apply shape_pattern_els in H as (_ & _ & Hels). unfold rel_pattern, brel. cbn [pattern_elements].
  rewrite join_pattern_jels. cbn [pattern_elements]. split; [apply join_pattern_jels | apply (shape_text_ok d els Hels)].
Qed.

Lemma brel_attrs d attrs : Forall shape_attribute attrs -> Forall2 (rel_attr (brel d)) attrs (map join_attribute attrs).
Proof.
  induction 1 as [|a r Ha Hr IH]; [constructor|]. cbn [map]. constructor; [|exact IH].
  unfold rel_attr, join_attribute. cbn [attr_id attr_value]. split; [reflexivity | apply (brel_pattern d _ Ha)].
Qed.

Lemma brel_entry d e : shape_entry e -> wf_entry (join_entry e) = true -> rel_entry (brel d) e (join_entry e).
Proof.
  destruct e as [id [p|] attrs c | id p attrs c | c | c | c | j]; cbn [shape_entry join_entry option_map rel_entry]; intros Hs Hw;
    try reflexivity; try discriminate Hw.
  - destruct Hs as [Hp Ha]. split; [reflexivity | split; [apply (brel_pattern d p Hp) | split; [apply (brel_attrs d attrs Ha) | reflexivity]]].
  - destruct Hs as [_ Ha]. split; [reflexivity | split; [apply (brel_attrs d attrs Ha) | reflexivity]].
  - destruct Hs as [Hp Ha]. split; [reflexivity | split; [apply (brel_pattern d p Hp) | split; [apply (brel_attrs d attrs Ha) | reflexivity]]].
Qed.

Lemma brel_snest_pok d els' els : brel d els' els -> ml_pok (eokn d) els = true -> snest_pok d els' = true.
Proof.
  intros [Hj Hok] Hp. apply snest_pok_spat. split; [|exact Hok].
  rewrite join_pattern_jels in Hj. injection Hj as ->. exact Hp.
Qed.

Theorem shape_join_snest d t : Forall shape_entry t -> nest_resource d (map join_entry t) = true -> snest_resource d t = true.
Proof.
  intros Hs Hn. unfold nest_resource in Hn. rewrite <- (ml_resource_g (eokn d)) in Hn.
  apply (g_resource_rel (ml_pok (eokn d)) (snest_pok d) (brel d) t (map join_entry t) (brel_snest_pok d)); [|exact Hn].
  assert (Hw : forall e, In e t -> wf_entry (join_entry e) = true).
  { intros e He. destruct (facts_alln d) as (_ & R & J & W & P).
    pose proof (nest_resource_wf d (map join_entry t) ltac:(unfold nest_resource; rewrite <- (ml_resource_g (eokn d)); exact Hn)) as Hwf.
    unfold wf_resource in Hwf. rewrite forallb_forall in Hwf. apply Hwf, in_map, He. }
  clear Hn. induction Hs as [|e r He Hr IH]; [constructor|]. cbn [map]. constructor.
  - apply (brel_entry d e He). apply Hw. left; reflexivity.
  - apply IH. intros e0 He0. apply Hw. right; exact He0.
Qed.

(* every parser output whose joined tree is well-formed lies in a fragment of C04 *)
Theorem parser_output_snest bs t errs : parse bs = Done (t, errs) ->
  wf_resource (map join_entry t) = true -> wf_utf8_resource (map join_entry t) = true ->
  exists d, snest_resource d t = true.
Proof.
  intros Hp Hw Hu. destruct (wf_resource_nest (map join_entry t) Hw Hu) as [d Hd].
  exists d. apply (shape_join_snest d t (parse_shape bs t errs Hp) Hd).
Qed.

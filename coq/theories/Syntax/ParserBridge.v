(* Syntax/ParserBridge.v — property C04 for every tree the parser returns whose JOINED form is a well-formed tree.

     parser_output_snest : parse bs = Done (t, errs) -> wf_resource (map join_entry t) = true ->
                           wf_utf8_resource (map join_entry t) = true -> exists d, snest_resource d t = true

   The shape of parser outputs (ParserShape.parse_shape: no empty text element, a line feed only as the last byte
   of a text element, ...) gives the part of SerializerNest.snest_resource that speaks about the SPLIT tree; the
   completeness of the fragments (WfComplete.wf_resource_nest) gives the part that speaks about the joined tree.
   What remains outside are the parser outputs whose joined tree is NOT well-formed in the sense of Render.v:
   Junk, a zero-line comment (D7), a blank line inside a pattern that keeps spaces beyond the common indentation,
   a lone CR in text, leading spaces left by D30.                                                       *)
From FluentV Require Import Base.Bytes Base.Outcome Base.Utf8 Base.Utf8Facts.
From FluentV Require Import Syntax.Ast Syntax.ParserModel Syntax.SerializerModel Syntax.Render Syntax.TreeNorm Syntax.WfUtf8.
From FluentV Require Import Syntax.ParseLemmas Syntax.RoundTrip Syntax.EntryLoop Syntax.RoundTripML Syntax.CallArgs Syntax.RoundTripSel
  Syntax.ArgsNest Syntax.RoundTripNest Syntax.WfComplete Syntax.SerializerLoop Syntax.SerializerML Syntax.SerializerNest.
From FluentV Require Import Syntax.ParserShape.
From Coq Require Import Lia.

Arguments N.eqb : simpl never.

(* ---- the text elements of a parser output are what goodn asks for ---- *)
Lemma text_pre_lf_last v : text_pre v -> lf_last v.
Proof.
  intros H. unfold lf_last. apply not_true_is_false. intros Hex. apply existsb_exists in Hex as (b & Hin & Hb).
  apply N.eqb_eq in Hb. subst b. apply In_nth_error in Hin as [i Hi].
  assert (Hlt : i < length (removelast v)) by (apply nth_error_Some; congruence).
  assert (Hv : v <> []) by (intros ->; cbn in Hlt; lia).
  rewrite (app_removelast_last 0%N Hv) in H.
  destruct (H i 10%N) as [_ H2]; [rewrite nth_error_app1 by exact Hlt; exact Hi|].
  apply H2; [rewrite app_length; cbn [length]; lia | reflexivity].
Qed.

Lemma gooda_S d i : gooda (S d) i = match i with Placeable e1 => goodn d e1 | _ => good_inl (gooda d) i end.
Proof. reflexivity. Qed.
Lemma goodn_S_inline d i : goodn (S d) (Inline i) = match i with Placeable e1 => goodn d e1 | _ => good_inl (gooda d) i end.
Proof. reflexivity. Qed.
Lemma goodn_S_select d s vs : goodn (S d) (Select s vs) =
  (good_inl (gooda d) s /\ Forall (fun v => match v with Variant _ (Pattern els) _ => Forall (text_ok (goodn d)) els end) vs).
Proof. reflexivity. Qed.

Lemma shape_good d :
  (forall i, shape_inline i -> gooda d i) /\ (forall e, shape_expr e -> goodn d e).
Proof.
  induction d as [|d [IHa IHn]]; [split; intros; exact Logic.I|].
  assert (Hargs : forall ca, shape_args ca -> good_args (gooda d) ca).
  { intros [pos named] H. apply shape_args_eq in H as [Hp _]. cbn [good_args]. apply (Forall_impl _ IHa Hp). }
  assert (Hinl : forall i, shape_inline i -> good_inl (gooda d) i).
  { intros i Hi. destruct i as [s | v | id ca | id att | id att [ca|] | id | e]; cbn [good_inl]; try exact Logic.I; apply Hargs, Hi. }
  split.
  - intros i Hi. rewrite gooda_S. destruct i; try apply (Hinl _ Hi). apply IHn, Hi.
  - intros e He. destruct e as [sel vs | i]; [rewrite goodn_S_select | rewrite goodn_S_inline].
    + apply shape_select in He as (Hs & _ & _ & Hvs). split; [apply (Hinl sel Hs)|].
      rewrite Forall_forall in *. intros v Hin. specialize (Hvs v Hin). destruct v as [k [els] d0]. cbn [shape_variant] in Hvs.
      apply shape_pattern_els in Hvs as (_ & _ & Hels). rewrite Forall_forall in *. intros x Hx. specialize (Hels x Hx).
      destruct x as [v | e]; cbn [shape_element text_ok] in *; [destruct Hels as [H1 H2]; split; [exact H1 | apply text_pre_lf_last, H2] | apply IHn, Hels].
    + change (shape_expr (Inline i)) with (shape_inline i) in He. destruct i; try exact (Hinl _ He). apply IHn, He.
Qed.

Lemma shape_text_ok d els : Forall shape_element els -> Forall (text_ok (goodn d)) els.
Proof.
  intros H. rewrite Forall_forall in *. intros x Hin. specialize (H x Hin). destruct x as [v | e]; cbn [shape_element text_ok] in *.
  - destruct H as [H1 H2]. split; [exact H1 | apply text_pre_lf_last, H2].
  - apply (proj2 (shape_good d)), H.
Qed.

(* ---- a parser output and its joined tree ---- *)
Definition brel (d : nat) (els' els : list pattern_element) : Prop :=
  join_pattern (Pattern els') = Pattern els /\ Forall (text_ok (goodn d)) els'.

Lemma brel_pattern d p : shape_pattern p -> rel_pattern (brel d) p (join_pattern p).
Proof.
  destruct p as [els]. intros H. apply shape_pattern_els in H as (_ & _ & Hels). unfold rel_pattern, brel. cbn [pattern_elements].
  rewrite join_pattern_jels. cbn [pattern_elements]. split; [apply join_pattern_jels | apply (shape_text_ok d els Hels)].
Qed.

Lemma brel_attrs d attrs : Forall shape_attribute attrs -> Forall2 (rel_attr (brel d)) attrs (map join_attribute attrs).
Proof.
  induction 1 as [|a r Ha Hr IH]; [constructor|]. cbn [map]. constructor; [|exact IH].
  unfold rel_attr, join_attribute. cbn [attr_id attr_value]. split; [reflexivity | apply (brel_pattern d _ Ha)].
Qed.

Lemma brel_entry d e : shape_entry e -> wf_entry (join_entry e) = true -> rel_entry (brel d) e (join_entry e).
Proof.
  destruct e as [id [p|] attrs c | id p attrs c | c | c | c | j]; cbn [shape_entry join_entry option_map rel_entry]; intros Hs Hw;
    try reflexivity; try discriminate Hw.
  - destruct Hs as [Hp Ha]. split; [reflexivity | split; [apply (brel_pattern d p Hp) | split; [apply (brel_attrs d attrs Ha) | reflexivity]]].
  - destruct Hs as [_ Ha]. split; [reflexivity | split; [apply (brel_attrs d attrs Ha) | reflexivity]].
  - destruct Hs as [Hp Ha]. split; [reflexivity | split; [apply (brel_pattern d p Hp) | split; [apply (brel_attrs d attrs Ha) | reflexivity]]].
Qed.

Lemma brel_snest_pok d els' els : brel d els' els -> ml_pok (eokn d) els = true -> snest_pok d els' = true.
Proof.
  intros [Hj Hok] Hp. apply snest_pok_spat. split; [|exact Hok].
  rewrite join_pattern_jels in Hj. injection Hj as ->. exact Hp.
Qed.

Theorem shape_join_snest d t : Forall shape_entry t -> nest_resource d (map join_entry t) = true -> snest_resource d t = true.
Proof.
  intros Hs Hn. unfold nest_resource in Hn. rewrite <- (ml_resource_g (eokn d)) in Hn.
  apply (g_resource_rel (ml_pok (eokn d)) (snest_pok d) (brel d) t (map join_entry t) (brel_snest_pok d)); [|exact Hn].
  assert (Hw : forall e, In e t -> wf_entry (join_entry e) = true).
  { intros e He. destruct (facts_alln d) as (_ & R & J & W & P).
    pose proof (nest_resource_wf d (map join_entry t) ltac:(unfold nest_resource; rewrite <- (ml_resource_g (eokn d)); exact Hn)) as Hwf.
    unfold wf_resource in Hwf. rewrite forallb_forall in Hwf. apply Hwf, in_map, He. }
  clear Hn. induction Hs as [|e r He Hr IH]; [constructor|]. cbn [map]. constructor.
  - apply (brel_entry d e He). apply Hw. left; reflexivity.
  - apply IH. intros e0 He0. apply Hw. right; exact He0.
Qed.

(* every parser output whose joined tree is well-formed lies in a fragment of C04 *)
Theorem parser_output_snest bs t errs : parse bs = Done (t, errs) ->
  wf_resource (map join_entry t) = true -> wf_utf8_resource (map join_entry t) = true ->
  exists d, snest_resource d t = true.
Proof.
  intros Hp Hw Hu. destruct (wf_resource_nest (map join_entry t) Hw Hu) as [d Hd].
  exists d. apply (shape_join_snest d t (parse_shape bs t errs Hp) Hd).
Qed.

(* ---------------------------------------------------------------------------------------------- *)
(* the UTF-8 premise follows from the input                                                         *)
From FluentV Require Import Syntax.SerializerProofs Syntax.SerializerCalls Syntax.ParserUtf8.

Lemma utf8_join_elements l : forallb utf8_element l = true -> forallb utf8_element (join_elements l) = true.
Proof.
  induction l as [|x r IH]; intros H; [reflexivity|]. cbn [forallb] in H. apply andb_prop in H as [Hx Hr]. specialize (IH Hr).
  destruct x as [a | e]; cbn [join_elements].
  - destruct (join_elements r) as [|[b | e2] r'] eqn:Ej; cbn [forallb utf8_element] in *.
    + rewrite Hx. reflexivity.
    + apply andb_prop in IH as [Hb Hr']. rewrite (utf8_valid_app_intro a b Hx Hb), Hr'. reflexivity.
    + rewrite Hx, IH. reflexivity.
  - cbn [forallb]. rewrite Hx, IH. reflexivity.
Qed.

Theorem utf8_join_ast :
  (forall i, utf8_inline i = true -> utf8_inline (join_inline i) = true) /\
  (forall e, utf8_expr e = true -> utf8_expr (join_expr e) = true) /\
  (forall v, utf8_variant v = true -> utf8_variant (join_variant v) = true) /\
  (forall p, utf8_pattern p = true -> utf8_pattern (join_pattern p) = true) /\
  (forall x, utf8_element x = true -> utf8_element (join_element x) = true) /\
  (forall a, utf8_args a = true -> utf8_args (join_args a) = true) /\
  (forall n, utf8_named n = true -> utf8_named (join_named n) = true).
Proof.
  apply ast_mutind.
  - intros v H; exact H.
  - intros v H; exact H.
  - intros id a IH H. cbn [utf8_inline join_inline] in *. apply andb_prop in H as [H1 H2]. rewrite H1, (IH H2). reflexivity.
  - intros id att H; exact H.
  - intros id att a IH H. cbn [utf8_inline join_inline] in *. apply andb_prop in H as [H H3]. rewrite H. cbn [andb].
    destruct a as [a|]; [apply (IH H3) | reflexivity].
  - intros id H; exact H.
  - intros e IH H. cbn [utf8_inline join_inline] in *. apply (IH H).
  - intros s vs IHs IHvs H. rewrite join_expr_select. rewrite utf8_select in *. apply andb_prop in H as [H1 H2].
    rewrite (IHs H1). cbn [andb]. rewrite forallb_forall in *. intros v Hv. apply in_map_iff in Hv as (v0 & <- & Hv0).
    rewrite Forall_forall in IHvs. apply (IHvs v0 Hv0 (H2 v0 Hv0)).
  - intros i IH H. cbn [utf8_expr join_expr] in *. apply (IH H).
  - intros k p d IH H. cbn [utf8_variant join_variant] in *. apply andb_prop in H as [H1 H2]. rewrite H1, (IH H2). reflexivity.
  - intros els IH H. rewrite join_pattern_els. rewrite utf8_pattern_els in *. apply utf8_join_elements.
    clear - IH H. induction els as [|x r IHr]; [reflexivity|]. cbn [forallb] in H. apply andb_prop in H as [Hx Hr].
    inversion IH; subst. cbn [join_els_map forallb]. rewrite (H1 Hx), (IHr H2 Hr). reflexivity.
  - intros v H; exact H.
  - intros e IH H. cbn [utf8_element join_element] in *. apply (IH H).
  - intros pos named IHp IHn H. rewrite join_args_eq. rewrite utf8_args_eq in *. apply andb_prop in H as [H1 H2].
    apply andb_true_intro. split; rewrite forallb_forall in *.
    + intros x Hx. apply in_map_iff in Hx as (x0 & <- & Hx0). rewrite Forall_forall in IHp. apply (IHp x0 Hx0 (H1 x0 Hx0)).
    + intros x Hx. apply in_map_iff in Hx as (x0 & <- & Hx0). rewrite Forall_forall in IHn. apply (IHn x0 Hx0 (H2 x0 Hx0)).
  - intros n v IH H. cbn [utf8_named join_named] in *. apply andb_prop in H as [H1 H2]. rewrite H1, (IH H2). reflexivity.
Qed.

Lemma utf8_join_entry e : utf8_entry e = true -> utf8_entry (join_entry e) = true.
Proof.
  destruct utf8_join_ast as (_ & _ & _ & HP & _).
  assert (Ha : forall attrs, forallb utf8_attribute attrs = true -> forallb utf8_attribute (map join_attribute attrs) = true).
  { intros attrs H. rewrite forallb_forall in *. intros a Hin. apply in_map_iff in Hin as (a0 & <- & Ha0). specialize (H a0 Ha0).
    unfold utf8_attribute, join_attribute in *. cbn [attr_id attr_value]. apply andb_prop in H as [H1 H2]. rewrite H1, (HP _ H2). reflexivity. }
  destruct e as [id [p|] attrs c | id p attrs c | c | c | c | j]; cbn [utf8_entry join_entry option_map]; intros H; try exact H.
  - apply andb_prop in H as [H Hc]. apply andb_prop in H as [H Hat]. apply andb_prop in H as [Hid Hp].
    rewrite Hid, (HP p Hp), (Ha attrs Hat), Hc. reflexivity.
  - apply andb_prop in H as [H Hc]. apply andb_prop in H as [H Hat]. apply andb_prop in H as [Hid _].
    rewrite Hid, (Ha attrs Hat), Hc. reflexivity.
  - apply andb_prop in H as [H Hc]. apply andb_prop in H as [H Hat]. apply andb_prop in H as [Hid Hp].
    rewrite Hid, (HP p Hp), (Ha attrs Hat), Hc. reflexivity.
Qed.

Theorem join_utf8 t : wf_utf8_resource t = true -> wf_utf8_resource (map join_entry t) = true.
Proof.
  unfold wf_utf8_resource. rewrite !forallb_forall. intros H e He. apply in_map_iff in He as (e0 & <- & He0). apply utf8_join_entry, H, He0.
Qed.

(* C04's fragment membership from the input being a Rust str *)
Theorem parser_output_snest_str bs t errs : utf8_valid bs = true -> parse bs = Done (t, errs) ->
  wf_resource (map join_entry t) = true -> exists d, snest_resource d t = true.
Proof.
  intros Hb Hp Hw. apply (parser_output_snest bs t errs Hp Hw). apply join_utf8, (parse_utf8 bs t errs Hb Hp).
Qed.

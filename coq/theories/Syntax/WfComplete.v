(* Syntax/WfComplete.v — the fragment of RoundTripNest.v is COMPLETE: every tree that is well-formed
   (Render.wf_resource) and whose strings are UTF-8 (WfUtf8.wf_utf8_resource)
   lies in RoundTripNest.nest_resource d for some depth d; C02 then holds for it unless it has the shape of finding D7
   (the last entry is a stand-alone comment whose last line is empty: RoundTrip.last_comment_ok).
     1. the lines of a UTF-8 text start with a character
     2. a well-formed pattern (Render.wf_value) is a pattern of RoundTripML.ml_pattern
     3. every well-formed expression has a depth
     4. entries and resources                                                                         *)
From FluentV Require Import Base.Bytes Base.Outcome Base.Utf8 Base.Utf8Facts.
From FluentV Require Import Syntax.Ast Syntax.ParserModel Syntax.Render Syntax.TreeNorm Syntax.WfUtf8 Syntax.ParseLemmas Syntax.RoundTrip
  Syntax.EntryLoop Syntax.RoundTripML Syntax.CallArgs Syntax.RoundTripSel Syntax.ArgsNest Syntax.RoundTripNest.
From FluentV Require Import Syntax.SerializerModel Syntax.SerializerProofs.
From Coq Require Import Lia ZifyBool ZifyNat ZifyN.

Arguments N.add : simpl never.
Arguments N.sub : simpl never.
Arguments N.eqb : simpl never.
Arguments N.ltb : simpl never.
Arguments N.leb : simpl never.

(* ---------------------------------------------------------------------------------------------- *)
(* 1. The lines of a UTF-8 text                                                                     *)

Lemma utf8_starts_char l : utf8_valid l = true -> starts_char l = true.
Proof.
  destruct l as [|b r]; [reflexivity|]. cbn [utf8_valid starts_char]. intros H.
  destruct (is_cont b) eqn:Ec; [|reflexivity]. exfalso.
  assert (Ha : is_ascii b = false) by (unfold is_cont, is_ascii, in_rng in *; lia).
  rewrite Ha in H.
  replace (in_rng 194 223 b) with false in H by (unfold is_cont, in_rng in *; lia).
  replace (N.eqb b 224) with false in H by (unfold is_cont, in_rng in *; lia).
  replace (in_rng 225 236 b || in_rng 238 239 b) with false in H by (unfold is_cont, in_rng in *; lia).
  replace (N.eqb b 237) with false in H by (unfold is_cont, in_rng in *; lia).
  replace (N.eqb b 240) with false in H by (unfold is_cont, in_rng in *; lia).
  replace (in_rng 241 243 b) with false in H by (unfold is_cont, in_rng in *; lia).
  replace (N.eqb b 244) with false in H by (unfold is_cont, in_rng in *; lia).
  discriminate H.
Qed.

Lemma utf8_split_lf a b : utf8_valid (a ++ 10%N :: b) = true -> utf8_valid a = true /\ utf8_valid b = true.
Proof.
  intros H.
  assert (Hn : nth_error (a ++ 10%N :: b) (length a) = Some 10%N).
  { rewrite nth_error_app2, Nat.sub_diag by lia. reflexivity. }
  pose proof (ascii_at_boundary _ _ _ Hn eq_refl) as Hb.
  destruct (utf8_valid_firstn_skipn _ _ H Hb) as [H1 H2].
  rewrite firstn_app, firstn_all, Nat.sub_diag in H1. cbn [firstn] in H1. rewrite app_nil_r in H1.
  rewrite skipn_app, skipn_all, Nat.sub_diag in H2. cbn [skipn app] in H2.
  split; [exact H1 | exact H2].
Qed.

Lemma utf8_lines v : utf8_valid v = true -> Forall (fun l => starts_char l = true) (lines_of v).
Proof.
  remember (length v) as n eqn:En. revert v En. induction n as [n IH] using lt_wf_ind. intros v En Hv.
  destruct (existsb (N.eqb 10) v) eqn:E.
  - destruct (first_lf v E) as (a & b & -> & Ha). rewrite (lines_of_lf a b Ha).
    destruct (utf8_split_lf a b Hv) as [H1 H2]. constructor; [apply utf8_starts_char, H1|].
    apply (IH (length b)); [subst n; rewrite app_length; cbn [length]; lia | reflexivity | exact H2].
  - rewrite (lines_of_no_lf v E). constructor; [apply utf8_starts_char, Hv | constructor].
Qed.

Lemma bytes_lines v : forall cur, forallb (fun b => wf_text_byte b || N.eqb b 10) v = true -> forallb wf_text_byte cur = true ->
  Forall (fun l => forallb wf_text_byte l = true) (split_lines v cur).
Proof.
  induction v as [|b r IH]; intros cur Hv Hcur; cbn [split_lines].
  - constructor; [|constructor]. rewrite forallb_forall in *. intros x Hx. apply Hcur, in_rev, Hx.
  - cbn [forallb] in Hv. apply andb_prop in Hv as [Hb Hr]. destruct (N.eqb b 10) eqn:E.
    + constructor; [|apply (IH [] Hr eq_refl)]. rewrite forallb_forall in *. intros x Hx. apply Hcur, in_rev, Hx.
    + rewrite orb_false_r in Hb. apply (IH (b :: cur) Hr). cbn [forallb]. rewrite Hb, Hcur. reflexivity.
Qed.

(* every line of a well-formed UTF-8 text is a line of the fragment *)
Lemma wf_text_lines v : forallb (fun b => wf_text_byte b || N.eqb b 10) v = true -> utf8_valid v = true ->
  Forall (fun l => ml_line l = true) (lines_of v).
Proof.
  intros Hb Hu. pose proof (bytes_lines v [] Hb eq_refl) as H1. fold (lines_of v) in H1. pose proof (utf8_lines v Hu) as H2.
  unfold ml_line. induction H1 as [|l r Hl Hr IH]; [constructor|]. inversion H2; subst.
  constructor; [rewrite Hl; cbn [andb]; assumption | apply IH; assumption].
Qed.

(* ---------------------------------------------------------------------------------------------- *)
(* 2. A well-formed pattern is a pattern of the fragment                                            *)

Lemma ls_app_nonblank l X : is_blank_line l = false ->
  leading_spaces (l ++ X) = leading_spaces l /\ leading_spaces l <= length l /\
  exists b t, skipn (leading_spaces l) l = b :: t.
Proof.
  induction l as [|b l IH]; intros H; [discriminate H|]. cbn [is_blank_line forallb] in H. cbn [app leading_spaces length].
  destruct (N.eqb b 32) eqn:Eb.
  - rewrite N.eqb_sym, Eb in H. cbn [andb] in H. destruct (IH H) as (I1 & I2 & b' & t & I3).
    rewrite I1. split; [reflexivity|]. split; [lia|]. exists b', t. exact I3.
  - split; [reflexivity|]. split; [lia|]. exists b, l. reflexivity.
Qed.

Lemma pline_plain l : ml_line l = true -> pline l = true -> cont_line_ok false l = true.
Proof.
  intros Hml Hp. unfold cont_line_ok. rewrite Hml. cbn [andb]. unfold pline in Hp. apply andb_prop in Hp as [H1 H2].
  destruct (is_blank_line l); cbn [negb orb] in *; [|exact H1].
  destruct l; [reflexivity | discriminate H2].
Qed.

Lemma pline_led l h' : ml_line l = true -> pline (l ++ 123%N :: h') = true -> cont_line_ok true l = true.
Proof.
  intros Hml Hp. unfold cont_line_ok. rewrite Hml. cbn [andb].
  destruct (is_blank_line l) eqn:Eb; [reflexivity|].
  unfold pline in Hp. apply andb_prop in Hp as [H1 _].
  assert (Hnb : is_blank_line (l ++ 123%N :: h') = false).
  { unfold is_blank_line. rewrite forallb_app. cbn [forallb]. change (N.eqb 32 123) with false. cbn [andb]. apply andb_false_r. }
  rewrite Hnb in H1. cbn [orb] in H1.
  destruct (ls_app_nonblank l (123%N :: h') Eb) as (Hls & Hle & b & t & Hsk).
  unfold line_start_ok in *. rewrite Hls, skipn_app, Hsk in H1. rewrite Hsk. cbn [app] in H1. exact H1.
Qed.

Lemma cont_lines_conv cont h vr : vr <> [] -> Forall (fun l => ml_line l = true) vr ->
  (cont = false -> h = []) -> (cont = true -> exists h', h = 123%N :: h') ->
  forallb pline (removelast vr ++ [last vr [] ++ h]) = true -> cont_lines_ok cont vr = true.
Proof.
  intros Hne Hml Hh0 Hh1. induction vr as [|l r IH]; [congruence|]. intros Hp. destruct r as [|l2 r'].
  - cbn [removelast last app forallb] in Hp. rewrite andb_true_r in Hp. cbn [cont_lines_ok].
    inversion Hml; subst. destruct cont.
    + destruct (Hh1 eq_refl) as [h' ->]. apply (pline_led l h'); assumption.
    + rewrite (Hh0 eq_refl), app_nil_r in Hp. apply pline_plain; assumption.
  - rewrite (removelast_cons2 l (l2 :: r') ltac:(discriminate)), (last_cons2 l (l2 :: r') [] ltac:(discriminate)) in Hp.
    cbn [app forallb] in Hp. apply andb_prop in Hp as [Hl Hr]. inversion Hml; subst.
    change (cont_lines_ok cont (l :: l2 :: r')) with (cont_line_ok false l && cont_lines_ok cont (l2 :: r')).
    rewrite (pline_plain l); [|assumption|assumption]. cbn [andb]. apply IH; [discriminate | assumption | exact Hr].
Qed.

Section WfPattern.
Variable eok : expression -> bool.

Definition el_ok (el : pattern_element) : Prop :=
  match el with TextElement v => utf8_valid v = true | PlaceableElement e => eok e = true end.

Lemma sk_nil : sk [] = [].
Proof. reflexivity. Qed.

Lemma wf_els_ml els : forall prev, wf_els els prev = true -> Forall el_ok els ->
  forallb pline (tl (lines_of (sk els))) = true -> ml_elements eok els prev = true.
Proof.
  induction els as [|el r IH]; intros prev Hw Hok Hp; [reflexivity|].
  inversion Hok as [|x l Hel Hrok]; subst. rewrite sk_cons in Hp.
  destruct el as [v | e]; cbn [wf_els] in Hw; cbn [ml_elements].
  - apply andb_prop in Hw as [Hw Hwr]. apply andb_prop in Hw as [Hw Hbytes]. apply andb_prop in Hw as [Hprev Hne].
    rewrite Hprev. cbn [andb]. cbn [el_ok] in Hel.
    pose proof (wf_text_lines v Hbytes Hel) as Hlines.
    rewrite lines_of_app in Hp.
    unfold ml_text. destruct (lines_of v) as [|l0 vr] eqn:El; [exfalso; apply (split_lines_ne v []); exact El|].
    rewrite Hne. cbn [andb]. inversion Hlines as [|? ? Hl0 Hvr]; subst. rewrite Hl0. cbn [andb].
    destruct vr as [|l1 vr'].
    + cbn [removelast last app tl] in Hp. cbn [cont_lines_ok andb]. apply (IH true Hwr Hrok Hp).
    + rewrite (removelast_cons2 l0 (l1 :: vr') ltac:(discriminate)), (last_cons2 l0 (l1 :: vr') [] ltac:(discriminate)) in Hp.
      cbn [app tl] in Hp.
      set (h := hd [] (lines_of (sk r))) in *.
      change (removelast (l1 :: vr') ++ (last (l1 :: vr') [] ++ h) :: tl (lines_of (sk r)))
        with (removelast (l1 :: vr') ++ [last (l1 :: vr') [] ++ h] ++ tl (lines_of (sk r))) in Hp.
      rewrite app_assoc, forallb_app in Hp. apply andb_prop in Hp as [Hp1 Hp2].
      rewrite (IH true Hwr Hrok Hp2), andb_true_r.
      apply (cont_lines_conv _ h); [discriminate | exact Hvr | | | exact Hp1].
      * destruct r; [intros _; reflexivity | discriminate].
      * destruct r as [|[v2|e2] r2]; [discriminate | cbn [wf_els] in Hwr; discriminate Hwr|].
        intros _. unfold h. rewrite sk_cons. cbn [app]. rewrite (lines_of_byte 123 _ eq_refl). cbn [hd]. eauto.
  - apply andb_prop in Hw as [_ Hwr]. cbn [el_ok] in Hel. rewrite Hel. cbn [andb].
    cbn [app] in Hp. rewrite (lines_of_byte 123 _ eq_refl) in Hp. cbn [tl] in Hp. apply (IH false Hwr Hrok Hp).
Qed.

End WfPattern.

(* ---- first line, last line, common indentation ---- *)
Lemma sk_app a b : sk (a ++ b) = sk a ++ sk b.
Proof. unfold sk, skeleton. cbn [pattern_elements]. apply flat_map_app. Qed.

Lemma wf_els_text_ne els : forall prev v, wf_els els prev = true -> In (TextElement v) els -> v <> [].
Proof.
  induction els as [|el r IH]; intros prev v Hw Hin; [destruct Hin|]. destruct el as [v0 | e]; cbn [wf_els] in Hw.
  - apply andb_prop in Hw as [Hw Hwr]. apply andb_prop in Hw as [Hw _]. apply andb_prop in Hw as [_ Hne].
    destruct Hin as [E | Hin]; [injection E as <-; destruct v0; [discriminate Hne | discriminate] | apply (IH true v Hwr Hin)].
  - apply andb_prop in Hw as [_ Hwr]. destruct Hin as [E | Hin]; [discriminate E | apply (IH false v Hwr Hin)].
Qed.

Lemma last_line_lf s : last (lines_of (s ++ [10%N])) [] = [].
Proof.
  rewrite lines_of_app. change (lines_of [10%N]) with [@nil N; @nil N]. cbn [hd tl].
  change (removelast (lines_of s) ++ (last (lines_of s) [] ++ []) :: [[]])
    with (removelast (lines_of s) ++ [last (lines_of s) [] ++ []] ++ [[]]).
  rewrite app_assoc. apply last_last.
Qed.

Section WfPattern2.
Variable eok : expression -> bool.

Theorem wf_ml_pattern els :
  wf_pattern (Pattern els) = true -> wf_pattern_lines (Pattern els) = true -> Forall (el_ok eok) els ->
  ml_pattern eok (Pattern els) = true.
Proof.
  intros Hwp Hlines Hok. rewrite wf_pattern_els in Hwp. apply andb_prop in Hwp as [Hne Hw].
  unfold wf_pattern_lines in Hlines. fold (sk els) in Hlines.
  destruct (lines_of (sk els)) as [|l0 rest] eqn:El; [discriminate Hlines|].
  apply andb_prop in Hlines as [Hlines C5]. apply andb_prop in Hlines as [Hlines C4]. apply andb_prop in Hlines as [Hlines C3].
  apply andb_prop in Hlines as [C1 C2].
  assert (Hp : forallb pline (tl (lines_of (sk els))) = true).
  { rewrite El. cbn [tl]. rewrite forallb_forall in *. intros l Hin. unfold pline. rewrite (C3 l Hin), (C4 l Hin). reflexivity. }
  pose proof (wf_els_ml eok els false Hw Hok Hp) as Hml.
  destruct (skeleton_rest (fun _ => true) (fun _ _ => False) (fun _ => True) ltac:(intros; contradiction) els false
              (ml_elements_mono eok (fun _ => true) els ltac:(reflexivity) false Hml)) as [_ R2].
  rewrite El in R2. cbn [tl] in R2.
  unfold ml_pattern. rewrite Hne, Hml. cbn [andb].
  apply andb_prop in C1 as [C1a C1b]. apply negb_true_iff in C1a. apply Nat.eqb_eq in C1b.
  apply andb_prop in C2 as [C2a C2b]. apply negb_true_iff in C2a. apply Nat.eqb_eq in C2b.
  assert (F : ml_first_ok els = true).
  { destruct els as [|[[|b t]|e] r]; try reflexivity. cbn [ml_first_ok]. rewrite sk_cons in El.
    destruct (N.eqb b 10) eqn:E10.
    - apply N.eqb_eq in E10. subst b. change ((10%N :: t) ++ sk r) with ([] ++ 10%N :: (t ++ sk r)) in El.
      rewrite (lines_of_lf [] _ eq_refl) in El. injection El as <- _. discriminate C1a.
    - cbn [app] in El. rewrite (lines_of_byte b _ E10) in El. injection El as <- _. cbn [leading_spaces] in C1b.
      destruct (N.eqb b 32); [discriminate C1b | reflexivity]. }
  assert (L : ml_last_ok els = true).
  { unfold ml_last_ok. destruct (rev els) as [|[v|e] r'] eqn:Er; try reflexivity.
    assert (Eels : els = rev r' ++ [TextElement v]).
    { rewrite <- (rev_involutive els), Er. reflexivity. }
    assert (Hvne : v <> []) by (apply (wf_els_text_ne els false v Hw); rewrite Eels; apply in_or_app; right; left; reflexivity).
    assert (Esk : sk els = sk (rev r') ++ v) by (rewrite Eels, sk_app; cbn; rewrite app_nil_r; reflexivity).
    assert (Hskne : sk els <> []) by (rewrite Esk; intros E; apply app_eq_nil in E as [_ E]; exact (Hvne E)).
    assert (Elast : last (sk els) 0%N = last v 0%N) by (rewrite Esk; apply last_app_ne, Hvne).
    destruct (N.eqb (last v 0%N) 10) eqn:E10.
    - exfalso. apply N.eqb_eq in E10.
      assert (Esk2 : sk els = removelast (sk els) ++ [10%N]).
      { rewrite <- E10, <- Elast. apply app_removelast_last, Hskne. }
      assert (Hll : last (l0 :: rest) [] = []) by (rewrite <- El, Esk2; apply last_line_lf).
      unfold bytes in *. rewrite Hll in C2a. discriminate C2a.
    - rewrite <- Elast in E10. destruct (last_line_of (sk els) Hskne E10) as [Hll Hlast].
      rewrite El in Hll, Hlast. unfold bytes in *.
      rewrite (rev_last _ Hll) in C2b. cbn [leading_spaces] in C2b. rewrite Hlast, Elast in C2b.
      destruct (N.eqb (last v 0%N) 32); [discriminate C2b | reflexivity]. }
  rewrite F, L. cbn [andb].
  unfold nonblank_lines in R2. unfold bytes in *. rewrite R2 in C5.
  destruct (min_list (own_indents els)) as [m|] eqn:Em.
  - apply Nat.eqb_eq in C5. subst m. apply orb_true_iff. right. apply existsb_exists. exists 0. split; [apply min_list_in, Em | reflexivity].
  - apply orb_true_iff. left. apply negb_true_iff. apply has_lf_sk.
    destruct rest as [|l1 rest']; [apply (lines_single _ _ El)|]. exfalso.
    pose proof (min_list_none _ Em) as Enone. rewrite <- R2 in Enone.
    assert (Hin : In (last (l0 :: l1 :: rest') []) (l1 :: rest')).
    { rewrite (last_cons2 l0 (l1 :: rest') [] ltac:(discriminate)). apply last_in_list'. discriminate. }
    assert (Hin2 : In (last (l0 :: l1 :: rest') []) (filter (fun l => negb (is_blank_line l)) (l1 :: rest'))).
    { apply filter_In. split; [exact Hin | rewrite C2a; reflexivity]. }
    apply (in_map leading_spaces) in Hin2. unfold bytes in *. rewrite Enone in Hin2. destruct Hin2.
Qed.

(* the same for the value of a message / term / attribute (Render.wf_pattern_lines_top, class wl_pattern) *)
Theorem wf_wl_pattern els :
  wf_pattern (Pattern els) = true -> wf_pattern_lines_top (Pattern els) = true -> Forall (el_ok eok) els ->
  wl_pattern eok (Pattern els) = true.
Proof.
  intros Hwp Hlines Hok. rewrite wf_pattern_els in Hwp. apply andb_prop in Hwp as [Hne Hw].
  unfold wf_pattern_lines_top in Hlines. fold (sk els) in Hlines.
  destruct (lines_of (sk els)) as [|l0 rest] eqn:El; [discriminate Hlines|].
  apply andb_prop in Hlines as [Hlines C5]. apply andb_prop in Hlines as [Hlines C4]. apply andb_prop in Hlines as [Hlines C3].
  apply andb_prop in Hlines as [C1 C2].
  assert (Hp : forallb pline (tl (lines_of (sk els))) = true).
  { rewrite El. cbn [tl]. rewrite forallb_forall in *. intros l Hin. unfold pline. rewrite (C3 l Hin), (C4 l Hin). reflexivity. }
  pose proof (wf_els_ml eok els false Hw Hok Hp) as Hml.
  destruct (skeleton_rest (fun _ => true) (fun _ _ => False) (fun _ => True) ltac:(intros; contradiction) els false
              (ml_elements_mono eok (fun _ => true) els ltac:(reflexivity) false Hml)) as [_ R2].
  rewrite El in R2. cbn [tl] in R2.
  unfold wl_pattern. rewrite Hne, Hml. cbn [andb].
  rename C1 into C1a. apply negb_true_iff in C1a.
  apply andb_prop in C2 as [C2a C2b]. apply negb_true_iff in C2a. apply Nat.eqb_eq in C2b.
  assert (F : ml_first_nolf els = true).
  { destruct els as [|[[|b t]|e] r]; try reflexivity. cbn [ml_first_nolf]. rewrite sk_cons in El.
    destruct (N.eqb b 10) eqn:E10; [|reflexivity].
    apply N.eqb_eq in E10. subst b. change ((10%N :: t) ++ sk r) with ([] ++ 10%N :: (t ++ sk r)) in El.
    rewrite (lines_of_lf [] _ eq_refl) in El. injection El as <- _. discriminate C1a. }
  assert (Hne' : els <> []) by (intros ->; discriminate Hne).
  pose proof (first_indent_sp eok els Hne' Hml F) as Hfi. unfold first_indent in Hfi. fold (sk els) in Hfi. rewrite El in Hfi. cbn [hd] in Hfi.
  assert (L : ml_last_ok els = true).
  { unfold ml_last_ok. destruct (rev els) as [|[v|e] r'] eqn:Er; try reflexivity.
    assert (Eels : els = rev r' ++ [TextElement v]).
    { rewrite <- (rev_involutive els), Er. reflexivity. }
    assert (Hvne : v <> []) by (apply (wf_els_text_ne els false v Hw); rewrite Eels; apply in_or_app; right; left; reflexivity).
    assert (Esk : sk els = sk (rev r') ++ v) by (rewrite Eels, sk_app; cbn; rewrite app_nil_r; reflexivity).
    assert (Hskne : sk els <> []) by (rewrite Esk; intros E; apply app_eq_nil in E as [_ E]; exact (Hvne E)).
    assert (Elast : last (sk els) 0%N = last v 0%N) by (rewrite Esk; apply last_app_ne, Hvne).
    destruct (N.eqb (last v 0%N) 10) eqn:E10.
    - exfalso. apply N.eqb_eq in E10.
      assert (Esk2 : sk els = removelast (sk els) ++ [10%N]).
      { rewrite <- E10, <- Elast. apply app_removelast_last, Hskne. }
      assert (Hll : last (l0 :: rest) [] = []) by (rewrite <- El, Esk2; apply last_line_lf).
      unfold bytes in *. rewrite Hll in C2a. discriminate C2a.
    - rewrite <- Elast in E10. destruct (last_line_of (sk els) Hskne E10) as [Hll Hlast].
      rewrite El in Hll, Hlast. unfold bytes in *.
      rewrite (rev_last _ Hll) in C2b. cbn [leading_spaces] in C2b. rewrite Hlast, Elast in C2b.
      destruct (N.eqb (last v 0%N) 32); [discriminate C2b | reflexivity]. }
  rewrite F, L. cbn [andb].
  unfold nonblank_lines in R2. unfold bytes in *. rewrite R2 in C5. rewrite Hfi in C5.
  destruct (first_sp els) eqn:Esp; cbn [negb] in C5.
  - (* the first line is indented *)
    apply andb_prop in C5 as [C5a C5b].
    assert (Hlead : first_line_ok els = true).
    { apply (first_line_sk_conv (fun _ => true) (fun _ _ => False) (fun _ => True) ltac:(intros; contradiction));
        [exact Esp | |]; rewrite El; cbn [hd]; assumption. }
    rewrite Hlead. cbn [andb].
    destruct (min_list (own_indents els)) as [m|] eqn:Em; [|discriminate C5b].
    apply Nat.eqb_eq in C5b. subst m. apply existsb_exists. exists 0. split; [apply min_list_in, Em | reflexivity].
  - destruct (min_list (own_indents els)) as [m|] eqn:Em.
    + apply orb_prop in C5 as [C5 | C5]; [|rewrite C5; apply orb_true_r].
      apply Nat.eqb_eq in C5. subst m. apply orb_true_iff. left. apply orb_true_iff. right. apply existsb_exists. exists 0.
      split; [apply min_list_in, Em | reflexivity].
    + apply orb_true_iff. left. apply orb_true_iff. left. apply negb_true_iff. apply has_lf_sk.
      destruct rest as [|l1 rest']; [apply (lines_single _ _ El)|]. exfalso.
      pose proof (min_list_none _ Em) as Enone. rewrite <- R2 in Enone.
      assert (Hin : In (last (l0 :: l1 :: rest') []) (l1 :: rest')).
      { rewrite (last_cons2 l0 (l1 :: rest') [] ltac:(discriminate)). apply last_in_list'. discriminate. }
      assert (Hin2 : In (last (l0 :: l1 :: rest') []) (filter (fun l => negb (is_blank_line l)) (l1 :: rest'))).
      { apply filter_In. split; [exact Hin | rewrite C2a; reflexivity]. }
      apply (in_map leading_spaces) in Hin2. unfold bytes in *. rewrite Enone in Hin2. destruct Hin2.
Qed.

End WfPattern2.

(* ---------------------------------------------------------------------------------------------- *)
(* 3. Every well-formed expression has a depth                                                      *)

Lemma wf_expr_select s vs :
  wf_expr (Select s vs) =
  (match s with
   | StringLiteral _ | NumberLiteral _ | VariableReference _ | FunctionReference _ _ => true
   | TermReference _ (Some _) _ => true
   | _ => false
   end) && wf_inline s && Nat.eqb (count_defaults vs) 1 && forallb wf_variant vs.
Proof. reflexivity. Qed.

Definition variant_lines_ok (v : variant) : bool := match v with Variant _ value _ => lines_ok_pattern value end.

Lemma lines_ok_select s vs : lines_ok_expr (Select s vs) = lines_ok_inline s && forallb variant_lines_ok vs.
Proof.
  cbn [lines_ok_expr]. f_equal. induction vs as [|[k p d0] r IH]; [reflexivity|]. cbn [forallb variant_lines_ok]. rewrite <- IH. reflexivity.
Qed.

Lemma utf8_select s vs : utf8_expr (Select s vs) = utf8_inline s && forallb utf8_variant vs.
Proof. reflexivity. Qed.

Lemma utf8_pattern_els els : utf8_pattern (Pattern els) = forallb utf8_element els.
Proof. reflexivity. Qed.

Lemma utf8_args_eq pos named : utf8_args (CallArguments pos named) = forallb utf8_inline pos && forallb utf8_named named.
Proof. reflexivity. Qed.

Lemma wf_args_eq pos named :
  wf_args (CallArguments pos named) =
  forallb wf_inline pos &&
  forallb (fun a => match a with NamedArgument n v => wf_identifier n && is_literal v && wf_inline v end) named &&
  no_dup_names named [].
Proof. cbn [wf_args]. rewrite go_wf_pos, go_wf_named. reflexivity. Qed.

Lemma forall_max {X} (P : nat -> X -> Prop) l : (forall d d' x, d <= d' -> P d x -> P d' x) ->
  Forall (fun x => exists d, P d x) l -> exists d, Forall (P d) l.
Proof.
  intros Hm H. induction H as [|x r [dx Hx] _ [dr Hr]]; [exists 0; constructor|].
  exists (Nat.max dx dr). constructor; [apply (Hm dx); [apply Nat.le_max_l | exact Hx]|].
  apply (Forall_impl _ (fun y Hy => Hm dr _ y (Nat.le_max_r dx dr) Hy) Hr).
Qed.

(* a literal that is well-formed and UTF-8 is a simple inline expression *)
Lemma literal_simple v : is_literal v = true -> wf_inline v = true -> utf8_inline v = true -> simple_inline v = true.
Proof.
  destruct v as [s | n | id ca | id att | id att args | id | e]; try discriminate; cbn [wf_inline utf8_inline simple_inline]; intros _ Hw Hu.
  - rewrite Hw, (utf8_starts_char s Hu). reflexivity.
  - exact Hw.
Qed.

Lemma aokn_bsl d s : aokn (S d) s = true ->
  (match s with
   | StringLiteral _ | NumberLiteral _ | VariableReference _ | FunctionReference _ _ => true
   | TermReference _ (Some _) _ => true
   | _ => false
   end) = true -> bsl (aokn d) s = true.
Proof.
  destruct s as [v | v | id ca | id att | id [a|] [ca|] | id | e]; cbn [aokn bsl]; intros H Hs; try discriminate Hs; try exact H.
  rewrite H. reflexivity.
Qed.

Lemma aokn_eokn d i : aokn (S d) i = true -> (forall id a args, i <> TermReference id (Some a) args) -> eokn (S d) (Inline i) = true.
Proof.
  destruct i as [v | v | id ca | id att | id [a|] [ca|] | id | e]; cbn [aokn eokn binl]; intros H Hnt; try exact H;
    try (exfalso; apply (Hnt _ _ _ eq_refl)).
  rewrite andb_true_r in H. exact H.
Qed.

Definition shape_ok (s : inline) : bool :=
  match s with
  | StringLiteral _ | NumberLiteral _ | VariableReference _ | FunctionReference _ _ => true
  | TermReference _ (Some _) _ => true
  | _ => false
  end.

Definition el_wf (x : pattern_element) : Prop :=
  match x with
  | TextElement v => utf8_valid v = true
  | PlaceableElement e => wf_expr e = true /\ lines_ok_expr e = true /\ utf8_expr e = true
  end.

Lemma els_wf els : forall prev, wf_els els prev = true -> lines_ok_els els = true -> forallb utf8_element els = true ->
  Forall el_wf els.
Proof.
  induction els as [|x r IH]; intros prev Hw Hl Hu; [constructor|]. cbn [forallb] in Hu. apply andb_prop in Hu as [Hux Hur].
  destruct x as [v | e]; cbn [wf_els lines_ok_els] in Hw, Hl.
  - apply andb_prop in Hw as [_ Hwr]. constructor; [exact Hux | apply (IH true Hwr Hl Hur)].
  - apply andb_prop in Hw as [Hwe Hwr]. apply andb_prop in Hl as [Hle Hlr].
    constructor; [split; [exact Hwe | split; [exact Hle | exact Hux]] | apply (IH false Hwr Hlr Hur)].
Qed.

Definition Pi (i : inline) : Prop :=
  wf_inline i = true -> lines_ok_inline i = true -> utf8_inline i = true -> exists d, aokn d i = true.
Definition Pe (e : expression) : Prop :=
  wf_expr e = true -> lines_ok_expr e = true -> utf8_expr e = true -> exists d, eokn d e = true.
Definition Pv (v : variant) : Prop :=
  wf_variant v = true -> variant_lines_ok v = true -> utf8_variant v = true -> exists d, RoundTripSel.variant_ok (eokn d) v = true.
Definition Pp (p : pattern) : Prop :=
  wf_pattern p = true -> lines_ok_pattern p = true -> utf8_pattern p = true -> exists d, wl_pattern (eokn d) p = true.
Definition Pel (x : pattern_element) : Prop := el_wf x -> exists d, el_ok (eokn d) x.
Definition Pa (a : call_args) : Prop :=
  wf_args a = true -> match a with CallArguments pos _ => forallb lines_ok_inline pos = true end -> utf8_args a = true ->
  exists d, gargs_ok (aokn d) a = true.
Definition Pn (n : named_arg) : Prop := True.

Lemma variant_ok_le d d' v : d <= d' -> RoundTripSel.variant_ok (eokn d) v = true -> RoundTripSel.variant_ok (eokn d') v = true.
Proof.
  intros Hle. destruct v as [k p d0]. unfold RoundTripSel.variant_ok. intros H. apply andb_prop in H as [Hk Hp].
  rewrite Hk, (wl_pattern_mono (eokn d) (eokn d') p (fun e => eokn_le d d' e Hle) Hp). reflexivity.
Qed.

Lemma el_ok_le d d' x : d <= d' -> el_ok (eokn d) x -> el_ok (eokn d') x.
Proof. intros Hle. destruct x as [v|e]; cbn [el_ok]; [exact (fun H => H) | apply (eokn_le d d' e Hle)]. Qed.

Theorem depth_exists :
  (forall i, Pi i) /\ (forall e, Pe e) /\ (forall v, Pv v) /\ (forall p, Pp p) /\ (forall x, Pel x) /\ (forall a, Pa a) /\ (forall n, Pn n).
Proof.
  apply ast_mutind; unfold Pi, Pe, Pv, Pp, Pel, Pa, Pn.
  - (* StringLiteral *) intros v Hw _ Hu. exists 0. cbn [aokn simple_inline]. cbn [wf_inline utf8_inline] in Hw, Hu.
    rewrite Hw, (utf8_starts_char v Hu). reflexivity.
  - (* NumberLiteral *) intros v Hw _ _. exists 0. exact Hw.
  - (* FunctionReference *)
    intros id a IH Hw Hl Hu. cbn [wf_inline utf8_inline] in Hw, Hu. apply andb_prop in Hw as [Hid Hwa]. apply andb_prop in Hu as [_ Hua].
    destruct a as [pos named]. cbn [lines_ok_inline] in Hl. rewrite go_lines_pos in Hl.
    destruct (IH Hwa Hl Hua) as [d Hd]. exists (S d). cbn [aokn]. rewrite Hid, Hd. reflexivity.
  - (* MessageReference *)
    intros id att Hw _ _. exists 0. cbn [aokn simple_inline]. cbn [wf_inline] in Hw. destruct att; [exact Hw|].
    rewrite andb_true_r in Hw. exact Hw.
  - (* TermReference *)
    intros id att a IH Hw Hl Hu. cbn [wf_inline utf8_inline] in Hw, Hu.
    apply andb_prop in Hw as [Hw Hwa]. apply andb_prop in Hw as [Hid Hatt]. apply andb_prop in Hu as [_ Hua].
    destruct a as [[pos named]|].
    + cbn [lines_ok_inline] in Hl. rewrite go_lines_pos in Hl. cbn [opt_P] in IH.
      destruct (IH Hwa Hl Hua) as [d Hd]. exists (S d).
      change (aokn (S d) (TermReference id att (Some (CallArguments pos named))))
        with (wf_identifier id && match att with Some a => wf_identifier a | None => true end && gargs_ok (aokn d) (CallArguments pos named)).
      rewrite Hid, Hatt, Hd. reflexivity.
    + exists 1. cbn [aokn]. destruct att as [a|]; [rewrite Hid, Hatt; reflexivity | exact Hid].
  - (* VariableReference *) intros id Hw _ _. exists 0. exact Hw.
  - (* Placeable *)
    intros e IH Hw Hl Hu. cbn [wf_inline lines_ok_inline utf8_inline] in Hw, Hl, Hu.
    destruct (IH Hw Hl Hu) as [d Hd]. exists (S d). exact Hd.
  - (* Select *)
    intros s vs IHs IHvs Hw Hl Hu. rewrite wf_expr_select in Hw. rewrite lines_ok_select in Hl. rewrite utf8_select in Hu.
    apply andb_prop in Hw as [Hw Hwvs]. apply andb_prop in Hw as [Hw Hcnt]. apply andb_prop in Hw as [Hshape Hws].
    apply andb_prop in Hl as [Hls Hlvs]. apply andb_prop in Hu as [Hus Huvs].
    destruct (IHs Hws Hls Hus) as [ds Hds].
    assert (Hvs : Forall (fun v => exists d, RoundTripSel.variant_ok (eokn d) v = true) vs).
    { rewrite forallb_forall in Hwvs, Hlvs, Huvs. rewrite Forall_forall in *. intros v Hv.
      apply (IHvs v Hv (Hwvs v Hv) (Hlvs v Hv) (Huvs v Hv)). }
    destruct (forall_max (fun d v => RoundTripSel.variant_ok (eokn d) v = true) vs variant_ok_le Hvs) as [dv Hdv].
    set (d := Nat.max ds dv). exists (S d).
    change (eokn (S d) (Select s vs)) with (bsl (aokn d) s && Nat.eqb (count_defaults vs) 1 && forallb (RoundTripSel.variant_ok (eokn d)) vs).
    rewrite Hcnt, (aokn_bsl d s (aokn_le ds (S d) s (Nat.le_trans _ _ _ (Nat.le_max_l ds dv) (Nat.le_succ_diag_r _)) Hds) Hshape). cbn [andb].
    apply forallb_forall. rewrite Forall_forall in Hdv. intros v Hv. apply (variant_ok_le dv d v (Nat.le_max_r ds dv) (Hdv v Hv)).
  - (* Inline *)
    intros i IH Hw Hl Hu. cbn [lines_ok_expr utf8_expr] in Hl, Hu.
    assert (Hnt : forall id a args, i <> TermReference id (Some a) args) by (intros id a args ->; discriminate Hw).
    assert (Hwi : wf_inline i = true) by (destruct i as [? | ? | ? ? | ? ? | ? [?|] ? | ? | ?]; try exact Hw; discriminate Hw).
    destruct (IH Hwi Hl Hu) as [d Hd]. exists (S d). apply (aokn_eokn d i (aokn_le d (S d) i ltac:(lia) Hd) Hnt).
  - (* Variant *)
    intros k p d0 IH Hw Hl Hu. cbn [wf_variant variant_lines_ok utf8_variant] in Hw, Hl, Hu.
    apply andb_prop in Hw as [Hk Hwp]. apply andb_prop in Hu as [_ Hup].
    destruct (IH Hwp Hl Hup) as [d Hd]. exists d. unfold RoundTripSel.variant_ok. rewrite Hd, andb_true_r. destruct k; exact Hk.
  - (* Pattern *)
    intros els IH Hw Hl Hu. rewrite lines_ok_pattern_els in Hl. apply andb_prop in Hl as [Hlines Hlels].
    rewrite utf8_pattern_els in Hu.
    assert (Hwels : wf_els els false = true) by (rewrite wf_pattern_els in Hw; apply andb_prop in Hw as [_ Hw]; exact Hw).
    pose proof (els_wf els false Hwels Hlels Hu) as Hall.
    assert (Hds : Forall (fun x => exists d, el_ok (eokn d) x) els).
    { rewrite Forall_forall in *. intros x Hx. apply (IH x Hx (Hall x Hx)). }
    destruct (forall_max (fun d x => el_ok (eokn d) x) els el_ok_le Hds) as [d Hd].
    exists d. apply (wf_wl_pattern (eokn d) els Hw Hlines Hd).
  - (* TextElement *) intros v Hv. exists 0. exact Hv.
  - (* PlaceableElement *) intros e IH (Hw & Hl & Hu). apply (IH Hw Hl Hu).
  - (* CallArguments *)
    intros pos named IHp _ Hw Hl Hu. rewrite wf_args_eq in Hw. rewrite utf8_args_eq in Hu.
    apply andb_prop in Hw as [Hw Hdup]. apply andb_prop in Hw as [Hwp Hwn]. apply andb_prop in Hu as [Hup Hun].
    assert (Hps : Forall (fun i => exists d, aokn d i = true) pos).
    { rewrite forallb_forall in Hwp, Hl, Hup. rewrite Forall_forall in *. intros i Hi. apply (IHp i Hi (Hwp i Hi) (Hl i Hi) (Hup i Hi)). }
    destruct (forall_max (fun d i => aokn d i = true) pos (fun d d' i => aokn_le d d' i) Hps) as [d Hd].
    exists d. unfold gargs_ok. rewrite Hdup, andb_true_r. apply andb_true_intro. split.
    + apply forallb_forall. rewrite Forall_forall in Hd. exact Hd.
    + rewrite forallb_forall in *. intros [n v] Hin. specialize (Hwn _ Hin). specialize (Hun _ Hin). cbn [utf8_named] in Hun.
      apply andb_prop in Hwn as [Hwn Hwv]. apply andb_prop in Hwn as [Hn Hlit]. apply andb_prop in Hun as [_ Huv].
      unfold named_ok. rewrite Hn, Hlit, (literal_simple v Hlit Hwv Huv). reflexivity.
  - (* NamedArgument *) intros; exact Logic.I.
Qed.

(* ---------------------------------------------------------------------------------------------- *)
(* 4. Entries and resources                                                                         *)

Lemma wf_wide_comment c : wf_comment c = true -> utf8_comment c = true -> wide_comment c = true.
Proof.
  unfold wf_comment, utf8_comment, wide_comment. destruct (content c) as [|l ls]; [discriminate|].
  cbn [negb andb]. intros Hw Hu.
  rewrite forallb_forall in *. intros x Hx. unfold simple_comment_line. rewrite (Hw x Hx), (utf8_starts_char x (Hu x Hx)). reflexivity.
Qed.

Lemma wf_value_ml p : wf_value p = true -> utf8_pattern p = true -> exists d, wl_pattern (eokn d) p = true.
Proof.
  unfold wf_value. intros H Hu. apply andb_prop in H as [H1 H2].
  destruct depth_exists as (_ & _ & _ & HP & _). apply (HP p H1 H2 Hu).
Qed.

Lemma ml_pattern_le d d' p : d <= d' -> wl_pattern (eokn d) p = true -> wl_pattern (eokn d') p = true.
Proof. intros Hle. apply wl_pattern_mono. intros e. apply (eokn_le d d' e Hle). Qed.

Lemma ml_attribute_le d d' a : d <= d' -> ml_attribute (eokn d) a = true -> ml_attribute (eokn d') a = true.
Proof.
  intros Hle. unfold ml_attribute. intros H. apply andb_prop in H as [H1 H2]. rewrite H1, (ml_pattern_le d d' _ Hle H2). reflexivity.
Qed.

Lemma wf_attributes_ml attrs : forallb wf_attribute attrs = true -> forallb utf8_attribute attrs = true ->
  exists d, forallb (ml_attribute (eokn d)) attrs = true.
Proof.
  intros Hw Hu.
  assert (H : Forall (fun a => exists d, ml_attribute (eokn d) a = true) attrs).
  { rewrite forallb_forall in Hw, Hu. apply Forall_forall. intros a Ha. specialize (Hw a Ha). specialize (Hu a Ha).
    unfold wf_attribute in Hw. unfold utf8_attribute in Hu. apply andb_prop in Hw as [Hid Hv]. apply andb_prop in Hu as [_ Hup].
    destruct (wf_value_ml _ Hv Hup) as [d Hd]. exists d. unfold ml_attribute. rewrite Hid, Hd. reflexivity. }
  destruct (forall_max (fun d a => ml_attribute (eokn d) a = true) attrs ml_attribute_le H) as [d Hd].
  exists d. apply forallb_forall. rewrite Forall_forall in Hd. exact Hd.
Qed.

Lemma attrs_le d d' attrs : d <= d' -> forallb (ml_attribute (eokn d)) attrs = true -> forallb (ml_attribute (eokn d')) attrs = true.
Proof. intros Hle H. rewrite forallb_forall in *. intros a Ha. apply (ml_attribute_le d d' a Hle (H a Ha)). Qed.

Lemma ml_entry_le d d' e : d <= d' -> ml_entry (eokn d) e = true -> ml_entry (eokn d') e = true.
Proof.
  intros Hle. unfold ml_entry. intros H. apply andb_prop in H as [H1 H2]. rewrite H2, andb_true_r.
  destruct e as [id [p|] attrs c | id p attrs c | c | c | c | j]; cbn [strip_comment ml_plain_entry] in *; try exact H1.
  - apply andb_prop in H1 as [H1 Ha]. apply andb_prop in H1 as [Hid Hp].
    rewrite Hid, (ml_pattern_le d d' p Hle Hp), (attrs_le d d' attrs Hle Ha). reflexivity.
  - apply andb_prop in H1 as [H1 Ha]. rewrite H1, (attrs_le d d' attrs Hle Ha). reflexivity.
  - apply andb_prop in H1 as [H1 Ha]. apply andb_prop in H1 as [Hid Hp].
    rewrite Hid, (ml_pattern_le d d' p Hle Hp), (attrs_le d d' attrs Hle Ha). reflexivity.
Qed.

Lemma opt_comment_ok c : match c with Some cm => wf_comment cm | None => true end = true -> utf8_opt_comment c = true ->
  match c with Some cm => wide_comment cm | None => true end = true.
Proof. destruct c as [cm|]; [apply wf_wide_comment | reflexivity]. Qed.

Theorem wf_entry_nest e : wf_entry e = true -> utf8_entry e = true -> exists d, ml_entry (eokn d) e = true.
Proof.
  intros Hw Hu. unfold ml_entry.
  destruct e as [id [p|] attrs c | id p attrs c | c | c | c | j]; cbn [wf_entry utf8_entry strip_comment entry_comment ml_plain_entry] in *.
  - apply andb_prop in Hw as [Hw Hwc]. apply andb_prop in Hw as [Hw Hwa]. apply andb_prop in Hw as [Hid Hwp].
    apply andb_prop in Hu as [Hu Huc]. apply andb_prop in Hu as [Hu Hua]. apply andb_prop in Hu as [_ Hup].
    destruct (wf_value_ml p Hwp Hup) as [d1 Hd1]. destruct (wf_attributes_ml attrs Hwa Hua) as [d2 Hd2].
    exists (Nat.max d1 d2). rewrite Hid, (ml_pattern_le d1 _ p (Nat.le_max_l d1 d2) Hd1), (attrs_le d2 _ attrs (Nat.le_max_r d1 d2) Hd2).
    cbn [andb]. apply (opt_comment_ok c Hwc Huc).
  - apply andb_prop in Hw as [Hw Hwc]. apply andb_prop in Hw as [Hw Hwa]. apply andb_prop in Hw as [Hid Hne].
    apply andb_prop in Hu as [Hu Huc]. apply andb_prop in Hu as [_ Hua].
    destruct (wf_attributes_ml attrs Hwa Hua) as [d2 Hd2].
    exists d2. rewrite Hid, Hne, Hd2. cbn [andb]. apply (opt_comment_ok c Hwc Huc).
  - apply andb_prop in Hw as [Hw Hwc]. apply andb_prop in Hw as [Hw Hwa]. apply andb_prop in Hw as [Hid Hwp].
    apply andb_prop in Hu as [Hu Huc]. apply andb_prop in Hu as [Hu Hua]. apply andb_prop in Hu as [_ Hup].
    destruct (wf_value_ml p Hwp Hup) as [d1 Hd1]. destruct (wf_attributes_ml attrs Hwa Hua) as [d2 Hd2].
    exists (Nat.max d1 d2). rewrite Hid, (ml_pattern_le d1 _ p (Nat.le_max_l d1 d2) Hd1), (attrs_le d2 _ attrs (Nat.le_max_r d1 d2) Hd2).
    cbn [andb]. apply (opt_comment_ok c Hwc Huc).
  - exists 0. rewrite (wf_wide_comment c Hw Hu). reflexivity.
  - exists 0. rewrite (wf_wide_comment c Hw Hu). reflexivity.
  - exists 0. rewrite (wf_wide_comment c Hw Hu). reflexivity.
  - discriminate Hw.
Qed.

(* the fragments are complete: every well-formed UTF-8 tree lies in one of them *)
Theorem wf_resource_nest t : wf_resource t = true -> wf_utf8_resource t = true -> exists d, nest_resource d t = true.
Proof.
  unfold wf_resource, wf_utf8_resource, nest_resource, ml_resource. intros Hw Hu.
  assert (H : Forall (fun e => exists d, ml_entry (eokn d) e = true) t).
  { rewrite forallb_forall in Hw, Hu. apply Forall_forall. intros e He. apply (wf_entry_nest e (Hw e He) (Hu e He)). }
  destruct (forall_max (fun d e => ml_entry (eokn d) e = true) t ml_entry_le H) as [d Hd].
  exists d. apply forallb_forall. rewrite Forall_forall in Hd. exact Hd.
Qed.

(* C02 for every well-formed tree but the shape of finding D7: if the LAST entry is a stand-alone comment, its last
   line is not empty (RoundTrip.last_comment_ok) *)
Theorem parse_render_wf cs t : wf_resource t = true -> wf_utf8_resource t = true -> last_comment_ok t = true ->
  exists t', parse (render cs t) = Done (t', []) /\ map join_entry t' = t.
Proof. intros Hw Hu Hc. destruct (wf_resource_nest t Hw Hu) as [d Hd]. apply (parse_render_nest d cs t Hd Hc). Qed.

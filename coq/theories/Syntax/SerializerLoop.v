(* Syntax/SerializerLoop.v — the entry level of property C04, generic in the patterns (the serializer's
   counterpart of EntryLoop.v).

   Given a class of patterns (`pok`), the text `ptext k els` that serialize_pattern writes for one of them at
   indent level k (from the middle of a line), and the fact that this text is one of the class's layouts
   (`vlay`), this file proves: the serializer returns a text for every resource whose messages, terms and
   attributes have such patterns; the text is a layout (EntryLoop.gresource_layout) of the tree with its
   whitespace-only comment lines emptied; hence (g_parse_serialize) it parses back to a related tree.
   The pattern-independent parts come from SerializerProofs.v and SerializerRoundTrip.v.             *)
From FluentV Require Import Base.Bytes Base.Outcome Base.Utf8.
From FluentV Require Import Syntax.Ast Syntax.ParserModel Syntax.SerializerModel Syntax.Render Syntax.TreeNorm.
From FluentV Require Import Syntax.ParseLemmas Syntax.SerializerProofs Syntax.RoundTrip Syntax.SerializerRoundTrip Syntax.EntryLoop.
From Coq Require Import Lia.

Arguments N.eqb : simpl never.

Section GenericSer.
Variable pok : list pattern_element -> bool.
Variable vlay : list pattern_element -> bytes -> Prop.
Variable ptext : nat -> list pattern_element -> bytes.

(* what serialize_pattern writes, from the middle of a line; it ends in the middle of a line *)
Hypothesis Hser : forall els x, pok els = true -> mid_line x ->
  serialize_pattern (Pattern els) x = Done (Writer (rev (ptext (indent_level x) els) ++ rbuf x) (indent_level x)) /\
  mid_line (Writer (rev (ptext (indent_level x) els) ++ rbuf x) (indent_level x)).
(* ... is a layout of the pattern: as the value of a message or term (level 0), of an attribute (level 1) *)
Hypothesis Hlay : forall k els, pok els = true -> k <= 1 -> vlay els (ptext k els).

Local Notation g_pattern := (g_pattern pok).
Local Notation g_attribute := (g_attribute pok).
Local Notation g_plain_entry := (g_plain_entry pok).
Local Notation g_entry := (g_entry pok).
Local Notation g_resource := (g_resource pok).

Definition g_attr_text (a : attribute) : bytes :=
  match attr_value a with
  | Pattern els => [10; 32; 32; 32; 32; 46]%N ++ attr_id a ++ [32; 61]%N ++ ptext 1 els
  end.
Definition g_attrs_text (attrs : list attribute) : bytes := concat (map g_attr_text attrs).

Lemma g_serialize_attribute a x :
  g_attribute a = true -> mid_line x -> indent_level x = 1 ->
  (newline >> serialize_attribute a) x = Done (Writer (rev (g_attr_text a) ++ rbuf x) 1).
Proof.
  intros Ha [H10 H13] Hl. destruct a as [aid [els]]. unfold EntryLoop.g_attribute in Ha.
  cbn [attr_id attr_value EntryLoop.g_pattern] in Ha. apply andb_prop in Ha as [Hid Hv].
  destruct (wf_identifier_last aid Hid) as (i0 & ib & Eid & Hib10 & Hib13).
  unfold wseq at 1. rewrite (newline_plain x H13). cbn [obind].
  unfold serialize_attribute. cbn [attr_id attr_value].
  unfold wseq at 1. unfold lit at 1. cbn [bytes_of_string]. unfold write_literal at 1.
  replace (ends_with 10 (Writer (10%N :: rbuf x) (indent_level x))) with true by reflexivity.
  unfold write_indent, push_bytes. cbn [rbuf indent_level]. rewrite Hl.
  cbn [indent_bytes]. unfold Gen.Extracted.SERIALIZER_INDENT. cbn [app rev].
  replace (ends_with 13 _ && _) with false by reflexivity. cbn [obind rbuf indent_level].
  unfold wseq at 1. rewrite write_literal_mid by reflexivity. cbn [obind]. unfold push_bytes at 1.
  cbn [rbuf indent_level].
  unfold wseq at 1. unfold lit. cbn [bytes_of_string].
  rewrite write_literal_mid by (rewrite Eid, ends_with_rev_app; assumption).
  cbn [obind]. unfold push_bytes. cbn [rev app rbuf indent_level].
  match goal with |- serialize_pattern _ ?y = _ =>
    destruct (Hser els y Hv ltac:(split; [reflexivity | reflexivity])) as [Ep _] end.
  cbn [indent_level] in Ep. rewrite Ep.
  cbn [rbuf indent_level g_attr_text attr_value attr_id]. do 2 f_equal.
  rewrite !rev_app_distr. cbn [rev app]. rewrite <- !app_assoc. reflexivity.
Qed.

Lemma mid_line_level r l1 l2 : mid_line (Writer r l1) -> mid_line (Writer r l2).
Proof. exact (fun H => H). Qed.

Lemma g_attr_text_mid_line a r lvl : g_attribute a = true -> mid_line (Writer (rev (g_attr_text a) ++ r) lvl).
Proof.
  intros Ha. destruct a as [aid [els]]. unfold EntryLoop.g_attribute in Ha.
  cbn [attr_id attr_value EntryLoop.g_pattern] in Ha. apply andb_prop in Ha as [Hid Hv].
  cbn [g_attr_text attr_value attr_id]. rewrite !app_assoc, rev_app_distr, <- app_assoc.
  apply (mid_line_level _ 1 lvl).
  apply (Hser els (Writer (rev (([10; 32; 32; 32; 32; 46]%N ++ aid) ++ [32; 61]%N) ++ r) 1) Hv).
  rewrite rev_app_distr. split; reflexivity.
Qed.

Lemma g_serialize_attrs_loop attrs : forall x,
  forallb g_attribute attrs = true -> mid_line x -> indent_level x = 1 ->
  serialize_attrs_loop attrs x = Done (Writer (rev (g_attrs_text attrs) ++ rbuf x) 1) /\
  mid_line (Writer (rev (g_attrs_text attrs) ++ rbuf x) 1).
Proof.
  induction attrs as [|a r IH]; intros x Hs Hm Hl.
  - cbn [serialize_attrs_loop g_attrs_text map concat rev app]. unfold wskip.
    destruct x as [rb lvl]. cbn [indent_level] in Hl. subst lvl. split; [reflexivity | exact Hm].
  - cbn [forallb] in Hs. apply andb_prop in Hs as [Ha Hr]. cbn [serialize_attrs_loop].
    rewrite <- wseq_assoc. unfold wseq at 1. rewrite (g_serialize_attribute a x Ha Hm Hl). cbn [obind].
    destruct (IH (Writer (rev (g_attr_text a) ++ rbuf x) 1) Hr (g_attr_text_mid_line a _ _ Ha) eq_refl) as [E Hm'].
    cbn [rbuf] in E, Hm'.
    assert (Et : rev (g_attrs_text (a :: r)) ++ rbuf x = rev (g_attrs_text r) ++ rev (g_attr_text a) ++ rbuf x).
    { unfold g_attrs_text. cbn [map concat]. rewrite rev_app_distr, <- app_assoc. reflexivity. }
    rewrite Et. split; [exact E | exact Hm'].
Qed.

Lemma g_serialize_attributes attrs x :
  forallb g_attribute attrs = true -> mid_line x -> indent_level x = 0 ->
  serialize_attributes attrs x = Done (Writer (rev (g_attrs_text attrs) ++ rbuf x) 0) /\
  mid_line (Writer (rev (g_attrs_text attrs) ++ rbuf x) 0).
Proof.
  intros Hs Hm Hl. destruct attrs as [|a r].
  - cbn [serialize_attributes g_attrs_text map concat rev app]. unfold wskip.
    destruct x as [rb lvl]. cbn [indent_level] in Hl. subst lvl. split; [reflexivity | exact Hm].
  - unfold serialize_attributes. unfold wseq at 1. unfold indent. cbn [obind]. rewrite Hl.
    destruct (g_serialize_attrs_loop (a :: r) (Writer (rbuf x) 1) Hs Hm eq_refl) as [E Hm'].
    unfold wseq. rewrite E. cbn [obind rbuf]. unfold dedent. cbn [indent_level rbuf].
    split; [reflexivity | exact Hm'].
Qed.

(* ---- comments ---- *)

Definition g_plain_entry_text (wrote : bool) (e : entry) : bytes :=
  match e with
  | Message id (Some (Pattern els)) attrs _ =>
      id ++ [32; 61]%N ++ ptext 0 els ++ g_attrs_text attrs ++ [10%N]
  | Message id None attrs _ => id ++ [32; 61]%N ++ g_attrs_text attrs ++ [10%N]
  | Term id (Pattern els) attrs _ =>
      45%N :: id ++ [32; 61]%N ++ ptext 0 els ++ g_attrs_text attrs ++ [10%N]
  | CommentEntry c => lead wrote ++ comment_text [35%N] (content c) ++ [10%N]
  | GroupComment c => lead wrote ++ comment_text [35; 35]%N (content c) ++ [10%N]
  | ResourceComment c => lead wrote ++ comment_text [35; 35; 35]%N (content c) ++ [10%N]
  | _ => []
  end.

Lemma g_serialize_plain_entry with_junk e st :
  g_plain_entry e = true -> at_line_start (w st) -> indent_level (w st) = 0 ->
  serialize_entry with_junk st e =
  Done (SState (Writer (rev (g_plain_entry_text (wrote_non_junk_entry st) e) ++ rbuf (w st)) 0) true).
Proof.
  intros He Hs Hl.
  destruct e as [id [p|] attrs [|]|id p attrs [|]|[ls]|[ls]|[ls]|]; try discriminate; cbn [g_plain_entry] in He.
  4-6: (unfold serialize_entry; cbn [is_junk negb orb]; rewrite orb_true_r;
        rewrite serialize_simple_free_comment by (try exact (proj2 (wide_comment_spec _ He)); try assumption; unfold hash_prefix; auto);
        reflexivity).
  all: apply andb_prop in He as [He Hattrs]; apply andb_prop in He as [Hid Hp];
    destruct (wf_identifier_last id Hid) as (i0 & ib & Eid & Hib10 & Hib13).
  - destruct p as [els]. pose proof Hp as Hv. cbn [EntryLoop.g_pattern] in Hv.
    unfold serialize_entry. cbn [is_junk negb orb]. rewrite orb_true_r.
    unfold serialize_message, serialize_opt_comment.
    unfold wseq at 1. unfold wskip at 1. cbn [obind].
    unfold wseq at 1. rewrite (write_literal_plain id (w st) Hl (at_line_start_no_cr _ Hs)). cbn [obind].
    unfold wseq at 1. unfold lit. cbn [bytes_of_string].
    rewrite write_literal_mid by (rewrite Eid, ends_with_rev_app; assumption).
    cbn [obind]. unfold push_bytes. cbn [rev app rbuf indent_level].
    unfold wseq at 1.
    match goal with |- context [serialize_pattern _ ?y] =>
      destruct (Hser els y Hv ltac:(split; reflexivity)) as [Ep Hmp] end.
    cbn [indent_level rbuf] in Ep, Hmp. rewrite Ep. cbn [obind rbuf indent_level].
    match goal with |- context [(serialize_attributes attrs >> newline) ?x] =>
      destruct (g_serialize_attributes attrs x Hattrs Hmp eq_refl) as [Ea [_ Hm13]] end.
    unfold wseq. rewrite Ea. cbn [obind].
    rewrite newline_plain by exact Hm13.
    cbn [obind rbuf indent_level g_plain_entry_text]. do 3 f_equal.
    rewrite !rev_app_distr. cbn [rev app]. rewrite <- !app_assoc. reflexivity.
  - unfold serialize_entry. cbn [is_junk negb orb]. rewrite orb_true_r.
    unfold serialize_message, serialize_opt_comment.
    unfold wseq at 1. unfold wskip at 1. cbn [obind].
    unfold wseq at 1. rewrite (write_literal_plain id (w st) Hl (at_line_start_no_cr _ Hs)). cbn [obind].
    unfold wseq at 1. unfold lit. cbn [bytes_of_string].
    rewrite write_literal_mid by (rewrite Eid, ends_with_rev_app; assumption).
    cbn [obind]. unfold push_bytes. cbn [rev app rbuf indent_level].
    unfold wseq at 1. unfold wskip at 1. cbn [obind].
    match goal with |- context [(serialize_attributes attrs >> newline) ?x] =>
      destruct (g_serialize_attributes attrs x Hattrs (conj eq_refl eq_refl) eq_refl) as [Ea [_ Hm13]] end.
    unfold wseq. rewrite Ea. cbn [obind].
    rewrite newline_plain by exact Hm13.
    cbn [obind rbuf indent_level g_plain_entry_text]. do 3 f_equal.
    rewrite !rev_app_distr. cbn [rev app]. rewrite <- !app_assoc. reflexivity.
  - destruct p as [els]. pose proof Hp as Hv. cbn [EntryLoop.g_pattern] in Hv.
    unfold serialize_entry. cbn [is_junk negb orb]. rewrite orb_true_r.
    unfold serialize_term, serialize_opt_comment.
    unfold wseq at 1. unfold wskip at 1. cbn [obind].
    unfold wseq at 1. unfold lit at 1. cbn [bytes_of_string].
    rewrite (write_literal_plain _ (w st) Hl (at_line_start_no_cr _ Hs)). cbn [obind].
    unfold wseq at 1. rewrite write_literal_mid by reflexivity. cbn [obind].
    unfold push_bytes at 1. cbn [rev app rbuf indent_level].
    unfold wseq at 1. unfold lit. cbn [bytes_of_string].
    rewrite write_literal_mid by (rewrite Eid, ends_with_rev_app; assumption).
    cbn [obind]. unfold push_bytes. cbn [rev app rbuf indent_level].
    unfold wseq at 1.
    match goal with |- context [serialize_pattern _ ?y] =>
      destruct (Hser els y Hv ltac:(split; reflexivity)) as [Ep Hmp] end.
    cbn [indent_level rbuf] in Ep, Hmp. rewrite Ep. cbn [obind rbuf indent_level].
    match goal with |- context [(serialize_attributes attrs >> newline) ?x] =>
      destruct (g_serialize_attributes attrs x Hattrs Hmp eq_refl) as [Ea [_ Hm13]] end.
    unfold wseq. rewrite Ea. cbn [obind].
    rewrite newline_plain by exact Hm13.
    cbn [obind rbuf indent_level g_plain_entry_text]. do 3 f_equal.
    cbn [rev]. rewrite !rev_app_distr. cbn [rev app]. rewrite <- !app_assoc. reflexivity.
Qed.

(* ---- entries with an attached comment ---- *)
Definition g_attached_text (e : entry) : bytes :=
  match entry_comment e with Some c => comment_text [35%N] (content c) | None => [] end.
Definition g_entry_text (wrote : bool) (e : entry) : bytes := g_attached_text e ++ g_plain_entry_text wrote e.

Lemma serialize_attached with_junk st e0 ls :
  is_message_or_term e0 = true -> entry_comment e0 = None ->
  serialize_entry with_junk st (attach e0 (Comment ls)) =
  let* x1 := serialize_comment_lines ls [35%N] (w st) in
  serialize_entry with_junk (SState x1 (wrote_non_junk_entry st)) e0.
Proof.
  intros Hmt Hc. destruct e0 as [id v a cm|id v a cm| | | |]; try discriminate Hmt; cbn [entry_comment] in Hc; subst cm;
    cbn [attach]; unfold serialize_entry; cbn [is_junk negb orb w wrote_non_junk_entry].
  - unfold serialize_message, serialize_opt_comment, serialize_comment. cbn [content].
    unfold wseq at 1. destruct (serialize_comment_lines ls [35%N] (w st)); reflexivity.
  - unfold serialize_term, serialize_opt_comment, serialize_comment. cbn [content].
    unfold wseq at 1. destruct (serialize_comment_lines ls [35%N] (w st)); reflexivity.
Qed.

Lemma g_plain_entry_text_attach wrote e0 c : is_message_or_term e0 = true ->
  g_plain_entry_text wrote (attach e0 c) = g_plain_entry_text wrote e0.
Proof. destruct e0; try discriminate; reflexivity. Qed.

Lemma g_serialize_entry with_junk e st :
  g_entry e = true -> at_line_start (w st) -> indent_level (w st) = 0 ->
  serialize_entry with_junk st e =
  Done (SState (Writer (rev (g_entry_text (wrote_non_junk_entry st) e) ++ rbuf (w st)) 0) true).
Proof.
  intros He Hs Hl. unfold g_entry_text, g_attached_text.
  destruct ((g_entry_cases pok) e He) as [[Hc Hp] | (e0 & ls & -> & Hmt & Hc & Hp & Hcm)].
  - rewrite Hc. cbn [app]. apply (g_serialize_plain_entry with_junk e st Hp Hs Hl).
  - rewrite (serialize_attached with_junk st e0 ls Hmt Hc).
    destruct (wide_comment_spec ls Hcm) as [_ Hlines].
    destruct (serialize_simple_comment_lines ls [35%N] (w st) (or_introl eq_refl) Hlines Hs Hl) as [E1 Hs1].
    rewrite E1. cbn [obind].
    rewrite (g_serialize_plain_entry with_junk e0 (SState (Writer (rev (comment_text [35%N] ls) ++ rbuf (w st)) 0) (wrote_non_junk_entry st))
               Hp Hs1 eq_refl). cbn [w rbuf wrote_non_junk_entry].
    replace (entry_comment (attach e0 (Comment ls))) with (Some (Comment ls))
      by (destruct e0; try discriminate Hmt; reflexivity).
    cbn [content]. rewrite (g_plain_entry_text_attach _ e0 _ Hmt). rewrite rev_app_distr, <- app_assoc. reflexivity.
Qed.

Fixpoint g_text_from (wrote : bool) (t : resource) : bytes :=
  match t with
  | [] => []
  | e :: r => g_entry_text wrote e ++ g_text_from true r
  end.
Definition g_resource_text (t : resource) : bytes := g_text_from false t.

Lemma g_plain_entry_text_ends_lf wrote e : g_plain_entry e = true -> exists l, g_plain_entry_text wrote e = l ++ [10%N].
Proof.
  destruct e as [id [p|] attrs [|]|id p attrs [|]|c|c|c|]; try discriminate; cbn [g_plain_entry]; intros He.
  4-6: (cbn [g_plain_entry_text]; eexists; rewrite app_assoc; reflexivity).
  all: apply andb_prop in He as [He _]; apply andb_prop in He as [_ Hp].
  - destruct p as [els]. pose proof Hp as Hv. cbn [EntryLoop.g_pattern] in Hv. cbn [g_plain_entry_text].
    exists (id ++ [32; 61]%N ++ ptext 0 els ++ g_attrs_text attrs). norm_app. reflexivity.
  - cbn [g_plain_entry_text]. exists (id ++ [32; 61]%N ++ g_attrs_text attrs). norm_app. reflexivity.
  - destruct p as [els]. pose proof Hp as Hv. cbn [EntryLoop.g_pattern] in Hv. cbn [g_plain_entry_text].
    exists (45%N :: id ++ [32; 61]%N ++ ptext 0 els ++ g_attrs_text attrs). norm_app. reflexivity.
Qed.

Lemma g_entry_text_ends_lf wrote e : g_entry e = true -> exists l, g_entry_text wrote e = l ++ [10%N].
Proof.
  intros He. unfold g_entry_text.
  destruct ((g_entry_cases pok) e He) as [[Hc Hp] | (e0 & ls & -> & Hmt & Hc & Hp & Hcm)].
  - destruct (g_plain_entry_text_ends_lf wrote e Hp) as [l El]. exists (g_attached_text e ++ l). rewrite El, app_assoc. reflexivity.
  - rewrite (g_plain_entry_text_attach _ e0 _ Hmt). destruct (g_plain_entry_text_ends_lf wrote e0 Hp) as [l El].
    eexists. rewrite El, app_assoc. reflexivity.
Qed.

Lemma g_serialize_resource with_junk t : forall st,
  g_resource t = true -> at_line_start (w st) -> indent_level (w st) = 0 ->
  exists wrote, serialize_resource with_junk st t =
  Done (SState (Writer (rev (g_text_from (wrote_non_junk_entry st) t) ++ rbuf (w st)) 0) wrote).
Proof.
  induction t as [|e r IH]; intros st Ht Hs Hl.
  - exists (wrote_non_junk_entry st). cbn [serialize_resource g_text_from rev app].
    destruct st as [[rb lvl] wr]. cbn [w indent_level] in Hl. subst lvl. reflexivity.
  - cbn [g_resource forallb] in Ht. apply andb_prop in Ht as [He Hr].
    cbn [serialize_resource]. rewrite (g_serialize_entry with_junk e st He Hs Hl). cbn [obind].
    destruct (g_entry_text_ends_lf (wrote_non_junk_entry st) e He) as [l El].
    destruct (IH (SState (Writer (rev (g_entry_text (wrote_non_junk_entry st) e) ++ rbuf (w st)) 0) true) Hr) as [wrote E].
    + right. cbn [w rbuf]. rewrite El, rev_app_distr. eexists. reflexivity.
    + reflexivity.
    + exists wrote. rewrite E. cbn [w rbuf wrote_non_junk_entry g_text_from].
      rewrite rev_app_distr, <- app_assoc. reflexivity.
Qed.

Theorem g_serialize with_junk t : g_resource t = true ->
  serialize_with_options with_junk t = Done (g_resource_text t).
Proof.
  intros Ht. unfold serialize_with_options.
  destruct (g_serialize_resource with_junk t (SState (Writer [] 0) false) Ht (or_introl eq_refl) eq_refl)
    as [wrote E].
  rewrite E. cbn [obind w rbuf wrote_non_junk_entry]. rewrite app_nil_r, rev_involutive. reflexivity.
Qed.


Lemma nz_comment_wide ls : wide_comment (Comment ls) = true -> wide_comment (nz_comment (Comment ls)) = true.
Proof.
  unfold wide_comment, nz_comment. cbn [content]. intros H.
  assert (Hne : ls <> []) by (destruct ls; [discriminate H | discriminate]).
  assert (H1 : forallb simple_comment_line ls = true) by (destruct ls; [congruence | exact H]).
  destruct (map nz_line ls) as [|m ms] eqn:Em; [destruct ls; [congruence | discriminate Em]|].
  rewrite <- Em. rewrite forallb_forall in *. intros x Hx. apply in_map_iff in Hx as [y [<- Hy]]. apply nz_line_simple, H1, Hy.
Qed.

Lemma g_nz_entry e : g_entry e = true -> g_entry (nz_entry e) = true.
Proof.
  unfold g_entry. intros H. apply andb_prop in H as [Hp Hc].
  destruct e as [id v a [[ls]|]|id v a [[ls]|]|[ls]|[ls]|[ls]|j];
    cbn [nz_entry strip_comment entry_comment option_map g_plain_entry] in *;
    rewrite ?Hp; cbn [andb]; try reflexivity; try (apply nz_comment_wide; assumption).
  all: rewrite (nz_comment_wide ls Hp); reflexivity.
Qed.

Lemma g_nz_resource t : g_resource t = true -> g_resource (nz_resource t) = true.
Proof.
  unfold g_resource, nz_resource. rewrite !forallb_forall. intros H e He.
  apply in_map_iff in He as [e0 [<- He0]]. apply g_nz_entry, H, He0.
Qed.


Lemma g_attrs_text_layout attrs : forallb g_attribute attrs = true -> (gattrs_layout vlay) attrs (g_attrs_text attrs).
Proof.
  induction attrs as [|a r IH]; intros Hs; [constructor|].
  cbn [forallb] in Hs. apply andb_prop in Hs as [Ha Hr].
  unfold g_attrs_text. cbn [map concat]. constructor; [|apply IH, Hr].
  destruct a as [aid [els]]. unfold EntryLoop.g_attribute in Ha.
  cbn [attr_id attr_value EntryLoop.g_pattern] in Ha. apply andb_prop in Ha as [_ Hp].
  cbn [g_attr_text attr_value attr_id].
  replace ([10; 32; 32; 32; 32; 46]%N ++ aid ++ [32; 61]%N ++ ptext 1 els)
    with (lf ++ sp 4 ++ 46%N :: aid ++ sp 1 ++ 61%N :: ptext 1 els) by reflexivity.
  apply (gatl vlay aid els lf 3 1 (ptext 1 els)); [left; reflexivity | apply (Hlay 1 els Hp); lia].
Qed.


Lemma g_plain_entry_text_layout wrote e : g_plain_entry e = true ->
  exists E, g_plain_entry_text wrote e = lead_of wrote e ++ E ++ lf ++ trail e /\ (gplain_layout vlay) (nz_entry e) E.
Proof.
  destruct e as [id [p|] attrs [|]|id p attrs [|]|[ls]|[ls]|[ls]|]; try discriminate; cbn [g_plain_entry]; intros He.
  4-6: (apply wide_comment_ne in He; cbn [content] in He;
        cbn [g_plain_entry_text content lead_of trail is_comment_entry nz_entry nz_comment];
        match goal with |- context [comment_text ?P ?L] => destruct (comment_text_layout P L He) as [C [EC HC]] end;
        exists C; rewrite EC; split; [rewrite <- !app_assoc; reflexivity | constructor; exact HC]).
  all: apply andb_prop in He as [He Hattrs]; apply andb_prop in He as [_ Hp];
    cbn [lead_of trail is_comment_entry app nz_entry option_map]; rewrite ?app_nil_r.
  - destruct p as [els]. pose proof Hp as Hv. cbn [EntryLoop.g_pattern] in Hv. cbn [g_plain_entry_text].
    exists (id ++ sp 1 ++ 61%N :: ptext 0 els ++ g_attrs_text attrs). split.
    + unfold lf. cbn [sp repeat]. norm_app. reflexivity.
    + apply gel_message; [apply (Hlay 0 els Hv); lia | apply g_attrs_text_layout, Hattrs].
  - cbn [g_plain_entry_text].
    exists (id ++ sp 1 ++ 61%N :: g_attrs_text attrs). split.
    + unfold lf. cbn [sp repeat]. norm_app. reflexivity.
    + apply gel_message_novalue; [|apply g_attrs_text_layout, Hattrs]. destruct attrs; [discriminate Hp | discriminate].
  - destruct p as [els]. pose proof Hp as Hv. cbn [EntryLoop.g_pattern] in Hv. cbn [g_plain_entry_text].
    exists (45%N :: id ++ sp 1 ++ 61%N :: ptext 0 els ++ g_attrs_text attrs). split.
    + unfold lf. cbn [sp repeat]. norm_app. reflexivity.
    + apply gel_term; [apply (Hlay 0 els Hv); lia | apply g_attrs_text_layout, Hattrs].
Qed.

Lemma g_entry_text_layout wrote e : g_entry e = true ->
  exists E, g_entry_text wrote e = lead_of wrote e ++ E ++ lf ++ trail e /\ (gentry_layout vlay) (nz_entry e) E.
Proof.
  intros He. unfold g_entry_text, g_attached_text.
  destruct ((g_entry_cases pok) e He) as [[Hc Hp] | (e0 & ls & -> & Hmt & Hc & Hp & Hcm)].
  - rewrite Hc. cbn [app]. destruct (g_plain_entry_text_layout wrote e Hp) as [E [EE HE]].
    exists E. split; [exact EE|]. apply gel_plain; [|exact HE].
    destruct e as [? ? ? cm|? ? ? cm| | | |]; cbn [entry_comment] in Hc; try subst cm; reflexivity.
  - replace (entry_comment (attach e0 (Comment ls))) with (Some (Comment ls))
      by (destruct e0; try discriminate Hmt; reflexivity).
    cbn [content]. rewrite (g_plain_entry_text_attach _ e0 _ Hmt).
    destruct (g_plain_entry_text_layout wrote e0 Hp) as [E [EE HE]]. rewrite EE.
    pose proof (wide_comment_ne _ Hcm) as Hne. cbn [content] in Hne.
    destruct (comment_text_layout [35%N] ls Hne) as [C [EC HC]]. rewrite EC.
    assert (Hnz0 : nz_entry e0 = e0).
    { destruct e0 as [? ? ? cm|? ? ? cm| | | |]; try discriminate Hmt; cbn [entry_comment] in Hc; subst cm; reflexivity. }
    assert (Hl : lead_of wrote (attach e0 (Comment ls)) = [] /\ trail (attach e0 (Comment ls)) = [] /\
                 lead_of wrote e0 = [] /\ trail e0 = []).
    { destruct e0; try discriminate Hmt; repeat split; reflexivity. }
    destruct Hl as (-> & -> & -> & ->). cbn [app]. rewrite !app_nil_r.
    exists (C ++ lf ++ E). split; [rewrite <- !app_assoc; reflexivity|].
    replace (nz_entry (attach e0 (Comment ls))) with (attach e0 (Comment (map nz_line ls)))
      by (destruct e0; try discriminate Hmt; reflexivity).
    rewrite Hnz0 in HE. apply gel_attached; try assumption. left; reflexivity.
Qed.

Definition lead_of_list (wrote : bool) (t : resource) : bytes :=
  match t with e :: _ => lead_of wrote e | [] => [] end.

Lemma blank_one : blank_lines_of 1 [10%N].
Proof. apply (bl_cons 0 lf 0 [] (or_introl eq_refl) bl_nil). Qed.
Lemma blank_two : blank_lines_of 2 [10; 10]%N.
Proof. apply (bl_cons 0 lf 1 [10%N] (or_introl eq_refl) blank_one). Qed.

Lemma g_text_from_layout t : forall wrote, g_resource t = true ->
  exists S, g_text_from wrote t = lead_of_list wrote t ++ S /\ (gentries_layout vlay) (nz_resource t) S.
Proof.
  induction t as [|e r IH]; intros wrote Ht; [exists []; split; [reflexivity | constructor]|].
  cbn [g_resource forallb] in Ht. apply andb_prop in Ht as [He Hr].
  destruct (g_entry_text_layout wrote e He) as [E [EE HE]].
  destruct (IH true Hr) as [S' [ES' HS']].
  cbn [g_text_from lead_of_list nz_resource map]. rewrite EE, ES'.
  exists (E ++ lf ++ (trail e ++ lead_of_list true r) ++ S'). split; [rewrite <- !app_assoc; reflexivity|].
  constructor; [exact HE|].
  assert (Hbl : exists c, blank_lines_of c (trail e ++ lead_of_list true r) /\
                          match map nz_entry r with e2 :: _ => min_blank_between (nz_entry e) e2 <= c | [] => True end).
  { unfold trail, lead_of_list, lead_of, lead, min_blank_between.
    destruct r as [|e2 r2].
    - destruct (is_comment_entry e); eexists; (split; [|exact Logic.I]); [apply blank_one | constructor].
    - destruct e as [? ? ? ?|? ? ? ?|?|?|?|?]; try discriminate He;
        destruct e2 as [? ? ? ?|? ? ? ?|?|?|?|?];
        cbn [map nz_entry is_comment_entry comment_level is_message_or_term Nat.eqb andb negb app];
        eexists; (split; [first [apply blank_two | apply blank_one | constructor] | lia]). }
  destruct Hbl as [c [Hbl Hmin]].
  apply (gtl_more vlay (nz_entry e) (map nz_entry r) lf c _ S'); [left; reflexivity | exact Hbl | exact HS' | exact Hmin].
Qed.

Lemma g_resource_text_layout t : g_resource t = true -> (gentries_layout vlay) (nz_resource t) (g_resource_text t).
Proof.
  intros Ht. destruct (g_text_from_layout t false Ht) as [S [ES HS]].
  unfold g_resource_text. rewrite ES.
  replace (lead_of_list false t) with (@nil N); [exact HS|].
  destruct t as [|e r]; [reflexivity|]. unfold lead_of_list, lead_of, lead. destruct (is_comment_entry e); reflexivity.
Qed.

Lemma g_resource_text_rlayout t : g_resource t = true -> gresource_layout vlay (nz_resource t) (g_resource_text t).
Proof.
  intros Ht. replace (g_resource_text t) with ([] ++ g_resource_text t) by reflexivity.
  apply (grl vlay 0 [] (nz_resource t)); [constructor | apply g_resource_text_layout, Ht].
Qed.

(* the serializer's text parses back to a tree related to the serialized one (comment lines emptied) *)
Theorem g_parse_serialize (rel : list pattern_element -> list pattern_element -> Prop) with_junk t :
  (forall bs els V T used c nx p n,
      pok els = true -> vlay els V -> after_value T used c nx -> at_ bs p (V ++ T) ->
      3 * length (V ++ T) + 12 <= n ->
      exists els', get_pattern bs n p = Ok (Some (Pattern els')) (used + (length V + p)) /\ rel els' els) ->
  (forall els V, pok els = true -> vlay els V ->
      exists k V0, V = sp k ++ V0 /\ vlay els (sp 0 ++ V0) /\ forall T, head_not is_space (V0 ++ T)) ->
  g_resource t = true ->
  exists t2, serialize_with_options with_junk t = Done (g_resource_text t) /\
             parse (g_resource_text t) = Done (t2, []) /\ Forall2 (rel_entry rel) t2 (nz_resource t).
Proof.
  intros Hpat Hstrip Ht.
  destruct (g_parse_layout pok vlay rel (nz_resource t) (g_resource_text t) (Hpat (g_resource_text t)) Hstrip
              (g_nz_resource t Ht) (g_resource_text_rlayout t Ht)) as (t2 & E & Hrel).
  exists t2. split; [apply g_serialize, Ht | split; assumption].
Qed.


Lemma g_entry_text_nz wrote e : g_entry_text wrote (nz_entry e) = g_entry_text wrote e.
Proof.
  unfold g_entry_text, g_attached_text.
  destruct e as [id [[els]|] a [[ls]|]|id [els] a [[ls]|]|[ls]|[ls]|[ls]|j];
    cbn [nz_entry option_map entry_comment nz_comment content g_plain_entry_text]; rewrite ?comment_text_nz; reflexivity.
Qed.

Lemma g_text_from_nz t : forall wrote, g_text_from wrote (nz_resource t) = g_text_from wrote t.
Proof.
  induction t as [|e r IH]; intros wrote; [reflexivity|].
  cbn [nz_resource map g_text_from]. rewrite g_entry_text_nz. f_equal. apply IH.
Qed.

Theorem g_serialize_nz with_junk t : g_resource t = true ->
  serialize_with_options with_junk (nz_resource t) = serialize_with_options with_junk t.
Proof.
  intros Ht. rewrite (g_serialize with_junk _ (g_nz_resource t Ht)), (g_serialize with_junk t Ht).
  unfold g_resource_text. rewrite g_text_from_nz. reflexivity.
Qed.

(* ---- related trees have the same text ---- *)
Section RelText.
Variable rel : list pattern_element -> list pattern_element -> Prop.
Hypothesis Hrel : forall els' els, rel els' els -> pok els = true ->
  pok els' = true /\ forall k, ptext k els' = ptext k els.

Lemma g_rel_attrs a' a : Forall2 (rel_attr rel) a' a -> forallb g_attribute a = true ->
  forallb g_attribute a' = true /\ g_attrs_text a' = g_attrs_text a.
Proof.
  induction 1 as [|x y l l' Hxy Hl IH]; intros Ha; [split; reflexivity|].
  cbn [forallb] in Ha. apply andb_prop in Ha as [Hy Hl']. destruct (IH Hl') as [I1 I2].
  destruct x as [id' [els']], y as [id [els]]. destruct Hxy as [Hid Hp]. cbn [attr_id attr_value] in Hid, Hp. subst id'.
  unfold rel_pattern in Hp. cbn [pattern_elements] in Hp.
  unfold EntryLoop.g_attribute in Hy. cbn [attr_id attr_value EntryLoop.g_pattern] in Hy. apply andb_prop in Hy as [Hy1 Hy2].
  destruct (Hrel els' els Hp Hy2) as [R1 R2].
  split.
  - cbn [forallb]. rewrite I1. unfold EntryLoop.g_attribute. cbn [attr_id attr_value EntryLoop.g_pattern]. rewrite Hy1, R1. reflexivity.
  - unfold g_attrs_text in *. cbn [map concat]. rewrite I2. f_equal. unfold g_attr_text. cbn [attr_id attr_value]. rewrite R2. reflexivity.
Qed.

Lemma g_rel_entry e' e : rel_entry rel e' e -> g_entry e = true ->
  g_entry e' = true /\ forall wrote, g_entry_text wrote e' = g_entry_text wrote e.
Proof.
  unfold g_entry, g_entry_text, g_attached_text.
  destruct e' as [id' [[els']|] a' c'|id' [els'] a' c'|c'|c'|c'|j'], e as [id [[els]|] a c|id [els] a c|c|c|c|j];
    cbn [rel_entry]; intros H He; try contradiction; try (subst; split; [exact He | reflexivity]).
  - destruct H as (-> & Hp & Ha & ->). unfold rel_pattern in Hp. cbn [pattern_elements] in Hp.
    cbn [strip_comment entry_comment EntryLoop.g_plain_entry EntryLoop.g_pattern g_plain_entry_text] in *.
    apply andb_prop in He as [He Hc]. apply andb_prop in He as [He Hattrs]. apply andb_prop in He as [Hid Hv].
    destruct (Hrel els' els Hp Hv) as [R1 R2]. destruct (g_rel_attrs a' a Ha Hattrs) as [A1 A2].
    rewrite Hid, R1, A1, Hc, A2, R2. split; reflexivity.
  - destruct H as (-> & Ha & ->).
    cbn [strip_comment entry_comment EntryLoop.g_plain_entry g_plain_entry_text] in *.
    apply andb_prop in He as [He Hc]. apply andb_prop in He as [He Hattrs]. apply andb_prop in He as [Hid Hne].
    destruct (g_rel_attrs a' a Ha Hattrs) as [A1 A2].
    rewrite Hid, A1, Hc, A2. split; [|reflexivity].
    replace (match a' with [] => true | _ :: _ => false end) with (match a with [] => true | _ :: _ => false end)
      by (inversion Ha; reflexivity).
    rewrite Hne. reflexivity.
  - destruct H as (-> & Hp & Ha & ->). unfold rel_pattern in Hp. cbn [pattern_elements] in Hp.
    cbn [strip_comment entry_comment EntryLoop.g_plain_entry EntryLoop.g_pattern g_plain_entry_text] in *.
    apply andb_prop in He as [He Hc]. apply andb_prop in He as [He Hattrs]. apply andb_prop in He as [Hid Hv].
    destruct (Hrel els' els Hp Hv) as [R1 R2]. destruct (g_rel_attrs a' a Ha Hattrs) as [A1 A2].
    rewrite Hid, R1, A1, Hc, A2, R2. split; reflexivity.
Qed.

Lemma g_rel_text t2 t : Forall2 (rel_entry rel) t2 t -> g_resource t = true ->
  g_resource t2 = true /\ forall wrote, g_text_from wrote t2 = g_text_from wrote t.
Proof.
  induction 1 as [|x y l l' Hxy Hl IH]; intros Ht; [split; reflexivity|].
  cbn [EntryLoop.g_resource forallb] in Ht. apply andb_prop in Ht as [Hy Hl']. destruct (IH Hl') as [I1 I2].
  destruct (g_rel_entry x y Hxy Hy) as [E1 E2]. split.
  - unfold EntryLoop.g_resource in *. cbn [forallb]. rewrite E1, I1. reflexivity.
  - intros wrote. cbn [g_text_from]. rewrite E2, I2. reflexivity.
Qed.
End RelText.

(* ---- related trees join to the same tree ---- *)
Lemma g_rel_join (rel : list pattern_element -> list pattern_element -> Prop) t2 t :
  (forall els' els, rel els' els -> pok els = true -> join_pattern (Pattern els') = join_pattern (Pattern els)) ->
  Forall2 (rel_entry rel) t2 t -> g_resource t = true -> map join_entry t2 = map join_entry t.
Proof.
  intros Hjoin.
  assert (Hattrs : forall a' a, Forall2 (rel_attr rel) a' a -> forallb g_attribute a = true ->
                                map join_attribute a' = map join_attribute a).
  { induction 1 as [|x y l l' Hxy Hl IH]; intros Ha; [reflexivity|].
    cbn [forallb] in Ha. apply andb_prop in Ha as [Hy Hl']. cbn [map]. rewrite (IH Hl'). f_equal.
    destruct x as [id' [els']], y as [id [els]]. destruct Hxy as [Hid Hp]. cbn [attr_id attr_value] in Hid, Hp. subst id'.
    unfold rel_pattern in Hp. cbn [pattern_elements] in Hp.
    unfold EntryLoop.g_attribute in Hy. cbn [attr_id attr_value EntryLoop.g_pattern] in Hy. apply andb_prop in Hy as [_ Hy2].
    unfold join_attribute. cbn [attr_id attr_value]. rewrite (Hjoin els' els Hp Hy2). reflexivity. }
  induction 1 as [|e' e l l' Hxy Hl IH]; intros Ht; [reflexivity|].
  cbn [EntryLoop.g_resource forallb] in Ht. apply andb_prop in Ht as [He Hl']. cbn [map]. rewrite (IH Hl'). f_equal.
  unfold EntryLoop.g_entry in He. apply andb_prop in He as [He _].
  destruct e' as [id' [[els']|] a' c'|id' [els'] a' c'|c'|c'|c'|j'], e as [id [[els]|] a c|id [els] a c|c|c|c|j];
    cbn [rel_entry] in Hxy; try contradiction; try (subst; reflexivity);
    cbn [strip_comment EntryLoop.g_plain_entry EntryLoop.g_pattern] in He.
  - destruct Hxy as (-> & Hp & Ha & ->). unfold rel_pattern in Hp. cbn [pattern_elements] in Hp.
    apply andb_prop in He as [He Hattrs']. apply andb_prop in He as [_ Hv].
    cbn [join_entry option_map]. rewrite (Hjoin els' els Hp Hv), (Hattrs a' a Ha Hattrs'). reflexivity.
  - destruct Hxy as (-> & Ha & ->). apply andb_prop in He as [_ Hattrs'].
    cbn [join_entry option_map]. rewrite (Hattrs a' a Ha Hattrs'). reflexivity.
  - destruct Hxy as (-> & Hp & Ha & ->). unfold rel_pattern in Hp. cbn [pattern_elements] in Hp.
    apply andb_prop in He as [He Hattrs']. apply andb_prop in He as [_ Hv].
    cbn [join_entry]. rewrite (Hjoin els' els Hp Hv), (Hattrs a' a Ha Hattrs'). reflexivity.
Qed.

End GenericSer.

Lemma norm_of_join t2 t : map join_entry t2 = map join_entry t -> norm t2 = norm t.
Proof.
  revert t. induction t2 as [|e2 r2 IH]; intros [|e r] H; try discriminate H; [reflexivity|].
  cbn [map] in H. injection H as He Hr. unfold norm in *. cbn [map]. rewrite (IH r Hr). f_equal.
  unfold norm_entry. rewrite He. reflexivity.
Qed.

(* Syntax/ParserWf.v — towards "every error-free parser output satisfies the premise of the C04 round trip".

   Render.wf_resource (the grammar's conditions on a tree) = wf_pattern (content: non-empty patterns, text bytes,
   identifiers, literals, call arguments, select expressions) + lines_ok_pattern (the LINE rules of every pattern:
   Render.wf_pattern_lines_top) + well-formed comments.  This file proves the first group for every parser output:

     parse_wf_content : parse bs = Done (t, errs) -> text_bytes_ok t -> Forall (fun e => wf_entry_content (join_entry e) = true) t
                        for every entry that is not Junk ... (see the statement)

   where text_bytes_ok t (executable: nocr_resource) says that no text element contains a CR (a lone CR is a legal
   text character that Render.v leaves out, see Props/C04.v), and wf_entry_content is Render.wf_entry without the
   line rules and without the comments.  Ingredients: ParserShape.parse_shape (structure), ParserLex.parse_lex
   (identifiers, numbers, strings), and the joining of adjacent text elements.  What remains of wf_resource is
   stated as the executable `lines_and_comments_ok`, and wf_content_lines assembles the three.

   Second part (below, with Syntax/ParserLines.v), for sources in which every CR is followed by LF (no_lone_cr bs; a
   source without CR, nocr bs, is the special case): the text elements of the tree hold no CR (parse_nocr_crlf: the CR
   of a CR LF line end is left out by the parser), the comment lines have neither LF nor CR (parse_comment_lines_crlf),
   and with the line rules (ParserLines.parse_lines_crlf) the whole premise follows:

     parse_wf_errorfree_crlf : parse bs = Done (t, []) -> no_lone_cr bs = true -> comments_nonempty t = true ->
                               wf_resource (map join_entry t) = true

   comments_nonempty (executable) excludes exactly the zero-line comment of finding D7. *)
From FluentV Require Import Base.Bytes Base.BytesFacts Base.Outcome Base.Utf8 Syntax.Ast Syntax.ParserModel Syntax.ParserAccounting.
From FluentV Require Import Syntax.Render Syntax.TreeNorm Syntax.RoundTrip Syntax.SerializerProofs Syntax.ParserShape Syntax.ParserLex.
From Coq Require Import Lia List.
Import ListNotations.

(* ---- no CR in the text elements, at every depth (executable) ---- *)
Definition nocr_text (v : bytes) : bool := forallb (fun b => negb (N.eqb b 13)) v.

Fixpoint nocr_inline (i : inline) : bool :=
  match i with
  | FunctionReference _ ca => nocr_args ca
  | TermReference _ _ (Some ca) => nocr_args ca
  | Placeable e => nocr_expr e
  | _ => true
  end
with nocr_expr (e : expression) : bool :=
  match e with
  | Inline i => nocr_inline i
  | Select s vs =>
      nocr_inline s && (fix go (l : list variant) : bool := match l with [] => true | v :: r => nocr_variant v && go r end) vs
  end
with nocr_variant (v : variant) : bool := match v with Variant _ p _ => nocr_pattern p end
with nocr_pattern (p : pattern) : bool :=
  match p with
  | Pattern els => (fix go (l : list pattern_element) : bool := match l with [] => true | x :: r => nocr_element x && go r end) els
  end
with nocr_element (x : pattern_element) : bool :=
  match x with TextElement v => nocr_text v | PlaceableElement e => nocr_expr e end
with nocr_args (a : call_args) : bool :=
  match a with
  | CallArguments pos named =>
      (fix go (l : list inline) : bool := match l with [] => true | x :: r => nocr_inline x && go r end) pos &&
      (fix go (l : list named_arg) : bool := match l with [] => true | x :: r => nocr_named x && go r end) named
  end
with nocr_named (n : named_arg) : bool := match n with NamedArgument _ v => nocr_inline v end.

Lemma nocr_variants_eq vs :
  (fix go (l : list variant) : bool := match l with [] => true | v :: r => nocr_variant v && go r end) vs = forallb nocr_variant vs.
Proof. induction vs as [|v r IH]; [reflexivity|]. cbn [forallb]. rewrite <- IH. reflexivity. Qed.
Lemma nocr_elements_eq els :
  (fix go (l : list pattern_element) : bool := match l with [] => true | x :: r => nocr_element x && go r end) els = forallb nocr_element els.
Proof. induction els as [|v r IH]; [reflexivity|]. cbn [forallb]. rewrite <- IH. reflexivity. Qed.
Lemma nocr_pos_eq pos :
  (fix go (l : list inline) : bool := match l with [] => true | x :: r => nocr_inline x && go r end) pos = forallb nocr_inline pos.
Proof. induction pos as [|v r IH]; [reflexivity|]. cbn [forallb]. rewrite <- IH. reflexivity. Qed.
Lemma nocr_named_eq named :
  (fix go (l : list named_arg) : bool := match l with [] => true | x :: r => nocr_named x && go r end) named = forallb nocr_named named.
Proof. induction named as [|v r IH]; [reflexivity|]. cbn [forallb]. rewrite <- IH. reflexivity. Qed.

Definition nocr_attribute (a : attribute) : bool := nocr_pattern (attr_value a).
Definition nocr_entry (e : entry) : bool :=
  match e with
  | Message _ v attrs _ => match v with Some p => nocr_pattern p | None => true end && forallb nocr_attribute attrs
  | Term _ v attrs _ => nocr_pattern v && forallb nocr_attribute attrs
  | _ => true
  end.
Definition nocr_resource (t : resource) : bool := forallb nocr_entry t.

(* ---- Render.wf_entry without the line rules and the comments ---- *)
Definition wf_attribute_content (a : attribute) : bool := wf_identifier (attr_id a) && wf_pattern (attr_value a).
Definition wf_entry_content (e : entry) : bool :=
  match e with
  | Message id v attrs _ =>
      wf_identifier id &&
      match v with Some p => wf_pattern p | None => negb (match attrs with [] => true | _ => false end) end &&
      forallb wf_attribute_content attrs
  | Term id v attrs _ => wf_identifier id && wf_pattern v && forallb wf_attribute_content attrs
  | CommentEntry _ | GroupComment _ | ResourceComment _ => true
  | Junk _ => false
  end.

(* what remains of wf_entry: the line rules of the values, and the comments *)
Definition lines_attribute (a : attribute) : bool := lines_ok_pattern (attr_value a).
Definition lines_and_comments_ok (e : entry) : bool :=
  match e with
  | Message _ v attrs c =>
      match v with Some p => lines_ok_pattern p | None => true end && forallb lines_attribute attrs &&
      match c with Some cm => wf_comment cm | None => true end
  | Term _ v attrs c =>
      lines_ok_pattern v && forallb lines_attribute attrs && match c with Some cm => wf_comment cm | None => true end
  | CommentEntry c | GroupComment c | ResourceComment c => wf_comment c
  | Junk _ => true
  end.

Lemma wf_attributes_split attrs :
  forallb wf_attribute_content attrs = true -> forallb lines_attribute attrs = true -> forallb wf_attribute attrs = true.
Proof.
  rewrite !forallb_forall. intros H1 H2 a Ha. specialize (H1 a Ha). specialize (H2 a Ha).
  unfold wf_attribute_content in H1. unfold lines_attribute in H2. apply andb_prop in H1 as [Hid Hp].
  unfold wf_attribute, wf_value. rewrite Hid, Hp, H2. reflexivity.
Qed.

Lemma wf_content_lines e : wf_entry_content e = true -> lines_and_comments_ok e = true -> wf_entry e = true.
Proof.
  destruct e as [id v attrs c | id v attrs c | c | c | c | j]; cbn [wf_entry_content lines_and_comments_ok wf_entry]; intros H1 H2;
    try exact H2; try discriminate H1.
  - apply andb_prop in H1 as [H1 Ha]. apply andb_prop in H1 as [Hid Hv].
    apply andb_prop in H2 as [H2 Hc]. apply andb_prop in H2 as [Hl Hla].
    rewrite Hid, (wf_attributes_split attrs Ha Hla), Hc. destruct v as [p|]; [|rewrite Hv; reflexivity].
    unfold wf_value. rewrite Hv, Hl. reflexivity.
  - apply andb_prop in H1 as [H1 Ha]. apply andb_prop in H1 as [Hid Hv].
    apply andb_prop in H2 as [H2 Hc]. apply andb_prop in H2 as [Hl Hla].
    unfold wf_value. rewrite Hid, Hv, Hl, (wf_attributes_split attrs Ha Hla), Hc. reflexivity.
Qed.

(* ---- joining adjacent text elements keeps the conditions of wf_pattern ---- *)
Definition text_ok_b (v : bytes) : bool :=
  negb (match v with [] => true | _ => false end) && forallb (fun b => wf_text_byte b || N.eqb b 10) v.

(* Render.wf_pattern on the element list: RoundTrip.wf_els, RoundTrip.wf_pattern_els *)
Lemma wf_els_text v r prev : wf_els (TextElement v :: r) prev = negb prev && text_ok_b v && wf_els r true.
Proof. cbn [wf_els]. unfold text_ok_b. rewrite <- !andb_assoc. reflexivity. Qed.

(* every element is fine by itself: a text is non-empty with good bytes, a placeable is well-formed *)
Definition el_fine (x : pattern_element) : bool :=
  match x with TextElement v => text_ok_b v | PlaceableElement e => wf_expr e end.

Lemma text_ok_app a b : text_ok_b a = true -> text_ok_b b = true -> text_ok_b (a ++ b) = true.
Proof.
  unfold text_ok_b. intros Ha Hb. apply andb_prop in Ha as [Ha1 Ha2]. apply andb_prop in Hb as [_ Hb2].
  rewrite forallb_app, Ha2, Hb2. destruct a; [discriminate Ha1 | reflexivity].
Qed.

Lemma join_elements_fine l : forallb el_fine l = true ->
  forallb el_fine (join_elements l) = true /\
  wf_els (join_elements l) false = true.
Proof.
  induction l as [|x r IH]; intros H; [split; reflexivity|]. cbn [forallb] in H. apply andb_prop in H as [Hx Hr].
  destruct (IH Hr) as [I1 I2]. destruct x as [a|e].
  - change (join_elements (TextElement a :: r)) with
      (match join_elements r with TextElement b :: r' => TextElement (a ++ b) :: r' | J => TextElement a :: J end).
    cbn [el_fine] in Hx.
    destruct (join_elements r) as [|[b|e'] r'] eqn:Ej.
    + rewrite wf_els_text. cbn [forallb el_fine wf_els]. rewrite Hx. split; reflexivity.
    + cbn [forallb el_fine] in I1. apply andb_prop in I1 as [Hb Hr'].
      rewrite wf_els_text in I2. apply andb_prop in I2 as [I2 I3].
      rewrite wf_els_text. cbn [forallb el_fine]. rewrite (text_ok_app a b Hx Hb), Hr'. cbn [negb andb]. split; [reflexivity | exact I3].
    + rewrite wf_els_text. cbn [forallb el_fine wf_els] in *. rewrite Hx. cbn [negb andb]. apply andb_prop in I1 as [He Hr']. rewrite He, Hr'.
      split; [reflexivity|]. apply andb_prop in I2 as [_ I3]. rewrite I3. reflexivity.
  - cbn [join_elements forallb el_fine wf_els] in *. rewrite Hx, I1. cbn [andb]. split; [reflexivity|].
    (* after a placeable the flag is false again *)
    exact I2.
Qed.

Lemma join_pattern_wf els : els <> [] -> forallb el_fine (map join_element els) = true ->
  wf_pattern (join_pattern (Pattern els)) = true.
Proof.
  intros Hne H. change (join_pattern (Pattern els)) with (Pattern (join_elements (map join_element els))).
  rewrite wf_pattern_els. destruct (join_elements_fine _ H) as [_ H2]. rewrite H2, andb_true_r.
  destruct els as [|x r]; [congruence|]. cbn [map]. destruct (join_element x) as [a|e].
  - change (join_elements (TextElement a :: map join_element r)) with
      (match join_elements (map join_element r) with TextElement b :: r' => TextElement (a ++ b) :: r' | J => TextElement a :: J end).
    destruct (join_elements (map join_element r)) as [|[b|e'] r']; reflexivity.
  - reflexivity.
Qed.

(* ---- the content conditions, for every tree with the parser's shape and lexical validity ---- *)
Lemma join_args_eq' pos named : join_args (CallArguments pos named) = CallArguments (map join_inline pos) (map join_named named).
Proof. reflexivity. Qed.
Lemma join_select_eq s vs : join_expr (Select s vs) = Select (join_inline s) (map join_variant vs).
Proof. reflexivity. Qed.
Lemma count_defaults_join' vs : count_defaults (map join_variant vs) = count_defaults vs.
Proof. induction vs as [|[k p d0] r IH]; [reflexivity|]. cbn [map join_variant count_defaults]. rewrite IH. reflexivity. Qed.

Lemma wf_pos_eq pos :
  (fix go (l : list inline) : bool := match l with [] => true | x :: r => wf_inline x && go r end) pos = forallb wf_inline pos.
Proof. induction pos as [|v r IH]; [reflexivity|]. cbn [forallb]. rewrite <- IH. reflexivity. Qed.
Definition named_wf_b (a : named_arg) : bool := match a with NamedArgument n v => wf_identifier n && is_literal v && wf_inline v end.
Lemma wf_named_eq named :
  (fix go (l : list named_arg) : bool :=
     match l with [] => true | NamedArgument n v :: r => wf_identifier n && is_literal v && wf_inline v && go r end) named =
  forallb named_wf_b named.
Proof. induction named as [|[n v] r IH]; [reflexivity|]. cbn [forallb named_wf_b]. rewrite <- IH. reflexivity. Qed.
Lemma wf_variants_eq vs :
  (fix go (l : list variant) : bool := match l with [] => true | v :: r => wf_variant v && go r end) vs = forallb wf_variant vs.
Proof. induction vs as [|v r IH]; [reflexivity|]. cbn [forallb]. rewrite <- IH. reflexivity. Qed.

Lemma no_dup_names_join named : forall seen, no_dup_names (map join_named named) seen = no_dup_names named seen.
Proof. induction named as [|[n v] r IH]; intros seen; [reflexivity|]. cbn [map join_named no_dup_names]. rewrite IH. reflexivity. Qed.

Lemma callee_wf id : wf_identifier id = true -> is_callee id = true -> wf_callee id = true.
Proof.
  destruct id as [|b r]; [discriminate|]. cbn [wf_identifier is_callee forallb wf_callee]. intros H1 H2.
  apply andb_prop in H1 as [Ha _]. apply andb_prop in H2 as [Hb Hr].
  apply andb_true_intro. split.
  - unfold is_alpha in Ha. unfold is_ascii_uppercase, is_ascii_digit, in_rng in Hb. lia.
  - rewrite forallb_forall in *. intros c Hc. specialize (Hr c Hc). unfold is_ascii_uppercase, is_ascii_digit, in_rng in Hr. unfold is_digit. lia.
Qed.

Lemma is_literal_join v : is_literal v = true -> is_literal (join_inline v) = true.
Proof. destruct v; try discriminate; reflexivity. Qed.

Lemma text_fine v : text_shape v -> nocr_text v = true -> text_ok_b v = true.
Proof.
  intros [Hne Hpre] Hcr. unfold text_ok_b. apply andb_true_intro. split; [destruct v; [congruence | reflexivity]|].
  apply forallb_forall. intros b Hb. apply In_nth_error in Hb as [i Hi]. destruct (Hpre i b Hi) as [[H123 H125] _].
  unfold nocr_text in Hcr. rewrite forallb_forall in Hcr. specialize (Hcr b (nth_error_In _ _ Hi)).
  unfold wf_text_byte. destruct (N.eqb b 10) eqn:E10; [apply orb_true_r|]. rewrite orb_false_r.
  apply negb_true_iff. apply negb_true_iff in Hcr. rewrite Hcr.
  replace (N.eqb b 123) with false by (symmetry; apply N.eqb_neq; exact H123).
  replace (N.eqb b 125) with false by (symmetry; apply N.eqb_neq; exact H125). reflexivity.
Qed.

Theorem content_wf :
  (forall i, shape_inline i -> lex_inline i -> nocr_inline i = true -> wf_inline (join_inline i) = true) /\
  (forall e, shape_expr e -> not_term_attr e -> lex_expr e -> nocr_expr e = true -> wf_expr (join_expr e) = true) /\
  (forall v, shape_variant v -> lex_variant v -> nocr_variant v = true -> wf_variant (join_variant v) = true) /\
  (forall p, shape_pattern p -> lex_pattern p -> nocr_pattern p = true -> wf_pattern (join_pattern p) = true) /\
  (forall x, shape_element x -> lex_element x -> nocr_element x = true -> el_fine (join_element x) = true) /\
  (forall a, shape_args a -> lex_args a -> nocr_args a = true -> wf_args (join_args a) = true) /\
  (forall n, shape_named n -> lex_named n -> nocr_named n = true -> named_wf_b (join_named n) = true).
Proof.
  apply ast_mutind.
  - intros v _ Hl _. exact Hl.
  - intros v _ Hl _. exact Hl.
  - intros id a IH Hs (Hid & Hc & Hla) Hn. cbn [join_inline wf_inline]. rewrite (callee_wf id Hid Hc). apply (IH Hs Hla Hn).
  - intros id att _ (Hid & Ha) _. cbn [join_inline wf_inline]. unfold wfi in Hid. rewrite Hid. destruct att; [exact Ha | reflexivity].
  - intros id att a IH Hs (Hid & Ha & Hla) Hn. cbn [join_inline wf_inline]. unfold wfi in Hid. rewrite Hid.
    replace (match att with Some a0 => wf_identifier a0 | None => true end) with true by (destruct att; [symmetry; exact Ha | reflexivity]).
    destruct a as [ca|]; [|reflexivity]. cbn [andb]. apply (IH Hs Hla Hn).
  - intros id _ Hid _. exact Hid.
  - intros e IH [Hs Hnt] Hl Hn. cbn [join_inline wf_inline]. apply (IH Hs Hnt Hl Hn).
  - intros s vs IHs IHvs Hs _ Hl Hn. apply shape_select in Hs as (Hss & Hk & Hcnt & Hvs). apply lex_select in Hl as [Hls Hlvs].
    cbn [nocr_expr] in Hn. rewrite nocr_variants_eq in Hn. apply andb_prop in Hn as [Hns Hnvs].
    rewrite join_select_eq. cbn [wf_expr]. rewrite wf_variants_eq, count_defaults_join', Hcnt, (IHs Hss Hls Hns). cbn [Nat.eqb].
    replace (match join_inline s with
             | StringLiteral _ | NumberLiteral _ | VariableReference _ | FunctionReference _ _ => true
             | TermReference _ (Some _) _ => true
             | _ => false
             end) with true by (destruct s as [? | ? | ? ? | ? ? | ? [?|] ? | ? | ?]; try reflexivity; destruct Hk).
    cbn [andb]. apply forallb_forall. intros v' Hv'. apply in_map_iff in Hv' as (v & <- & Hv).
    rewrite Forall_forall in *. rewrite forallb_forall in Hnvs. apply (IHvs v Hv (Hvs v Hv) (Hlvs v Hv) (Hnvs v Hv)).
  - intros i IH Hs Hnt Hl Hn. cbn [join_expr]. specialize (IH Hs Hl Hn).
    destruct i as [? | ? | ? ? | ? ? | ? [?|] ? | ? | ?]; try exact IH. destruct Hnt.
  - intros k p d IH Hs [Hk Hl] Hn. cbn [join_variant wf_variant]. rewrite (IH Hs Hl Hn), andb_true_r. destruct k; exact Hk.
  - intros els IH Hs Hl Hn. apply shape_pattern_els in Hs as (Hne & _ & Hels). apply lex_pattern_els in Hl.
    cbn [nocr_pattern] in Hn. rewrite nocr_elements_eq in Hn.
    apply join_pattern_wf; [exact Hne|]. apply forallb_forall. intros x' Hx'. apply in_map_iff in Hx' as (x & <- & Hx).
    rewrite Forall_forall in *. rewrite forallb_forall in Hn. apply (IH x Hx (Hels x Hx) (Hl x Hx) (Hn x Hx)).
  - intros v Hs _ Hn. cbn [join_element el_fine]. apply (text_fine v Hs Hn).
  - intros e IH [Hs Hnt] Hl Hn. cbn [join_element el_fine]. apply (IH Hs Hnt Hl Hn).
  - intros pos named IHp IHn Hs Hl Hn. apply shape_args_eq in Hs as (Hsp & Hsn & Hdup). apply lex_args_eq in Hl as [Hlp Hln].
    cbn [nocr_args] in Hn. rewrite nocr_pos_eq, nocr_named_eq in Hn. apply andb_prop in Hn as [Hnp Hnn].
    rewrite join_args_eq'. cbn [wf_args]. rewrite wf_pos_eq, wf_named_eq, no_dup_names_join, Hdup, andb_true_r.
    rewrite Forall_forall in *. rewrite forallb_forall in Hnp, Hnn. apply andb_true_intro. split; apply forallb_forall.
    + intros i' Hi'. apply in_map_iff in Hi' as (i & <- & Hi). apply (IHp i Hi (Hsp i Hi) (Hlp i Hi) (Hnp i Hi)).
    + intros n' Hn'. apply in_map_iff in Hn' as (n & <- & Hin). apply (IHn n Hin (Hsn n Hin) (Hln n Hin) (Hnn n Hin)).
  - intros n v IH [Hs Hlit] [Hid Hl] Hn. cbn [join_named named_wf_b]. unfold wfi in Hid.
    rewrite Hid, (is_literal_join v Hlit), (IH Hs Hl Hn). reflexivity.
Qed.

(* ---- entries ---- *)
Lemma junks_nil_not_junk t : junks t = [] -> Forall (fun e => is_junk e = false) t.
Proof.
  induction t as [|e r IH]; intros H; [constructor|]. destruct e; cbn [junks] in H; try discriminate H;
    (constructor; [reflexivity | apply IH, H]).
Qed.

Lemma attributes_content attrs : Forall shape_attribute attrs -> Forall lex_attribute attrs -> forallb nocr_attribute attrs = true ->
  forallb wf_attribute_content (map join_attribute attrs) = true.
Proof.
  intros Hs Hl Hn. apply forallb_forall. intros a' Ha'. apply in_map_iff in Ha' as (a & <- & Ha).
  rewrite Forall_forall in *. rewrite forallb_forall in Hn. specialize (Hs a Ha). specialize (Hl a Ha). specialize (Hn a Ha).
  destruct Hl as [Hid Hlp]. unfold wf_attribute_content, join_attribute. cbn [attr_id attr_value]. unfold wfi in Hid. rewrite Hid.
  destruct content_wf as (_ & _ & _ & HP & _). apply (HP _ Hs Hlp Hn).
Qed.

Lemma entry_content e : shape_entry e -> lex_entry e -> nocr_entry e = true -> is_junk e = false ->
  wf_entry_content (join_entry e) = true.
Proof.
  destruct content_wf as (_ & _ & _ & HP & _).
  destruct e as [id v attrs c | id v attrs c | c | c | c | j]; cbn [shape_entry lex_entry nocr_entry join_entry wf_entry_content];
    intros Hs Hl Hn Hj; try reflexivity; try discriminate Hj.
  - destruct Hs as [Hsv Hsa]. destruct Hl as (Hid & Hlv & Hla). apply andb_prop in Hn as [Hnv Hna]. unfold wfi in Hid.
    rewrite Hid, (attributes_content attrs Hsa Hla Hna), andb_true_r. cbn [andb].
    destruct v as [p|]; cbn [option_map].
    + apply (HP p Hsv Hlv Hnv).
    + destruct attrs; [congruence | reflexivity].
  - destruct Hs as [Hsv Hsa]. destruct Hl as (Hid & Hlv & Hla). apply andb_prop in Hn as [Hnv Hna]. unfold wfi in Hid.
    rewrite Hid, (attributes_content attrs Hsa Hla Hna), (HP v Hsv Hlv Hnv). reflexivity.
Qed.

(* every entry of an error-free parser output satisfies the content conditions of the grammar, if its texts have no CR *)
Theorem parse_wf_content bs t : parse bs = Done (t, []) -> nocr_resource t = true ->
  Forall (fun e => wf_entry_content (join_entry e) = true) t.
Proof.
  intros Hp Hn. pose proof (parse_shape bs t [] Hp) as Hs. pose proof (parse_lex bs t [] Hp) as Hl.
  pose proof (junks_nil_not_junk t (proj1 (parse_ok_iff_no_junk bs t [] Hp) eq_refl)) as Hj.
  unfold nocr_resource in Hn. rewrite forallb_forall in Hn. rewrite Forall_forall in *.
  intros e He. apply (entry_content e (Hs e He) (Hl e He) (Hn e He) (Hj e He)).
Qed.

(* ... so that the premise of the round trip is reduced to the line rules and the comments *)
Theorem parse_wf_from_lines bs t : parse bs = Done (t, []) -> nocr_resource t = true ->
  forallb lines_and_comments_ok (map join_entry t) = true -> wf_resource (map join_entry t) = true.
Proof.
  intros Hp Hn Hl. pose proof (parse_wf_content bs t Hp Hn) as Hc. unfold wf_resource.
  apply forallb_forall. intros e' He'. rewrite forallb_forall in Hl. specialize (Hl e' He').
  apply in_map_iff in He' as (e & <- & He). rewrite Forall_forall in Hc. apply (wf_content_lines _ (Hc e He) Hl).
Qed.

(* ============================================================================================== *)
(* With the line rules (Syntax/ParserLines.v): the whole premise, for sources whose every CR is     *)
(* followed by LF (CR LF line ends; CR-free sources are the special case)                           *)
From FluentV Require Import Syntax.ParserLines.

(* the comments of the tree are well-formed: at least one line (not the zero-line comment of finding D7), no CR in a
   line (executable) *)
Definition comments_ok_entry (e : entry) : bool :=
  match e with
  | Message _ _ _ c | Term _ _ _ c => match c with Some cm => wf_comment cm | None => true end
  | CommentEntry c | GroupComment c | ResourceComment c => wf_comment c
  | Junk _ => true
  end.
Definition comments_ok (t : resource) : bool := forallb comments_ok_entry t.

Lemma ln_attributes attrs : Forall ln_attribute attrs -> forallb lines_attribute (map join_attribute attrs) = true.
Proof.
  intros H. apply forallb_forall. intros a' Ha'. apply in_map_iff in Ha' as (a & <- & Ha). rewrite Forall_forall in H.
  unfold lines_attribute, join_attribute. cbn [attr_value]. apply (H a Ha).
Qed.

Lemma ln_entry_lines e : ln_entry e -> comments_ok_entry e = true -> lines_and_comments_ok (join_entry e) = true.
Proof.
  destruct e as [id v attrs c | id v attrs c | c | c | c | j]; cbn [ln_entry comments_ok_entry join_entry lines_and_comments_ok];
    intros Hl Hc; try exact Hc; try reflexivity.
  - destruct Hl as [Hv Ha]. rewrite (ln_attributes attrs Ha), Hc, andb_true_r, andb_true_r. destruct v as [p|]; [exact Hv | reflexivity].
  - destruct Hl as [Hv Ha]. rewrite Hv, (ln_attributes attrs Ha), Hc. reflexivity.
Qed.

(* ---- the text elements of a parser output are slices of the source that hold no CR: the CR of a CR LF line end
        is left out by the parser (TextElementTermination::CRLF), and there is no other CR in the source ---- *)
Ltac skipb := eapply spec_bind; [apply spec_any | intros; exact Logic.I | let sa := fresh "sa" in let sq := fresh "sq" in intros sa sq _].
Tactic Notation "skipn" ident(a) ident(q) := eapply spec_bind; [apply spec_any | intros; exact Logic.I | intros a q _].
Ltac useb H := eapply spec_bind; [apply H | intros; exact Logic.I | ].

Section NoCr.
Variable bs : bytes.
Hypothesis Hnlc : no_lone_cr bs = true.

Lemma forallb_rev' {X} (f : X -> bool) l : forallb f (rev l) = forallb f l.
Proof. induction l as [|x l IH]; [reflexivity|]. cbn [rev forallb]. rewrite forallb_app, IH. cbn [forallb]. rewrite andb_true_r, andb_comm. reflexivity. Qed.

(* no CR among the bytes [s, e) of the source *)
Definition rng_nocr (s e : nat) : Prop := forall i b, s <= i -> i < e -> nth_error bs i = Some b -> N.eqb b 13 = false.

Lemma nth_error_firstn_lt {A} (l : list A) : forall k i, i < k -> nth_error (firstn k l) i = nth_error l i.
Proof.
  induction l as [|x l IH]; intros k i H; [rewrite firstn_nil; reflexivity|]. destruct k as [|k]; [lia|].
  destruct i as [|i]; [reflexivity|]. cbn [firstn nth_error]. apply IH. lia.
Qed.

Lemma seg_rng s e v : seg bs s e v -> nocr_l v -> rng_nocr s e.
Proof.
  intros (H1 & H2 & H3) Hv i b Hs He Hb. apply Hv. rewrite <- H3. apply (nth_error_In _ (i - s)).
  rewrite nth_error_firstn_lt by lia. rewrite nth_error_skipn_add. replace (s + (i - s)) with i by lia. exact Hb.
Qed.

Lemma rng_sub s e s' : rng_nocr s e -> s <= s' -> rng_nocr s' e.
Proof. intros H Hs i b H1 H2 Hb. apply (H i b ltac:(lia) H2 Hb). Qed.

Lemma slice_rng s e v : rng_nocr s e -> slice bs s e = Done v -> nocr_text v = true.
Proof.
  intros Hr. unfold slice. destruct (Nat.leb s e && Nat.leb e (length bs) && is_char_boundary bs s && is_char_boundary bs e); [|discriminate].
  intros H. injection H as <-. unfold nocr_text. apply forallb_forall. intros b Hb. apply In_nth_error in Hb as [i Hi].
  destruct (nth_error_firstn_some _ _ _ _ Hi) as [Hlt Hi']. rewrite nth_error_skipn_add in Hi'.
  rewrite (Hr (s + i) b ltac:(lia) ltac:(lia) Hi'). reflexivity.
Qed.

Lemma trim_nocr v : nocr_text v = true -> nocr_text (trim_end v) = true.
Proof.
  intros H. destruct (trim_end_prefix v) as [w E]. unfold nocr_text in *. rewrite E, forallb_app in H. apply andb_prop in H as [H _]. exact H.
Qed.

Definition phn (ph : placeholder) : Prop := match ph with PHPlaceable e => nocr_expr e = true | PHText s e _ _ => rng_nocr s e end.
Definition stn (st : pstate) : Prop := Forall phn (elements st).

Lemma nc_finish_element lnb ci i ph p : phn ph ->
  spec (finish_element bs lnb ci i ph) p (fun r _ => match r with Some x => nocr_element x = true | None => True end) ET.
Proof.
  intros Hph. destruct ph as [e | s e ind r]; unfold finish_element.
  - apply spec_ret. exact Hph.
  - set (s' := if is_line_start r then match ci with Some c => s + Nat.min ind c | None => s + ind end else s).
    assert (Hs' : s <= s') by (unfold s'; destruct (is_line_start r); [destruct ci|]; lia).
    destruct (Nat.eqb s' e); [apply spec_ret; exact Logic.I|].
    eapply spec_bind; [apply sp_source_slice | intros ? ? []|]. intros v q [_ Hv]. apply spec_ret. cbn [nocr_element].
    pose proof (slice_rng _ _ _ (rng_sub _ _ _ Hph Hs') Hv) as Hn. destruct (Nat.eqb lnb i); [apply trim_nocr, Hn | exact Hn].
Qed.

Lemma nc_finish_elements lnb ci : forall phs i p, Forall phn phs ->
  spec (finish_elements bs lnb ci i phs) p (fun els _ => forallb nocr_element els = true) ET.
Proof.
  induction phs as [|ph r IH]; intros i p Hall; cbn [finish_elements]; [apply spec_ret; reflexivity|].
  inversion Hall as [|? ? Hph Hr]; subst.
  useb (nc_finish_element lnb ci i ph p Hph). intros x q Hx. useb (IH (S i) q Hr). intros xs q2 Hxs. apply spec_ret.
  destruct x as [x|]; [cbn [forallb]; rewrite Hx, Hxs; reflexivity | exact Hxs].
Qed.

Lemma drop_tail_rev_nocr R : forallb nocr_element R = true -> forallb nocr_element (drop_empty_tail_rev R) = true.
Proof.
  induction R as [|x r IH]; intros H; [reflexivity|]. cbn [forallb] in H. apply andb_prop in H as [Hx Hr].
  destruct x as [v|e]; cbn [drop_empty_tail_rev]; [|cbn [forallb]; rewrite Hx, Hr; reflexivity].
  destruct (trim_end v) as [|b t] eqn:Et; [apply IH, Hr|]. cbn [forallb nocr_element]. rewrite <- Et.
  cbn [nocr_element] in Hx. rewrite (trim_nocr v Hx), Hr. reflexivity.
Qed.

Definition NP : option pattern -> nat -> Prop := fun r _ => match r with Some p => nocr_pattern p = true | None => True end.

Lemma nc_finish_pattern st p : stn st -> spec (finish_pattern bs st) p NP ET.
Proof.
  intros Hst. unfold finish_pattern. destruct (last_non_blank st) as [lnb|]; [|apply spec_ret; exact Logic.I].
  useb (nc_finish_elements lnb (common_indent st) (firstn (S lnb) (rev (elements st))) 0 p ltac:(apply Forall_firstn, Forall_rev, Hst)).
  intros els q Hels. apply spec_ret. unfold NP, drop_empty_tail.
  assert (H : forallb nocr_element (rev (drop_empty_tail_rev (rev els))) = true).
  { rewrite forallb_rev'. apply drop_tail_rev_nocr. rewrite forallb_rev'. exact Hels. }
  destruct (rev (drop_empty_tail_rev (rev els))) as [|x r]; [exact Logic.I|]. cbn [nocr_pattern]. rewrite nocr_elements_eq. exact H.
Qed.

Lemma text_step_n st slice_start indent start end_ nb term : stn st -> rng_nocr slice_start end_ -> slice_start <= start ->
  stn (text_step st slice_start indent (start, end_, nb, term)).
Proof.
  intros Hst Hr Hle. unfold text_step, stn in *.
  assert (Hnew : Forall phn (PHText slice_start end_ indent (role st) :: elements st)) by (constructor; [exact Hr | exact Hst]).
  assert (Hnew0 : Forall phn (PHText start end_ 0 (role st) :: elements st)) by (constructor; [exact (rng_sub _ _ _ Hr Hle) | exact Hst]).
  destruct (negb (Nat.eqb start end_)).
  - destruct (negb (is_line_start (role st)) || nb || match term with TLineFeed => true | _ => false end); cbn [elements]; [|assumption].
    destruct (is_line_start (role st) && negb nb); assumption.
  - destruct (is_line_start (role st) && match term with TPlaceableStart => true | _ => false end); cbn [elements]; assumption.
Qed.

Lemma nocr_sp k : nocr_l (sp k).
Proof. intros b Hb. apply repeat_spec in Hb. subst b. reflexivity. Qed.
Lemma nocr_l_app a b : nocr_l a -> nocr_l b -> nocr_l (a ++ b).
Proof. intros Ha Hb x Hx. apply in_app_or in Hx as [H | H]; [apply Ha, H | apply Hb, H]. Qed.

(* the bytes that the prologue and the text slice pass over hold no CR *)
Lemma pro_slice_rng r p k q ts q' : pro_post bs r p (Some k) q -> slice_post bs (k + p) ts q' ->
  let '(start, end_, nb, term) := ts in start = k + p /\ rng_nocr p end_.
Proof.
  intros (_ & _ & Hpro) Hsl. destruct ts as [[[start end_] nb] term]. cbn [slice_post] in Hsl.
  destruct Hsl as (-> & _ & text & _ & Htcr & _ & Hterm). split; [reflexivity|].
  assert (Hx : exists X, seg bs (k + p) end_ X /\ nocr_l X).
  { destruct term; [exists (text ++ [10%N]); split; [exact Hterm | apply nocr_l_app; [exact Htcr | intros b [<- | []]; reflexivity]] | | |];
      exists text; (split; [apply Hterm | exact Htcr]). }
  destruct Hx as (X & HX & HXcr).
  destruct (is_line_start r).
  - destruct Hpro as (_ & Hsp & _). apply (seg_rng p end_ (sp k ++ X) (seg_app bs Hnlc p (k + p) end_ _ _ Hsp HX)). apply nocr_l_app; [apply nocr_sp | exact HXcr].
  - subst k. apply (seg_rng _ _ _ HX HXcr).
Qed.

Definition NAo : option call_args -> nat -> Prop := fun r _ => match r with Some ca => nocr_args ca = true | None => True end.

Definition knot_nc (n : nat) : Prop :=
  (forall p, spec (get_pattern bs n) p NP ET) /\
  (forall st p, stn st -> spec (pattern_loop bs n st) p (fun st' _ => stn st') ET) /\
  (forall p, spec (get_placeable bs n) p (fun e _ => nocr_expr e = true) ET) /\
  (forall p, spec (get_expression bs n) p (fun e _ => nocr_expr e = true) ET) /\
  (forall p, spec (get_variants bs n) p (fun vs _ => forallb nocr_variant vs = true) ET) /\
  (forall acc (hd : bool) p, forallb nocr_variant acc = true -> spec (variants_loop bs n acc hd) p (fun vs _ => forallb nocr_variant vs = true) ET) /\
  (forall ol p, spec (get_inline_expression bs n ol) p (fun i _ => nocr_inline i = true) ET) /\
  (forall p, spec (get_call_arguments bs n) p NAo ET) /\
  (forall pos named names p, forallb nocr_inline pos = true -> forallb nocr_named named = true ->
                             spec (args_loop bs n pos named names) p (fun ca _ => nocr_args ca = true) ET).

Lemma knot_nc_all n : knot_nc n.
Proof.
  induction n as [|n (IH1 & IH2 & IH3 & IH4 & IH5 & IH6 & IH7 & IH8 & IH9)]; unfold knot_nc.
  - repeat split; intros; exact Logic.I.
  - repeat match goal with |- _ /\ _ => split end.
    + intros p. cbn [get_pattern]. fold_knot bs.
      skipb. skipb. skipn r qr.
      useb (IH2 (PState [] 0 None None r) qr ltac:(constructor)). intros st q Hst. apply (nc_finish_pattern st q Hst).
    + intros st p Hst. rewrite pattern_loop_S.
      eapply spec_bind; [apply sp_get_ptr | intros ? ? []|]. intros p0 q0 [-> ->].
      destruct (Nat.ltb p (length_ bs)) eqn:Hlt; cbn [negb]; [|apply spec_ret; exact Hst].
      apply Nat.ltb_lt in Hlt. unfold length_ in Hlt.
      eapply spec_bind; [apply sp_take_byte_if | intros ? ? []|]. intros brace q1 Hbrace.
      destruct Hbrace as [(-> & -> & Hb) | (-> & -> & Hb)].
      * useb (IH3 (S p)). intros e q2 He. apply IH2. constructor; [exact He | exact Hst].
      * eapply spec_bind; [apply sp_get_ptr | intros ? ? []|]. intros ss q2 [-> ->].
        useb (st_prologue bs Hnlc (role st) p Hlt). intros pro q3 Hpro. destruct pro as [indent|]; [|apply spec_ret; exact Hst].
        assert (Hq3 : q3 = indent + p /\ indent + p <= length bs) by (destruct Hpro as (H1 & H2 & _); split; [exact H1 | lia]).
        destruct Hq3 as [-> Hle].
        useb (st_text_slice bs Hnlc (indent + p) Hle). intros ts q4 Hsl.
        pose proof (pro_slice_rng _ _ _ _ ts q4 Hpro Hsl) as Hr. destruct ts as [[[start end_] nb] term]. destruct Hr as [-> Hr].
        apply IH2. apply (text_step_n st p indent (indent + p) end_ nb term Hst Hr). lia.
    + intros p. cbn [get_placeable]. fold_knot bs.
      skipn u1 q1. useb (IH4 q1). intros e q2 He. skipb. skipb.
      destruct e as [s vs | i]; [apply spec_ret; exact He|].
      destruct i as [? | ? | ? ? | ? ? | ? [?|] ? | ? | ?]; try (apply spec_ret; exact He). exact Logic.I.
    + intros p. cbn [get_expression]. fold_knot bs.
      useb (IH7 false p). intros i q Hi. skipn u1 q1. skipn p0 q2.
      destruct (negb (is_byte_at bs 45 p0) || negb (is_byte_at bs 62 (S p0))).
      * destruct i as [? | ? | ? ? | ? ? | ? [?|] ? | ? | ?]; try (apply spec_ret; exact Hi). exact Logic.I.
      * skipb. skipb. skipb. skipn eol q5. destruct (negb eol); [exact Logic.I|]. skipn u6 q6.
        useb (IH5 q6). intros vs q7 Hv. apply spec_ret. cbn [nocr_expr]. rewrite nocr_variants_eq, Hi, Hv. reflexivity.
    + intros p. cbn [get_variants]. fold_knot bs. apply IH6. reflexivity.
    + intros acc hd p Hacc. cbn [variants_loop]. fold_knot bs.
      skipn dflt q1. destruct (dflt && hd); [exact Logic.I|].
      skipn br q2. destruct (negb br).
      * destruct dflt; [exact Logic.I|]. destruct (hd || false); [|exact Logic.I]. apply spec_ret. rewrite forallb_rev'. exact Hacc.
      * skipn key q3. useb (IH1 q3). intros v q4 Hv. destruct v as [v|]; [|exact Logic.I]. skipn u5 q5.
        apply IH6. cbn [forallb nocr_variant]. cbn [NP] in Hv. rewrite Hv, Hacc. reflexivity.
    + intros ol p. cbn [get_inline_expression]. fold_knot bs.
      skipn cb q0. destruct cb as [b|]; [|destruct ol; exact Logic.I].
      destruct (N.eqb b 34).
      { skipb. skipb. skipb. skipb. skipb. skipb. skipb. apply spec_ret. reflexivity. }
      destruct (is_ascii_digit b); [skipb; apply spec_ret; reflexivity|].
      destruct (N.eqb b 45 && negb ol).
      { skipb. skipn st1 q2. destruct st1.
        - skipb. skipb. skipn att q5. useb (IH8 q5). intros args q6 Hargs. apply spec_ret. cbn [nocr_inline]. destruct args; [exact Hargs | reflexivity].
        - skipb. skipb. apply spec_ret. reflexivity. }
      destruct (N.eqb b 45); [skipb; apply spec_ret; reflexivity|].
      destruct (N.eqb b 36 && negb ol); [skipb; skipb; apply spec_ret; reflexivity|].
      destruct (is_ascii_alphabetic b && negb ol).
      { skipb. skipn id q2. useb (IH8 q2). intros args q3 Hargs. destruct args as [args|].
        - destruct (negb (is_callee id)); [exact Logic.I | apply spec_ret; exact Hargs].
        - skipb. apply spec_ret. reflexivity. }
      destruct (N.eqb b 123 && negb ol).
      { skipn u1 q1. useb (IH3 q1). intros e q2 He. apply spec_ret. exact He. }
      destruct ol; exact Logic.I.
    + intros p. cbn [get_call_arguments]. fold_knot bs.
      skipb. skipn op q2. destruct (negb op); [apply spec_ret; exact Logic.I|].
      skipn u3 q3. useb (IH9 [] [] [] q3 eq_refl eq_refl). intros ca q4 Hca. skipb. apply spec_ret. exact Hca.
    + intros pos named names p Hpos Hnamed. cbn [args_loop]. fold_knot bs.
      skipn p0 q0.
      assert (Hret : nocr_args (CallArguments (rev pos) (rev named)) = true).
      { cbn [nocr_args]. rewrite nocr_pos_eq, nocr_named_eq, !forallb_rev', Hpos, Hnamed. reflexivity. }
      destruct (negb (Nat.ltb p0 (length_ bs))); [apply spec_ret; exact Hret|].
      destruct (is_byte_at bs 41 p0); [apply spec_ret; exact Hret|].
      useb (IH7 false q0). intros e q He.
      eapply spec_bind with (Q1 := fun st _ => let '(a, b, c) := st in forallb nocr_inline a = true /\ forallb nocr_named b = true) (E1 := ET); [|intros; exact Logic.I|].
      * assert (Hpos' : forall q', spec (match names with [] => ret (e :: pos, named, names) | _ :: _ => error_here PositionalArgumentFollowsNamed end) q'
                             (fun st _ => let '(a, b, c) := st in forallb nocr_inline a = true /\ forallb nocr_named b = true) ET).
        { intros q'. destruct names; [apply spec_ret; split; [cbn [forallb]; rewrite He, Hpos; reflexivity | assumption] | exact Logic.I]. }
        destruct e as [? | ? | ? ? | id [a|] | ? ? ? | ? | ?]; try apply Hpos'.
        skipn u1 q1. skipn colon q2. destruct colon; [|apply Hpos'].
        destruct (has_name names id); [exact Logic.I|]. skipn u3 q3. skipn u4 q4. useb (IH7 true q4). intros v q5 Hv.
        apply spec_ret. split; [exact Hpos|]. cbn [forallb nocr_named]. rewrite Hv, Hnamed. reflexivity.
      * intros [[a b] c] q2 [Ha Hb]. skipb. skipb. skipb. apply IH9; assumption.
Qed.

Lemma nc_get_pattern n p : spec (get_pattern bs n) p NP ET.
Proof. apply (proj1 (knot_nc_all n)). Qed.

Lemma nc_get_attribute n p : spec (get_attribute bs n) p (fun a _ => nocr_attribute a = true) ET.
Proof.
  unfold get_attribute. skipn id q1. skipn u2 q2. skipn u3 q3. useb (nc_get_pattern n q3). intros pat q4 Hp.
  destruct pat as [pat|]; [apply spec_ret; exact Hp | exact Logic.I].
Qed.

Lemma nc_get_attributes n : forall acc p, forallb nocr_attribute acc = true ->
  spec (get_attributes bs n acc) p (fun attrs _ => forallb nocr_attribute attrs = true) ET.
Proof.
  induction n as [|n IH]; intros acc p Hacc; [exact Logic.I|]. cbn [get_attributes].
  skipn ls q1. skipn u2 q2. skipn dot q3.
  destruct (negb dot); [skipb; apply spec_ret; rewrite forallb_rev'; exact Hacc|].
  eapply spec_bind; [apply spec_try, (nc_get_attribute n q3) | intros ? ? []|].
  intros r q4 Hr. destruct r as [e | attr].
  - skipb. apply spec_ret. rewrite forallb_rev'. exact Hacc.
  - apply IH. cbn [forallb]. rewrite Hr, Hacc. reflexivity.
Qed.

Lemma nc_get_message n es p : spec (get_message bs n es) p (fun e _ => nocr_entry e = true) ET.
Proof.
  unfold get_message. skipn id q1. skipn u2 q2. skipn u3 q3. useb (nc_get_pattern n q3). intros pat q4 Hp.
  skipn u5 q5. useb (nc_get_attributes n [] q5 eq_refl). intros attrs q6 Ha.
  destruct pat as [pat|]; [apply spec_ret; cbn [nocr_entry]; cbn [NP] in Hp; rewrite Hp, Ha; reflexivity|].
  destruct attrs as [|a r]; [skipb; exact Logic.I | apply spec_ret; cbn [nocr_entry]; rewrite Ha; reflexivity].
Qed.

Lemma nc_get_term n es p : spec (get_term bs n es) p (fun e _ => nocr_entry e = true) ET.
Proof.
  unfold get_term. skipn u0 q0. skipn id q1. skipn u2 q2. skipn u3 q3. skipn u4 q4.
  useb (nc_get_pattern n q4). intros pat q5 Hp. skipn u6 q6. useb (nc_get_attributes n [] q6 eq_refl). intros attrs q7 Ha.
  destruct pat as [pat|]; [apply spec_ret; cbn [nocr_entry]; cbn [NP] in Hp; rewrite Hp, Ha; reflexivity | skipb; exact Logic.I].
Qed.

Lemma nc_get_entry n es p : spec (get_entry bs n es) p (fun e _ => nocr_entry e = true) ET.
Proof.
  unfold get_entry. skipn cb q0. destruct cb as [b|]; [|apply nc_get_message].
  destruct (N.eqb b 35).
  - skipn cl q1. destruct cl as [c lvl]. destruct lvl; try (apply spec_ret; reflexivity). exact Logic.I.
  - destruct (N.eqb b 45); [apply nc_get_term | apply nc_get_message].
Qed.

Definition NR (body : list entry) : Prop := forallb nocr_entry body = true.

Lemma nc_parse_loop n : forall body errors lc cnt p, NR body ->
  spec (parse_loop bs n body errors lc cnt) p (fun r _ => NR (fst r)) ET.
Proof.
  induction n as [|n IH]; intros body errors lc cnt p Hbody; [exact Logic.I|]. cbn [parse_loop].
  skipn p0 q0.
  destruct (negb (Nat.ltb p0 (length_ bs))).
  { apply spec_ret. cbn [fst]. unfold NR in *. rewrite forallb_rev'. destruct lc; [cbn [forallb nocr_entry]; exact Hbody | exact Hbody]. }
  eapply spec_bind; [apply spec_try, (nc_get_entry n p0 q0) | intros ? ? []|].
  intros r q1 Hr.
  set (rb := match lc with
             | Some c =>
                 match r with
                 | inr (Message _ _ _ _ as e) | inr (Term _ _ _ _ as e) =>
                     if Nat.ltb cnt 2 then (inr (attach e c), body) else (r, CommentEntry c :: body)
                 | _ => (r, CommentEntry c :: body)
                 end
             | None => (r, body)
             end).
  assert (Hrb : match fst rb with inr e => nocr_entry e = true | inl _ => True end /\ NR (snd rb)).
  { unfold rb. destruct lc as [c|]; [|split; [exact Hr | exact Hbody]].
    assert (Hb' : NR (CommentEntry c :: body)) by exact Hbody.
    destruct r as [e | e]; [split; [exact Logic.I | exact Hb']|].
    destruct e; try (split; [exact Hr | exact Hb']); destruct (Nat.ltb cnt 2); split; try exact Hr; try exact Hb'; try exact Hbody. }
  destruct rb as [r' body'] eqn:Erb. cbn [fst snd] in Hrb. destruct Hrb as [Hr' Hb'].
  eapply spec_bind with (Q1 := fun st _ => NR (fst (fst st))) (E1 := ET); [|intros; exact Logic.I|].
  - destruct r' as [err | e].
    + eapply spec_bind with (Q1 := fun ej _ => nocr_entry (snd ej) = true) (E1 := ET); [|intros; exact Logic.I|].
      * unfold recover. skipn rew q2. skipn p2 q3. skipn content0 q4. apply spec_ret. reflexivity.
      * intros ej q2 Hej. apply spec_ret. cbn [fst]. unfold NR in *. cbn [forallb]. rewrite Hej, Hb'. reflexivity.
    + destruct e; try (apply spec_ret; cbn [fst]; unfold NR in *; cbn [forallb]; rewrite Hr', Hb'; reflexivity).
      apply spec_ret. cbn [fst]. exact Hb'.
  - intros [[b1 e1] l1] q2 Hst. cbn [fst] in Hst. skipn c2 q3. apply IH. exact Hst.
Qed.

(* ---- comment lines: slices up to a line end, hence without LF, and without CR ---- *)
Lemma line_len_no_lf k : forall p i b, i < line_len bs k p -> nth_error bs (p + i) = Some b -> N.eqb b 10 = false /\ N.eqb b 13 = false.
Proof.
  induction k as [|k IH]; intros p i b Hi Hb; [cbn in Hi; lia|]. cbn [line_len] in Hi. unfold byte_at in Hi.
  destruct (nth_error bs p) as [c|] eqn:Ec; [|lia].
  destruct (N.eqb c c_lf) eqn:Elf; [lia|]. destruct (N.eqb c c_cr && is_byte_at bs c_lf (S p)) eqn:Ecr; [lia|].
  destruct i as [|i]; [|apply (IH (S p) i b ltac:(lia)); rewrite <- Hb; f_equal; lia].
  rewrite Nat.add_0_r in Hb. rewrite Ec in Hb. injection Hb as <-. split; [exact Elf|].
  (* a CR here would be followed by LF: the line would have ended *)
  destruct (N.eqb c 13) eqn:E13; [|reflexivity]. exfalso. apply N.eqb_eq in E13. subst c.
  pose proof (no_lone_cr_at bs Hnlc p Ec) as Hn. unfold is_byte_at, byte_at in Ecr. rewrite Hn in Ecr. discriminate Ecr.
Qed.

Definition cl_ok (c : comment) : Prop := forallb wf_comment_line (content c) = true.

Lemma nc_comment_line p : spec (get_comment_line bs) p (fun v _ => wf_comment_line v = true) ET.
Proof.
  unfold spec, get_comment_line. set (len := line_len bs (S (length_ bs) - p) p).
  destruct (slice bs p (len + p)) as [v| |] eqn:E; try exact Logic.I.
  unfold slice in E. destruct (Nat.leb p (len + p) && Nat.leb (len + p) (length bs) && is_char_boundary bs p && is_char_boundary bs (len + p)); [|discriminate E].
  injection E as <-. unfold wf_comment_line. apply forallb_forall. intros b Hb. apply In_nth_error in Hb as [i Hi].
  destruct (nth_error_firstn_some _ _ _ _ Hi) as [Hlt Hi']. rewrite nth_error_skipn_add in Hi'.
  replace (len + p - p) with len in Hlt by lia.
  destruct (line_len_no_lf _ p i b Hlt Hi') as [H10 H13]. rewrite H10, H13. reflexivity.
Qed.

Lemma nc_comment_loop n : forall lvl content0 p, forallb wf_comment_line content0 = true ->
  spec (get_comment_loop bs n lvl content0) p (fun r _ => cl_ok (fst r)) ET.
Proof.
  induction n as [|n IH]; intros lvl content0 p Hc; [exact Logic.I|]. cbn [get_comment_loop].
  assert (Hret : forall (l : level) q, spec (ret (Comment (rev content0), l)) q (fun (r : comment * level) _ => cl_ok (fst r)) ET).
  { intros l q. apply spec_ret. unfold cl_ok. cbn [fst content]. rewrite forallb_rev'. exact Hc. }
  skipn p0 q0. destruct (negb (Nat.ltb p0 (length_ bs))); [apply Hret|].
  skipn ll q1. destruct (level_eqb ll LNone); [skipb; apply Hret|].
  destruct (negb (level_eqb lvl LNone) && negb (level_eqb ll lvl)); [skipb; apply Hret|].
  skipn p1 q2. destruct (Nat.eqb p1 (length_ bs)); [apply Hret|].
  skipn eol q3. destruct eol.
  - useb (nc_comment_line q3). intros line q4 Hl. skipb. apply IH. cbn [forallb]. rewrite Hl, Hc. reflexivity.
  - skipn r q4. destruct r as [e | u].
    + destruct content0; [exact Logic.I | skipb; apply Hret].
    + useb (nc_comment_line q4). intros line q5 Hl. skipb. apply IH. cbn [forallb]. rewrite Hl, Hc. reflexivity.
Qed.

Definition cl_entry (e : entry) : Prop :=
  match e with
  | Message _ _ _ (Some c) | Term _ _ _ (Some c) => cl_ok c
  | CommentEntry c | GroupComment c | ResourceComment c => cl_ok c
  | _ => True
  end.

Lemma nc_entry_comments n es p : spec (get_entry bs n es) p (fun e _ => cl_entry e /\ match e with Message _ _ _ None | Term _ _ _ None | CommentEntry _ | GroupComment _ | ResourceComment _ | Junk _ => True | _ => False end) ET.
Proof.
  unfold get_entry. skipn cb q0.
  assert (Hmsg : forall q, spec (get_message bs n es) q (fun e _ => cl_entry e /\ match e with Message _ _ _ None | Term _ _ _ None | CommentEntry _ | GroupComment _ | ResourceComment _ | Junk _ => True | _ => False end) ET).
  { intros q. unfold get_message. skipn id q1. skipn u2 q2. skipn u3 q3. skipn pat q4. skipn u5 q5. skipn attrs q6.
    destruct pat as [pat|]; [apply spec_ret; split; exact Logic.I|]. destruct attrs; [skipb; exact Logic.I | apply spec_ret; split; exact Logic.I]. }
  assert (Hterm : forall q, spec (get_term bs n es) q (fun e _ => cl_entry e /\ match e with Message _ _ _ None | Term _ _ _ None | CommentEntry _ | GroupComment _ | ResourceComment _ | Junk _ => True | _ => False end) ET).
  { intros q. unfold get_term. skipn u0 q0'. skipn id q1. skipn u2 q2. skipn u3 q3. skipn u4 q4. skipn pat q5. skipn u6 q6. skipn attrs q7.
    destruct pat as [pat|]; [apply spec_ret; split; exact Logic.I | skipb; exact Logic.I]. }
  destruct cb as [b|]; [|apply Hmsg].
  destruct (N.eqb b 35).
  - unfold get_comment. useb (nc_comment_loop n LNone [] q0 eq_refl). intros [c lvl] q1 Hc. cbn [fst] in Hc.
    destruct lvl; try (apply spec_ret; split; [exact Hc | exact Logic.I]). exact Logic.I.
  - destruct (N.eqb b 45); [apply Hterm | apply Hmsg].
Qed.

Lemma cl_attach e c : cl_entry e -> cl_ok c -> cl_entry (attach e c).
Proof. destruct e; cbn [attach cl_entry]; auto. Qed.

Lemma nc_parse_loop_comments n : forall body errors lc cnt p, Forall cl_entry body -> match lc with Some c => cl_ok c | None => True end ->
  spec (parse_loop bs n body errors lc cnt) p (fun r _ => Forall cl_entry (fst r)) ET.
Proof.
  induction n as [|n IH]; intros body errors lc cnt p Hbody Hlc; [exact Logic.I|]. cbn [parse_loop].
  skipn p0 q0.
  destruct (negb (Nat.ltb p0 (length_ bs))).
  { apply spec_ret. cbn [fst]. apply Forall_rev. destruct lc; [constructor; [exact Hlc | exact Hbody] | exact Hbody]. }
  eapply spec_bind; [apply spec_try, (nc_entry_comments n p0 q0) | intros ? ? []|].
  intros r q1 Hr.
  set (rb := match lc with
             | Some c =>
                 match r with
                 | inr (Message _ _ _ _ as e) | inr (Term _ _ _ _ as e) =>
                     if Nat.ltb cnt 2 then (inr (attach e c), body) else (r, CommentEntry c :: body)
                 | _ => (r, CommentEntry c :: body)
                 end
             | None => (r, body)
             end).
  assert (Hrb : match fst rb with inr e => cl_entry e | inl _ => True end /\ Forall cl_entry (snd rb)).
  { unfold rb. destruct lc as [c|]; [|split; [destruct r; [exact Logic.I | apply Hr] | exact Hbody]].
    assert (Hb' : Forall cl_entry (CommentEntry c :: body)) by (constructor; [exact Hlc | exact Hbody]).
    destruct r as [e | e]; [split; [exact Logic.I | exact Hb']|]. destruct Hr as [Hr _].
    destruct e; try (split; [exact Hr | exact Hb']); destruct (Nat.ltb cnt 2); split; try exact Hr; try exact Hb'; try exact Hbody;
      apply cl_attach; assumption. }
  destruct rb as [r' body'] eqn:Erb. cbn [fst snd] in Hrb. destruct Hrb as [Hr' Hb'].
  eapply spec_bind with (Q1 := fun st _ => Forall cl_entry (fst (fst st)) /\ match snd st with Some c => cl_ok c | None => True end) (E1 := ET); [|intros; exact Logic.I|].
  - destruct r' as [err | e].
    + eapply spec_bind with (Q1 := fun ej _ => cl_entry (snd ej)) (E1 := ET); [|intros; exact Logic.I|].
      * unfold recover. skipn rew q2. skipn p2 q3. skipn content0 q4. apply spec_ret. exact Logic.I.
      * intros ej q2 Hej. apply spec_ret. cbn [fst snd]. split; [constructor; [exact Hej | exact Hb'] | exact Logic.I].
    + destruct e; try (apply spec_ret; cbn [fst snd]; split; [constructor; [exact Hr' | exact Hb'] | exact Logic.I]).
      apply spec_ret. cbn [fst snd]. split; [exact Hb' | exact Hr'].
  - intros [[b1 e1] l1] q2 [Hst Hl1]. cbn [fst snd] in Hst, Hl1. skipn c2 q3. apply IH; assumption.
Qed.

Theorem parse_m_comments n : spec (parse_m bs n) 0 (fun r _ => Forall cl_entry (fst r)) ET.
Proof. unfold parse_m. skipn u q. apply nc_parse_loop_comments; [constructor | exact Logic.I]. Qed.

Theorem parse_m_nocr n : spec (parse_m bs n) 0 (fun r _ => NR (fst r)) ET.
Proof. unfold parse_m. skipn u q. apply nc_parse_loop. reflexivity. Qed.

End NoCr.

Theorem parse_comment_lines_crlf bs t errs : no_lone_cr bs = true -> parse bs = Done (t, errs) -> Forall cl_entry t.
Proof.
  unfold parse. intros Hn H. pose proof (parse_m_comments bs Hn (fuel_for bs)) as Hs. unfold spec in Hs.
  destruct (parse_m bs (fuel_for bs) 0) as [[t' e'] q | e q | m |]; cbn [to_outcome] in H; try discriminate H.
  injection H as -> ->. exact Hs.
Qed.

Theorem parse_comment_lines bs t errs : nocr bs = true -> parse bs = Done (t, errs) -> Forall cl_entry t.
Proof. intros Hn. apply parse_comment_lines_crlf, nocr_no_lone, Hn. Qed.

(* what is left: no comment without a line (the zero-line comment of finding D7), executable *)
Definition comment_nonempty (c : comment) : bool := negb (match content c with [] => true | _ => false end).
Definition comments_nonempty_entry (e : entry) : bool :=
  match e with
  | Message _ _ _ c | Term _ _ _ c => match c with Some cm => comment_nonempty cm | None => true end
  | CommentEntry c | GroupComment c | ResourceComment c => comment_nonempty c
  | Junk _ => true
  end.
Definition comments_nonempty (t : resource) : bool := forallb comments_nonempty_entry t.

Lemma comments_ok_of_crlf bs t errs : no_lone_cr bs = true -> parse bs = Done (t, errs) -> comments_nonempty t = true -> comments_ok t = true.
Proof.
  intros Hn Hp Hne. pose proof (parse_comment_lines_crlf bs t errs Hn Hp) as Hcl. unfold comments_ok, comments_nonempty in *.
  rewrite forallb_forall in *. rewrite Forall_forall in Hcl. intros e He. specialize (Hne e He). specialize (Hcl e He).
  destruct e as [id v a [c|] | id v a [c|] | c | c | c | j]; cbn [comments_ok_entry comments_nonempty_entry cl_entry] in *; try reflexivity;
    unfold wf_comment, comment_nonempty, cl_ok in *; rewrite Hne, Hcl; reflexivity.
Qed.

Lemma comments_ok_of bs t errs : nocr bs = true -> parse bs = Done (t, errs) -> comments_nonempty t = true -> comments_ok t = true.
Proof. intros Hn. apply comments_ok_of_crlf, nocr_no_lone, Hn. Qed.

(* no text element of a parser output holds a CR, if every CR of the source is followed by LF *)
Theorem parse_nocr_crlf bs t errs : no_lone_cr bs = true -> parse bs = Done (t, errs) -> nocr_resource t = true.
Proof.
  unfold parse. intros Hn H. pose proof (parse_m_nocr bs Hn (fuel_for bs)) as Hs. unfold spec in Hs.
  destruct (parse_m bs (fuel_for bs) 0) as [[t' e'] q | e q | m |]; cbn [to_outcome] in H; try discriminate H.
  injection H as -> ->. exact Hs.
Qed.

Theorem parse_nocr bs t errs : nocr bs = true -> parse bs = Done (t, errs) -> nocr_resource t = true.
Proof. intros Hn. apply parse_nocr_crlf, nocr_no_lone, Hn. Qed.

(* every error-free parse of a source in which every CR is followed by LF (CR LF line ends, or no CR at all) yields
   a tree that (joined) is well-formed in the sense of the grammar, provided its comments are: the premise of the C04
   round trip holds.  A lone CR is excluded: it is a text character that Render.v leaves out (see Props/C04.v). *)
Theorem parse_wf_errorfree_crlf bs t : parse bs = Done (t, []) -> no_lone_cr bs = true -> comments_nonempty t = true ->
  wf_resource (map join_entry t) = true.
Proof.
  intros Hp Hn Hne. pose proof (comments_ok_of_crlf bs t [] Hn Hp Hne) as Hc. pose proof (parse_nocr_crlf bs t [] Hn Hp) as Hnt. apply (parse_wf_from_lines bs t Hp Hnt).
  pose proof (parse_lines_crlf bs t [] Hn Hp) as Hl. apply forallb_forall. intros e' He'. apply in_map_iff in He' as (e & <- & He).
  rewrite Forall_forall in Hl. unfold comments_ok in Hc. rewrite forallb_forall in Hc. apply (ln_entry_lines e (Hl e He) (Hc e He)).
Qed.

Theorem parse_wf_errorfree bs t : parse bs = Done (t, []) -> nocr bs = true -> comments_nonempty t = true ->
  wf_resource (map join_entry t) = true.
Proof. intros Hp Hn. apply (parse_wf_errorfree_crlf bs t Hp), nocr_no_lone, Hn. Qed.

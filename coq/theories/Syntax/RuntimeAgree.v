(* Syntax/RuntimeAgree.v — C05: the runtime parser agrees with the full parser apart from comments.

   Proofs about the two entry loops of Syntax/ParserModel.v (parse_loop / parse_runtime_loop).
   Contents
     1. fuel monotonicity of the recursive knot, get_attributes, get_message, get_term
        (both loops call the same function at different fuels; any two non-Fuel results coincide)
     2. positions: line starts, blank lines, "stop" lines; skip_blank_block
     3. where get_pattern / get_message / get_term stop (a line start or the end of input)
     4. comments: wf_hash_lines, get_comment, skip_comment (with the overshoot ptr = length + 1)
     5. junk recovery; one iteration of either loop
     6. the simulation:  sim_entries (all inputs: no line starting with a letter or '-' lies between
        the two cursors, both cursors are loop heads) and sim_junk (well-formed '#' lines: no
        non-comment non-blank line lies between them)
   Nothing is assumed: the final theorems are closed under the global context.                 *)
From FluentV Require Import Syntax.ParserModel.
From Coq Require Import Lia ZifyBool ZifyNat ZifyN.
Arguments N.add : simpl never. Arguments N.sub : simpl never. Arguments N.eqb : simpl never.
Arguments N.ltb : simpl never. Arguments N.leb : simpl never.

(* ================= 1. fuel monotonicity ================= *)
Definition le_res {A} (r r' : res A) : Prop := r = Fuel \/ r = r'.
Definition le_M {A} (f g : M A) : Prop := forall p, le_res (f p) (g p).

Lemma le_M_refl {A} (f : M A) : le_M f f.
Proof. intros p; right; reflexivity. Qed.

Lemma le_M_bind {A B} (m m' : M A) (k k' : A -> M B) :
  le_M m m' -> (forall a, le_M (k a) (k' a)) -> le_M (bind m k) (bind m' k').
Proof.
  intros Hm Hk p. unfold bind. destruct (Hm p) as [E|E]; rewrite E.
  - left; reflexivity.
  - destruct (m' p); try (right; reflexivity). apply Hk.
Qed.

Lemma le_M_try {A} (m m' : M A) : le_M m m' -> le_M (try_ m) (try_ m').
Proof.
  intros Hm p. unfold try_. destruct (Hm p) as [E|E]; rewrite E.
  - left; reflexivity.
  - right; reflexivity.
Qed.

Lemma le_M_fuel {A} (g : M A) : le_M out_of_fuel g.
Proof. intros p; left; reflexivity. Qed.

Section Mono.
Variable bs : bytes.

Ltac mono_step n' IH :=
  first
    [ lazymatch goal with
      | |- le_M ?f _ => lazymatch f with context [n'] => fail | _ => apply le_M_refl end
      end
    | apply le_M_fuel
    | apply IH
    | apply le_M_bind; [ | intros ? ]
    | apply le_M_try
    | match goal with
      | |- le_M (match ?x with _ => _ end) _ => destruct x
      end ].

Definition knot_mono (n m : nat) : Prop :=
  (forall p, le_res (get_pattern bs n p) (get_pattern bs m p)) /\
  (forall st, le_M (pattern_loop bs n st) (pattern_loop bs m st)) /\
  le_M (get_placeable bs n) (get_placeable bs m) /\
  le_M (get_expression bs n) (get_expression bs m) /\
  le_M (get_variants bs n) (get_variants bs m) /\
  (forall acc hd, le_M (variants_loop bs n acc hd) (variants_loop bs m acc hd)) /\
  (forall ol, le_M (get_inline_expression bs n ol) (get_inline_expression bs m ol)) /\
  le_M (string_loop bs n) (string_loop bs m) /\
  le_M (get_call_arguments bs n) (get_call_arguments bs m) /\
  (forall a b c, le_M (args_loop bs n a b c) (args_loop bs m a b c)).

Lemma knot_mono_all : forall n m, n <= m -> knot_mono n m.
Proof.
  induction n as [|n' IH]; intros m Hle.
  - repeat split; intros; apply le_M_fuel.
  - destruct m as [|m']; [lia|]. assert (Hle' : n' <= m') by lia.
    specialize (IH m' Hle'). destruct IH as (I1 & I2 & I3 & I4 & I5 & I6 & I7 & I8 & I9 & I10).
    change (forall p, le_res (get_pattern bs n' p) (get_pattern bs m' p)) with (le_M (get_pattern bs n') (get_pattern bs m')) in I1.
    change (forall p, le_res (get_pattern bs (S n') p) (get_pattern bs (S m') p)) with (le_M (get_pattern bs (S n')) (get_pattern bs (S m'))).
    repeat split; intros.
    + simpl get_pattern. repeat mono_step n' I2.
    + simpl pattern_loop. repeat (first [mono_step n' I2 | mono_step n' I3]).
    + simpl get_placeable. repeat mono_step n' I4.
    + simpl get_expression. repeat (first [mono_step n' I7 | mono_step n' I5]).
    + simpl get_variants. repeat mono_step n' I6.
    + simpl variants_loop. repeat (first [mono_step n' I1 | mono_step n' I6]).
    + simpl get_inline_expression. repeat (first [mono_step n' I8 | mono_step n' I9 | mono_step n' I3]).
    + simpl string_loop. repeat mono_step n' I8.
    + simpl get_call_arguments. repeat mono_step n' I10.
    + simpl args_loop. repeat (first [mono_step n' I7 | mono_step n' I10]).
Qed.

Lemma get_pattern_mono n m : n <= m -> le_M (get_pattern bs n) (get_pattern bs m).
Proof. intros H. exact (proj1 (knot_mono_all n m H)). Qed.

Lemma get_attribute_mono n m : n <= m -> le_M (get_attribute bs n) (get_attribute bs m).
Proof.
  intros H. pose proof (get_pattern_mono n m H) as I1. unfold get_attribute.
  repeat mono_step n I1.
Qed.

Lemma get_attributes_mono : forall n m, n <= m ->
  forall acc, le_M (get_attributes bs n acc) (get_attributes bs m acc).
Proof.
  induction n as [|n' IH]; intros m Hle acc.
  - apply le_M_fuel.
  - destruct m as [|m']; [lia|]. assert (Hle' : n' <= m') by lia.
    pose proof (get_attribute_mono n' m' Hle') as I1. specialize (IH m' Hle').
    cbn [get_attributes].
    repeat (first [mono_step n' I1 | mono_step n' IH]).
Qed.

Lemma get_message_mono n m s : n <= m -> le_M (get_message bs n s) (get_message bs m s).
Proof.
  intros H. pose proof (get_pattern_mono n m H) as I1.
  pose proof (get_attributes_mono n m H) as I2. unfold get_message.
  repeat (first [mono_step n I1 | mono_step n I2]).
Qed.

Lemma get_term_mono n m s : n <= m -> le_M (get_term bs n s) (get_term bs m s).
Proof.
  intros H. pose proof (get_pattern_mono n m H) as I1.
  pose proof (get_attributes_mono n m H) as I2. unfold get_term.
  repeat (first [mono_step n I1 | mono_step n I2]).
Qed.
End Mono.

Lemma mono_indep {A} (f : nat -> M A) :
  (forall n m, n <= m -> le_M (f n) (f m)) ->
  forall n m p, f n p <> Fuel -> f m p <> Fuel -> f n p = f m p.
Proof.
  intros H n m p Hn Hm. destruct (Nat.le_ge_cases n m) as [L|L].
  - destruct (H n m L p) as [E|E]; [contradiction|exact E].
  - destruct (H m n L p) as [E|E]; [contradiction|symmetry; exact E].
Qed.

(* ================= 2. positions ================= *)
(* ---------- generic list facts ---------- *)
Lemma nth_error_skipn_add {A} (l : list A) p i : nth_error (skipn p l) i = nth_error l (p + i).
Proof.
  revert l; induction p as [|p IH]; intros l; [reflexivity|].
  destruct l as [|a l]; cbn [skipn Nat.add nth_error]; [destruct i; reflexivity|apply IH].
Qed.

Lemma skipn_cons_nth {A} (l : list A) p a : nth_error l p = Some a -> skipn p l = a :: skipn (S p) l.
Proof.
  revert l; induction p as [|p IH]; intros l H; destruct l as [|b l]; cbn in *; try discriminate.
  - injection H as ->. reflexivity.
  - apply IH in H. rewrite H. reflexivity.
Qed.

Lemma scan_while_spec (f : N -> bool) (l : bytes) :
  (forall j, j < scan_while f l -> exists b, nth_error l j = Some b /\ f b = true) /\
  (forall b, nth_error l (scan_while f l) = Some b -> f b = false).
Proof.
  induction l as [|a l [IH1 IH2]]; cbn [scan_while].
  - split; [intros j H; lia|intros b H; discriminate].
  - destruct (f a) eqn:Fa.
    + split.
      * intros [|j] H; [exists a; auto|]. apply IH1. lia.
      * intros b H. apply IH2. exact H.
    + split; [intros j H; lia|]. intros b H. cbn in H. injection H as <-. exact Fa.
Qed.

Lemma skipn_skipn' {A} (l : list A) x y : skipn x (skipn y l) = skipn (x + y) l.
Proof.
  revert l; induction y as [|y IH]; intros l.
  - rewrite Nat.add_0_r. reflexivity.
  - replace (x + S y) with (S (x + y)) by lia. destruct l as [|a l]; [rewrite !skipn_nil; reflexivity|].
    cbn [skipn]. apply IH.
Qed.

Section Pos.
Variable bs : bytes.
Notation len := (length_ bs).
Notation byte_at := (byte_at bs).
Notation rest := (rest bs).
Notation is_byte_at := (is_byte_at bs).

Lemma byte_at_rest p i : nth_error (rest p) i = byte_at (p + i).
Proof. apply nth_error_skipn_add. Qed.

Lemma byte_at_None p : byte_at p = None <-> len <= p.
Proof. apply nth_error_None. Qed.

Lemma byte_at_Some_lt p b : byte_at p = Some b -> p < len.
Proof. intros H. apply nth_error_Some. unfold ParserModel.byte_at in H. rewrite H. discriminate. Qed.

Lemma byte_at_lt p : p < len -> exists b, byte_at p = Some b.
Proof.
  intros H. destruct (byte_at p) as [b|] eqn:E; [eauto|]. apply byte_at_None in E. lia.
Qed.

Lemma rest_cons p b : byte_at p = Some b -> rest p = b :: rest (S p).
Proof. apply skipn_cons_nth. Qed.

Lemma rest_nil p : len <= p -> rest p = [].
Proof. intros H. apply skipn_all2. exact H. Qed.

Lemma skipn_rest k p : skipn k (rest p) = rest (k + p).
Proof. apply skipn_skipn'. Qed.

Lemma is_byte_at_true b p : is_byte_at b p = true <-> byte_at p = Some b.
Proof.
  unfold ParserModel.is_byte_at. destruct (byte_at p) as [x|]; split; intros H; try discriminate.
  - apply N.eqb_eq in H. subst; reflexivity.
  - injection H as ->. apply N.eqb_refl.
Qed.

Lemma is_byte_at_lt b p : is_byte_at b p = true -> p < len.
Proof. intros H. apply is_byte_at_true in H. eapply byte_at_Some_lt; eauto. Qed.

(* scan_while on a suffix, by position *)
Lemma scan_rest_in f p j : j < scan_while f (rest p) -> exists b, byte_at (p + j) = Some b /\ f b = true.
Proof. intros H. rewrite <- byte_at_rest. apply (proj1 (scan_while_spec f (rest p))). exact H. Qed.

Lemma scan_rest_stop f p b : byte_at (p + scan_while f (rest p)) = Some b -> f b = false.
Proof. rewrite <- byte_at_rest. apply (proj2 (scan_while_spec f (rest p))). Qed.

Lemma scan_rest_zero f p b : byte_at p = Some b -> f b = false -> scan_while f (rest p) = 0.
Proof. intros H F. rewrite (rest_cons p b H). cbn [scan_while]. rewrite F. reflexivity. Qed.

Lemma scan_rest_le f p : p + scan_while f (rest p) <= Nat.max p len.
Proof.
  destruct (scan_while f (rest p)) as [|s] eqn:E; [lia|].
  destruct (scan_rest_in f p s) as (b & Hb & _); [lia|]. apply byte_at_Some_lt in Hb. lia.
Qed.

(* ---------- end of line ---------- *)
Definition at_eol (p : nat) : Prop :=
  byte_at p = Some c_lf \/ (byte_at p = Some c_cr /\ byte_at (S p) = Some c_lf).

Lemma eol_len_spec p :
  (eol_len (rest p) = 0 /\ ~ at_eol p) \/
  (eol_len (rest p) = 1 /\ byte_at p = Some c_lf) \/
  (eol_len (rest p) = 2 /\ byte_at p = Some c_cr /\ byte_at (S p) = Some c_lf).
Proof.
  unfold at_eol. destruct (byte_at p) as [b|] eqn:E.
  - rewrite (rest_cons p b E). cbn [eol_len].
    destruct (N.eqb b c_lf) eqn:E1.
    + apply N.eqb_eq in E1. subst. right; left; auto.
    + apply N.eqb_neq in E1. destruct (N.eqb b c_cr) eqn:E2.
      * apply N.eqb_eq in E2. subst b. destruct (byte_at (S p)) as [b2|] eqn:E3.
        -- rewrite (rest_cons (S p) b2 E3). destruct (N.eqb b2 c_lf) eqn:E4.
           ++ apply N.eqb_eq in E4. subst. right; right; auto.
           ++ apply N.eqb_neq in E4. left; split; [reflexivity|]. intros [H|[_ H]]; congruence.
        -- rewrite (rest_nil (S p)) by (apply byte_at_None; exact E3).
           left; split; [reflexivity|]. intros [H|[_ H]]; congruence.
      * apply N.eqb_neq in E2. left; split; [reflexivity|]. intros [H|[H _]]; congruence.
  - rewrite (rest_nil p) by (apply byte_at_None; exact E). left; split; [reflexivity|].
    intros [H|[H _]]; congruence.
Qed.

(* ---------- the position predicates ---------- *)
(* p is the first byte of a line *)
Definition new_line (p : nat) : bool := Nat.eqb p 0 || is_byte_at c_lf (p - 1).
(* the line at p is blank: spaces, then LF or CRLF (what skip_blank_block consumes) *)
Definition blank_atb (p : nat) : bool :=
  negb (Nat.eqb (eol_len (rest (scan_while is_space (rest p) + p))) 0).
Definition is_e_byte (b : N) : bool := is_ascii_alphabetic b || N.eqb b 45.
(* a line that starts a message or a term *)
Definition e_startb (p : nat) : bool :=
  new_line p && match byte_at p with Some b => is_e_byte b | None => false end.
(* a line that is neither a '#' line nor blank *)
Definition stopb (p : nat) : bool :=
  new_line p && Nat.ltb p len && negb (is_byte_at 35 p) && negb (blank_atb p).

Definition nostop (a b : nat) : Prop := forall i, a <= i < b -> stopb i = false.
Definition noE (a b : nat) : Prop := forall i, a <= i < b -> e_startb i = false.
(* loop heads: end of input, or the start of a non-blank line *)
Definition Hd (p : nat) : Prop := len <= p \/ (new_line p = true /\ blank_atb p = false).
(* where a message / term / comment / recovery may stop before skip_blank_block *)
Definition LSE (p : nat) : Prop := len <= p \/ new_line p = true.
Definition endish (p : nat) : Prop := LSE p \/ byte_at p = Some c_lf.

Lemma new_line_S p : byte_at p = Some c_lf -> new_line (S p) = true.
Proof.
  intros H. unfold new_line. replace (S p - 1) with p by lia.
  apply is_byte_at_true in H. rewrite H. apply orb_true_r.
Qed.

Lemma new_line_false p b : 0 < p -> byte_at (p - 1) = Some b -> b <> c_lf -> new_line p = false.
Proof.
  intros Hp H Hb. unfold new_line. destruct (Nat.eqb_spec p 0); [lia|]. cbn [orb].
  unfold ParserModel.is_byte_at. rewrite H. apply N.eqb_neq. exact Hb.
Qed.

Lemma is_space_true b : is_space b = true <-> b = c_sp.
Proof. unfold is_space. apply N.eqb_eq. Qed.

Lemma e_byte_not_blank p b : byte_at p = Some b -> is_e_byte b = true -> blank_atb p = false.
Proof.
  intros H E. unfold blank_atb.
  assert (b <> c_sp /\ b <> c_lf /\ b <> c_cr) as (N1 & N2 & N3).
  { unfold is_e_byte, is_ascii_alphabetic, in_rng, c_sp, c_lf, c_cr in *. lia. }
  rewrite (scan_rest_zero is_space p b H).
  2:{ destruct (is_space b) eqn:S; [apply is_space_true in S; contradiction|reflexivity]. }
  cbn [Nat.add]. destruct (eol_len_spec p) as [[-> _]|[[_ H1]|[_ [H1 _]]]]; [reflexivity|congruence|congruence].
Qed.

Lemma e_start_stop p : e_startb p = true -> stopb p = true.
Proof.
  unfold e_startb, stopb. intros H. apply andb_prop in H as [H1 H2]. rewrite H1.
  destruct (byte_at p) as [b|] eqn:E; [|discriminate].
  pose proof (byte_at_Some_lt p b E) as L.
  rewrite (e_byte_not_blank p b E H2).
  replace (Nat.ltb p len) with true by (symmetry; apply Nat.ltb_lt; exact L).
  unfold ParserModel.is_byte_at. rewrite E.
  replace (N.eqb b 35) with false; [reflexivity|].
  unfold is_e_byte, is_ascii_alphabetic, in_rng in H2. lia.
Qed.

Lemma nostop_noE a b : nostop a b -> noE a b.
Proof.
  intros H i Hi. specialize (H i Hi). destruct (e_startb i) eqn:E; [|reflexivity].
  apply e_start_stop in E. congruence.
Qed.

Lemma nostop_trans a b c : nostop a b -> nostop b c -> nostop a c.
Proof. intros H1 H2 i Hi. destruct (Nat.lt_ge_cases i b); [apply H1|apply H2]; lia. Qed.
Lemma noE_trans a b c : noE a b -> noE b c -> noE a c.
Proof. intros H1 H2 i Hi. destruct (Nat.lt_ge_cases i b); [apply H1|apply H2]; lia. Qed.
Lemma nostop_empty a b : b <= a -> nostop a b.
Proof. intros H i Hi. lia. Qed.
Lemma noE_empty a b : b <= a -> noE a b.
Proof. intros H i Hi. lia. Qed.

Lemma stopb_not_nl i : new_line i = false -> stopb i = false.
Proof. intros H. unfold stopb. rewrite H. reflexivity. Qed.
Lemma stopb_hash i : is_byte_at 35 i = true -> stopb i = false.
Proof. intros H. unfold stopb. rewrite H. cbn [negb]. rewrite andb_false_r. reflexivity. Qed.
Lemma stopb_blank i : blank_atb i = true -> stopb i = false.
Proof. intros H. unfold stopb. rewrite H. cbn [negb]. rewrite andb_false_r. reflexivity. Qed.
Lemma stopb_end i : len <= i -> stopb i = false.
Proof.
  intros H. unfold stopb. replace (Nat.ltb i len) with false by (symmetry; apply Nat.ltb_ge; exact H).
  rewrite andb_false_r. reflexivity.
Qed.

(* ---------- skip_blank_block ---------- *)
Lemma blank_block_spec : forall k p c m,
  blank_block k (rest p) = (c, m) -> len - p < k ->
  nostop p (m + p) /\ blank_atb (m + p) = false /\ (0 < m -> new_line (m + p) = true).
Proof.
  induction k as [|k IH]; intros p c m H Hk; [lia|].
  cbn [blank_block] in H. rewrite skipn_rest in H.
  set (s := scan_while is_space (rest p)) in *.
  assert (Hsp : forall j, j < s -> byte_at (p + j) = Some c_sp).
  { intros j Hj. destruct (scan_rest_in is_space p j Hj) as (b & Hb & Fb).
    apply is_space_true in Fb. subst. exact Hb. }
  destruct (eol_len (rest (s + p))) as [|e'] eqn:E.
  - injection H as <- <-. cbn [Nat.add]. split; [apply nostop_empty; lia|]. split; [|lia].
    unfold blank_atb. fold s. rewrite E. reflexivity.
  - rewrite skipn_rest in H.
    destruct (blank_block k (rest (S e' + (s + p)))) as [c' m'] eqn:B.
    injection H as <- <-.
    assert (Hblank : blank_atb p = true) by (unfold blank_atb; fold s; rewrite E; reflexivity).
    assert (Hend : byte_at (S e' + (s + p) - 1) = Some c_lf /\ S e' + (s + p) <= len /\
                   forall i, s + p < i < S e' + (s + p) -> byte_at (i - 1) = Some c_cr).
    { destruct (eol_len_spec (s + p)) as [[E0 _]|[[E1 H1]|[E2 [H1 H2]]]]; rewrite E in *; try discriminate.
      - injection E1 as ->. replace (1 + (s + p) - 1) with (s + p) by lia.
        split; [exact H1|]. apply byte_at_Some_lt in H1. split; [lia|]. intros i Hi; lia.
      - injection E2 as ->. replace (2 + (s + p) - 1) with (S (s + p)) by lia.
        split; [exact H2|]. apply byte_at_Some_lt in H2. split; [lia|].
        intros i Hi. replace (i - 1) with (s + p) by lia. exact H1. }
    destruct Hend as (Hlf & Hle & Hcr).
    specialize (IH (S e' + (s + p)) c' m' B ltac:(lia)) as (I1 & I2 & I3).
    replace (s + S e' + m' + p) with (m' + (S e' + (s + p))) by lia.
    assert (Hnl : new_line (S e' + (s + p)) = true).
    { replace (S e' + (s + p)) with (S (S e' + (s + p) - 1)) at 1 by lia. apply new_line_S. exact Hlf. }
    split; [|split].
    + apply (nostop_trans _ (S e' + (s + p))); [|exact I1].
      intros i Hi. destruct (Nat.eq_dec i p) as [->|Hne]; [apply stopb_blank; exact Hblank|].
      apply stopb_not_nl.
      destruct (Nat.le_gt_cases i (s + p)).
      * apply (new_line_false i c_sp); [lia| |unfold c_sp, c_lf; lia].
        replace (i - 1) with (p + (i - 1 - p)) by lia. apply Hsp. lia.
      * apply (new_line_false i c_cr); [lia| |unfold c_cr, c_lf; lia]. apply Hcr. lia.
    + exact I2.
    + intros _. destruct m' as [|m']; [exact Hnl|]. apply I3. lia.
Qed.

Lemma skip_blank_block_spec p c q :
  skip_blank_block bs p = Ok c q ->
  p <= q /\ nostop p q /\ blank_atb q = false /\ (p < q -> new_line q = true).
Proof.
  unfold skip_blank_block. destruct (blank_block (S (len - p)) (rest p)) as [c' m] eqn:B.
  intros H. injection H as <- <-.
  destruct (blank_block_spec _ _ _ _ B ltac:(lia)) as (H1 & H2 & H3).
  split; [lia|]. split; [exact H1|]. split; [exact H2|]. intros Hlt. apply H3. lia.
Qed.

Lemma skip_blank_block_total p : exists c q, skip_blank_block bs p = Ok c q.
Proof.
  unfold skip_blank_block. destruct (blank_block (S (len - p)) (rest p)) as [c' m]. eauto.
Qed.

Lemma skip_blank_block_end p c q : skip_blank_block bs p = Ok c q -> len <= p -> q = p.
Proof.
  unfold skip_blank_block. intros H Hp. rewrite (rest_nil p Hp) in H. cbn in H. injection H as _ <-. reflexivity.
Qed.

Lemma blank_at_lf p : byte_at p = Some c_lf -> blank_atb p = true.
Proof.
  intros H. unfold blank_atb. rewrite (scan_rest_zero is_space p c_lf H) by reflexivity.
  cbn [Nat.add]. destruct (eol_len_spec p) as [[_ E]|[[-> _]|[_ [H1 _]]]]; [|reflexivity|].
  - exfalso. apply E. left. exact H.
  - rewrite H in H1. discriminate H1.
Qed.

(* from a position where an entry may end, skip_blank_block reaches a loop head *)
Lemma sbb_Hd p c q : skip_blank_block bs p = Ok c q -> endish p -> Hd q.
Proof.
  intros H E. pose proof (skip_blank_block_spec p c q H) as (H1 & _ & H3 & H4).
  destruct E as [[E|E]|E].
  - left. rewrite (skip_blank_block_end p c q H E). exact E.
  - destruct (Nat.eq_dec p q) as [<-|Hne]; [right; auto|]. right. split; [apply H4; lia|exact H3].
  - destruct (Nat.eq_dec p q) as [<-|Hne].
    + rewrite (blank_at_lf p E) in H3. discriminate.
    + right. split; [apply H4; lia|exact H3].
Qed.

End Pos.

(* ================= 3. end positions of patterns, messages and terms ================= *)
Lemma bind_ok {A B} (m : M A) (k : A -> M B) p b q :
  bind m k p = Ok b q -> exists a p', m p = Ok a p' /\ k a p' = Ok b q.
Proof. unfold bind. destruct (m p) as [a p'| | |]; try discriminate. eauto. Qed.

Lemma bind_err {A B} (m : M A) (k : A -> M B) p e q :
  bind m k p = Err e q -> m p = Err e q \/ exists a p', m p = Ok a p' /\ k a p' = Err e q.
Proof.
  unfold bind. destruct (m p) as [a p'|e' q'| |]; try discriminate; intros H.
  - right. exists a, p'. split; [reflexivity|exact H].
  - left. injection H as -> ->. reflexivity.
Qed.

Ltac bind_inv H a q Ha := apply bind_ok in H; destruct H as (a & q & Ha & H).
Ltac ok_inv H := first [injection H as <- <- | injection H as <- -> | injection H as -> <- | injection H as -> ->].

Section PatEnd.
Variable bs : bytes.
Notation len := (length_ bs).
Notation byte_at := (byte_at bs).
Notation rest := (rest bs).

Lemma memchr3_nth l i : memchr3 l = Some i -> exists b, nth_error l i = Some b.
Proof.
  revert i; induction l as [|a l IH]; intros i H; cbn [memchr3] in H; [discriminate|].
  destruct (N.eqb a c_lf || N.eqb a 123 || N.eqb a 125).
  - injection H as <-. exists a. reflexivity.
  - destruct (memchr3 l) as [j|]; cbn in H; [|discriminate]. injection H as <-. cbn. apply IH. reflexivity.
Qed.

Lemma get_text_slice_end p s e nb t q :
  get_text_slice bs p = Ok (s, e, nb, t) q ->
  (t = TLineFeed -> new_line bs q = true) /\ (t = TCrlf -> byte_at q = Some c_lf).
Proof.
  unfold get_text_slice. destruct (Nat.ltb len p).
  { intros H. injection H as <- <- <- <- <-. split; discriminate. }
  destruct (memchr3 (rest p)) as [i|] eqn:Em.
  2:{ intros H. injection H as <- <- <- <- <-. split; discriminate. }
  destruct (nth_error (rest p) i) as [b|] eqn:Eb; [|discriminate].
  rewrite byte_at_rest in Eb.
  destruct (N.eqb b 125); [discriminate|].
  destruct (N.eqb b c_lf) eqn:Elf.
  2:{ intros H. injection H as <- <- <- <- <-. split; discriminate. }
  apply N.eqb_eq in Elf. subst b.
  assert (Hnl : new_line bs (S i + p) = true).
  { cbn [Nat.add]. apply new_line_S. rewrite Nat.add_comm. exact Eb. }
  destruct i as [|i'].
  { intros H. injection H as <- <- <- <- <-. split; [intros _; exact Hnl|discriminate]. }
  destruct (match nth_error (rest p) i' with Some c => N.eqb c c_cr | None => false end).
  - intros H. injection H as <- <- <- <- <-. split; [discriminate|]. intros _.
    replace (p + S i') with (S i' + p) in Eb by lia. exact Eb.
  - intros H. injection H as <- <- <- <- <-. split; [intros _; exact Hnl|discriminate].
Qed.

Lemma is_eol_at_lf p : byte_at p = Some c_lf -> is_eol bs p = Ok true p.
Proof. intros H. unfold is_eol. unfold ParserModel.byte_at in *. rewrite H. reflexivity. Qed.

Lemma pattern_loop_end : forall n st p st' q,
  pattern_loop bs n st p = Ok st' q ->
  (is_line_start (role st) = true -> endish bs p) -> LSE bs q.
Proof.
  induction n as [|n IH]; intros st p st' q H Hpre; [discriminate|].
  simpl pattern_loop in H.
  bind_inv H p0 p1 H0. cbv [get_ptr] in H0. ok_inv H0.
  destruct (Nat.ltb_spec p len) as [Hlt|Hge]; cbn [negb] in H.
  2:{ cbv [ret] in H. injection H as <- <-. left. exact Hge. }
  bind_inv H brace p2 H0.
  destruct brace.
  { bind_inv H exp p3 H1. eapply IH; [exact H|]. cbn. discriminate. }
  unfold take_byte_if in H0. destruct (is_byte_at bs 123 p); [discriminate|]. injection H0 as <-.
  bind_inv H ss p3 H0. cbv [get_ptr] in H0. ok_inv H0.
  bind_inv H pro p3 Hpro.
  assert (Hnone : pro = None -> LSE bs p3).
  { intros ->. destruct (is_line_start (role st)) eqn:Els; [|discriminate].
    specialize (Hpre eq_refl).
    bind_inv Hpro indent p4 H0. cbv [skip_blank_inline] in H0. injection H0 as <- <-.
    set (ind := scan_while is_space (rest p)) in *.
    bind_inv Hpro cb p5 H0. cbv [current_byte] in H0. injection H0 as <- <-.
    destruct (byte_at (ind + p)) as [b|] eqn:Eb.
    2:{ cbv [ret] in Hpro. injection Hpro as <-. left. apply byte_at_None. exact Eb. }
    destruct (Nat.eqb_spec ind 0) as [E0|E0].
    - rewrite E0 in *. cbn [Nat.add] in *.
      bind_inv Hpro eol p6 H0.
      destruct Hpre as [Hpre|Hlf].
      + unfold is_eol in H0. injection H0 as <- <-.
        destruct (negb _); cbv [ret] in Hpro; [|discriminate]. injection Hpro as <-. exact Hpre.
      + rewrite (is_eol_at_lf p Hlf) in H0. injection H0 as <- <-. discriminate.
    - destruct (negb (is_byte_pattern_continuation b)); [|discriminate].
      bind_inv Hpro u p6 H0. cbv [set_ptr] in H0. injection H0 as _ <-. cbv [ret] in Hpro. injection Hpro as <-.
      destruct Hpre as [Hpre|Hlf]; [exact Hpre|].
      exfalso. apply E0. unfold ind. apply (scan_rest_zero bs is_space p c_lf Hlf). reflexivity. }
  destruct pro as [indent|].
  2:{ cbv [ret] in H. injection H as <- <-. apply Hnone. reflexivity. }
  bind_inv H ts p4 Hts. destruct ts as [[[s e] nb] t].
  eapply IH; [exact H|]. cbn [role].
  destruct (get_text_slice_end _ _ _ _ _ _ Hts) as [T1 T2].
  destruct t; cbn [is_line_start]; try discriminate; intros _.
  - left. right. apply T1. reflexivity.
  - right. apply T2. reflexivity.
Qed.

Lemma lift_outcome_pos {A} (o : outcome A) p a q : lift_outcome o p = Ok a q -> q = p.
Proof. unfold lift_outcome. destruct o; intros H; try discriminate. injection H as _ <-. reflexivity. Qed.

Lemma finish_elements_pos lnb ci : forall phs i p r q,
  finish_elements bs lnb ci i phs p = Ok r q -> q = p.
Proof.
  induction phs as [|ph phs IH]; intros i p r q H; cbn [finish_elements] in H.
  - cbv [ret] in H. injection H as _ <-. reflexivity.
  - bind_inv H x p1 H0. bind_inv H xs p2 H1. cbv [ret] in H. injection H as _ <-.
    apply IH in H1. subst p2.
    destruct ph; cbn [finish_element] in H0.
    + cbv [ret] in H0. injection H0 as _ <-. reflexivity.
    + match type of H0 with (if ?c then _ else _) _ = _ => destruct c end.
      * cbv [ret] in H0. injection H0 as _ <-. reflexivity.
      * bind_inv H0 v p3 H2. cbv [ret] in H0. injection H0 as _ <-.
        unfold source_slice in H2. apply lift_outcome_pos in H2. exact H2.
Qed.

Lemma finish_pattern_pos st p r q : finish_pattern bs st p = Ok r q -> q = p.
Proof.
  unfold finish_pattern. destruct (last_non_blank st).
  - intros H. bind_inv H els p1 H0. cbv [ret] in H. injection H as _ <-.
    eapply finish_elements_pos; eauto.
  - cbv [ret]. intros H. injection H as _ <-. reflexivity.
Qed.

Lemma skip_eol_spec p b q :
  skip_eol bs p = Ok b q -> (b = false /\ q = p) \/ (b = true /\ new_line bs q = true).
Proof.
  unfold skip_eol. destruct (eol_len_spec bs p) as [[-> _]|[[-> H1]|[-> [H1 H2]]]]; intros H; injection H as <- <-.
  - left; auto.
  - right. split; [reflexivity|]. apply new_line_S. exact H1.
  - right. split; [reflexivity|]. apply (new_line_S bs (S p)). exact H2.
Qed.

Lemma sbb_LSE p c q : skip_blank_block bs p = Ok c q -> LSE bs p -> LSE bs q.
Proof.
  intros H L. pose proof (skip_blank_block_spec bs p c q H) as (H1 & _ & _ & H4).
  destruct (Nat.eq_dec p q) as [<-|Hne]; [exact L|]. right. apply H4. lia.
Qed.

Lemma get_pattern_end n p r q : get_pattern bs n p = Ok r q -> LSE bs q.
Proof.
  destruct n as [|n]; [discriminate|]. simpl get_pattern. intros H.
  bind_inv H u p1 H0. clear H0.
  bind_inv H eol p2 Heol.
  bind_inv H ro p3 Hro.
  bind_inv H st p4 Hst.
  apply finish_pattern_pos in H. subst q.
  eapply pattern_loop_end; [exact Hst|]. cbn [role]. intros Hls. left.
  destruct eol.
  - bind_inv Hro c p5 Hsbb. cbv [ret] in Hro. injection Hro as _ <-.
    eapply sbb_LSE; [exact Hsbb|]. right.
    destruct (skip_eol_spec _ _ _ Heol) as [[? _]|[_ ?]]; [discriminate|assumption].
  - cbv [ret] in Hro. injection Hro as <- _. discriminate.
Qed.

Lemma get_attribute_end n p a q : get_attribute bs n p = Ok a q -> LSE bs q.
Proof.
  unfold get_attribute. intros H.
  bind_inv H idn p1 H0. bind_inv H u1 p2 H1. bind_inv H u2 p3 H2. bind_inv H pat p4 H3.
  apply get_pattern_end in H3.
  destruct pat; [|discriminate]. cbv [ret] in H. injection H as _ <-. exact H3.
Qed.

Lemma get_attributes_end : forall n acc p r q,
  get_attributes bs n acc p = Ok r q -> LSE bs p -> LSE bs q.
Proof.
  induction n as [|n IH]; intros acc p r q H L; [discriminate|].
  cbn [get_attributes] in H.
  bind_inv H ls p1 H0. cbv [get_ptr] in H0. injection H0 as <- <-.
  bind_inv H u p2 H0. clear H0.
  bind_inv H dot p3 H0. clear H0.
  destruct dot; cbn [negb] in H.
  - bind_inv H ra p4 H0.
    unfold try_ in H0. destruct (get_attribute bs n p3) as [a p5|e p5| |] eqn:Ea; try discriminate.
    + injection H0 as <- <-. eapply IH; [exact H|]. eapply get_attribute_end; eauto.
    + injection H0 as <- <-. bind_inv H u2 p6 H0. cbv [set_ptr] in H0. injection H0 as _ <-.
      cbv [ret] in H. injection H as _ <-. exact L.
  - bind_inv H u2 p6 H0. cbv [set_ptr] in H0. injection H0 as _ <-.
    cbv [ret] in H. injection H as _ <-. exact L.
Qed.

Definition plain_mt (e : entry) : Prop :=
  (exists id v a, e = Message id v a None) \/ (exists id v a, e = Term id v a None).

Lemma get_message_end n s p e q : get_message bs n s p = Ok e q -> LSE bs q /\ plain_mt e.
Proof.
  unfold get_message. intros H.
  bind_inv H idn p1 H0. bind_inv H u1 p2 H1. bind_inv H u2 p3 H2. bind_inv H pat p4 H3.
  bind_inv H c p5 H4. bind_inv H attrs p6 H5.
  apply get_pattern_end in H3. apply (sbb_LSE _ _ _ H4) in H3. apply (get_attributes_end _ _ _ _ _ H5) in H3.
  assert (G : forall x, ret (Message idn pat attrs None) p6 = Ok x q -> LSE bs q /\ plain_mt x).
  { cbv [ret]. intros x Hx. injection Hx as <- <-. split; [exact H3|]. left; eauto. }
  destruct pat; [apply G; exact H|]. destruct attrs; [|apply G; exact H].
  bind_inv H p7 p8 H6. discriminate.
Qed.

Lemma get_term_end n s p e q : get_term bs n s p = Ok e q -> LSE bs q /\ plain_mt e.
Proof.
  unfold get_term. intros H.
  bind_inv H u0 p0 H00. bind_inv H idn p1 H0. bind_inv H u1 p2 H1. bind_inv H u2 p3 H2.
  bind_inv H u3 p3' H2'. bind_inv H pat p4 H3.
  bind_inv H c p5 H4. bind_inv H attrs p6 H5.
  apply get_pattern_end in H3. apply (sbb_LSE _ _ _ H4) in H3. apply (get_attributes_end _ _ _ _ _ H5) in H3.
  destruct pat.
  - cbv [ret] in H. injection H as <- <-. split; [exact H3|]. right; eauto.
  - bind_inv H p7 p8 H6. discriminate.
Qed.
End PatEnd.

(* ================= 4. comments ================= *)
Lemma bind_Ok_eq {A B} (m : M A) (k : A -> M B) p a q : m p = Ok a q -> bind m k p = k a q.
Proof. intros H. unfold bind. rewrite H. reflexivity. Qed.
Lemma bind_Err_eq {A B} (m : M A) (k : A -> M B) p e q : m p = Err e q -> bind m k p = Err e q.
Proof. intros H. unfold bind. rewrite H. reflexivity. Qed.

Lemma bind_Pan_eq {A B} (m : M A) (k : A -> M B) p t : m p = Pan t -> bind m k p = Pan t.
Proof. intros H. unfold bind. rewrite H. reflexivity. Qed.
Lemma bind_Fuel_eq {A B} (m : M A) (k : A -> M B) p : m p = Fuel -> bind m k p = Fuel.
Proof. intros H. unfold bind. rewrite H. reflexivity. Qed.

Lemma scan_while_unique (f : N -> bool) : forall l k,
  (forall j, j < k -> exists b, nth_error l j = Some b /\ f b = true) ->
  (forall b, nth_error l k = Some b -> f b = false) -> scan_while f l = k.
Proof.
  induction l as [|a l IH]; intros k H1 H2; cbn [scan_while].
  - destruct k; [reflexivity|]. destruct (H1 0 ltac:(lia)) as (b & Hb & _). discriminate.
  - destruct k as [|k].
    + rewrite (H2 a eq_refl). reflexivity.
    + destruct (H1 0 ltac:(lia)) as (b & Hb & Fb). cbn in Hb. injection Hb as <-. rewrite Fb.
      f_equal. apply IH.
      * intros j Hj. apply (H1 (S j)). lia.
      * intros b Hb. apply (H2 b). exact Hb.
Qed.

(* ---------- well-formed comment lines (the hypothesis of C05_junk_agree) ---------- *)
(* l is the input from the first byte of a line that starts with '#':
   1-3 '#', then end of input, LF, CRLF, or a space followed by anything *)
Definition wf_comment_line (l : bytes) : bool :=
  let h := scan_while (N.eqb 35) l in
  Nat.leb h 3 &&
  match skipn h l with
  | [] => true
  | b :: r => N.eqb b c_sp || N.eqb b c_lf ||
              (N.eqb b c_cr && match r with c :: _ => N.eqb c c_lf | [] => false end)
  end.
(* every line of l that starts with '#' is a well-formed comment line;
   a line starts at offset 0 and after every LF (a lone CR is ordinary content) *)
Fixpoint wf_from (line_start : bool) (l : bytes) : bool :=
  match l with
  | [] => true
  | b :: r => (if line_start && N.eqb b 35 then wf_comment_line l else true) && wf_from (N.eqb b c_lf) r
  end.
Definition wf_hash_lines (bs : bytes) : bool := wf_from true bs.

Section Comments.
Variable bs : bytes.
Notation len := (length_ bs).
Notation byte_at := (byte_at bs).
Notation rest := (rest bs).
Notation is_byte_at := (is_byte_at bs).
Notation new_line := (new_line bs).
Notation stopb := (stopb bs).
Notation nostop := (nostop bs).
Notation endish := (endish bs).
Notation LSE := (LSE bs).

Definition WF : Prop :=
  forall i, new_line i = true -> is_byte_at 35 i = true -> wf_comment_line (rest i) = true.

Lemma wf_from_spec : forall k p, len - p <= k ->
  wf_from (new_line p) (rest p) = true ->
  forall i, p <= i -> new_line i = true -> is_byte_at 35 i = true -> wf_comment_line (rest i) = true.
Proof.
  induction k as [|k IH]; intros p Hk H i Hi Hnl Hh.
  - apply is_byte_at_lt in Hh. lia.
  - destruct (byte_at p) as [b|] eqn:Eb.
    2:{ apply byte_at_None in Eb. apply is_byte_at_lt in Hh. lia. }
    rewrite (rest_cons bs p b Eb) in H. cbn [wf_from] in H. apply andb_prop in H as [H1 H2].
    destruct (Nat.eq_dec i p) as [->|Hne].
    + rewrite Hnl in H1. apply is_byte_at_true in Hh. rewrite Hh in Eb. injection Eb as <-.
      cbn in H1. rewrite (rest_cons bs p 35%N Hh). exact H1.
    + apply (IH (S p)); try lia; try assumption.
      replace (new_line (S p)) with (N.eqb b c_lf); [exact H2|].
      unfold RuntimeAgree.new_line. cbn [Nat.eqb orb]. replace (S p - 1) with p by lia.
      unfold ParserModel.is_byte_at. rewrite Eb. reflexivity.
Qed.

Lemma wf_hash_lines_WF : wf_hash_lines bs = true -> WF.
Proof.
  intros H i Hnl Hh. apply (wf_from_spec len 0); try lia; try assumption.
Qed.

(* ---------- lines ---------- *)
Lemma line_len_spec : forall k p, S len - p <= k ->
  (forall i, p <= i < p + line_len bs k p -> i < len /\ byte_at i <> Some c_lf) /\
  (len <= p + line_len bs k p \/ at_eol bs (p + line_len bs k p)).
Proof.
  induction k as [|k IH]; intros p Hk; cbn [line_len].
  - split; [intros i Hi; lia|left; lia].
  - destruct (byte_at p) as [b|] eqn:Eb.
    2:{ apply byte_at_None in Eb. split; [intros i Hi; lia|left; lia]. }
    destruct (N.eqb b c_lf) eqn:E1.
    { apply N.eqb_eq in E1. subst b. split; [intros i Hi; lia|right]. rewrite Nat.add_0_r. left. exact Eb. }
    destruct (N.eqb b c_cr && is_byte_at c_lf (S p)) eqn:E2.
    { apply andb_prop in E2 as [E2 E3]. apply N.eqb_eq in E2. subst b. apply is_byte_at_true in E3.
      split; [intros i Hi; lia|right]. rewrite Nat.add_0_r. right. auto. }
    destruct (IH (S p) ltac:(lia)) as [I1 I2].
    replace (p + S (line_len bs k (S p))) with (S p + line_len bs k (S p)) by lia.
    split; [|exact I2].
    intros i Hi. destruct (Nat.eq_dec i p) as [->|Hne].
    + split; [eapply byte_at_Some_lt; eauto|]. rewrite Eb. intros Hc. injection Hc as ->.
      rewrite N.eqb_refl in E1. discriminate.
    + apply I1. lia.
Qed.

(* the rest of a comment line from x, and its end of line *)
Lemma line_tail x line p2 b p3 :
  get_comment_line bs x = Ok line p2 -> skip_eol bs p2 = Ok b p3 ->
  x <= p3 /\ (forall i, x < i < p3 -> new_line i = false) /\
  (len <= p3 \/ (1 <= p3 /\ byte_at (p3 - 1) = Some c_lf)).
Proof.
  unfold get_comment_line. intros H1 H2.
  destruct (line_len_spec (S len - x) x ltac:(lia)) as [L1 L2].
  set (L := line_len bs (S len - x) x) in *.
  destruct (slice bs x (L + x)); try discriminate. injection H1 as _ <-.
  replace (L + x) with (x + L) in * by lia.
  assert (Hnl : forall i, x < i <= x + L -> new_line i = false).
  { intros i Hi. destruct (L1 (i - 1) ltac:(lia)) as [A B].
    destruct (byte_at_lt bs (i - 1) A) as (c & Hc). apply (new_line_false bs i c); [lia|exact Hc|].
    intros ->. apply B. exact Hc. }
  unfold skip_eol in H2.
  destruct (eol_len_spec bs (x + L)) as [[E Hne]|[[E Hlf]|[E [Hcr Hlf]]]]; rewrite E in H2; injection H2 as <- <-.
  - split; [lia|]. split; [intros i Hi; apply Hnl; lia|]. left. destruct L2 as [L2|L2]; [exact L2|contradiction].
  - split; [lia|]. split; [intros i Hi; apply Hnl; lia|]. right. split; [lia|].
    match goal with |- byte_at ?a = _ => replace a with (x + L) by lia end. exact Hlf.
  - split; [lia|]. split.
    + intros i Hi. destruct (Nat.eq_dec i (S (x + L))) as [->|Hne]; [|apply Hnl; lia].
      apply (new_line_false bs _ c_cr); [lia| |discriminate]. replace (S (x + L) - 1) with (x + L) by lia. exact Hcr.
    + right. split; [lia|]. match goal with |- byte_at ?a = _ => replace a with (S (x + L)) by lia end. exact Hlf.
Qed.

(* ---------- get_comment_level ---------- *)
Lemma get_comment_level_spec p :
  exists lvl, get_comment_level bs p = Ok lvl (level_num lvl + p) /\
    (forall j, j < level_num lvl -> byte_at (p + j) = Some 35%N) /\
    (level_num lvl < 3 -> is_byte_at 35 (level_num lvl + p) = false).
Proof.
  unfold get_comment_level.
  destruct (is_byte_at 35 p) eqn:E0.
  2:{ exists LNone. rewrite (bind_Ok_eq _ _ p false p) by (unfold take_byte_if; rewrite E0; reflexivity).
      split; [reflexivity|]. split; [intros j Hj; cbn in Hj; lia|intros _; exact E0]. }
  rewrite (bind_Ok_eq _ _ p true (S p)) by (unfold take_byte_if; rewrite E0; reflexivity).
  apply is_byte_at_true in E0.
  destruct (is_byte_at 35 (S p)) eqn:E1.
  2:{ exists LRegular. rewrite (bind_Ok_eq _ _ (S p) false (S p)) by (unfold take_byte_if; rewrite E1; reflexivity).
      split; [reflexivity|]. split; [|intros _; exact E1].
      intros j Hj. cbn in Hj. replace j with 0 by lia. rewrite Nat.add_0_r. exact E0. }
  rewrite (bind_Ok_eq _ _ (S p) true (S (S p))) by (unfold take_byte_if; rewrite E1; reflexivity).
  apply is_byte_at_true in E1.
  destruct (is_byte_at 35 (S (S p))) eqn:E2.
  2:{ exists LGroup. rewrite (bind_Ok_eq _ _ (S (S p)) false (S (S p))) by (unfold take_byte_if; rewrite E2; reflexivity).
      split; [reflexivity|]. split; [|intros _; exact E2].
      intros j Hj. cbn in Hj. destruct j as [|[|j]]; [rewrite Nat.add_0_r; exact E0| |lia].
      replace (p + 1) with (S p) by lia. exact E1. }
  rewrite (bind_Ok_eq _ _ (S (S p)) true (S (S (S p)))) by (unfold take_byte_if; rewrite E2; reflexivity).
  apply is_byte_at_true in E2.
  exists LResource. split; [reflexivity|]. split; [|cbn; lia].
  intros j Hj. cbn in Hj. destruct j as [|[|[|j]]]; [rewrite Nat.add_0_r; exact E0| | |lia].
  - replace (p + 1) with (S p) by lia. exact E1.
  - replace (p + 2) with (S (S p)) by lia. exact E2.
Qed.

(* what a well-formed comment line has after its level marker *)
Lemma wf_after_level p lvl :
  wf_comment_line (rest p) = true -> 1 <= level_num lvl ->
  (forall j, j < level_num lvl -> byte_at (p + j) = Some 35%N) ->
  (level_num lvl < 3 -> is_byte_at 35 (level_num lvl + p) = false) ->
  len <= level_num lvl + p \/ at_eol bs (level_num lvl + p) \/ byte_at (level_num lvl + p) = Some c_sp.
Proof.
  intros Hwf Hk Hh Hstop. unfold wf_comment_line in Hwf.
  set (k := level_num lvl) in *.
  apply andb_prop in Hwf as [W1 W2]. apply Nat.leb_le in W1.
  assert (Hs : scan_while (N.eqb 35) (rest p) = k).
  { destruct (Nat.eq_dec k 3) as [E3|N3].
    - assert (k <= scan_while (N.eqb 35) (rest p)); [|lia].
      destruct (Nat.le_gt_cases k (scan_while (N.eqb 35) (rest p))) as [|Hlt]; [assumption|].
      exfalso. specialize (Hh (scan_while (N.eqb 35) (rest p)) Hlt).
      apply scan_rest_stop in Hh. rewrite N.eqb_refl in Hh. discriminate.
    - apply scan_while_unique.
      + intros j Hj. exists 35%N. rewrite byte_at_rest. split; [apply Hh; exact Hj|apply N.eqb_refl].
      + intros b Hb. rewrite byte_at_rest in Hb. specialize (Hstop ltac:(destruct lvl; cbn in *; lia)).
        replace (p + k) with (k + p) in Hb by lia. unfold ParserModel.is_byte_at in Hstop.
        rewrite Hb in Hstop. rewrite N.eqb_sym. exact Hstop. }
  rewrite Hs, skipn_rest in W2.
  destruct (byte_at (k + p)) as [b|] eqn:Eb.
  2:{ left. apply byte_at_None. exact Eb. }
  right. rewrite (rest_cons bs _ b Eb) in W2.
  apply orb_prop in W2 as [W2|W2]; [apply orb_prop in W2 as [W2|W2]|].
  - apply N.eqb_eq in W2. subst b. right. first [exact Eb|reflexivity].
  - apply N.eqb_eq in W2. subst b. left. left. first [exact Eb|reflexivity].
  - apply andb_prop in W2 as [W2 W3]. apply N.eqb_eq in W2. subst b.
    destruct (byte_at (S (k + p))) as [c|] eqn:Ec.
    + rewrite (rest_cons bs _ c Ec) in W3. apply N.eqb_eq in W3. subst c. left. right. auto.
    + rewrite (rest_nil bs (S (k + p))) in W3 by (apply byte_at_None; exact Ec). discriminate.
Qed.

Lemma is_eol_spec p : exists b, is_eol bs p = Ok b p /\
  (b = true <-> (len <= p \/ at_eol bs p)).
Proof.
  unfold is_eol, at_eol. destruct (byte_at p) as [c|] eqn:Ec.
  - pose proof (byte_at_Some_lt bs p c Ec) as Hlt.
    destruct (N.eqb c c_lf) eqn:E1.
    + apply N.eqb_eq in E1. subst c. exists true. split; [reflexivity|]. split; auto.
    + apply N.eqb_neq in E1. destruct (N.eqb c c_cr) eqn:E2.
      * apply N.eqb_eq in E2. subst c. exists (is_byte_at c_lf (S p)). split; [reflexivity|].
        rewrite is_byte_at_true. split; [auto|]. intros [H|[H|[_ H]]]; [lia|congruence|exact H].
      * apply N.eqb_neq in E2. exists false. split; [reflexivity|]. split; [discriminate|].
        intros [H|[H|[H _]]]; [lia|congruence|congruence].
  - exists true. split; [reflexivity|]. split; auto. intros _. left. apply byte_at_None. exact Ec.
Qed.

(* ---------- get_comment ---------- *)
Definition cpre (lvl : level) (content : list bytes) (p : nat) : Prop :=
  len <= p \/ (lvl = LNone /\ content = [] /\ is_byte_at 35 p = true) \/
  (1 <= p /\ byte_at (p - 1) = Some c_lf).

Lemma cpre_next lvl content p : len <= p \/ (1 <= p /\ byte_at (p - 1) = Some c_lf) -> cpre lvl content p.
Proof. intros [H|H]; [left; exact H|right; right; exact H]. Qed.

Lemma nl_of_prev p : 1 <= p -> byte_at (p - 1) = Some c_lf -> new_line p = true.
Proof. intros H1 H2. replace p with (S (p - 1)) by lia. apply new_line_S. exact H2. Qed.

Lemma get_comment_loop_spec : forall n lvl content p,
  cpre lvl content p ->
  match get_comment_loop bs n lvl content p with
  | Ok _ q => nostop p q /\ endish q /\ p <= S q /\ (is_byte_at 35 p = true -> p <= q)
  | Err _ q => nostop p q /\ (WF -> LSE p -> False)
  | _ => True
  end.
Proof.
  induction n as [|n IH]; intros lvl content p Hpre; [exact Logic.I|].
  cbn [get_comment_loop].
  rewrite (bind_Ok_eq _ _ p p p) by reflexivity.
  destruct (Nat.ltb_spec p len) as [Hlt|Hge]; cbn [negb].
  2:{ cbv [ret]. split; [apply nostop_empty; lia|]. split; [left; left; exact Hge|]. split; [lia|intros _; lia]. }
  destruct (get_comment_level_spec p) as (ll & Hll & Hh & Hstop).
  rewrite (bind_Ok_eq _ _ _ _ _ Hll).
  set (k := level_num ll) in *.
  destruct (level_eqb ll LNone) eqn:E1.
  { (* not a '#' line: step back onto the end of line *)
    assert (k = 0) by (unfold level_eqb in E1; apply Nat.eqb_eq in E1; exact E1).
    assert (Hnh : is_byte_at 35 p = false) by (replace p with (k + p) by lia; apply Hstop; lia).
    destruct Hpre as [Hpre|[(_ & _ & Hpre)|(Hp1 & Hp2)]]; [lia|congruence|].
    unfold retreat. rewrite H. cbn [Nat.add].
    rewrite (bind_Ok_eq _ _ p tt (p - 1)).
    2:{ destruct (Nat.leb_spec 1 p); [reflexivity|lia]. }
    cbv [ret]. split; [apply nostop_empty; lia|]. split; [right; exact Hp2|]. split; [lia|]. intros Hc. congruence. }
  assert (Hk : 1 <= k) by (unfold level_eqb in E1; apply Nat.eqb_neq in E1; cbn in E1; lia).
  assert (Hhash : is_byte_at 35 p = true).
  { apply is_byte_at_true. replace p with (p + 0) by lia. apply Hh. lia. }
  assert (Hback : forall l : level, bind (retreat k) (fun _ => ret (Comment (rev content), l)) (k + p)
                  = Ok (Comment (rev content), l) p).
  { intros l. unfold bind, retreat. destruct (Nat.leb_spec k (k + p)); [|lia].
    replace (k + p - k) with p by lia. reflexivity. }
  assert (Hmark : forall x, k + p <= x -> (forall i, k + p < i <= x -> new_line i = false) ->
                  forall i, p <= i <= x -> stopb i = false).
  { intros x Hx Hxs i Hi. destruct (Nat.eq_dec i p) as [->|Hne]; [apply stopb_hash; exact Hhash|].
    apply stopb_not_nl. destruct (Nat.le_gt_cases i (k + p)); [|apply Hxs; lia].
    apply (new_line_false bs i 35%N); [lia| |discriminate].
    replace (i - 1) with (p + (i - 1 - p)) by lia. apply Hh. lia. }
  (* the tail of the line from x (x = after the marker, or after marker and space) and the recursive call *)
  assert (Htail : forall x c', k + p <= x -> (forall i, k + p < i <= x -> new_line i = false) ->
            match (line <- get_comment_line bs;; skip_eol bs;;; get_comment_loop bs n ll (line :: c')) x with
            | Ok _ q => nostop p q /\ endish q /\ p <= S q /\ (is_byte_at 35 p = true -> p <= q)
            | Err _ q => nostop p q /\ (WF -> LSE p -> False)
            | _ => True
            end).
  { intros x c' Hx Hxs.
    destruct (get_comment_line bs x) as [line p2| | |] eqn:Hline.
    2:{ unfold get_comment_line in Hline. destruct (slice bs x _); discriminate. }
    2:{ rewrite (bind_Pan_eq _ _ _ _ Hline). exact Logic.I. }
    2:{ rewrite (bind_Fuel_eq _ _ _ Hline). exact Logic.I. }
    rewrite (bind_Ok_eq _ _ _ _ _ Hline).
    destruct (skip_eol bs p2) as [b p3| | |] eqn:Heol; try (unfold skip_eol in Heol; destruct (eol_len _); discriminate).
    rewrite (bind_Ok_eq _ _ _ _ _ Heol).
    destruct (line_tail x line p2 b p3 Hline Heol) as (T1 & T2 & T3).
    assert (Hspan : nostop p p3).
    { intros i Hi. destruct (Nat.le_gt_cases i x); [apply (Hmark x Hx Hxs); lia|].
      apply stopb_not_nl. apply T2. lia. }
    specialize (IH ll (line :: c') p3 (cpre_next _ _ _ T3)).
    destruct (get_comment_loop bs n ll (line :: c') p3) as [r q|e q| |]; try exact Logic.I.
    - destruct IH as (I1 & I2 & I3 & _). split; [eapply nostop_trans; eauto|]. split; [exact I2|].
      split; [lia|intros _; lia].
    - destruct IH as [I1 I2]. split; [eapply nostop_trans; eauto|].
      intros Hwf _. apply I2; [exact Hwf|].
      destruct T3 as [T3|[T3 T4]]; [left; exact T3|right; apply nl_of_prev; assumption]. }
  destruct (negb (level_eqb lvl LNone) && negb (level_eqb ll lvl)) eqn:E2.
  { (* level change: step back to the start of this line *)
    rewrite Hback. split; [apply nostop_empty; lia|]. split; [|split; [lia|intros _; lia]].
    destruct Hpre as [Hpre|[(Hl & _)|(Hp1 & Hp2)]]; [lia| |].
    - subst lvl. cbn in E2. discriminate.
    - left. right. apply nl_of_prev; assumption. }
  rewrite (bind_Ok_eq _ _ (k + p) (k + p) (k + p)) by reflexivity.
  destruct (Nat.eqb_spec (k + p) len) as [Eend|Nend].
  { cbv [ret]. split; [|split; [left; left; lia|split; [lia|intros _; lia]]].
    intros i Hi. apply (Hmark (k + p)); [lia|intros; lia|lia]. }
  destruct (is_eol_spec (k + p)) as (eol & Heol & Heol').
  rewrite (bind_Ok_eq _ _ _ _ _ Heol).
  destruct eol.
  { apply Htail; [lia|intros; lia]. }
  unfold try_ at 1. unfold expect_byte at 1. unfold bind at 1.
  destruct (is_byte_at c_sp (k + p)) eqn:Esp.
  { apply (Htail (S (k + p))); [lia|].
    intros i Hi. replace i with (S (k + p)) by lia.
    apply (new_line_false bs _ c_sp); [lia| |discriminate].
    replace (S (k + p) - 1) with (k + p) by lia. apply is_byte_at_true. exact Esp. }
  destruct content as [|c0 content'].
  - split; [intros i Hi; apply (Hmark (k + p)); [lia|intros; lia|lia]|].
    intros Hwf Hls.
    assert (Hnl : new_line p = true) by (destruct Hls; [lia|assumption]).
    destruct (wf_after_level p ll (Hwf p Hnl Hhash) Hk Hh Hstop) as [W|[W|W]].
    + pose proof (byte_at_Some_lt bs _ _ (Hh (k - 1) ltac:(lia))). lia.
    + assert (false = true); [|discriminate]. apply Heol'. right. exact W.
    + apply is_byte_at_true in W. pose proof (eq_trans (eq_sym W) Esp) as Hc. discriminate Hc.
  - rewrite Hback. split; [apply nostop_empty; lia|]. split; [|split; [lia|intros _; lia]].
    destruct Hpre as [Hpre|[(_ & Hc & _)|(Hp1 & Hp2)]]; [lia|discriminate|].
    left. right. apply nl_of_prev; assumption.
Qed.

End Comments.

(* ================= 5. junk recovery and loop iterations ================= *)
Section Steps.
Variable bs : bytes.
Notation len := (length_ bs).
Notation byte_at := (byte_at bs).
Notation rest := (rest bs).
Notation is_byte_at := (is_byte_at bs).
Notation new_line := (new_line bs).
Notation stopb := (stopb bs).
Notation e_startb := (e_startb bs).
Notation nostop := (nostop bs).
Notation noE := (noE bs).
Notation endish := (endish bs).
Notation LSE := (LSE bs).
Notation Hd := (Hd bs).
Notation WF := (WF bs).

(* ---------- skip_comment ---------- *)
Lemma skip_comment_spec : forall n p q,
  skip_comment bs n p = Ok tt q ->
  p < q /\ (forall i, p < i < q -> stopb i = false) /\ endish q.
Proof.
  induction n as [|n IH]; intros p q H; [discriminate|].
  cbn [skip_comment] in H.
  destruct (line_len_spec bs (S len - p) p ltac:(lia)) as [L1 L2].
  set (L := line_len bs (S len - p) p) in *.
  replace (L + p) with (p + L) in H by lia.
  assert (Hnl : forall i, p < i <= p + L -> stopb i = false).
  { intros i Hi. apply stopb_not_nl. destruct (L1 (i - 1) ltac:(lia)) as [A B].
    destruct (byte_at_lt bs (i - 1) A) as (c & Hc). apply (new_line_false bs i c); [lia|exact Hc|].
    intros ->. apply B. exact Hc. }
  destruct (is_byte_at 35 (S (p + L))) eqn:Eh.
  - destruct (IH _ _ H) as (I0 & I1 & I2). split; [lia|]. split; [|exact I2].
    intros i Hi. destruct (Nat.le_gt_cases i (p + L)); [apply Hnl; lia|].
    destruct (Nat.eq_dec i (S (p + L))) as [->|N1]; [apply stopb_hash; exact Eh|].
    destruct (Nat.eq_dec i (S (S (p + L)))) as [->|N2]; [|apply I1; lia].
    apply stopb_not_nl. apply (new_line_false bs _ 35%N); [lia| |discriminate].
    replace (S (S (p + L)) - 1) with (S (p + L)) by lia. apply is_byte_at_true. exact Eh.
  - injection H as <-. split; [lia|]. split; [intros i Hi; apply Hnl; lia|].
    destruct L2 as [L2|[L2|[L2 L3]]].
    + left. left. lia.
    + left. right. apply new_line_S. exact L2.
    + right. exact L3.
Qed.

(* ---------- junk recovery ---------- *)
Definition entryishb (i : nat) : bool :=
  new_line i && match byte_at i with
                | Some b => is_ascii_alphabetic b || N.eqb b 45 || N.eqb b 35
                | None => false
                end.

Lemma entryish_e i : entryishb i = false -> e_startb i = false.
Proof.
  unfold entryishb, RuntimeAgree.e_startb, is_e_byte. destruct (new_line i); [|reflexivity]. cbn [andb].
  destruct (byte_at i) as [b|]; [|reflexivity].
  destruct (is_ascii_alphabetic b); [discriminate|]. destruct (N.eqb b 45); [discriminate|]. reflexivity.
Qed.

Lemma scan_entry_start_spec : forall k p, S len - p <= k ->
  p <= scan_entry_start bs k p /\ LSE (scan_entry_start bs k p) /\
  forall i, p <= i < scan_entry_start bs k p -> entryishb i = false.
Proof.
  induction k as [|k IH]; intros p Hk; cbn [scan_entry_start].
  - split; [lia|]. split; [left; lia|intros i Hi; lia].
  - destruct (byte_at p) as [b|] eqn:Eb.
    2:{ split; [lia|]. split; [left; apply byte_at_None; exact Eb|intros i Hi; lia]. }
    destruct ((Nat.eqb p 0 || is_byte_at c_lf (p - 1)) &&
              (is_ascii_alphabetic b || N.eqb b 45 || N.eqb b 35)) eqn:Ec.
    + split; [lia|]. split; [|intros i Hi; lia]. right. apply andb_prop in Ec as [Ec _]. exact Ec.
    + destruct (IH (S p) ltac:(lia)) as (I1 & I2 & I3). split; [lia|]. split; [exact I2|].
      intros i Hi. destruct (Nat.eq_dec i p) as [->|Hne]; [|apply I3; lia].
      unfold entryishb, RuntimeAgree.new_line. rewrite Eb. exact Ec.
Qed.

Lemma rposition_lf_bound : forall l i acc pos,
  rposition_lf l i acc = Some pos -> acc = Some pos \/ pos < i + length l.
Proof.
  induction l as [|b l IH]; intros i acc pos H; cbn [rposition_lf] in H.
  - left. exact H.
  - apply IH in H. cbn [length]. destruct H as [H|H]; [|right; lia].
    destruct (N.eqb b c_lf); [|left; exact H]. injection H as <-. right. lia.
Qed.

Lemma recover_spec s err q e' x q' :
  recover bs s err q = Ok (e', x) q' ->
  (exists c, x = Junk c) /\ LSE q' /\
  exists p', s <= p' <= q /\ p' <= q' /\ forall i, p' <= i < q' -> e_startb i = false.
Proof.
  unfold recover. intros H.
  bind_inv H rew q1 Hskip.
  bind_inv H pp q2 H0. cbv [get_ptr] in H0. injection H0 as <- <-.
  bind_inv H cont q3 H0. apply lift_outcome_pos in H0. subst q3.
  cbv [ret] in H. injection H as _ <- <-.
  unfold skip_to_next_entry_start in Hskip.
  destruct (Nat.leb_spec s (Nat.min q len)) as [Hle|]; [|discriminate].
  injection Hskip as _ <-.
  set (rewound := match rposition_lf _ 0 None with Some pos => _ | None => None end).
  assert (Hrew : forall r, rewound = Some r -> s <= r <= q).
  { intros r Hr. unfold rewound in Hr.
    destruct (rposition_lf (firstn (Nat.min q len - s) (skipn s bs)) 0 None) as [pos|] eqn:Er; [|discriminate].
    destruct (Nat.ltb 0 pos); [|discriminate]. injection Hr as <-.
    apply rposition_lf_bound in Er. destruct Er as [Er|Er]; [discriminate|].
    pose proof (firstn_le_length (Nat.min q len - s) (skipn s bs)). lia. }
  set (p' := match rewound with Some r => r | None => q end).
  assert (Hp' : s <= p' <= q).
  { unfold p'. destruct rewound as [r|]; [apply Hrew; reflexivity|lia]. }
  destruct (scan_entry_start_spec (S len - p') p' ltac:(lia)) as (S1 & S2 & S3).
  change (match p' with 0 => S len | S l => len - l end) with (S len - p').
  split; [eauto|]. split; [exact S2|]. exists p'. split; [exact Hp'|]. split; [exact S1|].
  intros i Hi. apply entryish_e. apply S3. exact Hi.
Qed.

Lemma recover_noE s err q e' x q' :
  recover bs s err q = Ok (e', x) q' -> noE s q ->
  s <= q' /\ LSE q' /\ noE s q' /\ exists c, x = Junk c.
Proof.
  intros H HnoE. destruct (recover_spec _ _ _ _ _ _ H) as (Hj & Hl & p' & Hp' & Hq' & Hs).
  split; [lia|]. split; [exact Hl|]. split; [|exact Hj].
  intros i Hi. destruct (Nat.lt_ge_cases i p'); [apply HnoE; lia|]. apply Hs. lia.
Qed.

(* ---------- entries ---------- *)
(* the dispatch on a byte that is not '#' is the same in get_entry and get_entry_runtime *)
Definition get_mt (n : nat) (p : nat) : M entry :=
  match byte_at p with
  | Some b => if N.eqb b 45 then get_term bs n p else get_message bs n p
  | None => get_message bs n p
  end.

Lemma get_entry_nohash n p : is_byte_at 35 p = false ->
  get_entry bs n p p = get_mt n p p /\
  get_entry_runtime bs n p p = bind (get_mt n p) (fun e => ret (Some e)) p.
Proof.
  intros H. unfold get_entry, get_entry_runtime, get_mt.
  rewrite !(bind_Ok_eq (current_byte bs) _ p (byte_at p) p) by reflexivity.
  unfold ParserModel.is_byte_at in H. destruct (byte_at p) as [b|]; [|split; reflexivity].
  rewrite H. destruct (N.eqb b 45); split; reflexivity.
Qed.

Lemma get_entry_hash n p : is_byte_at 35 p = true ->
  get_entry bs n p p =
    bind (get_comment bs n) (fun cl => let '(c, lvl) := cl in
      match lvl with
      | LRegular => ret (CommentEntry c) | LGroup => ret (GroupComment c)
      | LResource => ret (ResourceComment c) | LNone => panic "unreachable"
      end) p /\
  get_entry_runtime bs n p p = bind (skip_comment bs n) (fun _ => ret None) p.
Proof.
  intros H. unfold get_entry, get_entry_runtime.
  rewrite !(bind_Ok_eq (current_byte bs) _ p (byte_at p) p) by reflexivity.
  apply is_byte_at_true in H. rewrite H. split; reflexivity.
Qed.

Lemma get_mt_mono n m p : n <= m -> le_M (get_mt n p) (get_mt m p).
Proof.
  intros H. unfold get_mt. destruct (byte_at p) as [b|]; [destruct (N.eqb b 45)|];
    first [apply get_term_mono|apply get_message_mono]; exact H.
Qed.

Lemma get_mt_indep n m p : get_mt n p p <> Fuel -> get_mt m p p <> Fuel -> get_mt n p p = get_mt m p p.
Proof. apply (mono_indep (fun k => get_mt k p)). intros a b Hab. apply get_mt_mono. exact Hab. Qed.

Lemma get_mt_end n p e q : get_mt n p p = Ok e q -> LSE q /\ plain_mt e.
Proof.
  unfold get_mt. destruct (byte_at p) as [b|]; [destruct (N.eqb b 45)|];
    first [apply get_term_end|apply get_message_end].
Qed.

(* a byte that cannot start an entry: the message parser fails on the spot *)
Lemma get_mt_other n p b :
  byte_at p = Some b -> is_e_byte b = false -> exists e, get_mt n p p = Err e p.
Proof.
  intros Hb He. unfold get_mt. rewrite Hb. unfold is_e_byte in He. apply orb_false_elim in He as [He1 He2].
  rewrite He2. unfold get_message.
  unfold bind at 1. unfold get_identifier. unfold bind at 1. unfold is_identifier_start.
  rewrite Hb, He1. cbn [negb]. unfold error_here. eauto.
Qed.

(* ---------- the two entry loops, one iteration ---------- *)
Definition flush (lc : option comment) (body : list entry) : list entry :=
  match lc with Some c => CommentEntry c :: body | None => body end.

(* what the full loop does with a successfully parsed entry *)
Definition push (lc : option comment) (cnt : nat) (e : entry) (body : list entry) : list entry * option comment :=
  let '(r, body) :=
    match lc with
    | Some c =>
        match e with
        | Message _ _ _ _ | Term _ _ _ _ =>
            if Nat.ltb cnt 2 then (attach e c, body) else (e, CommentEntry c :: body)
        | _ => (e, CommentEntry c :: body)
        end
    | None => (e, body)
    end in
  match r with
  | CommentEntry c => (body, Some c)
  | _ => (r :: body, None)
  end.

Lemma parse_loop_end n body errors lc cnt p : len <= p ->
  parse_loop bs (S n) body errors lc cnt p = Ok (rev (flush lc body), rev errors) p.
Proof.
  intros H. cbn [parse_loop]. rewrite (bind_Ok_eq _ _ p p p) by reflexivity.
  destruct (Nat.ltb_spec p len); [lia|]. cbn [negb]. unfold flush. reflexivity.
Qed.

Lemma parse_loop_entry n body errors lc cnt p e p1 : p < len ->
  get_entry bs n p p = Ok e p1 ->
  parse_loop bs (S n) body errors lc cnt p =
  bind (skip_blank_block bs) (fun cnt' =>
    parse_loop bs n (fst (push lc cnt e body)) errors (snd (push lc cnt e body)) cnt') p1.
Proof.
  intros Hlt He. cbn [parse_loop]. rewrite (bind_Ok_eq _ _ p p p) by reflexivity.
  destruct (Nat.ltb_spec p len); [|lia]. cbn [negb].
  rewrite (bind_Ok_eq _ _ p (inr e) p1) by (unfold try_; rewrite He; reflexivity).
  unfold push. destruct lc as [c|]; destruct e; try destruct (Nat.ltb cnt 2); reflexivity.
Qed.

Lemma parse_loop_error n body errors lc cnt p err p1 : p < len ->
  get_entry bs n p p = Err err p1 ->
  parse_loop bs (S n) body errors lc cnt p =
  bind (recover bs p err) (fun ej => bind (skip_blank_block bs) (fun cnt' =>
    parse_loop bs n (snd ej :: flush lc body) (fst ej :: errors) None cnt')) p1.
Proof.
  intros Hlt He. cbn [parse_loop]. rewrite (bind_Ok_eq _ _ p p p) by reflexivity.
  destruct (Nat.ltb_spec p len); [|lia]. cbn [negb].
  rewrite (bind_Ok_eq _ _ p (inl err) p1) by (unfold try_; rewrite He; reflexivity).
  unfold flush, bind. destruct lc as [c|]; destruct (recover bs p err p1) as [[e' j] q| | |]; reflexivity.
Qed.

Lemma rt_loop_end n body errors p : len <= p ->
  parse_runtime_loop bs (S n) body errors p = Ok (rev body, rev errors) p.
Proof.
  intros H. cbn [parse_runtime_loop]. rewrite (bind_Ok_eq _ _ p p p) by reflexivity.
  destruct (Nat.ltb_spec p len); [lia|]. reflexivity.
Qed.

Lemma rt_loop_entry n body errors p oe p1 : p < len ->
  get_entry_runtime bs n p p = Ok oe p1 ->
  parse_runtime_loop bs (S n) body errors p =
  bind (skip_blank_block bs) (fun _ =>
    parse_runtime_loop bs n (match oe with Some e => e :: body | None => body end) errors) p1.
Proof.
  intros Hlt He. cbn [parse_runtime_loop]. rewrite (bind_Ok_eq _ _ p p p) by reflexivity.
  destruct (Nat.ltb_spec p len); [|lia]. cbn [negb].
  rewrite (bind_Ok_eq _ _ p (inr oe) p1) by (unfold try_; rewrite He; reflexivity).
  destruct oe; reflexivity.
Qed.

Lemma rt_loop_error n body errors p err p1 : p < len ->
  get_entry_runtime bs n p p = Err err p1 ->
  parse_runtime_loop bs (S n) body errors p =
  bind (recover bs p err) (fun ej => bind (skip_blank_block bs) (fun _ =>
    parse_runtime_loop bs n (snd ej :: body) (fst ej :: errors))) p1.
Proof.
  intros Hlt He. cbn [parse_runtime_loop]. rewrite (bind_Ok_eq _ _ p p p) by reflexivity.
  destruct (Nat.ltb_spec p len); [|lia]. cbn [negb].
  rewrite (bind_Ok_eq _ _ p (inl err) p1) by (unfold try_; rewrite He; reflexivity).
  unfold bind. destruct (recover bs p err p1) as [[e' j] q| | |]; reflexivity.
Qed.

Lemma parse_loop_cases n body errors lc cnt p res q : p < len ->
  parse_loop bs (S n) body errors lc cnt p = Ok res q ->
  (exists e p1, get_entry bs n p p = Ok e p1) \/ (exists err p1, get_entry bs n p p = Err err p1).
Proof.
  intros Hlt H. destruct (get_entry bs n p p) as [e p1|err p1|t|] eqn:He; eauto; exfalso;
  cbn [parse_loop] in H; rewrite (bind_Ok_eq _ _ p p p) in H by reflexivity;
  (destruct (Nat.ltb_spec p len); [|lia]); cbn [negb] in H.
  - rewrite (bind_Pan_eq _ _ p t) in H by (unfold try_; rewrite He; reflexivity). discriminate.
  - rewrite bind_Fuel_eq in H by (unfold try_; rewrite He; reflexivity). discriminate.
Qed.

Lemma rt_loop_cases n body errors p res q : p < len ->
  parse_runtime_loop bs (S n) body errors p = Ok res q ->
  (exists e p1, get_entry_runtime bs n p p = Ok e p1) \/ (exists err p1, get_entry_runtime bs n p p = Err err p1).
Proof.
  intros Hlt H. destruct (get_entry_runtime bs n p p) as [e p1|err p1|t|] eqn:He; eauto; exfalso;
  cbn [parse_runtime_loop] in H; rewrite (bind_Ok_eq _ _ p p p) in H by reflexivity;
  (destruct (Nat.ltb_spec p len); [|lia]); cbn [negb] in H.
  - rewrite (bind_Pan_eq _ _ p t) in H by (unfold try_; rewrite He; reflexivity). discriminate.
  - rewrite bind_Fuel_eq in H by (unfold try_; rewrite He; reflexivity). discriminate.
Qed.

End Steps.

(* ================= 5b. one iteration of either loop ================= *)
(* ---------- what the property talks about ---------- *)
Definition is_mt (e : entry) : bool := match e with Message _ _ _ _ | Term _ _ _ _ => true | _ => false end.
Definition is_junk (e : entry) : bool := match e with Junk _ => true | _ => false end.
Definition is_comment_entry (e : entry) : bool :=
  match e with CommentEntry _ | GroupComment _ | ResourceComment _ => true | _ => false end.
Definition messages_terms (body : list entry) : list entry := filter is_mt body.
Definition junks (body : list entry) : list entry := filter is_junk body.
Definition strip_comment (e : entry) : entry :=
  match e with
  | Message id v a _ => Message id v a None
  | Term id v a _ => Term id v a None
  | _ => e
  end.
(* f does not select comment entries *)
Definition non_comment (f : entry -> bool) : Prop := forall e, is_comment_entry e = true -> f e = false.

Section Steps2.
Variable bs : bytes.
Notation len := (length_ bs).
Notation byte_at := (byte_at bs).
Notation is_byte_at := (is_byte_at bs).
Notation new_line := (new_line bs).
Notation stopb := (stopb bs).
Notation e_startb := (e_startb bs).
Notation nostop := (nostop bs).
Notation noE := (noE bs).
Notation endish := (endish bs).
Notation LSE := (LSE bs).
Notation Hd := (Hd bs).
Notation WF := (WF bs).
Notation get_mt := (get_mt bs).
Notation sbb := (skip_blank_block bs).

Lemma flush_filter f lc body : non_comment f -> filter f (flush lc body) = filter f body.
Proof. intros Hf. destruct lc as [c|]; [|reflexivity]. cbn [flush filter]. rewrite (Hf (CommentEntry c)); reflexivity. Qed.

Lemma push_comment f lc cnt e body : non_comment f -> is_comment_entry e = true ->
  filter f (fst (push lc cnt e body)) = filter f body.
Proof.
  intros Hf He. pose proof (Hf e He) as Fe.
  destruct e; try discriminate; unfold push; destruct lc as [c0|]; cbn [fst filter];
    rewrite ?Fe, ?(Hf (CommentEntry c0) eq_refl); reflexivity.
Qed.

(* one iteration of the full loop at a byte that is not '#' *)
Lemma full_step_nohash n body errors lc cnt p res q :
  p < len -> is_byte_at 35 p = false ->
  parse_loop bs (S n) body errors lc cnt p = Ok res q ->
  (exists x p1 cnt' p', get_mt n p p = Ok x p1 /\ sbb p1 = Ok cnt' p' /\
     parse_loop bs n (fst (push lc cnt x body)) errors (snd (push lc cnt x body)) cnt' p' = Ok res q) \/
  (exists err p1 e' j p2 cnt' p', get_mt n p p = Err err p1 /\ recover bs p err p1 = Ok (e', j) p2 /\
     sbb p2 = Ok cnt' p' /\
     parse_loop bs n (j :: flush lc body) (e' :: errors) None cnt' p' = Ok res q).
Proof.
  intros Hlt Hh H. destruct (get_entry_nohash bs n p Hh) as [G _].
  destruct (parse_loop_cases bs _ _ _ _ _ _ _ _ Hlt H) as [(e & p1 & He)|(err & p1 & He)].
  - rewrite (parse_loop_entry bs _ _ _ _ _ _ _ _ Hlt He) in H. bind_inv H cnt' p' Hs.
    left. exists e, p1, cnt', p'. rewrite <- G. auto.
  - rewrite (parse_loop_error bs _ _ _ _ _ _ _ _ Hlt He) in H. bind_inv H ej p2 Hr. destruct ej as [e' j].
    bind_inv H cnt' p' Hs. right. exists err, p1, e', j, p2, cnt', p'. rewrite <- G. auto.
Qed.

Lemma rt_step_nohash n body errors p res q :
  p < len -> is_byte_at 35 p = false ->
  parse_runtime_loop bs (S n) body errors p = Ok res q ->
  (exists x p1 cnt' p', get_mt n p p = Ok x p1 /\ sbb p1 = Ok cnt' p' /\
     parse_runtime_loop bs n (x :: body) errors p' = Ok res q) \/
  (exists err p1 e' j p2 cnt' p', get_mt n p p = Err err p1 /\ recover bs p err p1 = Ok (e', j) p2 /\
     sbb p2 = Ok cnt' p' /\
     parse_runtime_loop bs n (j :: body) (e' :: errors) p' = Ok res q).
Proof.
  intros Hlt Hh H. destruct (get_entry_nohash bs n p Hh) as [_ G].
  destruct (rt_loop_cases bs _ _ _ _ _ _ Hlt H) as [(oe & p1 & He)|(err & p1 & He)].
  - rewrite (rt_loop_entry bs _ _ _ _ _ _ Hlt He) in H. bind_inv H cnt' p' Hs.
    rewrite G in He. bind_inv He x p1' Hx. cbv [ret] in He. injection He as <- <-.
    left. exists x, p1', cnt', p'. auto.
  - rewrite (rt_loop_error bs _ _ _ _ _ _ Hlt He) in H. bind_inv H ej p2 Hr. destruct ej as [e' j].
    bind_inv H cnt' p' Hs. rewrite G in He. apply bind_err in He as [He|(x & p1' & _ & He)]; [|discriminate].
    right. exists err, p1, e', j, p2, cnt', p'. auto.
Qed.

Lemma skip_comment_noerr : forall n p e q, skip_comment bs n p <> Err e q.
Proof.
  induction n as [|n IH]; intros p e q; [discriminate|]. cbn [skip_comment].
  destruct (ParserModel.is_byte_at bs 35 _); [apply IH|discriminate].
Qed.

(* one iteration of the runtime loop at '#': nothing is added, no stop line is passed *)
Lemma rt_step_hash n body errors p res q :
  p < len -> is_byte_at 35 p = true ->
  parse_runtime_loop bs (S n) body errors p = Ok res q ->
  exists p', parse_runtime_loop bs n body errors p' = Ok res q /\ Hd p' /\ p <= p' /\ nostop p p'.
Proof.
  intros Hlt Hh H. destruct (get_entry_hash bs n p Hh) as [_ G].
  destruct (rt_loop_cases bs _ _ _ _ _ _ Hlt H) as [(oe & p1 & He)|(err & p1 & He)].
  - rewrite (rt_loop_entry bs _ _ _ _ _ _ Hlt He) in H. bind_inv H cnt' p' Hs.
    rewrite G in He. bind_inv He u p1' Hx. cbv [ret] in He. injection He as <- <-. destruct u.
    destruct (skip_comment_spec bs _ _ _ Hx) as (C1 & C2 & C3).
    destruct (skip_blank_block_spec bs _ _ _ Hs) as (B1 & B2 & _).
    exists p'. split; [exact H|]. split; [eapply sbb_Hd; eauto|]. split; [lia|].
    apply (nostop_trans bs _ p1'); [|exact B2].
    intros i Hi. destruct (Nat.eq_dec i p) as [->|Hne]; [apply stopb_hash; exact Hh|apply C2; lia].
  - exfalso. rewrite G in He. apply bind_err in He as [He|(x & p1' & _ & He)]; [|discriminate].
    exact (skip_comment_noerr _ _ _ _ He).
Qed.

(* one iteration of the full loop at '#': either only comments are recorded and no stop line is passed,
   or the comment is malformed (impossible at a line start under WF) and the iteration yields Junk *)
Lemma full_step_hash n body errors lc cnt p res q :
  p < len -> is_byte_at 35 p = true ->
  parse_loop bs (S n) body errors lc cnt p = Ok res q ->
  exists body' errors' lc' cnt' p',
    parse_loop bs n body' errors' lc' cnt' p' = Ok res q /\ Hd p' /\ p <= p' /\
    ((nostop p p' /\ errors' = errors /\ forall f, non_comment f -> filter f body' = filter f body) \/
     (noE p p' /\ (WF -> LSE p -> False) /\
      exists e j, errors' = e :: errors /\ body' = Junk j :: flush lc body)).
Proof.
  intros Hlt Hh H. destruct (get_entry_hash bs n p Hh) as [G _].
  pose proof (get_comment_loop_spec bs n LNone [] p) as Spec.
  specialize (Spec ltac:(right; left; auto)). fold (get_comment bs n) in Spec.
  destruct (parse_loop_cases bs _ _ _ _ _ _ _ _ Hlt H) as [(e & p1 & He)|(err & p1 & He)].
  - rewrite (parse_loop_entry bs _ _ _ _ _ _ _ _ Hlt He) in H. bind_inv H cnt' p' Hs.
    rewrite G in He. bind_inv He cl p1' Hc. destruct cl as [c lvl]. rewrite Hc in Spec.
    destruct Spec as (S1 & S2 & _ & S4). specialize (S4 Hh).
    assert (p1 = p1' /\ is_comment_entry e = true) as [-> Hce].
    { destruct lvl; cbv [ret panic] in He; try discriminate; injection He as <- <-; auto. }
    destruct (skip_blank_block_spec bs _ _ _ Hs) as (B1 & B2 & _).
    exists (fst (push lc cnt e body)), errors, (snd (push lc cnt e body)), cnt', p'.
    split; [exact H|]. split; [eapply sbb_Hd; eauto|]. split; [lia|]. left.
    split; [eapply nostop_trans; eauto|]. split; [reflexivity|].
    intros f Hf. apply push_comment; assumption.
  - rewrite (parse_loop_error bs _ _ _ _ _ _ _ _ Hlt He) in H. bind_inv H ej p2 Hr. destruct ej as [e' j].
    bind_inv H cnt' p' Hs. cbn [fst snd] in H.
    rewrite G in He. apply bind_err in He as [He|(cl & p1' & _ & He)].
    2:{ destruct cl as [c lvl]. destruct lvl; discriminate. }
    rewrite He in Spec. destruct Spec as [S1 S2].
    destruct (recover_noE bs _ _ _ _ _ _ Hr (nostop_noE bs _ _ S1)) as (R1 & R2 & R3 & (jc & ->)).
    destruct (skip_blank_block_spec bs _ _ _ Hs) as (B1 & B2 & _).
    exists (Junk jc :: flush lc body), (e' :: errors), None, cnt', p'.
    split; [exact H|]. split; [eapply sbb_Hd; [exact Hs|left; exact R2]|]. split; [lia|]. right.
    split; [eapply noE_trans; [exact R3|apply nostop_noE; exact B2]|]. split; [exact S2|]. eauto.
Qed.

(* a line that starts neither an entry nor a comment: Junk up to the next entry-like line *)
Lemma full_step_other n body errors lc cnt p b res q :
  byte_at p = Some b -> is_e_byte b = false -> is_byte_at 35 p = false ->
  parse_loop bs (S n) body errors lc cnt p = Ok res q ->
  exists j e cnt' p', parse_loop bs n (Junk j :: flush lc body) (e :: errors) None cnt' p' = Ok res q /\
    Hd p' /\ p <= p' /\ noE p p'.
Proof.
  intros Hb He Hh H. pose proof (byte_at_Some_lt bs _ _ Hb) as Hlt.
  destruct (get_mt_other bs n p b Hb He) as (e0 & Hmt).
  destruct (full_step_nohash _ _ _ _ _ _ _ _ Hlt Hh H)
    as [(x & p1 & cnt' & p' & G & _)|(err & p1 & e' & j & p2 & cnt' & p' & G & Hr & Hs & H')]; [congruence|].
  rewrite Hmt in G. injection G as <- <-.
  destruct (recover_noE bs _ _ _ _ _ _ Hr (noE_empty bs _ _ (Nat.le_refl p))) as (R1 & R2 & R3 & (jc & ->)).
  destruct (skip_blank_block_spec bs _ _ _ Hs) as (B1 & B2 & _).
  exists jc, e', cnt', p'. split; [exact H'|]. split; [eapply sbb_Hd; [exact Hs|left; exact R2]|].
  split; [lia|]. eapply noE_trans; [exact R3|apply nostop_noE; exact B2].
Qed.

Lemma rt_step_other n body errors p b res q :
  byte_at p = Some b -> is_e_byte b = false -> is_byte_at 35 p = false ->
  parse_runtime_loop bs (S n) body errors p = Ok res q ->
  exists j e p', parse_runtime_loop bs n (Junk j :: body) (e :: errors) p' = Ok res q /\
    Hd p' /\ p <= p' /\ noE p p'.
Proof.
  intros Hb He Hh H. pose proof (byte_at_Some_lt bs _ _ Hb) as Hlt.
  destruct (get_mt_other bs n p b Hb He) as (e0 & Hmt).
  destruct (rt_step_nohash _ _ _ _ _ _ Hlt Hh H)
    as [(x & p1 & cnt' & p' & G & _)|(err & p1 & e' & j & p2 & cnt' & p' & G & Hr & Hs & H')]; [congruence|].
  rewrite Hmt in G. injection G as <- <-.
  destruct (recover_noE bs _ _ _ _ _ _ Hr (noE_empty bs _ _ (Nat.le_refl p))) as (R1 & R2 & R3 & (jc & ->)).
  destruct (skip_blank_block_spec bs _ _ _ Hs) as (B1 & B2 & _).
  exists jc, e', p'. split; [exact H'|]. split; [eapply sbb_Hd; [exact Hs|left; exact R2]|].
  split; [lia|]. eapply noE_trans; [exact R3|apply nostop_noE; exact B2].
Qed.

(* both loops at the same byte that is not '#': the same call, the same outcome *)
Lemma same_step n m body errors lc cnt bodyr errorsr p res q res' q' :
  p < len -> is_byte_at 35 p = false ->
  parse_loop bs (S n) body errors lc cnt p = Ok res q ->
  parse_runtime_loop bs (S m) bodyr errorsr p = Ok res' q' ->
  exists cnt' p', Hd p' /\
   ((exists x, plain_mt x /\
       parse_loop bs n (fst (push lc cnt x body)) errors (snd (push lc cnt x body)) cnt' p' = Ok res q /\
       parse_runtime_loop bs m (x :: bodyr) errorsr p' = Ok res' q') \/
    (exists j e,
       parse_loop bs n (Junk j :: flush lc body) (e :: errors) None cnt' p' = Ok res q /\
       parse_runtime_loop bs m (Junk j :: bodyr) (e :: errorsr) p' = Ok res' q')).
Proof.
  intros Hlt Hh HF HR.
  destruct (full_step_nohash _ _ _ _ _ _ _ _ Hlt Hh HF)
    as [(x & p1 & cnt' & p' & G & Hs & H')|(err & p1 & e' & j & p2 & cnt' & p' & G & Hr & Hs & H')];
  destruct (rt_step_nohash _ _ _ _ _ _ Hlt Hh HR)
    as [(x2 & p12 & cnt2 & p'2 & G2 & Hs2 & H2')|(err2 & p12 & e2 & j2 & p22 & cnt2 & p'2 & G2 & Hr2 & Hs2 & H2')];
  assert (Eq : get_mt n p p = get_mt m p p) by (apply get_mt_indep; congruence);
  rewrite G, G2 in Eq; try discriminate.
  - injection Eq as <- <-. rewrite Hs in Hs2. injection Hs2 as <- <-.
    destruct (get_mt_end bs _ _ _ _ G) as [L Hp].
    exists cnt', p'. split; [eapply sbb_Hd; [exact Hs|left; exact L]|]. left. exists x. auto.
  - injection Eq as <- <-. rewrite Hr in Hr2. injection Hr2 as <- <- <-.
    rewrite Hs in Hs2. injection Hs2 as <- <-.
    destruct (recover_spec bs _ _ _ _ _ _ Hr) as ((jc & ->) & L & _).
    exists cnt', p'. split; [eapply sbb_Hd; [exact Hs|left; exact L]|]. right. exists jc, e'. auto.
Qed.

End Steps2.

(* ================= 6. simulation ================= *)
Definition mts (body : list entry) : list entry := map strip_comment (messages_terms body).
(* what the runtime parser may return: messages / terms without comment, and Junk *)
Definition rt_entry (e : entry) : Prop := plain_mt e \/ exists c, e = Junk c.

Lemma filter_rev {A} (f : A -> bool) (l : list A) : filter f (rev l) = rev (filter f l).
Proof.
  induction l as [|a l IH]; [reflexivity|]. cbn [rev filter]. rewrite filter_app, IH. cbn [filter].
  destruct (f a); [reflexivity|]. cbn [rev]. rewrite app_nil_r. reflexivity.
Qed.

Lemma mts_rev l : mts (rev l) = rev (mts l).
Proof. unfold mts, messages_terms. rewrite filter_rev, map_rev. reflexivity. Qed.

Lemma non_comment_mt : non_comment is_mt.
Proof. intros e H. destruct e; try discriminate; reflexivity. Qed.
Lemma non_comment_junk : non_comment is_junk.
Proof. intros e H. destruct e; try discriminate; reflexivity. Qed.

Lemma mts_flush lc body : mts (flush lc body) = mts body.
Proof. unfold mts, messages_terms. rewrite (flush_filter _ _ _ non_comment_mt). reflexivity. Qed.

Lemma push_plain_mts lc cnt x body : plain_mt x -> mts (fst (push lc cnt x body)) = x :: mts body.
Proof.
  intros [(id & v & a & ->)|(id & v & a & ->)]; unfold push; destruct lc as [c|];
    try destruct (Nat.ltb cnt 2); reflexivity.
Qed.

Lemma push_plain_junks lc cnt x body : plain_mt x -> junks (fst (push lc cnt x body)) = junks body.
Proof.
  intros [(id & v & a & ->)|(id & v & a & ->)]; unfold push; destruct lc as [c|];
    try destruct (Nat.ltb cnt 2); reflexivity.
Qed.

Lemma plain_is_mt x : plain_mt x -> is_mt x = true.
Proof. intros [(id & v & a & ->)|(id & v & a & ->)]; reflexivity. Qed.

Definition none (S : nat -> bool) (a b : nat) : Prop := forall i, a <= i < b -> S i = false.

Lemma rel_step S a b a' : none S a b -> none S b a -> none S a a' -> a <= a' -> none S a' b /\ none S b a'.
Proof.
  intros H1 H2 H3 Hle. split; intros i Hi.
  - apply H1. lia.
  - destruct (Nat.lt_ge_cases i a); [apply H2|apply H3]; lia.
Qed.

Lemma rel_same S a b : none S a b -> none S b a -> S a = true -> S b = true -> a = b.
Proof.
  intros H1 H2 Sa Sb. destruct (Nat.lt_trichotomy a b) as [L|[E|L]]; [|exact E|].
  - rewrite (H1 a) in Sa by lia. discriminate.
  - rewrite (H2 b) in Sb by lia. discriminate.
Qed.

Section Sim.
Variable bs : bytes.
Notation len := (length_ bs).
Notation byte_at := (byte_at bs).
Notation is_byte_at := (is_byte_at bs).
Notation new_line := (new_line bs).
Notation stopb := (stopb bs).
Notation e_startb := (e_startb bs).
Notation nostop := (nostop bs).
Notation noE := (noE bs).
Notation LSE := (LSE bs).
Notation Hd := (Hd bs).
Notation WF := (WF bs).

Lemma Hd_nonE_cases p : Hd p -> p < len -> e_startb p = false ->
  is_byte_at 35 p = true \/
  exists b, byte_at p = Some b /\ is_e_byte b = false /\ is_byte_at 35 p = false.
Proof.
  intros [H|[H1 H2]] Hlt He; [lia|]. destruct (byte_at_lt bs p Hlt) as (b & Hb).
  destruct (is_byte_at 35 p) eqn:Eh; [left; reflexivity|right]. exists b. split; [exact Hb|]. split; [|reflexivity].
  unfold RuntimeAgree.e_startb in He. rewrite H1, Hb in He. exact He.
Qed.

Lemma Hd_nostop_hash p : Hd p -> p < len -> stopb p = false -> is_byte_at 35 p = true.
Proof.
  intros [H|[H1 H2]] Hlt Hs; [lia|]. unfold RuntimeAgree.stopb in Hs. rewrite H1, H2 in Hs.
  destruct (Nat.ltb_spec p len); [|lia]. cbn in Hs. destruct (is_byte_at 35 p); [reflexivity|discriminate].
Qed.

Lemma stop_props p : stopb p = true -> p < len /\ is_byte_at 35 p = false.
Proof.
  unfold RuntimeAgree.stopb. intros H. apply andb_prop in H as [H H4]. apply andb_prop in H as [H H3].
  apply andb_prop in H as [H1 H2]. apply Nat.ltb_lt in H2. split; [exact H2|].
  destruct (is_byte_at 35 p); [discriminate|reflexivity].
Qed.

Lemma e_start_props p : e_startb p = true -> p < len /\ is_byte_at 35 p = false.
Proof. intros H. apply stop_props. apply e_start_stop. exact H. Qed.

Lemma Hd_LSE p : Hd p -> LSE p.
Proof. intros [H|[H _]]; [left|right]; exact H. Qed.

(* ---------- messages and terms: all inputs ---------- *)
Lemma sim_entries : forall N n m pf pr body errors lc cnt bodyr errorsr res qf res' qr,
  n + m <= N -> Hd pf -> Hd pr -> noE pf pr -> noE pr pf ->
  parse_loop bs n body errors lc cnt pf = Ok res qf ->
  parse_runtime_loop bs m bodyr errorsr pr = Ok res' qr ->
  mts body = messages_terms bodyr ->
  mts (fst res) = messages_terms (fst res').
Proof.
  induction N as [|N IH]; intros n m pf pr body errors lc cnt bodyr errorsr res qf res' qr
    HN Hf Hr Rfr Rrf HF HR HP;
    (destruct n as [|n]; [discriminate|]); (destruct m as [|m]; [discriminate|]); [lia|].
  (* the full loop is at a line that starts no entry *)
  assert (CaseA : pf < len -> e_startb pf = false -> mts (fst res) = messages_terms (fst res')).
  { intros Lf Ef. destruct (Hd_nonE_cases pf Hf Lf Ef) as [Hh|(b & Hb & Heb & Hh)].
    - destruct (full_step_hash bs _ _ _ _ _ _ _ _ Lf Hh HF)
        as (body' & errors' & lc' & cnt' & p' & HF' & Hd' & Hle & D).
      assert (Hn : noE pf p') by (destruct D as [(D & _)|(D & _)]; [apply nostop_noE|]; exact D).
      destruct (rel_step e_startb pf pr p' Rfr Rrf Hn Hle) as [R1 R2].
      apply (IH n (S m) p' pr body' errors' lc' cnt' bodyr errorsr res qf res' qr); try assumption; try lia.
      rewrite <- HP. destruct D as [(_ & _ & D)|(_ & _ & e & j & _ & ->)].
      + unfold mts, messages_terms. rewrite (D is_mt non_comment_mt). reflexivity.
      + change (mts (Junk j :: flush lc body)) with (mts (flush lc body)). apply mts_flush.
    - destruct (full_step_other bs _ _ _ _ _ _ _ _ _ Hb Heb Hh HF) as (j & e & cnt' & p' & HF' & Hd' & Hle & Hn).
      destruct (rel_step e_startb pf pr p' Rfr Rrf Hn Hle) as [R1 R2].
      apply (IH n (S m) p' pr (Junk j :: flush lc body) (e :: errors) None cnt' bodyr errorsr res qf res' qr);
        try assumption; try lia.
      rewrite <- HP. change (mts (Junk j :: flush lc body)) with (mts (flush lc body)). apply mts_flush. }
  (* the runtime loop is at a line that starts no entry *)
  assert (CaseB : pr < len -> e_startb pr = false -> mts (fst res) = messages_terms (fst res')).
  { intros Lr Er. destruct (Hd_nonE_cases pr Hr Lr Er) as [Hh|(b & Hb & Heb & Hh)].
    - destruct (rt_step_hash bs _ _ _ _ _ _ Lr Hh HR) as (p' & HR' & Hd' & Hle & Hn).
      destruct (rel_step e_startb pr pf p' Rrf Rfr (nostop_noE bs _ _ Hn) Hle) as [R1 R2].
      apply (IH (S n) m pf p' body errors lc cnt bodyr errorsr res qf res' qr); try assumption; try lia.
    - destruct (rt_step_other bs _ _ _ _ _ _ _ Hb Heb Hh HR) as (j & e & p' & HR' & Hd' & Hle & Hn).
      destruct (rel_step e_startb pr pf p' Rrf Rfr Hn Hle) as [R1 R2].
      apply (IH (S n) m pf p' body errors lc cnt (Junk j :: bodyr) (e :: errorsr) res qf res' qr);
        try assumption; try lia. }
  destruct (Nat.lt_ge_cases pf len) as [Lf|Gf]; destruct (Nat.lt_ge_cases pr len) as [Lr|Gr].
  - destruct (e_startb pf) eqn:Ef; [|apply CaseA; auto].
    destruct (e_startb pr) eqn:Er; [|apply CaseB; auto].
    assert (pf = pr) by (apply (rel_same e_startb); assumption). subst pr.
    destruct (e_start_props pf Ef) as [_ Hh].
    destruct (same_step bs _ _ _ _ _ _ _ _ _ _ _ _ _ Lf Hh HF HR)
      as (cnt' & p' & Hd' & [(x & Hx & HF' & HR')|(j & e & HF' & HR')]).
    + eapply (IH n m p' p'); [lia|exact Hd'|exact Hd'|apply noE_empty; lia|apply noE_empty; lia|exact HF'|exact HR'|].
      rewrite (push_plain_mts _ _ _ _ Hx). unfold messages_terms. cbn [filter].
      rewrite (plain_is_mt x Hx). f_equal. exact HP.
    + eapply (IH n m p' p'); [lia|exact Hd'|exact Hd'|apply noE_empty; lia|apply noE_empty; lia|exact HF'|exact HR'|].
      change (mts (Junk j :: flush lc body)) with (mts (flush lc body)). rewrite mts_flush. exact HP.
  - destruct (e_startb pf) eqn:Ef; [|apply CaseA; auto].
    rewrite (Rfr pf) in Ef by lia. discriminate.
  - destruct (e_startb pr) eqn:Er; [|apply CaseB; auto].
    rewrite (Rrf pr) in Er by lia. discriminate.
  - rewrite (parse_loop_end bs _ _ _ _ _ _ Gf) in HF. injection HF as <- _.
    rewrite (rt_loop_end bs _ _ _ _ Gr) in HR. injection HR as <- _.
    cbn [fst]. unfold messages_terms. rewrite mts_rev, filter_rev, mts_flush. f_equal. exact HP.
Qed.

(* ---------- Junk and errors: inputs whose '#' lines are all well-formed comments ---------- *)
Lemma sim_junk : WF ->
  forall N n m pf pr body errors lc cnt bodyr errorsr res qf res' qr,
  n + m <= N -> Hd pf -> Hd pr -> nostop pf pr -> nostop pr pf ->
  parse_loop bs n body errors lc cnt pf = Ok res qf ->
  parse_runtime_loop bs m bodyr errorsr pr = Ok res' qr ->
  junks body = junks bodyr -> errors = errorsr ->
  junks (fst res) = junks (fst res') /\ snd res = snd res'.
Proof.
  intros Hwf.
  induction N as [|N IH]; intros n m pf pr body errors lc cnt bodyr errorsr res qf res' qr
    HN Hf Hr Rfr Rrf HF HR HP HE;
    (destruct n as [|n]; [discriminate|]); (destruct m as [|m]; [discriminate|]); [lia|].
  assert (CaseA : pf < len -> stopb pf = false -> junks (fst res) = junks (fst res') /\ snd res = snd res').
  { intros Lf Ef. pose proof (Hd_nostop_hash pf Hf Lf Ef) as Hh.
    destruct (full_step_hash bs _ _ _ _ _ _ _ _ Lf Hh HF)
      as (body' & errors' & lc' & cnt' & p' & HF' & Hd' & Hle & [(Hn & -> & D)|(_ & D & _)]).
    2:{ exfalso. apply D; [exact Hwf|apply Hd_LSE; exact Hf]. }
    destruct (rel_step stopb pf pr p' Rfr Rrf Hn Hle) as [R1 R2].
    apply (IH n (S m) p' pr body' errors lc' cnt' bodyr errorsr res qf res' qr); try assumption; try lia.
    rewrite <- HP. apply (D is_junk non_comment_junk). }
  assert (CaseB : pr < len -> stopb pr = false -> junks (fst res) = junks (fst res') /\ snd res = snd res').
  { intros Lr Er. pose proof (Hd_nostop_hash pr Hr Lr Er) as Hh.
    destruct (rt_step_hash bs _ _ _ _ _ _ Lr Hh HR) as (p' & HR' & Hd' & Hle & Hn).
    destruct (rel_step stopb pr pf p' Rrf Rfr Hn Hle) as [R1 R2].
    apply (IH (S n) m pf p' body errors lc cnt bodyr errorsr res qf res' qr); try assumption; try lia. }
  destruct (Nat.lt_ge_cases pf len) as [Lf|Gf]; destruct (Nat.lt_ge_cases pr len) as [Lr|Gr].
  - destruct (stopb pf) eqn:Ef; [|apply CaseA; auto].
    destruct (stopb pr) eqn:Er; [|apply CaseB; auto].
    assert (pf = pr) by (apply (rel_same stopb); assumption). subst pr.
    destruct (stop_props pf Ef) as [_ Hh].
    destruct (same_step bs _ _ _ _ _ _ _ _ _ _ _ _ _ Lf Hh HF HR)
      as (cnt' & p' & Hd' & [(x & Hx & HF' & HR')|(j & e & HF' & HR')]).
    + eapply (IH n m p' p'); [lia|exact Hd'|exact Hd'|apply nostop_empty; lia|apply nostop_empty; lia|exact HF'|exact HR'| |].
      * rewrite (push_plain_junks _ _ _ _ Hx). unfold junks. cbn [filter].
        replace (is_junk x) with false; [exact HP|].
        destruct Hx as [(id & v & a & ->)|(id & v & a & ->)]; reflexivity.
      * exact HE.
    + eapply (IH n m p' p'); [lia|exact Hd'|exact Hd'|apply nostop_empty; lia|apply nostop_empty; lia|exact HF'|exact HR'| |].
      * unfold junks. cbn [filter is_junk]. fold (junks (flush lc body)). unfold junks at 1.
        rewrite (flush_filter _ _ _ non_comment_junk). f_equal. exact HP.
      * f_equal. exact HE.
  - destruct (stopb pf) eqn:Ef; [|apply CaseA; auto].
    rewrite (Rfr pf) in Ef by lia. discriminate.
  - destruct (stopb pr) eqn:Er; [|apply CaseB; auto].
    rewrite (Rrf pr) in Er by lia. discriminate.
  - rewrite (parse_loop_end bs _ _ _ _ _ _ Gf) in HF. injection HF as <- _.
    rewrite (rt_loop_end bs _ _ _ _ Gr) in HR. injection HR as <- _.
    cbn [fst snd]. unfold junks. rewrite !filter_rev, (flush_filter _ _ _ non_comment_junk).
    split; f_equal; assumption.
Qed.

(* ---------- the runtime parser returns no comments ---------- *)
Lemma rt_entries : forall m bodyr errorsr p res q,
  parse_runtime_loop bs m bodyr errorsr p = Ok res q ->
  Forall rt_entry bodyr -> Forall rt_entry (fst res).
Proof.
  induction m as [|m IH]; intros bodyr errorsr p res q H HB; [discriminate|].
  destruct (Nat.lt_ge_cases p len) as [Lt|Ge].
  2:{ rewrite (rt_loop_end bs _ _ _ _ Ge) in H. injection H as <- _. cbn [fst]. apply Forall_rev. exact HB. }
  destruct (is_byte_at 35 p) eqn:Hh.
  - destruct (rt_step_hash bs _ _ _ _ _ _ Lt Hh H) as (p' & H' & _). eapply IH; eauto.
  - destruct (rt_step_nohash bs _ _ _ _ _ _ Lt Hh H)
      as [(x & p1 & cnt' & p' & G & _ & H')|(err & p1 & e' & j & p2 & cnt' & p' & _ & Hr & _ & H')].
    + eapply IH; [exact H'|]. constructor; [|exact HB]. left. eapply get_mt_end; eauto.
    + eapply IH; [exact H'|]. constructor; [|exact HB]. right.
      destruct (recover_spec bs _ _ _ _ _ _ Hr) as (Hj & _). exact Hj.
Qed.

End Sim.

(* ---------- the entry points ---------- *)
Lemma Hd_start bs c p0 : skip_blank_block bs 0 = Ok c p0 -> Hd bs p0.
Proof. intros H. eapply sbb_Hd; [exact H|]. left. right. reflexivity. Qed.

Theorem entries_agree_m bs n m body errs q body' errs' q' :
  parse_m bs n 0 = Ok (body, errs) q -> parse_runtime_m bs m 0 = Ok (body', errs') q' ->
  map strip_comment (messages_terms body) = messages_terms body'.
Proof.
  unfold parse_m, parse_runtime_m. intros HF HR.
  bind_inv HF c p0 H0. bind_inv HR c' p0' H0'. rewrite H0 in H0'. injection H0' as <- <-.
  pose proof (Hd_start bs c p0 H0) as Hh.
  apply (sim_entries bs (n + m) n m p0 p0 [] [] None 0 [] [] (body, errs) q (body', errs') q');
    try assumption; try lia; try (apply noE_empty; lia). reflexivity.
Qed.

Theorem junk_agree_m bs n m body errs q body' errs' q' :
  wf_hash_lines bs = true ->
  parse_m bs n 0 = Ok (body, errs) q -> parse_runtime_m bs m 0 = Ok (body', errs') q' ->
  junks body = junks body' /\ errs = errs'.
Proof.
  unfold parse_m, parse_runtime_m. intros Hwf HF HR.
  bind_inv HF c p0 H0. bind_inv HR c' p0' H0'. rewrite H0 in H0'. injection H0' as <- <-.
  pose proof (Hd_start bs c p0 H0) as Hh.
  apply (sim_junk bs (wf_hash_lines_WF bs Hwf) (n + m) n m p0 p0 [] [] None 0 [] []
           (body, errs) q (body', errs') q');
    try assumption; try lia; try (apply nostop_empty; lia); reflexivity.
Qed.

Theorem runtime_no_comments_m bs m body' errs' q' :
  parse_runtime_m bs m 0 = Ok (body', errs') q' -> Forall rt_entry body'.
Proof.
  unfold parse_runtime_m. intros HR. bind_inv HR c p0 H0.
  apply (rt_entries bs m [] [] p0 (body', errs') q' HR). constructor.
Qed.

Lemma to_outcome_done {A} (r : res A) (a : A) : to_outcome r = Done a -> exists q, r = Ok a q.
Proof. destruct r; intros H; try discriminate. injection H as <-. eauto. Qed.

Theorem entries_agree : forall bs body errs body' errs',
  parse bs = Done (body, errs) -> parse_runtime bs = Done (body', errs') ->
  map strip_comment (messages_terms body) = messages_terms body'.
Proof.
  unfold parse, parse_runtime. intros bs body errs body' errs' HF HR.
  apply to_outcome_done in HF as (q & HF). apply to_outcome_done in HR as (q' & HR).
  eapply entries_agree_m; eauto.
Qed.

Theorem junk_agree : forall bs body errs body' errs',
  wf_hash_lines bs = true ->
  parse bs = Done (body, errs) -> parse_runtime bs = Done (body', errs') ->
  junks body = junks body' /\ errs = errs'.
Proof.
  unfold parse, parse_runtime. intros bs body errs body' errs' Hwf HF HR.
  apply to_outcome_done in HF as (q & HF). apply to_outcome_done in HR as (q' & HR).
  eapply junk_agree_m; eauto.
Qed.

Theorem runtime_no_comments : forall bs body' errs',
  parse_runtime bs = Done (body', errs') -> Forall rt_entry body'.
Proof.
  unfold parse_runtime. intros bs body' errs' HR. apply to_outcome_done in HR as (q' & HR).
  eapply runtime_no_comments_m; eauto.
Qed.

Theorem get_message_indep : forall bs n m s p,
  get_message bs n s p <> Fuel -> get_message bs m s p <> Fuel -> get_message bs n s p = get_message bs m s p.
Proof.
  intros bs n m s p. apply (mono_indep (fun k => get_message bs k s)).
  intros a b Hab. apply get_message_mono. exact Hab.
Qed.


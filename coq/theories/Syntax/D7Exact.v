(* Syntax/D7Exact.v — finding D7, exactly: property C02 FAILS on the trees that RoundTrip.last_comment_ok excludes.
   If the last entry of a well-formed tree is a stand-alone comment with at least two lines whose last line is
   empty, then the layout that takes the first option everywhere (`render [] t`: no final line end) parses,
   without errors, to a tree that joins to the tree WITHOUT that last line (d7_parse), which is a different tree
   (d7_refuted).  (A comment that is ONE empty line is returned with ZERO lines: Props/C02.v, by computation.) *)
From FluentV Require Import Base.Bytes Base.Outcome Base.Utf8 Base.Utf8Facts.
From FluentV Require Import Syntax.Ast Syntax.ParserModel Syntax.Render Syntax.TreeNorm Syntax.WfUtf8 Syntax.ParseLemmas Syntax.RoundTrip
  Syntax.EntryLoop Syntax.RoundTripML Syntax.CallArgs Syntax.RoundTripSel Syntax.ArgsNest Syntax.RoundTripNest Syntax.WfComplete
  Syntax.RenderFacts.
From Coq Require Import Lia.

Arguments N.eqb : simpl never.

(* a stand-alone comment and the same comment with one more, empty, line *)
Inductive d7_pair : entry -> entry -> Prop :=
| d7p_c ls : ls <> [] -> d7_pair (CommentEntry (Comment (ls ++ [[]]))) (CommentEntry (Comment ls))
| d7p_g ls : ls <> [] -> d7_pair (GroupComment (Comment (ls ++ [[]]))) (GroupComment (Comment ls))
| d7p_r ls : ls <> [] -> d7_pair (ResourceComment (Comment (ls ++ [[]]))) (ResourceComment (Comment ls)).

Lemma comment_layout_snoc_empty P ls : ls <> [] -> forall C', comment_layout P (ls ++ [[]]) C' ->
  exists C x, C' = C ++ x ++ P /\ comment_layout P ls C /\ is_eol_bytes x.
Proof.
  induction ls as [|l r IH]; intros Hne C' HC; [congruence|]. destruct r as [|l2 r'].
  - cbn [app] in HC. inversion HC as [|l0 x r0 C0 Hx Hr HC0]; subst.
    inversion HC0 as [l1|]; subst; [|match goal with H : _ <> _ |- _ => exfalso; apply H; reflexivity end].
    exists (P ++ sl l), x. split; [cbn [sl]; rewrite app_nil_r, <- !app_assoc; reflexivity | split; [constructor | exact Hx]].
  - change ((l :: l2 :: r') ++ [[]]) with (l :: ((l2 :: r') ++ [[]])) in HC.
    inversion HC as [|l0 x r0 C0 Hx Hr HC0]; subst.
    destruct (IH ltac:(discriminate) C0 HC0) as (C1 & x1 & -> & HC1 & Hx1).
    exists (P ++ sl l ++ x ++ C1), x1. split; [rewrite <- !app_assoc; reflexivity | split; [|exact Hx1]].
    constructor; [exact Hx | discriminate | exact HC1].
Qed.

Lemma d7_pair_props e e' : d7_pair e e' ->
  entry_comment e' = None /\ comment_level e = comment_level e' /\ is_message_or_term e = is_message_or_term e' /\
  exists P ls, ls <> [] /\ d7_prefix e' P /\ utf8_valid P = true /\
               (render_entry e = render_comment_lines P (ls ++ [[]])) /\
               (forall vlay C, comment_layout P ls C -> gplain_layout vlay e' C).
Proof.
  intros [ls Hne | ls Hne | ls Hne]; (split; [reflexivity | split; [reflexivity | split; [reflexivity|]]]).
  - exists [35%N], ls. repeat split; try assumption; try reflexivity. intros vlay C HC. constructor. exact HC.
  - exists [35; 35]%N, ls. repeat split; try assumption; try reflexivity. intros vlay C HC. constructor. exact HC.
  - exists [35; 35; 35]%N, ls. repeat split; try assumption; try reflexivity. intros vlay C HC. constructor. exact HC.
Qed.

Section Layout.
Variable pok : list pattern_element -> bool.
Variable vlay : list pattern_element -> bytes -> Prop.
Hypothesis Hrender : forall ind els cs, pok els = true -> 1 <= ind ->
  exists V cs', render_value ind (Pattern els) cs = (V, cs') /\ vlay els V.

(* the text that the empty choice stream gives for the entries is the D7 layout of the tree without the last line *)
Lemma render_entries_d7 e e' : d7_pair e e' -> forall t0,
  g_resource pok (t0 ++ [e']) = true -> wf_utf8_resource (t0 ++ [e]) = true ->
  gentries_layout vlay (t0 ++ [e']) (fst (render_entries (t0 ++ [e]) [])).
Proof.
  intros Hpair. destruct (d7_pair_props e e' Hpair) as (Hcm & Hlvl & Hmt & P & ls & Hne & HP & HPu & Er & Hlay).
  induction t0 as [|e1 r IH]; intros Hg Hu.
  - cbn [app] in *. cbn [render_entries]. unfold rbind. rewrite Er.
    destruct (render_comment_lines_layout P (ls ++ [[]]) ltac:(destruct ls; discriminate) []) as (C' & cs1 & E1 & HC').
    assert (Hcs1 : cs1 = []).
    { unfold wf_utf8_resource in Hu. cbn [forallb] in Hu. apply andb_prop in Hu as [Hue _].
      pose proof (proj2 (good_entry e Hue)) as Hnp. unfold np in Hnp. rewrite Er, E1 in Hnp. exact Hnp. }
    rewrite E1. subst cs1. cbn [choose fst rret].
    destruct (comment_layout_snoc_empty P ls Hne C' HC') as (C & x & -> & HC & Hx).
    apply (gesl_cons vlay e' [] C (x ++ P)); [apply gel_plain; [exact Hcm | apply (Hlay vlay C HC)] | apply (gtl_d7 vlay e' x P HP Hx)].
  - cbn [app] in *. unfold g_resource in Hg. cbn [forallb] in Hg. apply andb_prop in Hg as [He1 Hgr].
    unfold wf_utf8_resource in Hu. cbn [forallb] in Hu. apply andb_prop in Hu as [Hu1 Hur].
    destruct (r ++ [e]) as [|e2 r2] eqn:Er2; [destruct r; discriminate Er2|].
    destruct (r ++ [e']) as [|e2' r2'] eqn:Er2'; [destruct r; discriminate Er2'|].
    assert (Hmin : min_blank_between e1 e2 = min_blank_between e1 e2').
    { destruct r as [|y r'].
      - cbn [app] in Er2, Er2'. injection Er2 as <- _. injection Er2' as <- _. unfold min_blank_between. rewrite Hlvl, Hmt. reflexivity.
      - cbn [app] in Er2, Er2'. injection Er2 as <- _. injection Er2' as <- _. reflexivity. }
    change (render_entries (e1 :: e2 :: r2) []) with
      ((s <~ render_entry e1 ;; x <~ eol ;; extra <~ choose 3 ;;
        b <~ blank_lines (min_blank_between e1 e2 + extra) ;;
        rest <~ render_entries (e2 :: r2) ;; rret (cat [s; x; b; rest])) []).
    destruct (g_render_entry_layout pok vlay (fun _ _ => True) Hrender e1 [] He1) as (E1 & cs1 & Ee1 & HE1).
    assert (Hcs1 : cs1 = []).
    { pose proof (proj2 (good_entry e1 Hu1)) as Hnp. unfold np in Hnp. rewrite Ee1 in Hnp. exact Hnp. }
    subst cs1. rewrite (rbind_eq _ _ _ _ _ Ee1).
    assert (Eeol : eol [] = (lf, [])) by reflexivity. rewrite (rbind_eq _ _ _ _ _ Eeol).
    assert (Ech : choose 3 [] = (0, [])) by reflexivity. rewrite (rbind_eq _ _ _ _ _ Ech).
    destruct (blank_lines_spec (min_blank_between e1 e2 + 0) []) as (BL & cs4 & E4 & HBL).
    assert (Hcs4 : cs4 = []).
    { pose proof (proj2 (good_blank_lines (min_blank_between e1 e2 + 0))) as Hnp. unfold np in Hnp. rewrite E4 in Hnp. exact Hnp. }
    subst cs4. rewrite (rbind_eq _ _ _ _ _ E4).
    specialize (IH Hgr Hur).
    destruct (render_entries (e2 :: r2) []) as [S cs5] eqn:E5. cbn [fst] in IH.
    rewrite (rbind_eq _ _ _ _ _ E5). cbn [fst rret]. unfold cat. cbn [concat]. rewrite app_nil_r.
    apply (gesl_cons vlay e1 (e2' :: r2') E1 (lf ++ BL ++ S) HE1).
    apply (gtl_more vlay e1 (e2' :: r2') lf (min_blank_between e1 e2 + 0) BL S); [left; reflexivity | exact HBL | exact IH | rewrite Hmin; lia].
Qed.

End Layout.

(* the tree without the last line is well-formed, too *)
Lemma d7_pair_wf e e' : d7_pair e e' -> wf_entry e = true -> utf8_entry e = true -> wf_entry e' = true /\ utf8_entry e' = true.
Proof.
  assert (Hgen : forall ls, ls <> [] -> wf_comment (Comment (ls ++ [[]])) = true -> utf8_comment (Comment (ls ++ [[]])) = true ->
                            wf_comment (Comment ls) = true /\ utf8_comment (Comment ls) = true).
  { intros ls Hne Hw Hu. unfold wf_comment, utf8_comment in *. cbn [content] in *.
    destruct (ls ++ [[]]) as [|a b] eqn:E; [destruct ls; discriminate E|]. rewrite <- E in *. cbn [negb andb] in Hw.
    rewrite forallb_app in Hw, Hu. apply andb_prop in Hw as [Hw _]. apply andb_prop in Hu as [Hu _].
    destruct ls; [congruence|]. cbn [negb andb]. split; assumption. }
  intros [ls Hne | ls Hne | ls Hne]; cbn [wf_entry utf8_entry]; apply (Hgen ls Hne).
Qed.

Lemma forallb_snoc {X} (f : X -> bool) l x : forallb f (l ++ [x]) = forallb f l && f x.
Proof. rewrite forallb_app. cbn [forallb]. rewrite andb_true_r. reflexivity. Qed.

(* what the parser returns for the text without a final line end: the tree WITHOUT the empty last line *)
Theorem d7_parse t0 e e' : d7_pair e e' -> wf_resource (t0 ++ [e]) = true -> wf_utf8_resource (t0 ++ [e]) = true ->
  exists t', parse (render [] (t0 ++ [e])) = Done (t', []) /\ map join_entry t' = t0 ++ [e'].
Proof.
  intros Hpair Hw Hu.
  assert (Hw' : wf_resource (t0 ++ [e']) = true /\ wf_utf8_resource (t0 ++ [e']) = true).
  { unfold wf_resource, wf_utf8_resource in *. rewrite !forallb_snoc in *.
    apply andb_prop in Hw as [Hw0 Hwe]. apply andb_prop in Hu as [Hu0 Hue].
    destruct (d7_pair_wf e e' Hpair Hwe Hue) as [H1 H2]. rewrite Hw0, Hu0, H1, H2. split; reflexivity. }
  destruct Hw' as [Hw' Hu'].
  destruct (wf_resource_nest (t0 ++ [e']) Hw' Hu') as [d Hd].
  destruct (facts_alln d) as (_ & R & J & W & P).
  assert (Hg : g_resource (ml_pok (eokn d)) (t0 ++ [e']) = true) by (rewrite ml_resource_g; exact Hd).
  assert (Hrender : forall ind els cs, ml_pok (eokn d) els = true -> 1 <= ind ->
            exists V cs', render_value ind (Pattern els) cs = (V, cs') /\ wl_value_layout (etextn d) els V).
  { intros ind els cs0 Hp Hind. apply (render_value_wl_layout (eokn d) (etextn d) (goodn d) R P ind els cs0 Hp Hind). }
  pose proof (render_entries_d7 (ml_pok (eokn d)) (wl_value_layout (etextn d)) Hrender e e' Hpair t0 Hg Hu) as HL.
  assert (HRL : gresource_layout (wl_value_layout (etextn d)) (t0 ++ [e']) (render [] (t0 ++ [e]))).
  { rewrite render_nil. apply (grl (wl_value_layout (etextn d)) 0 [] (t0 ++ [e']) _ (bl_nil) HL). }
  destruct (g_parse_layout (ml_pok (eokn d)) (wl_value_layout (etextn d)) (srel (goodn d)) (t0 ++ [e']) (render [] (t0 ++ [e]))) as (t' & E & Hrel).
  - intros els V T used c nx p n Hp. apply (get_pattern_wl (eokn d) (etextn d) (goodn d) R J P _ els V T used c nx p n Hp).
  - intros els V Hp. apply (wl_value_layout_strip (eokn d) (etextn d) els V Hp).
  - exact Hg.
  - exact HRL.
  - exists t'. split; [exact E|]. apply jrel_entries.
    apply (rel_entries_mono (srel (goodn d)) jrel t' (t0 ++ [e'])); [intros x y [H _]; exact H | exact Hrel].
Qed.

Lemma d7_pair_neq e e' : d7_pair e e' -> e <> e'.
Proof.
  assert (Hl : forall ls : list bytes, ls ++ [[]] <> ls).
  { intros ls E. apply (f_equal (@length bytes)) in E. rewrite app_length in E. cbn [length] in E. lia. }
  intros [ls _ | ls _ | ls _] E; injection E as E; apply (Hl ls E).
Qed.

(* C02 fails there *)
Theorem d7_refuted t0 e e' : d7_pair e e' -> wf_resource (t0 ++ [e]) = true -> wf_utf8_resource (t0 ++ [e]) = true ->
  ~ (forall cs, exists t', parse (render cs (t0 ++ [e])) = Done (t', []) /\ map join_entry t' = t0 ++ [e]).
Proof.
  intros Hpair Hw Hu Hall. destruct (Hall []) as (t1 & E1 & J1).
  destruct (d7_parse t0 e e' Hpair Hw Hu) as (t2 & E2 & J2). rewrite E1 in E2. injection E2 as <-.
  rewrite J1 in J2. apply app_inj_tail in J2 as [_ J2]. apply (d7_pair_neq e e' Hpair J2).
Qed.

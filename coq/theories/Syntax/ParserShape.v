(* Syntax/ParserShape.v — the SHAPE of every tree the parser returns (for property C04: "every tree the parser can
   produce").  No hypothesis on the input; everything is conditional on the model returning.

     parse_shape : parse bs = Done (t, errs) -> Forall shape_entry t

   shape_entry e: in every pattern of e (value, attribute values, variant values, at every nesting depth, also
   inside call arguments)
     - the pattern has at least one element,
     - no text element is empty, no text element contains '{' or '}', and a line feed occurs in a text element
       only as its LAST byte (one text element per line),
     - if the last element is text, its last byte is none of space, CR, LF (the value is trimmed),
     - the expression of a placeable is not a term attribute ("-t.a"),
   and every select expression has exactly one default variant and a selector that is a string / number literal, a
   variable reference, a function reference or a term attribute; the value of every NAMED ARGUMENT is a string
   literal or a number literal (shape_named; what the grammar asks, and what get_inline_expression with
   only_literal = true returns since the repair of finding D32), and the NAMES of the named arguments of a call are
   pairwise distinct (Render.no_dup_names).  A message without a value has at least one attribute.
   (Not covered here: lexical validity of identifiers / numbers / string literals, the position-dependent facts
   about leading '.', '[', '*' and indentation, comments, Junk — for Junk see ParserAccounting.v.)          *)
From FluentV Require Import Base.Bytes Base.BytesFacts Base.Outcome Base.Utf8 Syntax.Ast Syntax.ParserModel Syntax.ParserAccounting.
From FluentV Require Import Syntax.Render.
From Coq Require Import Lia ZifyBool ZifyNat ZifyN List.
Import ListNotations.
Arguments N.add : simpl never. Arguments N.sub : simpl never. Arguments N.eqb : simpl never.
Arguments N.ltb : simpl never. Arguments N.leb : simpl never.

(* ---------------------------------------------------------------------------------------------- *)
(* 1. The shape                                                                                     *)

Definition okb (b : N) : Prop := b <> 123%N /\ b <> 125%N.
(* no brace; a line feed only as the last byte *)
Definition text_pre (v : bytes) : Prop :=
  forall i b, nth_error v i = Some b -> okb b /\ (S i < length v -> b <> 10%N).
Definition text_shape (v : bytes) : Prop := v <> [] /\ text_pre v.

Definition sel_kind_ok (s : inline) : Prop :=
  match s with
  | StringLiteral _ | NumberLiteral _ | VariableReference _ | FunctionReference _ _ => True
  | TermReference _ (Some _) _ => True
  | _ => False
  end.
Definition not_term_attr (e : expression) : Prop :=
  match e with Inline (TermReference _ (Some _) _) => False | _ => True end.
Definition last_trimmed (els : list pattern_element) : Prop :=
  match last els (PlaceableElement (Inline (NumberLiteral []))) with
  | TextElement v => matches_fluent_ws (last v 0%N) = false
  | _ => True
  end.

Fixpoint shape_inline (i : inline) : Prop :=
  match i with
  | FunctionReference _ ca => shape_args ca
  | TermReference _ _ (Some ca) => shape_args ca
  | Placeable e => shape_expr e /\ not_term_attr e
  | _ => True
  end
with shape_expr (e : expression) : Prop :=
  match e with
  | Inline i => shape_inline i
  | Select s vs =>
      shape_inline s /\ sel_kind_ok s /\ count_defaults vs = 1 /\
      (fix go (l : list variant) : Prop := match l with [] => True | v :: r => shape_variant v /\ go r end) vs
  end
with shape_variant (v : variant) : Prop :=
  match v with Variant _ p _ => shape_pattern p end
with shape_pattern (p : pattern) : Prop :=
  match p with
  | Pattern els =>
      els <> [] /\ last_trimmed els /\
      (fix go (l : list pattern_element) : Prop := match l with [] => True | x :: r => shape_element x /\ go r end) els
  end
with shape_element (x : pattern_element) : Prop :=
  match x with
  | TextElement v => text_shape v
  | PlaceableElement e => shape_expr e /\ not_term_attr e
  end
with shape_args (a : call_args) : Prop :=
  match a with
  | CallArguments pos named =>
      (fix go (l : list inline) : Prop := match l with [] => True | x :: r => shape_inline x /\ go r end) pos /\
      (fix go (l : list named_arg) : Prop := match l with [] => True | x :: r => shape_named x /\ go r end) named /\
      no_dup_names named [] = true
  end
with shape_named (n : named_arg) : Prop :=
  match n with NamedArgument _ v => shape_inline v /\ is_literal v = true end.

Lemma shape_variants_forall vs :
  (fix go (l : list variant) : Prop := match l with [] => True | v :: r => shape_variant v /\ go r end) vs <-> Forall shape_variant vs.
Proof. induction vs as [|v r IH]; [split; [constructor | auto]|]. split; [intros [H1 H2]; constructor; [exact H1 | apply IH, H2] | intros H; inversion H; subst; split; [assumption | apply IH; assumption]]. Qed.
Lemma shape_elements_forall els :
  (fix go (l : list pattern_element) : Prop := match l with [] => True | x :: r => shape_element x /\ go r end) els <-> Forall shape_element els.
Proof. induction els as [|v r IH]; [split; [constructor | auto]|]. split; [intros [H1 H2]; constructor; [exact H1 | apply IH, H2] | intros H; inversion H; subst; split; [assumption | apply IH; assumption]]. Qed.
Lemma shape_pos_forall pos :
  (fix go (l : list inline) : Prop := match l with [] => True | x :: r => shape_inline x /\ go r end) pos <-> Forall shape_inline pos.
Proof. induction pos as [|v r IH]; [split; [constructor | auto]|]. split; [intros [H1 H2]; constructor; [exact H1 | apply IH, H2] | intros H; inversion H; subst; split; [assumption | apply IH; assumption]]. Qed.
Lemma shape_named_forall named :
  (fix go (l : list named_arg) : Prop := match l with [] => True | x :: r => shape_named x /\ go r end) named <-> Forall shape_named named.
Proof. induction named as [|v r IH]; [split; [constructor | auto]|]. split; [intros [H1 H2]; constructor; [exact H1 | apply IH, H2] | intros H; inversion H; subst; split; [assumption | apply IH; assumption]]. Qed.

Lemma shape_select s vs : shape_expr (Select s vs) <-> shape_inline s /\ sel_kind_ok s /\ count_defaults vs = 1 /\ Forall shape_variant vs.
Proof. cbn [shape_expr]. rewrite shape_variants_forall. reflexivity. Qed.
Lemma shape_pattern_els els : shape_pattern (Pattern els) <-> els <> [] /\ last_trimmed els /\ Forall shape_element els.
Proof. cbn [shape_pattern]. rewrite shape_elements_forall. reflexivity. Qed.
Lemma shape_args_eq pos named : shape_args (CallArguments pos named) <->
  Forall shape_inline pos /\ Forall shape_named named /\ no_dup_names named [] = true.
Proof. cbn [shape_args]. rewrite shape_pos_forall, shape_named_forall. reflexivity. Qed.

(* the names of the named arguments are pairwise distinct *)
Definition arg_name (n : named_arg) : bytes := match n with NamedArgument name _ => name end.

Lemma no_dup_of_NoDup l : forall seen, NoDup (map arg_name l) -> (forall n, In n (map arg_name l) -> ~ In n seen) ->
  no_dup_names l seen = true.
Proof.
  induction l as [|[n v] r IH]; intros seen Hnd Hseen; [reflexivity|]. cbn [map arg_name] in *. inversion Hnd as [|? ? Hn Hr]; subst.
  cbn [no_dup_names]. apply andb_true_intro. split.
  - apply negb_true_iff. destruct (existsb (bytes_eqb n) seen) eqn:E; [|reflexivity]. exfalso.
    apply existsb_exists in E as (x & Hx & Ex). apply bytes_eqb_eq in Ex. subst x. apply (Hseen n (or_introl eq_refl) Hx).
  - apply IH; [exact Hr|]. intros m Hm [<- | Hin]; [exact (Hn Hm) | exact (Hseen m (or_intror Hm) Hin)].
Qed.

Lemma has_name_false names id : has_name names id = false -> ~ In id names.
Proof.
  unfold has_name. intros H Hin. assert (existsb (bytes_eqb id) names = true); [|congruence].
  apply existsb_exists. exists id. split; [exact Hin | apply bytes_eqb_eq; reflexivity].
Qed.

Definition shape_opt_pattern (o : option pattern) : Prop := match o with Some p => shape_pattern p | None => True end.
Definition shape_attribute (a : attribute) : Prop := shape_pattern (attr_value a).
Definition shape_entry (e : entry) : Prop :=
  match e with
  | Message _ v attrs _ =>
      (* a message without a value has attributes *)
      match v with Some p => shape_pattern p | None => attrs <> [] end /\ Forall shape_attribute attrs
  | Term _ v attrs _ => shape_pattern v /\ Forall shape_attribute attrs
  | _ => True
  end.

(* ---------------------------------------------------------------------------------------------- *)
(* 2. Bytes of the source                                                                           *)

Lemma text_pre_prefix a w : text_pre (a ++ w) -> text_pre a.
Proof.
  intros H i b Hi. assert (Hlt : i < length a) by (apply nth_error_Some; congruence).
  destruct (H i b) as [H1 H2]; [rewrite nth_error_app1 by exact Hlt; exact Hi|].
  split; [exact H1 | intros Hs; apply H2; rewrite app_length; lia].
Qed.

Lemma trim_end_prefix v : exists w, v = trim_end v ++ w.
Proof.
  unfold trim_end. set (k := scan_while matches_fluent_ws (rev v)).
  exists (rev (firstn k (rev v))). rewrite <- rev_app_distr, firstn_skipn, rev_involutive. reflexivity.
Qed.

Lemma scan_while_stop f (l : bytes) x r : skipn (scan_while f l) l = x :: r -> f x = false.
Proof.
  induction l as [|y l IH]; cbn [scan_while]; [discriminate|]. destruct (f y) eqn:E; cbn [skipn]; [exact IH|].
  intros H. injection H as <- _. exact E.
Qed.

Lemma trim_end_last v : trim_end v <> [] -> matches_fluent_ws (last (trim_end v) 0%N) = false.
Proof.
  unfold trim_end. set (k := scan_while matches_fluent_ws (rev v)). intros Hne.
  destruct (skipn k (rev v)) as [|x r] eqn:E; [exfalso; apply Hne; reflexivity|].
  cbn [rev]. rewrite last_last. apply (scan_while_stop matches_fluent_ws (rev v) x r E).
Qed.

Lemma text_pre_trim v : text_pre v -> text_pre (trim_end v).
Proof. intros H. destruct (trim_end_prefix v) as [w E]. rewrite E in H. apply (text_pre_prefix _ w H). Qed.

Lemma nth_error_firstn_some {A} (l : list A) : forall k i x, nth_error (firstn k l) i = Some x -> i < k /\ nth_error l i = Some x.
Proof.
  induction l as [|y l IH]; intros k i x H; [destruct k, i; discriminate H|].
  destruct k as [|k]; [destruct i; discriminate H|]. destruct i as [|i]; cbn in H |- *; [split; [lia | exact H]|].
  destruct (IH k i x H) as [H1 H2]. split; [lia | exact H2].
Qed.

Lemma nth_error_firstn_skipn {A} (l : list A) a k i x :
  nth_error (firstn k (skipn a l)) i = Some x -> i < k /\ nth_error l (a + i) = Some x.
Proof.
  intros H. destruct (nth_error_firstn_some _ _ _ _ H) as [H1 H2]. split; [exact H1|].
  rewrite nth_error_skipn_add in H2. exact H2.
Qed.

Section Shape.
Variable bs : bytes.
Notation len := (length bs).

(* the bytes bs[s..e): no brace, a line feed only at e-1 *)
Definition range_ok (s e : nat) : Prop :=
  forall i b, s <= i < e -> nth_error bs i = Some b -> okb b /\ (S i < e -> b <> 10%N).

Lemma range_ok_empty s e : e <= s -> range_ok s e.
Proof. intros H i b Hi. lia. Qed.

Lemma range_ok_sub s e s' : range_ok s e -> s <= s' -> range_ok s' e.
Proof. intros H Hs i b Hi. apply H. lia. Qed.

Lemma range_ok_join s m e : range_ok s m -> range_ok m e ->
  (forall i b, s <= i < m -> nth_error bs i = Some b -> b <> 10%N) -> range_ok s e.
Proof.
  intros H1 H2 Hno i b Hi Hb. destruct (Nat.lt_ge_cases i m) as [Hlt | Hge].
  - split; [apply (H1 i b); [lia | exact Hb] | intros _; apply (Hno i b); [lia | exact Hb]].
  - apply (H2 i b); [lia | exact Hb].
Qed.

Lemma slice_text_pre s e s' v : range_ok s e -> s <= s' -> slice bs s' e = Done v -> text_pre v.
Proof.
  intros Hr Hs Hv. unfold slice in Hv.
  destruct (Nat.leb s' e && Nat.leb e len && is_char_boundary bs s' && is_char_boundary bs e) eqn:E; [|discriminate Hv].
  injection Hv as <-. intros i b Hi. destruct (nth_error_firstn_skipn bs s' (e - s') i b Hi) as [Hlt Hb].
  destruct (Hr (s' + i) b ltac:(lia) Hb) as [H1 H2]. split; [exact H1|].
  intros Hlen. apply H2. rewrite firstn_length in Hlen. lia.
Qed.

Lemma slice_nonempty s e v : s <> e -> slice bs s e = Done v -> v <> [].
Proof.
  intros Hne Hv. unfold slice in Hv.
  destruct (Nat.leb s e && Nat.leb e len && is_char_boundary bs s && is_char_boundary bs e) eqn:E; [|discriminate Hv].
  injection Hv as <-. apply andb_prop in E as [E _]. apply andb_prop in E as [E _]. apply andb_prop in E as [E1 E2].
  apply Nat.leb_le in E1, E2. intros Hnil. apply (f_equal (@length N)) in Hnil. rewrite firstn_length, skipn_length in Hnil.
  cbn [length] in Hnil. lia.
Qed.

(* ---- scanners ---- *)
Lemma scan_while_range f p i b : i < scan_while f (rest bs p) -> nth_error bs (p + i) = Some b -> f b = true.
Proof.
  unfold rest. revert i. generalize p. clear p. intros p.
  assert (H : forall l i, i < scan_while f l -> forall b, nth_error l i = Some b -> f b = true).
  { induction l as [|x l IH]; intros i Hi b0 Hb; [cbn in Hi; lia|]. cbn [scan_while] in Hi.
    destruct (f x) eqn:Ef; [|lia]. destruct i as [|i]; [cbn in Hb; injection Hb as <-; exact Ef|].
    cbn in Hb. apply (IH i ltac:(lia) b0 Hb). }
  intros i Hi Hb. apply (H (skipn p bs) i Hi b). rewrite nth_error_skipn_add. exact Hb.
Qed.

Lemma memchr3_none l : memchr3 l = None -> forall i b, nth_error l i = Some b -> (N.eqb b c_lf || N.eqb b 123 || N.eqb b 125) = false.
Proof.
  induction l as [|x r IH]; intros H i b Hb; [destruct i; discriminate Hb|]. cbn [memchr3] in H.
  destruct (N.eqb x c_lf || N.eqb x 123 || N.eqb x 125) eqn:E; [discriminate H|].
  destruct (memchr3 r) eqn:Er; [discriminate H|]. destruct i as [|i]; [cbn in Hb; injection Hb as <-; exact E|].
  cbn in Hb. apply (IH eq_refl i b Hb).
Qed.

Lemma memchr3_before l : forall k, memchr3 l = Some k -> forall i b, i < k -> nth_error l i = Some b ->
  (N.eqb b c_lf || N.eqb b 123 || N.eqb b 125) = false.
Proof.
  induction l as [|x r IH]; intros k H i b Hi Hb; [discriminate H|]. cbn [memchr3] in H.
  destruct (N.eqb x c_lf || N.eqb x 123 || N.eqb x 125) eqn:E; [injection H as <-; lia|].
  destruct (memchr3 r) as [j|] eqn:Er; [|discriminate H]. cbn in H. injection H as <-.
  destruct i as [|i]; [cbn in Hb; injection Hb as <-; exact E|]. cbn in Hb. apply (IH j eq_refl i b ltac:(lia) Hb).
Qed.

Lemma special_false b : (N.eqb b c_lf || N.eqb b 123 || N.eqb b 125) = false -> okb b /\ b <> 10%N.
Proof. unfold okb, c_lf. intros H. repeat split; intros ->; discriminate H. Qed.

(* get_text_slice: the slice has no brace, and a line feed only as its last byte *)
Lemma sp_text_slice p :
  spec (get_text_slice bs) p
       (fun ts q => fst (fst (fst ts)) = p /\ p <= snd (fst (fst ts)) /\ range_ok p (snd (fst (fst ts)))) ET.
Proof.
  unfold spec, get_text_slice. destruct (Nat.ltb (length_ bs) p); [cbn; split; [reflexivity | split; [lia | apply range_ok_empty; lia]]|].
  destruct (memchr3 (rest bs p)) as [k|] eqn:Em.
  - destruct (nth_error (rest bs p) k) as [b|] eqn:Hb; [|exact Logic.I].
    assert (Hbefore : forall i c, p <= i < k + p -> nth_error bs i = Some c -> okb c /\ c <> 10%N).
    { intros i c Hi Hc. apply special_false. apply (memchr3_before (rest bs p) k Em (i - p) c ltac:(lia)).
      unfold rest. rewrite nth_error_skipn_add. replace (p + (i - p)) with i by lia. exact Hc. }
    destruct (N.eqb b 125); [exact Logic.I|].
    destruct (N.eqb b c_lf) eqn:Hlf.
    + apply N.eqb_eq in Hlf. subst b. unfold rest in Hb. rewrite nth_error_skipn_add in Hb.
      assert (HLF : range_ok p (S k + p)).
      { intros i c Hi Hc. destruct (Nat.eq_dec i (k + p)) as [-> | Hne].
        - replace (p + k) with (k + p) in Hb by lia. rewrite Hb in Hc. injection Hc as <-. unfold c_lf. split; [split; discriminate | lia].
        - destruct (Hbefore i c ltac:(lia) Hc) as [H1 H2]. split; [exact H1 | intros _; exact H2]. }
      assert (HCR : forall k', k = S k' -> range_ok p (S k' + p - 1)).
      { intros k' ->. intros i c Hi Hc. destruct (Hbefore i c ltac:(lia) Hc) as [H1 H2]. split; [exact H1 | intros _; exact H2]. }
      destruct k as [|k']; [cbn [fst snd]; split; [reflexivity | split; [lia | exact HLF]]|].
      destruct (match nth_error (rest bs p) k' with Some c => N.eqb c c_cr | None => false end).
      * cbn [fst snd]. split; [reflexivity | split; [lia | apply (HCR k' eq_refl)]].
      * cbn [fst snd]. split; [reflexivity | split; [lia | exact HLF]].
    + cbn [fst snd]. split; [reflexivity | split; [lia|]].
      intros i c Hi Hc. destruct (Hbefore i c ltac:(lia) Hc) as [H1 H2]. split; [exact H1 | intros _; exact H2].
  - cbn [fst snd]. split; [reflexivity | split; [lia|]].
    intros i c Hi Hc. assert (Hs : okb c /\ c <> 10%N).
    { apply special_false. apply (memchr3_none (rest bs p) Em (i - p) c). unfold rest. rewrite nth_error_skipn_add.
      replace (p + (i - p)) with i by lia. exact Hc. }
    destruct Hs as [H1 H2]. split; [exact H1 | intros _; exact H2].
Qed.


(* ---- finish_pattern ---- *)
Inductive ph_ok : placeholder -> Prop :=
| pho_pl e : shape_expr e -> not_term_attr e -> ph_ok (PHPlaceable e)
| pho_text s e ind r : range_ok s e -> ph_ok (PHText s e ind r).

Definition el_pre (x : pattern_element) : Prop :=
  match x with TextElement v => text_pre v | PlaceableElement e => shape_expr e /\ not_term_attr e end.
Definition el_ne (x : pattern_element) : Prop := match x with TextElement v => v <> [] | _ => True end.

Lemma shape_element_pre x : el_pre x -> el_ne x -> shape_element x.
Proof. destruct x as [v|e]; cbn; [intros H1 H2; split; assumption | auto]. Qed.

Lemma sp_finish_element lnb ci i ph p : ph_ok ph ->
  spec (finish_element bs lnb ci i ph) p
       (fun r _ => match r with Some x => el_pre x /\ (i <> lnb -> el_ne x) | None => True end) ET.
Proof.
  intros [e He Hnt | s e ind r Hr]; unfold finish_element.
  - apply spec_ret. split; [split; assumption | intros _; exact Logic.I].
  - set (s' := if is_line_start r then match ci with Some c => s + Nat.min ind c | None => s + ind end else s).
    assert (Hs' : s <= s') by (unfold s'; destruct (is_line_start r); [destruct ci|]; lia).
    destruct (Nat.eqb s' e) eqn:Ee; [apply spec_ret; exact Logic.I|]. apply Nat.eqb_neq in Ee.
    eapply spec_bind; [apply sp_source_slice | intros ? ? []|].
    intros v q [-> Hv]. apply spec_ret. cbn [el_pre el_ne].
    pose proof (slice_text_pre s e s' v Hr Hs' Hv) as Hpre. pose proof (slice_nonempty s' e v Ee Hv) as Hne.
    destruct (Nat.eqb lnb i) eqn:El.
    + split; [apply text_pre_trim, Hpre | intros Hi; apply Nat.eqb_eq in El; congruence].
    + split; [exact Hpre | intros _; exact Hne].
Qed.

Lemma removelast_cons_ne {X} (x : X) l : l <> [] -> removelast (x :: l) = x :: removelast l.
Proof. destruct l; [congruence | reflexivity]. Qed.

Lemma sp_finish_elements_shape lnb ci : forall phs i p, Forall ph_ok phs -> i + length phs <= S lnb ->
  spec (finish_elements bs lnb ci i phs) p
       (fun els _ => Forall el_pre els /\ Forall el_ne (removelast els) /\ length els <= length phs) ET.
Proof.
  induction phs as [|ph r IH]; intros i p Hall Hlen; cbn [finish_elements].
  - apply spec_ret. split; [constructor | split; [constructor | cbn; lia]].
  - inversion Hall as [|? ? Hph Hr]; subst. cbn [length] in Hlen.
    eapply spec_bind; [apply (sp_finish_element lnb ci i ph p Hph) | intros; exact Logic.I|].
    intros x q Hx. eapply spec_bind; [apply (IH (S i) q Hr ltac:(lia)) | intros; exact Logic.I|].
    intros xs q2 (Hxs1 & Hxs2 & Hxs3). apply spec_ret. destruct x as [x|]; [|split; [assumption | split; [assumption | cbn [length]; lia]]].
    destruct Hx as [Hx1 Hx2]. split; [constructor; assumption | split; [|cbn [length]; lia]].
    destruct xs as [|y ys]; [constructor|]. rewrite (removelast_cons_ne x (y :: ys) ltac:(discriminate)).
    constructor; [|exact Hxs2]. apply Hx2.
    (* the trimmed element is the last one: here something follows *)
    intros ->. cbn [length] in Hxs3. lia.
Qed.

Definition head_trimmed (l : list pattern_element) : Prop :=
  match l with TextElement v :: _ => matches_fluent_ws (last v 0%N) = false | _ => True end.

Lemma drop_tail_rev_shape R : Forall el_pre R -> Forall el_ne (tl R) ->
  Forall shape_element (drop_empty_tail_rev R) /\ head_trimmed (drop_empty_tail_rev R).
Proof.
  induction R as [|x r IH]; intros Hp Hn; [split; [constructor | exact Logic.I]|]. inversion Hp as [|? ? Hx Hr]; subst. cbn [tl] in Hn.
  assert (Hrest : Forall shape_element r).
  { clear - Hr Hn. induction r as [|y r IH]; [constructor|]. inversion Hr; inversion Hn; subst.
    constructor; [apply shape_element_pre; assumption | apply IH; assumption]. }
  destruct x as [v|e]; cbn [drop_empty_tail_rev]; [|split; [constructor; [exact Hx | exact Hrest] | exact Logic.I]].
  destruct (trim_end v) as [|b t] eqn:Et.
  - apply IH; [exact Hr | destruct r; [constructor | inversion Hn; assumption]].
  - split; [constructor; [|exact Hrest]; split; [discriminate | rewrite <- Et; apply text_pre_trim, Hx]|].
    cbn [head_trimmed]. rewrite <- Et. apply trim_end_last. rewrite Et. discriminate.
Qed.

Lemma last_rev_head (l : list pattern_element) d : last (rev l) d = match l with x :: _ => x | [] => d end.
Proof. destruct l as [|x r]; [reflexivity|]. cbn [rev]. apply last_last. Qed.

Lemma tl_rev_removelast {X} (l : list X) : tl (rev l) = rev (removelast l).
Proof.
  induction l as [|x l IH] using rev_ind; [reflexivity|]. rewrite rev_app_distr, removelast_last. reflexivity.
Qed.

Lemma drop_tail_shape els : Forall el_pre els -> Forall el_ne (removelast els) -> shape_opt_pattern (drop_empty_tail els).
Proof.
  intros Hp Hn. unfold drop_empty_tail.
  destruct (drop_tail_rev_shape (rev els) (Forall_rev Hp) ltac:(rewrite tl_rev_removelast; apply Forall_rev, Hn)) as [H1 H2].
  assert (H : Forall shape_element (rev (drop_empty_tail_rev (rev els)))) by apply Forall_rev, H1.
  assert (HT : last_trimmed (rev (drop_empty_tail_rev (rev els)))).
  { unfold last_trimmed. rewrite last_rev_head. unfold head_trimmed in H2. destruct (drop_empty_tail_rev (rev els)) as [|[v|e] r]; auto. }
  destruct (rev (drop_empty_tail_rev (rev els))) as [|x r]; [exact Logic.I|].
  cbn [shape_opt_pattern]. apply shape_pattern_els. split; [discriminate | split; [exact HT | exact H]].
Qed.

Definition st_ok (st : pstate) : Prop := Forall ph_ok (elements st).

Lemma Forall_firstn {X} (P : X -> Prop) k l : Forall P l -> Forall P (firstn k l).
Proof. revert k. induction l as [|x l IH]; intros k H; [destruct k; constructor|]. destruct k; [constructor|]. inversion H; subst. constructor; [assumption | apply IH; assumption]. Qed.

Lemma sp_finish_pattern_shape st p : st_ok st -> spec (finish_pattern bs st) p (fun r _ => shape_opt_pattern r) ET.
Proof.
  intros Hst. unfold finish_pattern. destruct (last_non_blank st) as [lnb|]; [|apply spec_ret; exact Logic.I].
  eapply spec_bind; [apply (sp_finish_elements_shape lnb (common_indent st) _ 0 p) | intros; exact Logic.I|].
  - apply Forall_firstn, Forall_rev, Hst.
  - cbn [Nat.add]. apply firstn_le_length.
  - intros els q (H1 & H2 & _). apply spec_ret. apply (drop_tail_shape els H1 H2).
Qed.

(* ---- the pattern loop, in pieces ---- *)
Definition prologue (r : position) (slice_start : nat) : M (option nat) :=
  if is_line_start r then
    indent <- skip_blank_inline bs ;;
    cb <- current_byte bs ;;
    match cb with
    | Some b =>
        if Nat.eqb indent 0 then
          eol <- is_eol bs ;;
          if negb eol then ret None else ret (Some indent)
        else if negb (is_byte_pattern_continuation b) then
          set_ptr slice_start ;;; ret None
        else ret (Some indent)
    | None => ret None
    end
  else ret (Some 0).

Definition text_step (st : pstate) (slice_start indent : nat) (ts : nat * nat * bool * termination) : pstate :=
  let '(start, end_, nonblank, term) := ts in
  let ls := is_line_start (role st) in
  let st1 :=
    if negb (Nat.eqb start end_) then
      let ci := if ls && nonblank
                then match common_indent st with
                     | Some c => if Nat.ltb indent c then Some indent else Some c
                     | None => Some indent
                     end
                else common_indent st in
      if negb ls || nonblank || (match term with TLineFeed => true | _ => false end) then
        let blank_line := ls && negb nonblank in
        PState (PHText (if blank_line then start else slice_start) end_ (if blank_line then 0 else indent) (role st)
                  :: elements st) (S (n_elements st))
               (if nonblank then Some (n_elements st) else last_non_blank st) ci (role st)
      else PState (elements st) (n_elements st) (last_non_blank st) ci (role st)
    else if ls && (match term with TPlaceableStart => true | _ => false end) then
      PState (PHText slice_start end_ indent (role st) :: elements st) (S (n_elements st)) (last_non_blank st)
             (Some (match common_indent st with None => indent | Some c => Nat.min c indent end))
             (role st)
    else st in
  let role' := match term with
               | TLineFeed | TCrlf => LineStart
               | TPlaceableStart | TEof => Continuation
               end in
  PState (elements st1) (n_elements st1) (last_non_blank st1) (common_indent st1) role'.

Lemma pattern_loop_S n st :
  pattern_loop bs (S n) st =
  (p <- get_ptr ;;
   if negb (Nat.ltb p (length_ bs)) then ret st
   else
     brace <- take_byte_if bs 123 ;;
     if brace then
       let ci := if is_line_start (role st) then Some 0 else common_indent st in
       exp <- get_placeable bs n ;;
       pattern_loop bs n (PState (PHPlaceable exp :: elements st) (S (n_elements st)) (Some (n_elements st)) ci Continuation)
     else
       slice_start <- get_ptr ;;
       pro <- prologue (role st) slice_start ;;
       match pro with
       | None => ret st
       | Some indent =>
           ts <- get_text_slice bs ;;
           let '(start, end_, nonblank, term) := ts in
           pattern_loop bs n (text_step st slice_start indent (start, end_, nonblank, term))
       end).
Proof. reflexivity. Qed.

Definition spaces (a b : nat) : Prop := forall i c, a <= i < b -> nth_error bs i = Some c -> c = 32%N.

Lemma sp_prologue r p :
  spec (prologue r p) p (fun o q => match o with Some indent => q = indent + p /\ spaces p q | None => True end) ET.
Proof.
  unfold prologue. destruct (is_line_start r); [|apply spec_ret; split; [reflexivity | intros i c Hi; lia]].
  eapply spec_bind; [apply sp_skip_blank_inline | intros ? ? []|]. intros k q [-> Ek].
  assert (Hsp : spaces p (k + p)).
  { intros i c Hi Hc. pose proof (scan_while_range is_space p (i - p) c ltac:(lia)) as H.
    replace (p + (i - p)) with i in H by lia. specialize (H Hc). unfold is_space in H. apply N.eqb_eq in H. exact H. }
  eapply spec_bind; [apply sp_current_byte | intros ? ? []|]. intros cb q [-> ->].
  destruct (byte_at bs (k + p)) as [b|]; [|apply spec_ret; exact Logic.I].
  destruct (Nat.eqb k 0).
  - eapply spec_bind; [apply spec_self | intros; exact Logic.I|]. intros eol q Heol.
    assert (Eq : q = k + p) by (unfold is_eol in Heol; injection Heol as _ <-; reflexivity). subst q.
    destruct (negb eol); apply spec_ret; [exact Logic.I | split; [reflexivity | exact Hsp]].
  - destruct (negb (is_byte_pattern_continuation b)).
    + eapply spec_bind; [apply spec_any | intros; exact Logic.I|]. intros. apply spec_ret. exact Logic.I.
    + apply spec_ret. split; [reflexivity | exact Hsp].
Qed.

Lemma text_step_ok st slice_start indent ts :
  st_ok st -> range_ok slice_start (snd (fst (fst ts))) -> slice_start <= fst (fst (fst ts)) ->
  st_ok (text_step st slice_start indent ts).
Proof.
  intros Hst Hr Hle. destruct ts as [[[start end_] nonblank] term]. cbn [fst snd] in Hr, Hle. unfold text_step, st_ok in *.
  assert (Hnew : Forall ph_ok (PHText slice_start end_ indent (role st) :: elements st)) by (constructor; [constructor; exact Hr | exact Hst]).
  assert (Hnew0 : Forall ph_ok (PHText start end_ 0 (role st) :: elements st))
    by (constructor; [constructor; apply (range_ok_sub slice_start end_ start Hr Hle) | exact Hst]).
  destruct (negb (Nat.eqb start end_)).
  - destruct (negb (is_line_start (role st)) || nonblank || match term with TLineFeed => true | _ => false end); cbn [elements]; [|assumption].
    destruct (is_line_start (role st) && negb nonblank); assumption.
  - destruct (is_line_start (role st) && match term with TPlaceableStart => true | _ => false end); cbn [elements]; assumption.
Qed.

(* ---- the recursive knot ---- *)
Definition OP : option pattern -> nat -> Prop := fun r _ => shape_opt_pattern r.
Definition OV : list variant -> nat -> Prop := fun vs _ => count_defaults vs = 1 /\ Forall shape_variant vs.
Definition OA : option call_args -> nat -> Prop := fun r _ => match r with Some ca => shape_args ca | None => True end.

Definition knot_shape (n : nat) : Prop :=
  (forall p, spec (get_pattern bs n) p OP ET) /\
  (forall st p, st_ok st -> spec (pattern_loop bs n st) p (fun st' _ => st_ok st') ET) /\
  (forall p, spec (get_placeable bs n) p (fun e _ => shape_expr e /\ not_term_attr e) ET) /\
  (forall p, spec (get_expression bs n) p (fun e _ => shape_expr e) ET) /\
  (forall p, spec (get_variants bs n) p OV ET) /\
  (forall acc (hd : bool) p, Forall shape_variant acc -> count_defaults acc = (if hd then 1 else 0) ->
                    spec (variants_loop bs n acc hd) p OV ET) /\
  (forall ol p, spec (get_inline_expression bs n ol) p (fun i _ => shape_inline i /\ (ol = true -> is_literal i = true)) ET) /\
  (forall p, spec (get_call_arguments bs n) p OA ET) /\
  (forall pos named names p, Forall shape_inline pos -> Forall shape_named named ->
                             names = map arg_name named -> NoDup names ->
                             spec (args_loop bs n pos named names) p (fun ca _ => shape_args ca) ET).

Ltac skipb := eapply spec_bind; [apply spec_any | intros; exact Logic.I | let sa := fresh "sa" in let sq := fresh "sq" in intros sa sq _].
Tactic Notation "skipn" ident(a) ident(q) := eapply spec_bind; [apply spec_any | intros; exact Logic.I | intros a q _].
Ltac useb H := eapply spec_bind; [apply H | intros; exact Logic.I | ].

Lemma count_defaults_rev vs : count_defaults (rev vs) = count_defaults vs.
Proof.
  assert (Happ : forall a b, count_defaults (a ++ b) = count_defaults a + count_defaults b).
  { induction a as [|[k p d] a IH]; intros b; [reflexivity|]. cbn [app count_defaults]. rewrite IH. lia. }
  induction vs as [|[k p d] r IH]; [reflexivity|]. cbn [rev]. rewrite Happ, IH. cbn [count_defaults]. lia.
Qed.

Lemma knot_shape_all n : knot_shape n.
Proof.
  induction n as [|n (IH1 & IH2 & IH3 & IH4 & IH5 & IH6 & IH7 & IH8 & IH9)]; unfold knot_shape.
  - repeat split; intros; exact Logic.I.
  - repeat match goal with |- _ /\ _ => split end.
    + (* get_pattern *)
      intros p. cbn [get_pattern]. fold_knot bs.
      skipb. skipb. skipn r qr.
      useb (IH2 (PState [] 0 None None r) qr ltac:(constructor)). intros st q Hst. apply (sp_finish_pattern_shape st q Hst).
    + (* pattern_loop *)
      intros st p Hst. rewrite pattern_loop_S.
      eapply spec_bind; [apply sp_get_ptr | intros ? ? []|]. intros p0 q [-> ->].
      destruct (negb (Nat.ltb p (length_ bs))); [apply spec_ret; exact Hst|].
      eapply spec_bind; [apply spec_self | intros; exact Logic.I|]. intros brace q Hb.
      destruct brace.
      * useb (IH3 q). intros e q2 [He Hnt]. apply IH2. constructor; [constructor; assumption | exact Hst].
      * assert (Eq : q = p) by (unfold take_byte_if in Hb; destruct (is_byte_at bs 123 p); [discriminate Hb | injection Hb as <-; reflexivity]).
        subst q.
        eapply spec_bind; [apply sp_get_ptr | intros ? ? []|]. intros ss q [-> ->].
        useb (sp_prologue (role st) p). intros pro q Hpro.
        destruct pro as [indent|]; [|apply spec_ret; exact Hst]. destruct Hpro as [-> Hsp].
        useb (sp_text_slice (indent + p)). intros [[[start end_] nb] term] q (Hs & Hle & Hr). cbn [fst snd] in Hs, Hle, Hr.
        apply IH2. apply (text_step_ok st p indent (start, end_, nb, term) Hst); [|cbn [fst]; lia]. cbn [fst snd].
        apply (range_ok_join p (indent + p) end_); [|exact Hr|].
        -- intros i c Hi Hc. rewrite (Hsp i c Hi Hc). split; [split; discriminate | intros _; discriminate].
        -- intros i c Hi Hc. rewrite (Hsp i c Hi Hc). discriminate.
    + (* get_placeable *)
      intros p. cbn [get_placeable]. fold_knot bs.
      skipn u1 q1. useb (IH4 q1). intros e q2 He. skipb. skipb.
      destruct e as [s vs | i]; [apply spec_ret; split; [exact He | exact Logic.I]|].
      destruct i as [? | ? | ? ? | ? ? | ? [?|] ? | ? | ?]; try (apply spec_ret; split; [exact He | exact Logic.I]). exact Logic.I.
    + (* get_expression *)
      intros p. cbn [get_expression]. fold_knot bs.
      useb (IH7 false p). intros i q [Hi _]. skipn u1 q1.
      eapply spec_bind; [apply sp_get_ptr | intros ? ? []|]. intros p0 q2 [-> ->].
      destruct (negb (is_byte_at bs 45 q1) || negb (is_byte_at bs 62 (S q1))).
      * destruct i as [? | ? | ? ? | ? ? | ? [?|] ? | ? | ?]; try (apply spec_ret; exact Hi). exact Logic.I.
      * eapply spec_bind with (Q1 := fun _ _ => sel_kind_ok i) (E1 := ET); [|intros; exact Logic.I|].
        { destruct i as [? | ? | ? ? | ? [?|] | ? [?|] ? | ? | ?]; try exact Logic.I; apply spec_ret; exact Logic.I. }
        intros uu qq Hk. skipb. skipb. skipn eol q5. destruct (negb eol); [exact Logic.I|]. skipn u6 q6.
        useb (IH5 q6). intros vs q7 [Hc Hv]. apply spec_ret. apply shape_select. auto.
    + (* get_variants *)
      intros p. cbn [get_variants]. fold_knot bs. apply IH6; [constructor | reflexivity].
    + (* variants_loop *)
      intros acc hd p Hacc Hcnt. cbn [variants_loop]. fold_knot bs.
      skipn dflt q1. destruct (dflt && hd) eqn:Eah; [exact Logic.I|].
      skipn br q2. destruct (negb br).
      * destruct dflt; [exact Logic.I|]. rewrite orb_false_r. destruct hd; [|exact Logic.I].
        apply spec_ret. split; [rewrite count_defaults_rev; exact Hcnt | apply Forall_rev, Hacc].
      * skipn key q3. useb (IH1 q3). intros v q4 Hv. destruct v as [v|]; [|exact Logic.I]. skipn u5 q5.
        apply IH6; [constructor; [exact Hv | exact Hacc]|].
        cbn [count_defaults]. rewrite Hcnt. destruct dflt, hd; try discriminate Eah; reflexivity.
    + (* get_inline_expression *)
      intros ol p. cbn [get_inline_expression]. fold_knot bs.
      assert (Hnl : forall i : inline, shape_inline i -> ol = false -> shape_inline i /\ (ol = true -> is_literal i = true)).
      { intros i Hi ->. split; [exact Hi | discriminate]. }
      skipn cb q0. destruct cb as [b|]; [|destruct ol; exact Logic.I].
      destruct (N.eqb b 34).
      { skipb. skipb. skipb. skipb. skipb. skipb. skipb. apply spec_ret. split; [exact Logic.I | reflexivity]. }
      destruct (is_ascii_digit b); [skipb; apply spec_ret; split; [exact Logic.I | reflexivity]|].
      destruct (N.eqb b 45 && negb ol) eqn:E45.
      { assert (Eol : ol = false) by (destruct ol; [rewrite andb_false_r in E45; discriminate E45 | reflexivity]).
        skipb. skipn st1 q2. destruct st1.
        - skipb. skipb. skipn att q5. useb (IH8 q5). intros args q6 Hargs. apply spec_ret. apply Hnl; [|exact Eol].
          destruct args; [exact Hargs | exact Logic.I].
        - skipb. skipb. apply spec_ret. split; [exact Logic.I | reflexivity]. }
      destruct (N.eqb b 45); [skipb; apply spec_ret; split; [exact Logic.I | reflexivity]|].
      destruct (N.eqb b 36 && negb ol) eqn:E36.
      { assert (Eol : ol = false) by (destruct ol; [rewrite andb_false_r in E36; discriminate E36 | reflexivity]).
        skipb; skipb; apply spec_ret. apply Hnl; [exact Logic.I | exact Eol]. }
      destruct (is_ascii_alphabetic b && negb ol) eqn:Eal.
      { assert (Eol : ol = false) by (destruct ol; [rewrite andb_false_r in Eal; discriminate Eal | reflexivity]).
        skipb. skipn id q2. useb (IH8 q2). intros args q3 Hargs. destruct args as [args|].
        - destruct (negb (is_callee id)); [exact Logic.I | apply spec_ret; apply Hnl; [exact Hargs | exact Eol]].
        - skipb. apply spec_ret. apply Hnl; [exact Logic.I | exact Eol]. }
      destruct (N.eqb b 123 && negb ol) eqn:Ebr.
      { assert (Eol : ol = false) by (destruct ol; [rewrite andb_false_r in Ebr; discriminate Ebr | reflexivity]).
        skipn u1 q1. useb (IH3 q1). intros e q2 He. apply spec_ret. apply Hnl; [exact He | exact Eol]. }
      destruct ol; exact Logic.I.
    + (* get_call_arguments *)
      intros p. cbn [get_call_arguments]. fold_knot bs.
      skipb. skipn op q2. destruct (negb op); [apply spec_ret; exact Logic.I|].
      skipn u3 q3. useb (IH9 [] [] [] q3 ltac:(constructor) ltac:(constructor) eq_refl ltac:(constructor)). intros ca q4 Hca. skipb. apply spec_ret. exact Hca.
    + (* args_loop *)
      intros pos named names p Hpos Hnamed Enames Hnd. cbn [args_loop]. fold_knot bs.
      eapply spec_bind; [apply sp_get_ptr | intros ? ? []|]. intros p0 q [-> ->].
      assert (Hret : shape_args (CallArguments (rev pos) (rev named))).
      { apply shape_args_eq. split; [apply Forall_rev, Hpos|]. split; [apply Forall_rev, Hnamed|].
        apply no_dup_of_NoDup; [rewrite map_rev, <- Enames; apply NoDup_rev, Hnd | intros ? _ []]. }
      destruct (negb (Nat.ltb p (length_ bs))); [apply spec_ret; exact Hret|].
      destruct (is_byte_at bs 41 p); [apply spec_ret; exact Hret|].
      useb (IH7 false p). intros e q [He _].
      eapply spec_bind with (Q1 := fun st _ => let '(a, b, c) := st in
                                   Forall shape_inline a /\ Forall shape_named b /\ c = map arg_name b /\ NoDup c); [|intros; exact Logic.I|].
      * assert (Hpos' : forall q', spec (match names with [] => ret (e :: pos, named, names) | _ :: _ => error_here PositionalArgumentFollowsNamed end) q'
                             (fun st _ => let '(a, b, c) := st in
                                Forall shape_inline a /\ Forall shape_named b /\ c = map arg_name b /\ NoDup c) ET).
        { intros q'. destruct names; [apply spec_ret; split; [constructor; assumption | split; [assumption | split; assumption]] | exact Logic.I]. }
        destruct e as [? | ? | ? ? | id [a|] | ? ? ? | ? | ?]; try apply Hpos'.
        skipn u1 q1. skipn colon q2. destruct colon; [|apply Hpos'].
        destruct (has_name names id) eqn:Ehn; [exact Logic.I|]. skipn u3 q3. skipn u4 q4. useb (IH7 true q4). intros v q5 [Hv Hlit].
        apply spec_ret. split; [exact Hpos|]. split; [constructor; [split; [exact Hv | apply Hlit; reflexivity] | exact Hnamed]|].
        split; [cbn [map arg_name]; rewrite Enames; reflexivity | constructor; [apply has_name_false, Ehn | exact Hnd]].
      * intros [[a b] c] q2 (Ha & Hb & Ec & Hc). skipb. skipb. skipb. apply IH9; assumption.
Qed.

(* ---- entries ---- *)
Lemma sp_get_pattern_shape n p : spec (get_pattern bs n) p OP ET.
Proof. apply (proj1 (knot_shape_all n)). Qed.

Lemma sp_get_attribute_shape n p : spec (get_attribute bs n) p (fun a _ => shape_attribute a) ET.
Proof.
  unfold get_attribute. skipn id q1. skipn u2 q2. skipn u3 q3. useb (sp_get_pattern_shape n q3). intros pat q4 Hp.
  destruct pat as [pat|]; [apply spec_ret; exact Hp | exact Logic.I].
Qed.

Lemma sp_get_attributes_shape n : forall acc p, Forall shape_attribute acc ->
  spec (get_attributes bs n acc) p (fun attrs _ => Forall shape_attribute attrs) ET.
Proof.
  induction n as [|n IH]; intros acc p Hacc; [exact Logic.I|]. cbn [get_attributes].
  skipn ls q1. skipn u2 q2. skipn dot q3.
  destruct (negb dot); [skipb; apply spec_ret; apply Forall_rev, Hacc|].
  eapply spec_bind; [apply spec_try, (sp_get_attribute_shape n q3) | intros ? ? []|].
  intros r q4 Hr. destruct r as [e | attr].
  - skipb. apply spec_ret. apply Forall_rev, Hacc.
  - apply IH. constructor; assumption.
Qed.

Lemma sp_get_message_shape n es p : spec (get_message bs n es) p (fun e _ => shape_entry e) ET.
Proof.
  unfold get_message. skipn id q1. skipn u2 q2. skipn u3 q3. useb (sp_get_pattern_shape n q3). intros pat q4 Hp.
  skipn u5 q5. useb (sp_get_attributes_shape n [] q5 ltac:(constructor)). intros attrs q6 Ha.
  destruct pat as [pat|]; [apply spec_ret; split; assumption|].
  destruct attrs as [|a r]; [skipb; exact Logic.I | apply spec_ret; split; [discriminate | exact Ha]].
Qed.

Lemma sp_get_term_shape n es p : spec (get_term bs n es) p (fun e _ => shape_entry e) ET.
Proof.
  unfold get_term. skipn u0 q0. skipn id q1. skipn u2 q2. skipn u3 q3. skipn u4 q4. useb (sp_get_pattern_shape n q4). intros pat q5 Hp.
  skipn u6 q6. useb (sp_get_attributes_shape n [] q6 ltac:(constructor)). intros attrs q7 Ha.
  destruct pat as [pat|]; [apply spec_ret; split; assumption | skipb; exact Logic.I].
Qed.

Lemma sp_get_entry_shape n es p : spec (get_entry bs n es) p (fun e _ => shape_entry e) ET.
Proof.
  unfold get_entry. skipn cb q0. destruct cb as [b|]; [|apply sp_get_message_shape].
  destruct (N.eqb b 35).
  - skipn cl q1. destruct cl as [c lvl]. destruct lvl; try (apply spec_ret; exact Logic.I). exact Logic.I.
  - destruct (N.eqb b 45); [apply sp_get_term_shape | apply sp_get_message_shape].
Qed.

Lemma shape_attach e c : shape_entry e -> shape_entry (attach e c).
Proof. destruct e; exact (fun H => H). Qed.

Lemma sp_parse_loop_shape n : forall body errors lc cnt p, Forall shape_entry body ->
  spec (parse_loop bs n body errors lc cnt) p (fun r _ => Forall shape_entry (fst r)) ET.
Proof.
  induction n as [|n IH]; intros body errors lc cnt p Hbody; [exact Logic.I|]. cbn [parse_loop].
  skipn p0 q0.
  destruct (negb (Nat.ltb p0 (length_ bs))).
  { apply spec_ret. cbn [fst]. apply Forall_rev. destruct lc; [constructor; [exact Logic.I | exact Hbody] | exact Hbody]. }
  eapply spec_bind; [apply spec_try, (sp_get_entry_shape n p0 q0) | intros ? ? []|].
  intros r q1 Hr.
  set (rb := match lc with
             | Some c =>
                 match r with
                 | inr (Message _ _ _ _ as e) | inr (Term _ _ _ _ as e) =>
                     if Nat.ltb cnt 2 then (inr (attach e c), body) else (r, CommentEntry c :: body)
                 | _ => (r, CommentEntry c :: body)
                 end
             | None => (r, body)
             end).
  assert (Hrb : match fst rb with inr e => shape_entry e | inl _ => True end /\ Forall shape_entry (snd rb)).
  { unfold rb. destruct lc as [c|]; [|split; [exact Hr | exact Hbody]].
    assert (Hb' : Forall shape_entry (CommentEntry c :: body)) by (constructor; [exact Logic.I | exact Hbody]).
    destruct r as [e | e]; [split; [exact Logic.I | exact Hb']|].
    destruct e; try (split; [exact Hr | exact Hb']); destruct (Nat.ltb cnt 2); split; try exact Hr; try exact Hb'; try exact Hbody. }
  destruct rb as [r' body'] eqn:Erb. cbn [fst snd] in Hrb. destruct Hrb as [Hr' Hb'].
  eapply spec_bind with (Q1 := fun st _ => Forall shape_entry (fst (fst st))) (E1 := ET); [|intros; exact Logic.I|].
  - destruct r' as [err | e].
    + eapply spec_bind with (Q1 := fun ej _ => shape_entry (snd ej)) (E1 := ET); [|intros; exact Logic.I|].
      * unfold recover. skipn rew q2. skipn p2 q3. skipn content q4. apply spec_ret. exact Logic.I.
      * intros ej q2 Hej. apply spec_ret. cbn [fst]. constructor; [exact Hej | exact Hb'].
    + destruct e; try (apply spec_ret; cbn [fst]; constructor; [exact Hr' | exact Hb']).
      apply spec_ret. cbn [fst]. exact Hb'.
  - intros [[b1 e1] l1] q2 Hst. cbn [fst] in Hst. skipn c2 q3. apply IH. exact Hst.
Qed.

Theorem parse_m_shape n : spec (parse_m bs n) 0 (fun r _ => Forall shape_entry (fst r)) ET.
Proof. unfold parse_m. skipn u q. apply sp_parse_loop_shape. constructor. Qed.

End Shape.

(* the shape of every tree the parser returns *)
Theorem parse_shape bs t errs : parse bs = Done (t, errs) -> Forall shape_entry t.
Proof.
  unfold parse. intros H. pose proof (parse_m_shape bs (fuel_for bs)) as Hs. unfold spec in Hs.
  destruct (parse_m bs (fuel_for bs) 0) as [[t' e'] q | e q | m |]; cbn [to_outcome] in H; try discriminate H.
  injection H as -> ->. exact Hs.
Qed.

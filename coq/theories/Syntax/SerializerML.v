(* Syntax/SerializerML.v — property C04 for MULTI-LINE patterns: the serializer prints a parser output (one
   text element per line) in the canonical multi-line layout, which RoundTripML.v parses back.

   The fragment `sml_resource`: trees whose patterns JOIN to a pattern of RoundTripML.wl_pattern and whose
   text elements are not empty and have a line feed only as their last byte (what the parser returns).
     1. the canonical text of a pattern (jtext) is one of its layouts
     2. what the serializer writes for the split elements (stext), and stext = jtext of the joined elements
     3. serialize_pattern; the instance of SerializerLoop.v and EntryLoop.v
     4. round trip and fixed point                                                                   *)
From FluentV Require Import Base.Bytes Base.Outcome Base.Utf8 Base.Utf8Facts.
From FluentV Require Import Syntax.Ast Syntax.ParserModel Syntax.SerializerModel Syntax.Render Syntax.TreeNorm.
From FluentV Require Import Syntax.ParseLemmas Syntax.SerializerProofs Syntax.RoundTrip Syntax.SerializerRoundTrip.
From FluentV Require Import Syntax.EntryLoop Syntax.RoundTripML Syntax.RoundTripSel Syntax.SerializerLoop.
From Coq Require Import Lia.

Arguments N.eqb : simpl never.

(* the classes of RoundTripML.v at depth 0: placeables hold a simple inline expression *)
Local Notation ml_pattern := (RoundTripML.wl_pattern eoks).
Local Notation ml_elements := (RoundTripML.ml_elements eoks).
Local Notation ml_line_layout := (RoundTripML.ml_line_layout etexts).
Local Notation ml_value_layout := (RoundTripML.wl_value_layout etexts).
Local Notation ml_resource := (RoundTripML.ml_resource eoks).
Local Notation text_ok := (RoundTripML.text_ok (goodd 0)).
Local Notation srel := (RoundTripML.srel (goodd 0)).

(* ---------------------------------------------------------------------------------------------- *)
(* 1. The canonical text of a (joined) pattern at indentation B: every line after a line break is    *)
(*    printed as LF, B spaces and the line                                                           *)

Definition cont_text (B : nat) (rest : list bytes) : bytes := concat (map (fun l => 10%N :: sp B ++ l) rest).
Definition ltext (B : nat) (v : bytes) : bytes :=
  match lines_of v with l0 :: rest => l0 ++ cont_text B rest | [] => [] end.

Fixpoint jtext (B : nat) (els : list pattern_element) : bytes :=
  match els with
  | [] => []
  | TextElement v :: r => ltext B v ++ jtext B r
  | PlaceableElement (Inline i) :: r => [123; 32]%N ++ inline_text i ++ [32; 125]%N ++ jtext B r
  | _ :: r => jtext B r
  end.

Lemma cont_text_layout B c rest : cont_lines_ok c rest = true -> cont_layout B c rest (cont_text B rest).
Proof.
  induction rest as [|l r IH]; intros Hok; [constructor|].
  assert (Hl : cont_line_ok (match r with [] => c | _ => false end) l = true /\ cont_lines_ok c r = true).
  { destruct r as [|l2 r']; [split; [exact Hok | reflexivity]|].
    change (cont_lines_ok c (l :: l2 :: r')) with (cont_line_ok false l && cont_lines_ok c (l2 :: r')) in Hok.
    apply andb_prop in Hok. exact Hok. }
  destruct Hl as [Hl Hr]. unfold cont_text. cbn [map concat]. fold (cont_text B r).
  destruct (is_blank_line l && negb ((match r with [] => true | _ => false end) && c)) eqn:Eb.
  - assert (El : l = []).
    { apply andb_prop in Eb as [Hb Hn]. unfold cont_line_ok in Hl. apply andb_prop in Hl as [_ Hl]. rewrite Hb in Hl.
      destruct r as [|l2 r']; [|cbn [orb] in Hl; destruct l; [reflexivity | discriminate Hl]].
      cbn [andb negb] in Hn. apply negb_true_iff in Hn. subst c. cbn [orb] in Hl. destruct l; [reflexivity | discriminate Hl]. }
    subst l. rewrite app_nil_r.
    change ((10%N :: sp B) ++ cont_text B r) with (lf ++ sp B ++ cont_text B r).
    apply col_blank; [exact Eb | left; reflexivity | apply IH, Hr].
  - change ((10%N :: sp B ++ l) ++ cont_text B r) with (lf ++ (sp B ++ l) ++ cont_text B r). rewrite <- app_assoc.
    apply col_line; [exact Eb | left; reflexivity | apply IH, Hr].
Qed.

Lemma jtext_layout B els : forall prev, ml_elements els prev = true -> ml_line_layout B els (jtext B els).
Proof.
  induction els as [|el r IH]; intros prev Hs; [constructor|].
  destruct el as [v | [sel vs | i]]; cbn [RoundTripML.ml_elements eoks] in Hs; try discriminate Hs; cbn [jtext].
  - apply andb_prop in Hs as [Hs Hr]. apply andb_prop in Hs as [_ Hv].
    unfold ml_text in Hv. unfold ltext. destruct (lines_of v) as [|l0 rest] eqn:El; [discriminate Hv|].
    apply andb_prop in Hv as [_ Hrest]. rewrite <- app_assoc.
    apply (mll_text etexts B v l0 rest r _ _ El); [apply cont_text_layout, Hrest | apply (IH true Hr)].
  - apply andb_prop in Hs as [Hi Hr].
    change ([123; 32]%N ++ inline_text i ++ [32; 125]%N ++ jtext B r)
      with (123%N :: sp 1 ++ inline_text i ++ [32; 125]%N ++ jtext B r).
    replace (inline_text i ++ [32; 125]%N ++ jtext B r) with (inline_text i ++ sp 1 ++ 125%N :: jtext B r) by reflexivity.
    constructor; [apply all_blank_sp | apply all_blank_sp | constructor; exact Hi | apply (IH false Hr)].
Qed.

(* ---- lines of a concatenation ---- *)
Lemma lines_of_nolf_app a b : existsb (N.eqb 10) a = false ->
  lines_of (a ++ b) = (a ++ hd [] (lines_of b)) :: tl (lines_of b).
Proof. intros Ha. rewrite lines_of_app, (lines_of_no_lf a Ha). reflexivity. Qed.

Lemma lines_of_lf_app a0 b : existsb (N.eqb 10) a0 = false -> lines_of (a0 ++ 10%N :: b) = a0 :: lines_of b.
Proof.
  intros Ha. rewrite (lines_of_nolf_app a0 (10%N :: b) Ha).
  change (10%N :: b) with ([10%N] ++ b). rewrite lines_of_app.
  change (lines_of [10%N]) with [@nil N; @nil N]. cbn [removelast last app hd tl]. rewrite app_nil_r.
  destruct (lines_of_cons b) as (l0 & rest & ->). reflexivity.
Qed.

Lemma ltext_nolf B a : existsb (N.eqb 10) a = false -> ltext B a = a.
Proof. intros Ha. unfold ltext. rewrite (lines_of_no_lf a Ha). apply app_nil_r. Qed.

Lemma ltext_nolf_app B a b : existsb (N.eqb 10) a = false -> ltext B (a ++ b) = a ++ ltext B b.
Proof.
  intros Ha. unfold ltext. rewrite (lines_of_nolf_app a b Ha). destruct (lines_of_cons b) as (l0 & rest & ->).
  cbn [hd tl]. rewrite <- app_assoc. reflexivity.
Qed.

Lemma ltext_lf_app B a0 b : existsb (N.eqb 10) a0 = false -> ltext B (a0 ++ 10%N :: b) = a0 ++ 10%N :: sp B ++ ltext B b.
Proof.
  intros Ha. unfold ltext. rewrite (lines_of_lf_app a0 b Ha). destruct (lines_of_cons b) as (l0 & rest & ->).
  unfold cont_text. cbn [map concat app]. rewrite <- app_assoc. reflexivity.
Qed.

Lemma ltext_lf_end B a0 : existsb (N.eqb 10) a0 = false -> ltext B (a0 ++ [10%N]) = a0 ++ 10%N :: sp B.
Proof. intros Ha. rewrite (ltext_lf_app B a0 [] Ha). unfold ltext. cbn. rewrite app_nil_r. reflexivity. Qed.

(* ---------------------------------------------------------------------------------------------- *)
(* 2. What the serializer writes for split elements                                                 *)

(* an element of a parser output: a text is not empty, has a line feed only as its last byte, and no CR;
   a placeable holds a simple inline expression *)
Definition split_el (el : pattern_element) : Prop :=
  match el with
  | TextElement v => v <> [] /\ lf_last v /\ existsb (N.eqb 13) v = false
  | PlaceableElement (Inline i) => simple_inline i = true
  | _ => False
  end.

(* `start`: the writer is at the start of a line, so the next literal is preceded by the indentation *)
Fixpoint stext (B : nat) (start : bool) (els : list pattern_element) : bytes :=
  match els with
  | [] => []
  | TextElement v :: r => (if start then sp B else []) ++ v ++ stext B (N.eqb (last v 0%N) 10) r
  | PlaceableElement (Inline i) :: r =>
      (if start then sp B else []) ++ [123; 32]%N ++ inline_text i ++ [32; 125]%N ++ stext B false r
  | _ :: r => stext B start r
  end.
Fixpoint end_start (start : bool) (els : list pattern_element) : bool :=
  match els with
  | [] => start
  | TextElement v :: r => end_start (N.eqb (last v 0%N) 10) r
  | PlaceableElement _ :: r => end_start false r
  end.

Lemma indent_bytes_sp k : indent_bytes k = sp (4 * k).
Proof.
  induction k as [|k IH]; [reflexivity|]. cbn [indent_bytes]. rewrite IH. unfold Gen.Extracted.SERIALIZER_INDENT.
  replace (4 * S k) with (4 + 4 * k) by lia. reflexivity.
Qed.

Lemma rev_sp k : rev (sp k) = sp k.
Proof.
  induction k as [|k IH]; [reflexivity|]. change (sp (S k)) with (32%N :: sp k) at 1. cbn [rev]. rewrite IH.
  clear IH. induction k as [|k IH]; [reflexivity|]. change (sp (S k)) with (32%N :: sp k) at 1. cbn [app]. rewrite IH. reflexivity.
Qed.

(* a literal written when the buffer does not end in CR: the indentation first, if at a line start *)
Lemma write_literal_nocr item x : ends_with 13 x = false ->
  write_literal item x =
  Done (Writer (rev item ++ rev (if ends_with 10 x then sp (4 * indent_level x) else []) ++ rbuf x) (indent_level x)).
Proof.
  intros H13. unfold write_literal. destruct (ends_with 10 x) eqn:H10.
  - unfold write_indent, push_bytes. cbn [rbuf indent_level]. rewrite indent_bytes_sp.
    replace (ends_with 13 {| rbuf := rev (sp (4 * indent_level x)) ++ rbuf x; indent_level := indent_level x |}) with false.
    + reflexivity.
    + unfold ends_with. cbn [rbuf]. rewrite rev_sp. destruct (4 * indent_level x) as [|m]; [cbn [sp repeat app]; exact (eq_sym H13) | reflexivity].
  - rewrite H13. cbn [andb app rev]. destruct x; reflexivity.
Qed.

Lemma ends_with_rev_last c v r lvl : v <> [] -> ends_with c (Writer (rev v ++ r) lvl) = N.eqb (last v 0%N) c.
Proof. intros Hne. rewrite (rev_last v Hne). reflexivity. Qed.

Lemma last_not_cr v : v <> [] -> existsb (N.eqb 13) v = false -> N.eqb (last v 0%N) 13 = false.
Proof.
  intros Hne H. apply not_true_is_false. intros E. apply N.eqb_eq in E.
  assert (Hex : existsb (N.eqb 13) v = true) by (apply existsb_exists; exists (last v 0%N); split; [apply last_in, Hne | rewrite E; reflexivity]).
  congruence.
Qed.

Lemma ser_els_split els : forall x, Forall split_el els -> ends_with 13 x = false ->
  ser_els els x = Done (Writer (rev (stext (4 * indent_level x) (ends_with 10 x) els) ++ rbuf x) (indent_level x)) /\
  ends_with 13 (Writer (rev (stext (4 * indent_level x) (ends_with 10 x) els) ++ rbuf x) (indent_level x)) = false /\
  ends_with 10 (Writer (rev (stext (4 * indent_level x) (ends_with 10 x) els) ++ rbuf x) (indent_level x)) =
  end_start (ends_with 10 x) els.
Proof.
  induction els as [|el r IH]; intros x Hall H13.
  - cbn [ser_els stext end_start rev app]. unfold wskip. destruct x as [rb lvl]. cbn [rbuf indent_level]. auto.
  - inversion Hall as [|? ? Hel Hr]; subst. cbn [ser_els].
    destruct el as [v | [sel vs | i]]; cbn [split_el] in Hel; [| contradiction |].
    + destruct Hel as (Hne & Hlf & Hcr). cbn [serialize_element stext end_start].
      unfold wseq. rewrite (write_literal_nocr v x H13). cbn [obind].
      set (x1 := Writer (rev v ++ rev (if ends_with 10 x then sp (4 * indent_level x) else []) ++ rbuf x) (indent_level x)).
      assert (H13' : ends_with 13 x1 = false) by (unfold x1; rewrite (ends_with_rev_last 13 v _ _ Hne); apply last_not_cr; assumption).
      assert (H10' : ends_with 10 x1 = N.eqb (last v 0%N) 10) by (unfold x1; apply (ends_with_rev_last 10 v _ _ Hne)).
      destruct (IH x1 Hr H13') as (E & I13 & I10).
      change (indent_level x1) with (indent_level x) in E, I13, I10. rewrite H10' in E, I13, I10.
      assert (Eb : rev (stext (4 * indent_level x) (N.eqb (last v 0%N) 10) r) ++ rbuf x1 =
                   rev ((if ends_with 10 x then sp (4 * indent_level x) else []) ++ v ++
                        stext (4 * indent_level x) (N.eqb (last v 0%N) 10) r) ++ rbuf x).
      { unfold x1. cbn [rbuf]. rewrite !rev_app_distr, <- !app_assoc. reflexivity. }
      rewrite Eb in E, I13, I10. split; [exact E | split; assumption].
    + cbn [stext end_start].
      assert (Hw : writes (lit "{ " >> serialize_expression (Inline i) >> lit " }") ([123; 32]%N ++ inline_text i ++ [32; 125]%N)).
      { apply writes_seq; [apply writes_lit; reflexivity|].
        apply writes_seq; [apply (writes_simple_inline i Hel) | apply writes_lit; reflexivity]. }
      assert (Hse : serialize_element (PlaceableElement (Inline i)) =
                    (lit "{ " >> serialize_expression (Inline i) >> lit " }"))
        by (destruct i as [s | v | id args | id att | id att args | id | e]; try discriminate Hel; reflexivity).
      rewrite Hse.
      (* the first literal "{ " takes the indentation; the rest is written in the middle of a line *)
      assert (Hfirst : (lit "{ " >> serialize_expression (Inline i) >> lit " }") x =
                       Done (Writer (rev ([123; 32]%N ++ inline_text i ++ [32; 125]%N) ++
                                     rev (if ends_with 10 x then sp (4 * indent_level x) else []) ++ rbuf x) (indent_level x))).
      { unfold wseq at 1. unfold lit at 1. rewrite (write_literal_nocr _ x H13). cbn [obind bytes_of_string].
        assert (Hw2 : writes (serialize_expression (Inline i) >> lit " }") (inline_text i ++ [32; 125]%N))
          by (apply writes_seq; [apply (writes_simple_inline i Hel) | apply writes_lit; reflexivity]).
        match goal with |- _ ?y = _ => destruct (Hw2 y eq_refl) as [E2 _] end.
        rewrite E2. cbn [rbuf indent_level]. do 2 f_equal.
        rewrite !rev_app_distr. cbn [rev app]. rewrite <- !app_assoc. reflexivity. }
      unfold wseq at 1. rewrite Hfirst. cbn [obind].
      set (x1 := Writer (rev ([123; 32]%N ++ inline_text i ++ [32; 125]%N) ++
                         rev (if ends_with 10 x then sp (4 * indent_level x) else []) ++ rbuf x) (indent_level x)).
      assert (H13' : ends_with 13 x1 = false) by (unfold x1; rewrite !rev_app_distr; reflexivity).
      assert (H10' : ends_with 10 x1 = false) by (unfold x1; rewrite !rev_app_distr; reflexivity).
      destruct (IH x1 Hr H13') as (E & I13 & I10).
      change (indent_level x1) with (indent_level x) in E, I13, I10. rewrite H10' in E, I13, I10.
      assert (Eb : rev (stext (4 * indent_level x) false r) ++ rbuf x1 =
                   rev ((if ends_with 10 x then sp (4 * indent_level x) else []) ++ [123; 32]%N ++ inline_text i ++ [32; 125]%N ++
                        stext (4 * indent_level x) false r) ++ rbuf x).
      { unfold x1. cbn [rbuf]. rewrite !rev_app_distr, <- !app_assoc. reflexivity. }
      rewrite Eb in E, I13, I10. split; [exact E | split; assumption].
Qed.

(* ---- stext is the canonical text of the joined elements ---- *)
(* the last element is not a text that ends with a line feed *)
Fixpoint no_final_lf (els : list pattern_element) : Prop :=
  match els with
  | [] => True
  | [TextElement v] => N.eqb (last v 0%N) 10 = false
  | _ :: r => no_final_lf r
  end.

Lemma lf_last_cases v : v <> [] -> lf_last v ->
  (N.eqb (last v 0%N) 10 = false /\ existsb (N.eqb 10) v = false) \/
  (N.eqb (last v 0%N) 10 = true /\ exists a0, v = a0 ++ [10%N] /\ existsb (N.eqb 10) a0 = false).
Proof.
  intros Hne Hlf. pose proof (app_removelast_last 0%N Hne) as Ev. unfold lf_last in Hlf.
  destruct (N.eqb (last v 0%N) 10) eqn:E.
  - right. split; [reflexivity|]. apply N.eqb_eq in E. exists (removelast v). split; [|exact Hlf]. transitivity (removelast v ++ [last v 0%N]); [exact Ev | rewrite E; reflexivity].
  - left. split; [reflexivity|]. rewrite Ev, existsb_app, Hlf. cbn [existsb]. rewrite N.eqb_sym, E. reflexivity.
Qed.

Lemma join_elements_text a r :
  join_elements (TextElement a :: r) =
  match join_elements r with TextElement b :: r' => TextElement (a ++ b) :: r' | J => TextElement a :: J end.
Proof. reflexivity. Qed.

Lemma join_elements_ne r : r <> [] -> join_elements r <> [].
Proof.
  destruct r as [|el r]; [congruence|]. intros _. destruct el as [a|e].
  - rewrite join_elements_text. destruct (join_elements r) as [|[b|e] r']; discriminate.
  - cbn [join_elements]. discriminate.
Qed.

Lemma stext_start B els : Forall split_el els -> els <> [] -> stext B true els = sp B ++ stext B false els.
Proof.
  intros Hall Hne. destruct els as [|el r]; [congruence|]. inversion Hall as [|? ? Hel _]; subst.
  destruct el as [v | [sel vs | i]]; cbn [split_el] in Hel; [| contradiction |]; reflexivity.
Qed.

Lemma stext_jtext B els : Forall split_el els -> no_final_lf els ->
  stext B false els = jtext B (join_elements els).
Proof.
  induction els as [|el r IH]; intros Hall Hfin; [reflexivity|].
  inversion Hall as [|? ? Hel Hr]; subst.
  assert (Hfin' : r <> [] -> no_final_lf r) by (intros Hne; destruct r; [congruence | destruct el; exact Hfin]).
  destruct el as [a | [sel vs | i]]; cbn [split_el] in Hel; [| contradiction |].
  - destruct Hel as (Hne & Hlf & _). cbn [stext app]. rewrite join_elements_text.
    destruct (lf_last_cases a Hne Hlf) as [[El Hno] | [El (a0 & -> & Hno)]]; rewrite El.
    + (* the text does not end the line *)
      destruct r as [|el2 r2]; [cbn [stext join_elements jtext]; rewrite (ltext_nolf B a Hno); reflexivity|].
      rewrite (IH Hr (Hfin' ltac:(discriminate))).
      destruct (join_elements (el2 :: r2)) as [|[b|e] r'] eqn:EJ.
      * cbn [jtext]. rewrite (ltext_nolf B a Hno). reflexivity.
      * cbn [jtext]. rewrite (ltext_nolf_app B a b Hno), <- app_assoc. reflexivity.
      * cbn [jtext]. rewrite (ltext_nolf B a Hno). reflexivity.
    + (* the text ends with a line feed: something follows *)
      destruct r as [|el2 r2]; [cbn [no_final_lf] in Hfin; congruence|].
      rewrite (stext_start B (el2 :: r2) Hr ltac:(discriminate)), (IH Hr (Hfin' ltac:(discriminate))).
      pose proof (join_elements_ne (el2 :: r2) ltac:(discriminate)) as HJ.
      destruct (join_elements (el2 :: r2)) as [|[b|e] r'] eqn:EJ; [congruence| |].
      * cbn [jtext]. replace ((a0 ++ [10%N]) ++ b) with (a0 ++ 10%N :: b) by (rewrite <- app_assoc; reflexivity).
        rewrite (ltext_lf_app B a0 b Hno), <- !app_assoc. cbn [app]. rewrite <- !app_assoc. reflexivity.
      * cbn [jtext]. rewrite (ltext_lf_end B a0 Hno), <- !app_assoc. cbn [app]. rewrite <- ?app_assoc. reflexivity.
  - cbn [stext app join_elements jtext]. destruct r as [|el2 r2]; [reflexivity|].
    rewrite (IH Hr (Hfin' ltac:(discriminate))). reflexivity.
Qed.

Lemma end_start_final els : forall start, Forall split_el els -> els <> [] -> no_final_lf els -> end_start start els = false.
Proof.
  induction els as [|el r IH]; intros start Hall Hne Hfin; [congruence|].
  inversion Hall as [|? ? Hel Hr]; subst.
  destruct r as [|el2 r2].
  - destruct el as [v|e]; cbn [end_start]; [exact Hfin | reflexivity].
  - assert (Hfin' : no_final_lf (el2 :: r2)) by (destruct el; exact Hfin).
    destruct el as [v|e].
    + change (end_start start (TextElement v :: el2 :: r2)) with (end_start (N.eqb (last v 0%N) 10) (el2 :: r2)).
      apply (IH _ Hr ltac:(discriminate) Hfin').
    + change (end_start start (PlaceableElement e :: el2 :: r2)) with (end_start false (el2 :: r2)).
      apply (IH _ Hr ltac:(discriminate) Hfin').
Qed.

(* ---------------------------------------------------------------------------------------------- *)
(* 3. The fragment of split trees; serialize_pattern                                                 *)

Definition text_okb (el : pattern_element) : bool :=
  match el with
  | TextElement v => negb (match v with [] => true | _ => false end) && negb (existsb (N.eqb 10) (removelast v))
  | PlaceableElement _ => true
  end.

(* the serializer writes a value in block form exactly if it may and the value has several lines: so a value that
   it writes inline, with several lines, has a continuation line at indentation 0 (class wl_pattern) *)
Lemma first_ok_leading_dot p : first_byte_ok_for_block p = negb (has_leading_text_dot p).
Proof. unfold first_byte_ok_for_block, has_leading_text_dot. destruct (pattern_elements p) as [|[[|b t]|e] r]; reflexivity. Qed.

Lemma not_multiline_no_lf els : is_multiline (Pattern els) = false -> has_lf els = false.
Proof.
  unfold is_multiline, has_lf. cbn [pattern_elements]. induction els as [|el r IH]; [reflexivity|]. cbn [existsb].
  intros H. apply orb_false_elim in H as [H1 H2]. rewrite (IH H2), orb_false_r. destruct el; [exact H1 | reflexivity].
Qed.

Lemma wl_inline_hit eok J : wl_pattern eok (Pattern J) = true -> starts_on_new_line (Pattern J) = false ->
  ml_first_ok J = true /\ (has_lf J = false \/ existsb (Nat.eqb 0) (own_indents J) = true).
Proof.
  intros Hp Est. unfold starts_on_new_line in Est. rewrite <- first_ok_leading_dot in Est.
  destruct (wl_pattern_parts eok J Hp) as (_ & _ & _ & _ & [[Hf [H | [H | Hok]]] | (Hsp & _ & Hhit)]).
  - split; [exact Hf | left; exact H].
  - split; [exact Hf | right; exact H].
  - split; [exact Hf|]. rewrite Hok in Est. cbn [andb] in Est. left. apply not_multiline_no_lf, Est.
  - exfalso. rewrite (first_sp_block_ok J Hsp) in Est. cbn [andb] in Est.
    rewrite (own_indents_no_lf J (not_multiline_no_lf J Est)) in Hhit. discriminate Hhit.
Qed.

(* a pattern as the parser returns it: it joins to a pattern of RoundTripML.wl_pattern; no text element is
   empty, and a line feed is the last byte of its text element *)
Definition sml_pok (els : list pattern_element) : bool :=
  wl_pattern eoks (Pattern (join_elements els)) && forallb text_okb els.
Definition sml_pattern (p : pattern) : bool := match p with Pattern els => sml_pok els end.
Definition sml_resource (t : resource) : bool := g_resource sml_pok t.

Lemma text_okb_spec el : text_okb el = true <-> text_ok el.
Proof.
  destruct el as [v|e]; cbn [text_okb RoundTripML.text_ok goodd]; [|split; [intros _; exact Logic.I | reflexivity]]. unfold lf_last. split.
  - intros H. apply andb_prop in H as [H1 H2]. apply negb_true_iff in H2. split; [destruct v; [discriminate H1 | discriminate] | exact H2].
  - intros [H1 H2]. rewrite H2. destruct v; [congruence | reflexivity].
Qed.

Lemma forallb_text_okb els : forallb text_okb els = true <-> Forall text_ok els.
Proof.
  rewrite forallb_forall, Forall_forall. split; intros H x Hx; apply text_okb_spec, H, Hx.
Qed.

(* ---- joining keeps the stream ---- *)
Lemma stream_join els : stream (join_elements els) = stream els.
Proof.
  induction els as [|el r IH]; [reflexivity|]. destruct el as [a|e].
  - rewrite join_elements_text. unfold stream in *. cbn [flat_map stream_el]. rewrite <- IH.
    destruct (join_elements r) as [|[b|e] r']; cbn [flat_map stream_el]; rewrite ?map_app, <- ?app_assoc; reflexivity.
  - cbn [join_elements]. unfold stream in *. cbn [flat_map]. rewrite IH. reflexivity.
Qed.

Lemma text_in_stream b els : In (inl b) (stream els) <-> exists v, In (TextElement v) els /\ In b v.
Proof.
  induction els as [|el r IH]; [split; [intros [] | intros (v & [] & _)]|].
  unfold stream in *. cbn [flat_map]. rewrite in_app_iff, IH. split.
  - intros [Hin | (v & Hv & Hb)]; [|exists v; split; [right; exact Hv | exact Hb]].
    destruct el as [v|e]; cbn [stream_el] in Hin.
    + apply in_map_iff in Hin as (b' & E & Hb'). injection E as ->. exists v. split; [left; reflexivity | exact Hb'].
    + destruct Hin as [E | []]. discriminate E.
  - intros (v & [-> | Hv] & Hb); [left; cbn [stream_el]; apply in_map, Hb | right; exists v; auto].
Qed.

Lemma ml_text_in c v b : ml_text c v = true -> In b v -> N.eqb b 13 = false.
Proof.
  intros Hv Hb. pose proof (ml_text_bytes c v Hv) as Hall. rewrite forallb_forall in Hall. specialize (Hall b Hb).
  apply orb_prop in Hall as [Hw | H10]; [apply wf_text_byte_spec in Hw; tauto|].
  apply N.eqb_eq in H10. subst b. reflexivity.
Qed.

Lemma ml_elements_texts els : forall prev, ml_elements els prev = true ->
  forall v, In (TextElement v) els -> exists c, ml_text c v = true.
Proof.
  induction els as [|el r IH]; intros prev Hs v Hin; [destruct Hin|].
  destruct el as [w | [sel vs | i]]; cbn [ml_elements] in Hs; try discriminate Hs.
  - apply andb_prop in Hs as [Hs Hr]. apply andb_prop in Hs as [_ Hw].
    destruct Hin as [E | Hin]; [injection E as <-; eauto | apply (IH true Hr v Hin)].
  - apply andb_prop in Hs as [_ Hr]. destruct Hin as [E | Hin]; [discriminate E | apply (IH false Hr v Hin)].
Qed.

(* an expression that joins to a simple inline expression is that expression *)
Lemma join_expr_simple_inv e i0 : join_expr e = Inline i0 -> simple_inline i0 = true -> e = Inline i0.
Proof.
  destruct e as [sel vs | i]; [discriminate|]. change (join_expr (Inline i)) with (Inline (join_inline i)).
  intros E Hi. injection E as E. f_equal.
  destruct i as [s | v | id args | id att | id att args | id | e]; cbn [join_inline] in E; subst i0; try reflexivity;
    try discriminate Hi.
  cbn [simple_inline] in Hi. destruct att; [discriminate Hi|]. destruct args; [discriminate Hi | reflexivity].
Qed.

(* elements with the stream of a pattern of the fragment, one text element per line, are split elements *)
Lemma split_of_stream els J : ml_elements J false = true -> stream els = stream J -> Forall text_ok els ->
  Forall split_el els.
Proof.
  intros Hs Hst Hok. rewrite Forall_forall in *. intros el Hel. specialize (Hok el Hel).
  destruct el as [v | e]; cbn [split_el].
  - destruct Hok as [Hne Hlf]. split; [exact Hne | split; [exact Hlf|]].
    apply not_true_is_false. intros Hex. apply existsb_exists in Hex as (b & Hb & E). apply N.eqb_eq in E. subst b.
    assert (Hin : In (inl 13%N) (stream J)) by (rewrite <- Hst; apply text_in_stream; eauto).
    apply text_in_stream in Hin as (w & Hw & Hbw).
    destruct (ml_elements_texts _ false Hs w Hw) as [c Hc]. pose proof (ml_text_in c w 13%N Hc Hbw) as H13. discriminate H13.
  - assert (Hin : In (inr (join_expr e)) (stream J)).
    { rewrite <- Hst. apply placeable_in_stream. exists e. auto. }
    apply placeable_in_stream in Hin as (e0 & He0 & Ej).
    pose proof (ml_elements_placeables eoks J false Hs e0 He0) as Hk.
    destruct e0 as [sel vs | i0]; [discriminate Hk|]. cbn [eoks] in Hk.
    change (join_expr (Inline i0)) with (Inline (join_inline i0)) in Ej. rewrite (simple_inline_join i0 Hk) in Ej.
    rewrite (join_expr_simple_inv e i0 (eq_sym Ej) Hk). exact Hk.
Qed.

Lemma split_join_map els : Forall split_el els -> join_els_map els = els.
Proof.
  intros Hall. apply join_els_map_id. intros e He.
  rewrite Forall_forall in Hall. specialize (Hall _ He). cbn [split_el] in Hall. destruct e as [sel vs | i]; [contradiction|].
  change (join_expr (Inline i)) with (Inline (join_inline i)). rewrite (simple_inline_join i Hall). reflexivity.
Qed.

Lemma sml_pok_parts els : sml_pok els = true ->
  ml_pattern (Pattern (join_elements els)) = true /\ Forall text_ok els /\ Forall split_el els.
Proof.
  unfold sml_pok. intros H. apply andb_prop in H as [Hp Hok]. apply forallb_text_okb in Hok.
  split; [exact Hp | split; [exact Hok|]].
  destruct (wl_pattern_parts eoks _ Hp) as (_ & Hs & _).
  apply (split_of_stream els (join_elements els) Hs (eq_sym (stream_join els)) Hok).
Qed.

(* ---- the last element ---- *)
Lemma ml_last_ok_no_final_lf J : ml_last_ok J = true -> no_final_lf J.
Proof.
  induction J as [|el r IH]; intros Hl; [exact Logic.I|]. destruct r as [|el2 r2].
  - destruct el as [v|e]; [|exact Logic.I]. cbn [ml_last_ok rev app] in Hl. apply andb_prop in Hl as [_ H10].
    apply negb_true_iff in H10. exact H10.
  - assert (Hl' : ml_last_ok (el2 :: r2) = true).
    { unfold ml_last_ok in *. cbn [rev] in Hl |- *. destruct (rev r2 ++ [el2]) eqn:E; [destruct (rev r2); discriminate|].
      cbn [app] in Hl. exact Hl. }
    pose proof (IH Hl') as H. destruct el; exact H.
Qed.

Lemma join_nonempty_texts els : Forall text_nonempty els -> Forall text_nonempty (join_elements els).
Proof.
  induction els as [|el r IH]; intros H; [constructor|]. inversion H as [|? ? Hel Hr]; subst. specialize (IH Hr).
  destruct el as [a|e]; [|cbn [join_elements]; constructor; assumption].
  rewrite join_elements_text. destruct (join_elements r) as [|[b|e] r'].
  - constructor; assumption.
  - inversion IH; subst. constructor; [|assumption]. destruct a; [contradiction | exact Logic.I].
  - constructor; assumption.
Qed.

Lemma no_final_lf_cons el J : J <> [] -> no_final_lf (el :: J) = no_final_lf J.
Proof. destruct J; [congruence|]. destruct el; reflexivity. Qed.

Lemma no_final_lf_join els : Forall text_nonempty els -> no_final_lf (join_elements els) -> no_final_lf els.
Proof.
  induction els as [|el r IH]; intros Hne HJ; [exact Logic.I|]. inversion Hne as [|? ? Hel Hr]; subst.
  destruct r as [|el2 r2]; [destruct el as [a|e]; [exact HJ | exact Logic.I]|].
  rewrite (no_final_lf_cons el (el2 :: r2) ltac:(discriminate)). apply (IH Hr).
  pose proof (join_elements_ne (el2 :: r2) ltac:(discriminate)) as HJne.
  pose proof (join_nonempty_texts (el2 :: r2) Hr) as HJt.
  destruct el as [a|e]; [|cbn [join_elements] in HJ; rewrite (no_final_lf_cons _ _ HJne) in HJ; exact HJ].
  rewrite join_elements_text in HJ. destruct (join_elements (el2 :: r2)) as [|[b|e] r']; [congruence| |].
  - destruct r' as [|x r''].
    + cbn [no_final_lf] in *. inversion HJt as [|? ? Hb _]; subst.
      rewrite last_app_ne in HJ by (destruct b; [contradiction | discriminate]). exact HJ.
    + rewrite (no_final_lf_cons _ (x :: r'') ltac:(discriminate)) in HJ.
      rewrite (no_final_lf_cons _ (x :: r'') ltac:(discriminate)). exact HJ.
  - rewrite (no_final_lf_cons (TextElement a) (PlaceableElement e :: r') ltac:(discriminate)) in HJ. exact HJ.
Qed.

Lemma sml_pok_final els : sml_pok els = true -> els <> [] /\ no_final_lf els.
Proof.
  intros H. destruct (sml_pok_parts els H) as (Hp & Hok & _). destruct (wl_pattern_parts eoks _ Hp) as (Hne & _ & _ & Hl & _).
  split; [intros ->; apply Hne; reflexivity|].
  apply no_final_lf_join; [apply (Forall_impl _ (text_ok_nonempty (goodd 0)) Hok) | apply ml_last_ok_no_final_lf, Hl].
Qed.

(* ---- the start of the value is the same for the split and the joined elements ---- *)
Lemma starts_on_new_line_join els : Forall text_nonempty els ->
  starts_on_new_line (Pattern (join_elements els)) = starts_on_new_line (Pattern els).
Proof.
  intros Hne. unfold starts_on_new_line. f_equal.
  - f_equal. unfold has_leading_text_dot. cbn [pattern_elements]. destruct els as [|[a|e] r]; try reflexivity.
    inversion Hne as [|? ? Ha _]; subst. destruct a as [|b t]; [contradiction|].
    rewrite join_elements_text. destruct (join_elements r) as [|[b'|e] r']; reflexivity.
  - unfold is_multiline. cbn [pattern_elements]. clear Hne. induction els as [|el r IH]; [reflexivity|].
    destruct el as [a|e]; [|cbn [join_elements existsb]; rewrite IH; reflexivity].
    rewrite join_elements_text. cbn [existsb]. rewrite <- IH.
    destruct (join_elements r) as [|[b|e] r']; cbn [existsb]; try reflexivity.
    unfold contains_lf. rewrite existsb_app, orb_assoc. reflexivity.
Qed.

(* what serialize_pattern writes at indent level k, from the middle of a line *)
Definition sml_ptext (k : nat) (els : list pattern_element) : bytes :=
  let B := 4 * S k in
  if starts_on_new_line (Pattern (join_elements els)) then 10%N :: sp B ++ jtext B (join_elements els)
  else 32%N :: jtext B (join_elements els).

Lemma serialize_split_pattern els x : sml_pok els = true -> mid_line x ->
  serialize_pattern (Pattern els) x = Done (Writer (rev (sml_ptext (indent_level x) els) ++ rbuf x) (indent_level x)) /\
  mid_line (Writer (rev (sml_ptext (indent_level x) els) ++ rbuf x) (indent_level x)).
Proof.
  intros Hp [H10 H13]. destruct (sml_pok_parts els Hp) as (Hml & Hok & Hsplit). destruct (sml_pok_final els Hp) as [Hne Hfin].
  rewrite serialize_pattern_els. unfold sml_ptext.
  rewrite (starts_on_new_line_join els (Forall_impl _ (text_ok_nonempty (goodd 0)) Hok)).
  set (B := 4 * S (indent_level x)).
  destruct (starts_on_new_line (Pattern els)).
  - unfold wseq at 1. unfold wseq at 1. rewrite (newline_plain x H13). cbn [obind]. unfold indent at 1. cbn [obind rbuf indent_level].
    destruct (ser_els_split els (Writer (10%N :: rbuf x) (S (indent_level x))) Hsplit eq_refl) as (E & I13 & I10).
    cbn [rbuf indent_level] in E, I13, I10. change (ends_with 10 (Writer (10%N :: rbuf x) (S (indent_level x)))) with true in E, I13, I10.
    fold B in E, I13, I10.
    rewrite (stext_start B els Hsplit Hne), (stext_jtext B els Hsplit Hfin) in E, I13, I10.
    rewrite (end_start_final els true Hsplit Hne Hfin) in I10.
    unfold wseq. rewrite E. cbn [obind]. unfold dedent. cbn [indent_level rbuf].
    assert (Eb : rev (sp B ++ jtext B (join_elements els)) ++ 10%N :: rbuf x =
                 rev (10%N :: sp B ++ jtext B (join_elements els)) ++ rbuf x)
      by (cbn [rev]; rewrite <- app_assoc; reflexivity).
    rewrite Eb in *. split; [reflexivity | split; assumption].
  - unfold wseq at 1. unfold wseq at 1. unfold lit. cbn [bytes_of_string]. rewrite (write_literal_mid _ x H10 H13). cbn [obind].
    unfold indent at 1. unfold push_bytes. cbn [obind rbuf indent_level rev app].
    destruct (ser_els_split els (Writer (N_of_ascii " " :: rbuf x) (S (indent_level x))) Hsplit eq_refl) as (E & I13 & I10).
    cbn [rbuf indent_level] in E, I13, I10.
    change (ends_with 10 (Writer (N_of_ascii " " :: rbuf x) (S (indent_level x)))) with false in E, I13, I10.
    fold B in E, I13, I10.
    rewrite (stext_jtext B els Hsplit Hfin) in E, I13, I10.
    rewrite (end_start_final els false Hsplit Hne Hfin) in I10.
    unfold wseq. rewrite E. cbn [obind]. unfold dedent. cbn [indent_level rbuf].
    assert (Eb : rev (jtext B (join_elements els)) ++ N_of_ascii " " :: rbuf x =
                 rev (32%N :: jtext B (join_elements els)) ++ rbuf x)
      by (cbn [rev]; rewrite <- app_assoc; reflexivity).
    rewrite Eb in *. split; [reflexivity | split; assumption].
Qed.

Definition sml_vlay (els : list pattern_element) (V : bytes) : Prop := ml_value_layout (join_elements els) V.

Lemma sml_ptext_layout k els : sml_pok els = true -> k <= 1 -> sml_vlay els (sml_ptext k els).
Proof.
  intros Hp _. destruct (sml_pok_parts els Hp) as (Hml & _). destruct (wl_pattern_parts eoks _ Hml) as (_ & Hs & _).
  unfold sml_vlay, sml_ptext. set (J := join_elements els) in *. set (B := 4 * S k).
  pose proof (jtext_layout B J false Hs) as HL.
  destruct (starts_on_new_line (Pattern J)) eqn:Est.
  - change (10%N :: sp B ++ jtext B J) with (sp 0 ++ lf ++ [] ++ sp B ++ jtext B J).
    apply (wvl_block etexts J 0 lf 0 [] B (jtext B J)); [|left; reflexivity | constructor | unfold B; lia | exact HL].
    unfold starts_on_new_line in Est. apply andb_prop in Est as [Hd _].
    unfold has_leading_text_dot in Hd. unfold first_byte_ok_for_block. cbn [pattern_elements] in *.
    destruct J as [|[[|b t]|e] r]; try reflexivity. exact Hd.
  - change (32%N :: jtext B J) with (sp 1 ++ jtext B J). apply (wvl_inline etexts J 1 B (jtext B J) (proj1 (wl_inline_hit eoks J Hml Est)) (proj2 (wl_inline_hit eoks J Hml Est))); [unfold B; lia | exact HL].
Qed.

(* ---------------------------------------------------------------------------------------------- *)
(* 4. Round trip and fixed point on the fragment                                                    *)

(* the re-parsed elements: the same sequence of text bytes and placeables, again one text element per line *)
Definition rel2 (els'' els : list pattern_element) : Prop := stream els'' = stream els /\ Forall text_ok els''.

Lemma split_join_elements els : Forall split_el els -> Forall text_ok els -> join_elements els = unstream (stream els).
Proof.
  intros Hsp Hok. rewrite <- (join_unstream els (Forall_impl _ (text_ok_nonempty (goodd 0)) Hok)), (split_join_map els Hsp). reflexivity.
Qed.

Lemma rel2_split els'' els : rel2 els'' els -> sml_pok els = true -> Forall split_el els''.
Proof.
  intros [Hst Hok''] Hp. destruct (sml_pok_parts els Hp) as (Hml & _). destruct (wl_pattern_parts eoks _ Hml) as (_ & Hs & _).
  apply (split_of_stream els'' (join_elements els) Hs); [rewrite Hst; symmetry; apply stream_join | exact Hok''].
Qed.

Lemma rel2_join els'' els : rel2 els'' els -> sml_pok els = true -> join_elements els'' = join_elements els.
Proof.
  intros Hrel Hp. pose proof (rel2_split els'' els Hrel Hp) as Hsp''. destruct Hrel as [Hst Hok''].
  destruct (sml_pok_parts els Hp) as (_ & Hok & Hsp).
  rewrite (split_join_elements els'' Hsp'' Hok''), (split_join_elements els Hsp Hok), Hst. reflexivity.
Qed.

Lemma rel2_pok els'' els : rel2 els'' els -> sml_pok els = true ->
  sml_pok els'' = true /\ forall k, sml_ptext k els'' = sml_ptext k els.
Proof.
  intros Hrel Hp. destruct (sml_pok_parts els Hp) as (Hml & Hok & _). pose proof (rel2_join els'' els Hrel Hp) as EJ.
  split.
  - unfold sml_pok. rewrite EJ, Hml. apply forallb_text_okb. exact (proj2 Hrel).
  - intros k. unfold sml_ptext. rewrite EJ. reflexivity.
Qed.

Lemma split_join_pattern els : Forall split_el els -> join_pattern (Pattern els) = Pattern (join_elements els).
Proof. intros Hall. rewrite join_pattern_els, (split_join_map els Hall). reflexivity. Qed.

Lemma rel2_join_pattern els'' els : rel2 els'' els -> sml_pok els = true ->
  join_pattern (Pattern els'') = join_pattern (Pattern els).
Proof.
  intros Hrel Hp. destruct (sml_pok_parts els Hp) as (_ & Hok & Hsp).
  rewrite (split_join_pattern els'' (rel2_split els'' els Hrel Hp)), (split_join_pattern els Hsp), (rel2_join els'' els Hrel Hp).
  reflexivity.
Qed.

Lemma sml_get_pattern bs els V T used c nx p n :
  sml_pok els = true -> sml_vlay els V -> after_value T used c nx -> at_ bs p (V ++ T) ->
  3 * length (V ++ T) + 12 <= n ->
  exists els', get_pattern bs n p = Ok (Some (Pattern els')) (used + (length V + p)) /\ rel2 els' els.
Proof.
  intros Hp HV HT H Hn. destruct (sml_pok_parts els Hp) as (Hml & _). pose proof render_facts as R. pose proof join_facts as J. pose proof place_facts as P.
  destruct (get_pattern_wl eoks etexts (goodd 0) R J P bs (join_elements els) V T used c nx p n Hml HV HT H Hn) as (els' & E & _ & Hok & Hst).
  exists els'. split; [exact E|]. split; [rewrite Hst; apply stream_join | exact Hok].
Qed.

Lemma sml_strip els V : sml_pok els = true -> sml_vlay els V ->
  exists k V0, V = sp k ++ V0 /\ sml_vlay els (sp 0 ++ V0) /\ forall T, head_not is_space (V0 ++ T).
Proof. intros Hp HV. destruct (sml_pok_parts els Hp) as (Hml & _). apply (wl_value_layout_strip eoks etexts _ V Hml HV). Qed.

Definition sml_resource_text (t : resource) : bytes := g_resource_text sml_ptext t.

(* C04 on the fragment: the serializer returns a text; the text parses, without errors, to a tree t2 of the
   fragment that is equal to t up to what C04's comparison ignores; and serializing t2 gives the same text *)
Theorem parse_serialize_sml with_junk t : sml_resource t = true ->
  exists t2, serialize_with_options with_junk t = Done (sml_resource_text t) /\
             parse (sml_resource_text t) = Done (t2, []) /\
             norm t2 = norm t /\ sml_resource t2 = true /\
             serialize_with_options with_junk t2 = Done (sml_resource_text t).
Proof.
  intros Ht. unfold sml_resource in Ht.
  destruct (g_parse_serialize sml_pok sml_vlay sml_ptext serialize_split_pattern sml_ptext_layout rel2 with_junk t
              sml_get_pattern sml_strip Ht) as (t2 & Es & Ep & Hrel).
  exists t2. split; [exact Es | split; [exact Ep|]].
  pose proof (g_nz_resource sml_pok t Ht) as Hnz.
  destruct (g_rel_text sml_pok sml_ptext rel2 rel2_pok t2 (nz_resource t) Hrel Hnz) as [Ht2 Etext].
  split; [|split; [exact Ht2|]].
  - rewrite <- (norm_nz_resource t). apply norm_of_join.
    apply (g_rel_join sml_pok rel2 t2 (nz_resource t) rel2_join_pattern Hrel Hnz).
  - rewrite (g_serialize sml_pok sml_ptext serialize_split_pattern with_junk t2 Ht2). f_equal.
    unfold sml_resource_text, g_resource_text. rewrite (Etext false). apply g_text_from_nz.
Qed.

(* the fragment contains what the parser returns for every layout of a tree of RoundTripML.ml_resource *)
Lemma srel_sml_pok els' els : srel els' els -> ml_pattern (Pattern els) = true -> sml_pok els' = true.
Proof.
  intros (Hj & Hok & Hst) Hp. destruct (wl_pattern_parts eoks els Hp) as (_ & Hs & _).
  pose proof (split_of_stream els' els Hs Hst Hok) as Hsp.
  unfold jrel in Hj. rewrite (split_join_pattern els' Hsp) in Hj. injection Hj as Hj.
  unfold sml_pok. rewrite Hj, Hp. apply forallb_text_okb, Hok.
Qed.

Theorem parser_outputs_sml cs t : ml_resource t = true -> last_comment_ok t = true ->
  exists t', parse (render cs t) = Done (t', []) /\ sml_resource t' = true /\ map join_entry t' = t.
Proof.
  intros Ht Hlast. destruct (parse_render_ml_split eoks etexts (goodd 0) render_facts join_facts place_facts cs t Ht Hlast) as (t' & E & Hrel). clear Hlast. exists t'. split; [exact E|]. split.
  - rewrite <- (ml_resource_g eoks) in Ht. unfold sml_resource. clear E. revert Ht.
    assert (Hattrs : forall a' a, Forall2 (rel_attr srel) a' a -> forallb (g_attribute (ml_pok eoks)) a = true ->
                                  forallb (g_attribute sml_pok) a' = true).
    { induction 1 as [|x y l l' Hxy Hl IH]; intros Ha; [reflexivity|].
      cbn [forallb] in Ha. apply andb_prop in Ha as [Hy Hl']. cbn [forallb]. rewrite (IH Hl'), andb_true_r.
      destruct x as [id' [els']], y as [id [els]]. destruct Hxy as [Hid Hp]. cbn [attr_id attr_value] in Hid, Hp. subst id'.
      unfold g_attribute in *. cbn [attr_id attr_value g_pattern] in *. apply andb_prop in Hy as [Hy1 Hy2].
      rewrite Hy1. apply (srel_sml_pok els' els Hp Hy2). }
    induction Hrel as [|e' e l l' Hxy Hl IH]; intros Ht; [reflexivity|].
    cbn [g_resource forallb] in Ht. apply andb_prop in Ht as [He Hl']. unfold g_resource in *. cbn [forallb]. rewrite (IH Hl'), andb_true_r.
    unfold g_entry in *. apply andb_prop in He as [He Hc].
    destruct e' as [id' [[els']|] a' c'|id' [els'] a' c'|c'|c'|c'|j'], e as [id [[els]|] a c|id [els] a c|c|c|c|j];
      cbn [rel_entry] in Hxy; try contradiction;
      cbn [strip_comment entry_comment g_plain_entry g_pattern] in *; try (subst; rewrite He; reflexivity).
    + destruct Hxy as (-> & Hp & Ha & ->). unfold rel_pattern in Hp. cbn [pattern_elements] in Hp.
      apply andb_prop in He as [He Hattrs']. apply andb_prop in He as [Hid Hv].
      rewrite Hid, (srel_sml_pok els' els Hp Hv), (Hattrs a' a Ha Hattrs'), Hc. reflexivity.
    + destruct Hxy as (-> & Ha & ->). apply andb_prop in He as [He Hattrs']. apply andb_prop in He as [Hid Hne].
      rewrite Hid, (Hattrs a' a Ha Hattrs'), Hc.
      replace (match a' with [] => true | _ :: _ => false end) with (match a with [] => true | _ :: _ => false end)
        by (inversion Ha; reflexivity).
      rewrite Hne. reflexivity.
    + destruct Hxy as (-> & Hp & Ha & ->). unfold rel_pattern in Hp. cbn [pattern_elements] in Hp.
      apply andb_prop in He as [He Hattrs']. apply andb_prop in He as [Hid Hv].
      rewrite Hid, (srel_sml_pok els' els Hp Hv), (Hattrs a' a Ha Hattrs'), Hc. reflexivity.
  - apply jrel_entries. apply (rel_entries_mono srel jrel t' t); [intros x y [H _]; exact H | exact Hrel].
Qed.

(* the one-line fragment of RoundTrip.v / SerializerRoundTrip.v is inside *)


Theorem simple_resource_sml t : simple_resource t = true -> sml_resource t = true.
Proof.
  intros Ht. apply simple_resource_g in Ht. unfold sml_resource.
  apply (g_resource_mono (fun els => simple_pattern (Pattern els)) sml_pok t); [|exact Ht].
  assert (Hsi : forall i, simple_inline i = true -> eoks (Inline i) = true) by (intros i Hi; exact Hi).
  intros els Hp. pose proof (simple_pattern_ml eoks Hsi _ Hp) as Hml. destruct (simple_pattern_parts els Hp) as (_ & Hs & _).
  destruct (simple_elements_ml eoks Hsi els false Hs) as [Hmle _].
  unfold sml_pok. rewrite (ml_elements_join eoks join_facts els false Hmle), (ml_wl_pattern eoks _ Hml). apply forallb_text_okb, (simple_elements_text_ok els false Hs).
Qed.

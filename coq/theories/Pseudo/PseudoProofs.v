(* Pseudo/PseudoProofs.v — proofs about the model of fluent-pseudo (Pseudo.v).
   A. transform = the per-character letter map, total, output valid UTF-8, never shorter.
   B. transform_dom: splice invariant  result = done ++ skipn pos s  with |done| = pos + diff;
      no subtraction underflows, every replace_range is on boundaries, output = dom_spec.
   C. the executable matcher yields spans with the properties assumed in B.                    *)
From FluentV Require Import Base.Utf8 Base.Utf8Facts Pseudo.Pseudo Gen.Extracted.
From Coq Require Import Lia ZifyBool ZifyNat ZifyN.

Local Notation E := encode_chars.

(* the regex sources the model was written for (breaks when lib.rs changes a pattern) *)
Lemma RE_AZ_SRC_checked : RE_AZ_SRC = bytes_of_string "[a-zA-Z]".
Proof. reflexivity. Qed.
Lemma RE_EXCLUDED_SRC_checked : RE_EXCLUDED_SRC = bytes_of_string "&[#\w]+;|<\s*.+?\s*>".
Proof. reflexivity. Qed.

(* ------------------------------------------------------------------------------------------ *)
(* A. transform                                                                                *)

Lemma obind_Done {X Y} (x : X) (f : X -> outcome Y) : obind (Done x) f = f x.
Proof. reflexivity. Qed.

Lemma replace_all_az_app f a : forall b,
  replace_all_az f (a ++ b) =
  (let* x := replace_all_az f a in let* y := replace_all_az f b in Done (x ++ y)).
Proof.
  induction a as [|c a IH]; intros b; cbn [app replace_all_az].
  - cbn [obind]. destruct (replace_all_az f b); reflexivity.
  - rewrite IH. destruct (if is_az c then f c else Done [c]); cbn [obind]; try reflexivity.
    destruct (replace_all_az f a); cbn [obind]; try reflexivity.
    destruct (replace_all_az f b); cbn [obind]; try reflexivity.
    rewrite app_assoc. reflexivity.
Qed.

Lemma replace_all_az_id f l : Forall (fun b => is_az b = false) l -> replace_all_az f l = Done l.
Proof.
  induction 1 as [|b l Hb _ IH]; [reflexivity|]. cbn [replace_all_az]. rewrite Hb, IH. reflexivity.
Qed.

Lemma table_length fl up : length (table fl up) = 26.
Proof. destruct fl, up; reflexivity. Qed.

Lemma table_scalars fl up : scalars (table fl up).
Proof.
  assert (H : forallb is_scalar (table fl up) = true) by (destruct fl, up; vm_compute; reflexivity).
  apply Forall_forall. intros x Hx. rewrite forallb_forall in H. apply H, Hx.
Qed.

Lemma elongate_set_checked cc :
  byte_in cc ELONGATE_SET = (N.eqb cc 97 || N.eqb cc 101 || N.eqb cc 111 || N.eqb cc 117).
Proof.
  unfold byte_in, ELONGATE_SET. cbn [existsb].
  destruct (N.eqb cc 97), (N.eqb cc 101), (N.eqb cc 111), (N.eqb cc 117); reflexivity.
Qed.

Lemma E_one x : E [x] = encode_char x.
Proof. cbn. apply app_nil_r. Qed.
Lemma E_two x : E [x; x] = encode_char x ++ encode_char x.
Proof. cbn. rewrite app_nil_r. reflexivity. Qed.

Lemma az_replacement_letter fl e cc : is_az cc = true ->
  az_replacement (table fl false) (table fl true) e cc = Done (E (letter_map fl e cc)).
Proof.
  intros Haz. unfold az_replacement, letter_map.
  change SMALL_RANGE with (97, 122, 97)%N. change CAPS_RANGE with (65, 90, 65)%N. cbv iota beta.
  destruct (in_rng 97 122 cc) eqn:Hs.
  - unfold sub_u8. replace (N.leb 97 cc) with true by (symmetry; arith). cbn [obind].
    unfold index. rewrite (nth_error_nth' _ cc) by (rewrite table_length; arith). cbn [obind].
    rewrite elongate_set_checked.
    destruct (e && _); [rewrite E_two | rewrite E_one]; reflexivity.
  - destruct (in_rng 65 90 cc) eqn:Hc.
    + unfold sub_u8. replace (N.leb 65 cc) with true by (symmetry; arith). cbn [obind].
      unfold index. rewrite (nth_error_nth' _ cc) by (rewrite table_length; arith). cbn [obind].
      rewrite E_one. reflexivity.
    + unfold is_az in Haz. rewrite Hs, Hc in Haz. discriminate.
Qed.

Lemma letter_map_other fl e c : is_az c = false -> letter_map fl e c = [c].
Proof.
  unfold is_az, letter_map. intros H. apply orb_false_elim in H as [-> ->]. reflexivity.
Qed.

Lemma transform_char fl e c : is_scalar c = true ->
  replace_all_az (az_replacement (table fl false) (table fl true) e) (encode_char c)
  = Done (E (letter_map fl e c)).
Proof.
  intros Hc. destruct (encode_char_shape c Hc) as [[Hlt ->] | [Hge (b & t & Henc & Hb & Ht)]].
  - cbn [replace_all_az]. destruct (is_az c) eqn:Haz.
    + rewrite az_replacement_letter by exact Haz. cbn [obind]. rewrite app_nil_r. reflexivity.
    + rewrite letter_map_other by exact Haz. rewrite E_one, encode_char_ascii by exact Hlt. reflexivity.
  - rewrite letter_map_other by (unfold is_az; arith). rewrite E_one, Henc.
    apply replace_all_az_id. constructor; [unfold is_az; arith|].
    eapply Forall_impl; [|exact Ht]. intros x Hx. unfold is_az. arith.
Qed.

Lemma transform_unfold s fl e :
  transform s fl e = replace_all_az (az_replacement (table fl false) (table fl true) e) s.
Proof. unfold transform. destruct fl; reflexivity. Qed.

Lemma transform_chars fl e cs : scalars cs ->
  transform (E cs) fl e = Done (E (flat_map (letter_map fl e) cs)).
Proof.
  rewrite transform_unfold. induction cs as [|c cs IH]; intros Hs; [reflexivity|].
  apply scalars_cons in Hs as [Hc Hs]. rewrite encode_chars_cons, replace_all_az_app.
  rewrite transform_char by exact Hc. rewrite (IH Hs). cbn [obind flat_map].
  rewrite encode_chars_app. reflexivity.
Qed.

Theorem transform_correct s fl e : utf8_valid s = true -> transform s fl e = Done (transform_spec fl e s).
Proof.
  intros Hv. destruct (utf8_valid_decode s Hv) as [Hs He]. unfold transform_spec.
  rewrite <- He at 1. apply transform_chars, Hs.
Qed.

Lemma letter_map_scalars fl e c : is_scalar c = true -> scalars (letter_map fl e c).
Proof.
  intros Hc. unfold letter_map.
  assert (Hn : forall up i, is_scalar (nth i (table fl up) c) = true).
  { intros up i. destruct (Nat.lt_ge_cases i (length (table fl up))) as [Hi | Hi].
    - pose proof (table_scalars fl up) as Ht. eapply Forall_forall in Ht; [exact Ht|]. apply nth_In, Hi.
    - rewrite nth_overflow by exact Hi. exact Hc. }
  destruct (in_rng 97 122 c); [destruct (e && _); repeat constructor; apply Hn|].
  destruct (in_rng 65 90 c); repeat constructor; [apply Hn | exact Hc].
Qed.

Lemma flat_letter_map_scalars fl e cs : scalars cs -> scalars (flat_map (letter_map fl e) cs).
Proof.
  induction cs as [|c cs IH]; intros Hs; [constructor|]. apply scalars_cons in Hs as [Hc Hs].
  cbn [flat_map]. apply scalars_app. split; [apply letter_map_scalars, Hc | apply IH, Hs].
Qed.

Theorem transform_spec_utf8 fl e s : utf8_valid s = true -> utf8_valid (transform_spec fl e s) = true.
Proof.
  intros Hv. destruct (utf8_valid_decode s Hv) as [Hs _].
  apply utf8_valid_encode_chars, flat_letter_map_scalars, Hs.
Qed.

(* the output is never shorter than the input: `transform_sub.len() - sub_len` cannot underflow *)
Lemma letter_map_length fl e c : is_scalar c = true ->
  length (encode_char c) <= length (E (letter_map fl e c)).
Proof.
  intros Hc. destruct (is_az c) eqn:Haz.
  - assert (Hlt : (c < 128)%N) by (unfold is_az in Haz; arith).
    rewrite encode_char_ascii by exact Hlt. cbn [length]. unfold letter_map.
    destruct (in_rng 97 122 c); [destruct (e && _)|destruct (in_rng 65 90 c)];
      rewrite ?E_one, ?E_two, ?app_length;
      repeat match goal with |- context[encode_char ?x] => pose proof (encode_char_length x); generalize dependent (encode_char x); intros end; lia.
  - rewrite letter_map_other, E_one by exact Haz. lia.
Qed.

Lemma transform_spec_length fl e s : utf8_valid s = true -> length s <= length (transform_spec fl e s).
Proof.
  intros Hv. destruct (utf8_valid_decode s Hv) as [Hs He]. unfold transform_spec.
  rewrite <- He at 1. clear He. induction (decode_chars s) as [|c cs IH]; [cbn; lia|].
  apply scalars_cons in Hs as [Hc Hs]. cbn [flat_map]. rewrite encode_chars_cons, encode_chars_app, !app_length.
  pose proof (letter_map_length fl e c Hc). specialize (IH Hs). lia.
Qed.

(* exactly a, e, o, u are doubled, and only when elongating; everything else maps to one character *)
Lemma letter_map_doubling fl e c :
  length (letter_map fl e c) = if e && (N.eqb c 97 || N.eqb c 101 || N.eqb c 111 || N.eqb c 117) then 2 else 1.
Proof.
  unfold letter_map. destruct (in_rng 97 122 c) eqn:H1.
  - destruct (e && _); reflexivity.
  - replace (N.eqb c 97 || N.eqb c 101 || N.eqb c 111 || N.eqb c 117) with false by (symmetry; arith).
    rewrite andb_false_r. destruct (in_rng 65 90 c); reflexivity.
Qed.

(* ------------------------------------------------------------------------------------------ *)
(* B. transform_dom                                                                            *)

Lemma seg_length s a b : a <= b -> b <= length s -> length (seg s a b) = b - a.
Proof. intros H1 H2. unfold seg. rewrite firstn_length, skipn_length. lia. Qed.

Lemma skipn_skipn_add {A} (l : list A) x y : skipn x (skipn y l) = skipn (y + x) l.
Proof.
  revert l; induction y as [|y IH]; intros l; [reflexivity|].
  destruct l as [|h l]; [rewrite !skipn_nil; reflexivity|]. cbn [skipn Nat.add]. apply IH.
Qed.

Lemma seg_skipn s a b : a <= b -> skipn a s = seg s a b ++ skipn b s.
Proof.
  intros H. unfold seg. rewrite <- (firstn_skipn (b - a) (skipn a s)) at 1. f_equal.
  rewrite skipn_skipn_add. f_equal. lia.
Qed.

Lemma boundary_starts s i : utf8_valid s = true -> is_char_boundary s i = true ->
  starts_char (skipn i s) = true.
Proof.
  intros Hv Hb. apply is_char_boundary_iff in Hb as [-> | [_ Hb]]; [|exact Hb].
  cbn [skipn]. destruct (utf8_valid_chars s Hv) as (cs & Hcs & ->). apply starts_char_encode_chars, Hcs.
Qed.

Lemma starts_boundary r j : j <= length r -> starts_char (skipn j r) = true -> is_char_boundary r j = true.
Proof. intros H1 H2. apply is_char_boundary_iff. right. auto. Qed.

Lemma slice_seg s a b : a <= b -> b <= length s ->
  is_char_boundary s a = true -> is_char_boundary s b = true -> slice s a b = Done (seg s a b).
Proof.
  intros H1 H2 Ha Hb. unfold slice, seg. rewrite Ha, Hb.
  replace (Nat.leb a b) with true by (symmetry; apply Nat.leb_le; lia).
  replace (Nat.leb b (length s)) with true by (symmetry; apply Nat.leb_le; lia). reflexivity.
Qed.

Lemma seg_valid s a b : utf8_valid s = true -> a <= b -> b <= length s ->
  is_char_boundary s a = true -> is_char_boundary s b = true -> utf8_valid (seg s a b) = true.
Proof.
  intros Hv H1 H2 Ha Hb. unfold seg.
  destruct (utf8_valid_firstn_skipn s a Hv Ha) as [_ Hsk].
  apply (utf8_valid_firstn_skipn (skipn a s) (b - a) Hsk).
  apply starts_boundary; [rewrite skipn_length; lia|].
  rewrite skipn_skipn_add. replace (a + (b - a)) with b by lia. apply boundary_starts; assumption.
Qed.

Lemma replace_range_splice done s pos diff a w :
  utf8_valid s = true -> length done = pos + diff -> pos <= a -> a <= length s ->
  is_char_boundary s pos = true -> is_char_boundary s a = true ->
  replace_range (done ++ skipn pos s) (pos + diff) (a + diff) w = Done (done ++ w ++ skipn a s).
Proof.
  intros Hv Hl H1 H2 Hp Ha. unfold replace_range.
  assert (Hlen : length (done ++ skipn pos s) = length s + diff) by (rewrite app_length, skipn_length; lia).
  replace (Nat.leb (pos + diff) (a + diff)) with true by (symmetry; apply Nat.leb_le; lia).
  replace (Nat.leb (a + diff) (length (done ++ skipn pos s))) with true by (symmetry; apply Nat.leb_le; lia).
  assert (Hsk : forall k, pos <= k -> skipn (k + diff) (done ++ skipn pos s) = skipn k s).
  { intros k Hk. rewrite skipn_app. rewrite skipn_all2 by lia. cbn [app].
    rewrite skipn_skipn_add. f_equal. lia. }
  rewrite (starts_boundary _ (pos + diff)) by (try lia; rewrite Hsk by lia; apply boundary_starts; assumption).
  rewrite (starts_boundary _ (a + diff)) by (try lia; rewrite Hsk by lia; apply boundary_starts; assumption).
  cbn [andb]. rewrite Hsk by lia. f_equal. f_equal.
  rewrite <- Hl, firstn_app, firstn_all, Nat.sub_diag. cbn [firstn]. apply app_nil_r.
Qed.

Section Dom.
Variables (s : bytes) (fl e : bool).
Hypothesis Hv : utf8_valid s = true.
Let T := transform_spec fl e.

Lemma dom_loop_ok : forall spans done pos diff,
  spans_ok s spans pos -> pos <= length s -> is_char_boundary s pos = true ->
  length done = pos + diff ->
  exists done' pos' diff',
    dom_loop s fl e spans (done ++ skipn pos s) pos diff = Done (done' ++ skipn pos' s, pos', diff') /\
    length done' = pos' + diff' /\ pos' <= length s /\ is_char_boundary s pos' = true /\
    done' ++ T (seg s pos' (length s)) = done ++ dom_spec T s spans pos.
Proof.
  induction spans as [|[a b] rest IH]; intros done pos diff Hok Hpos Hbp Hl.
  - exists done, pos, diff. cbn [dom_loop dom_spec]. auto.
  - cbn [spans_ok] in Hok. destruct Hok as (H1 & H2 & H3 & Ha & Hb & Hrest).
    cbn [dom_loop]. unfold sub_usize at 1.
    replace (Nat.leb pos a) with true by (symmetry; apply Nat.leb_le; lia). cbn [obind].
    rewrite slice_seg by (try assumption; lia). cbn [obind].
    assert (Hsv : utf8_valid (seg s pos a) = true) by (apply seg_valid; try assumption; lia).
    rewrite (transform_correct _ fl e Hsv). cbn [obind]. fold T.
    pose proof (transform_spec_length fl e _ Hsv) as Hlen. fold T in Hlen.
    rewrite seg_length in Hlen by lia.
    unfold sub_usize.
    replace (Nat.leb (a - pos) (length (T (seg s pos a)))) with true by (symmetry; apply Nat.leb_le; lia).
    cbn [obind].
    rewrite replace_range_splice by (try assumption; lia). cbn [obind].
    rewrite (seg_skipn s a b) by lia.
    replace (done ++ T (seg s pos a) ++ seg s a b ++ skipn b s)
      with ((done ++ T (seg s pos a) ++ seg s a b) ++ skipn b s) by (rewrite <- !app_assoc; reflexivity).
    destruct (IH (done ++ T (seg s pos a) ++ seg s a b) b (diff + (length (T (seg s pos a)) - (a - pos))) Hrest H3 Hb)
      as (done' & pos' & diff' & Hrun & Hl' & Hp' & Hb' & Heq).
    { rewrite !app_length, seg_length by lia. lia. }
    exists done', pos', diff'. split; [exact Hrun|]. repeat split; try assumption.
    rewrite Heq. cbn [dom_spec]. rewrite <- !app_assoc. reflexivity.
Qed.

Theorem transform_dom_correct spans m :
  spans_ok s spans 0 ->
  transform_dom spans s fl e m =
  Done (if Nat.eqb (length (decode_chars s)) 1 then s else brackets m (dom_spec T s spans 0)).
Proof.
  intros Hok. unfold transform_dom. destruct (Nat.eqb (length (decode_chars s)) 1); [reflexivity|].
  destruct (dom_loop_ok spans [] 0 0 Hok ltac:(lia) eq_refl eq_refl)
    as (done' & pos' & diff' & Hrun & Hl' & Hp' & Hb' & Heq).
  cbn [app skipn] in Hrun. rewrite Hrun. cbn [obind].
  assert (Hbl : is_char_boundary s (length s) = true).
  { apply starts_boundary; [lia|]. rewrite skipn_all. reflexivity. }
  rewrite slice_seg by (try assumption; lia). cbn [obind].
  assert (Hsv : utf8_valid (seg s pos' (length s)) = true) by (apply seg_valid; try assumption; lia).
  rewrite (transform_correct _ fl e Hsv). cbn [obind]. fold T.
  replace (length (done' ++ skipn pos' s)) with (length s + diff') by (rewrite app_length, skipn_length; lia).
  rewrite replace_range_splice by (try assumption; lia). cbn [obind].
  rewrite skipn_all, app_nil_r, Heq. cbn [app]. unfold brackets. destruct m; reflexivity.
Qed.

Lemma dom_spec_utf8 : forall spans pos, spans_ok s spans pos -> pos <= length s ->
  is_char_boundary s pos = true -> utf8_valid (dom_spec T s spans pos) = true.
Proof.
  assert (Hbl : is_char_boundary s (length s) = true).
  { apply starts_boundary; [lia|]. rewrite skipn_all. reflexivity. }
  induction spans as [|[a b] rest IH]; intros pos Hok Hpos Hbp; cbn [dom_spec].
  - apply transform_spec_utf8, seg_valid; try assumption; lia.
  - cbn [spans_ok] in Hok. destruct Hok as (H1 & H2 & H3 & Ha & Hb & Hrest).
    apply utf8_valid_app_intro; [apply transform_spec_utf8, seg_valid; try assumption; lia|].
    apply utf8_valid_app_intro; [apply seg_valid; try assumption; lia|].
    apply IH; assumption.
Qed.

End Dom.

(* ------------------------------------------------------------------------------------------ *)
(* C. the executable matcher returns spans that satisfy spans_ok                               *)

Definition Pc (cs : list N) : nat := length (E cs).

Lemma Pc_cons c r : Pc (c :: r) = clen c + Pc r.
Proof. unfold Pc, clen. rewrite encode_chars_cons, app_length. reflexivity. Qed.

Lemma Pc_app a b : Pc (a ++ b) = Pc a + Pc b.
Proof. unfold Pc. rewrite encode_chars_app, app_length. reflexivity. Qed.

Lemma clen_pos c : 0 < clen c.
Proof. unfold clen. pose proof (encode_char_length c). lia. Qed.

(* n is the byte length of a character prefix of cs *)
Definition prefix_len (cs : list N) (n : nat) : Prop := exists m rest, cs = m ++ rest /\ n = Pc m.

Lemma prefix_len_0 cs : prefix_len cs 0.
Proof. exists [], cs. auto. Qed.

Lemma prefix_len_cons c cs n : prefix_len cs n -> prefix_len (c :: cs) (clen c + n).
Proof. intros (m & rest & -> & ->). exists (c :: m), rest. rewrite Pc_cons. auto. Qed.

Lemma prefix_len_uncons c cs n : prefix_len (c :: cs) (S n) -> prefix_len cs (S n - clen c) /\ clen c <= S n.
Proof.
  intros (m & rest & Hcs & Hn). destruct m as [|c' m]; [discriminate|]. injection Hcs as <- ->.
  rewrite Pc_cons in Hn. split; [|lia]. exists m, rest. split; [reflexivity | lia].
Qed.

Section MatcherFacts.
Variables wna sna : N -> bool.

Lemma word_run_split cs : forall n r, word_run wna cs = (n, r) -> exists m, cs = m ++ r /\ n = Pc m.
Proof.
  induction cs as [|c cs IH]; intros n r H; cbn [word_run] in H.
  - injection H as <- <-. exists []. auto.
  - destruct (N.eqb c 35 || is_word wna c).
    + destruct (word_run wna cs) as [n' r'] eqn:Hw. injection H as <- <-.
      destruct (IH _ _ eq_refl) as (m & -> & ->). exists (c :: m). rewrite Pc_cons. auto.
    + injection H as <- <-. exists []. auto.
Qed.

Lemma skip_ws_split cs : forall n r, skip_ws sna cs = (n, r) -> exists m, cs = m ++ r /\ n = Pc m.
Proof.
  induction cs as [|c cs IH]; intros n r H; cbn [skip_ws] in H.
  - injection H as <- <-. exists []. auto.
  - destruct (is_space sna c).
    + destruct (skip_ws sna cs) as [n' r'] eqn:Hw. injection H as <- <-.
      destruct (IH _ _ eq_refl) as (m & -> & ->). exists (c :: m). rewrite Pc_cons. auto.
    + injection H as <- <-. exists []. auto.
Qed.

Lemma clen_ascii c : (c < 128)%N -> clen c = 1.
Proof. intros H. unfold clen. rewrite encode_char_ascii by exact H. reflexivity. Qed.

Lemma tag_body_split cs : forall acc e, tag_body sna cs acc = Some e ->
  exists n, e = acc + n /\ prefix_len cs n.
Proof.
  induction cs as [|c cs IH]; intros acc e H; cbn [tag_body] in H.
  - destruct (skip_ws sna []) as [w r] eqn:Hw. cbn in Hw. injection Hw as <- <-. discriminate.
  - destruct (skip_ws sna (c :: cs)) as [w r] eqn:Hw.
    destruct (skip_ws_split _ _ _ Hw) as (mw & Hcs & ->).
    destruct (match r with x :: _ => N.eqb x 62 | [] => false end) eqn:Hclose.
    + injection H as <-. destruct r as [|x r']; [discriminate|]. apply N.eqb_eq in Hclose. subst x.
      exists (Pc mw + 1). split; [lia|]. exists (mw ++ [62%N]), r'.
      split; [rewrite Hcs, <- app_assoc; reflexivity|]. rewrite Pc_app, Pc_cons. reflexivity.
    + destruct (N.eqb c 10); [discriminate|]. destruct (IH _ _ H) as (n & -> & Hn).
      exists (clen c + n). split; [lia | apply prefix_len_cons, Hn].
Qed.

Lemma tag_from_split cs acc e : tag_from sna cs acc = Some e -> exists n, e = acc + n /\ prefix_len cs n.
Proof.
  unfold tag_from. destruct cs as [|c cs]; [discriminate|]. destruct (N.eqb c 10); [discriminate|].
  intros H. destruct (tag_body_split _ _ _ H) as (n & -> & Hn).
  exists (clen c + n). split; [lia | apply prefix_len_cons, Hn].
Qed.

Lemma tag_ws_split cs : forall acc e, tag_ws sna cs acc = Some e -> exists n, e = acc + n /\ prefix_len cs n.
Proof.
  induction cs as [|c cs IH]; intros acc e H; cbn [tag_ws] in H.
  - apply tag_from_split, H.
  - destruct (is_space sna c).
    + destruct (tag_ws sna cs (acc + clen c)) as [e'|] eqn:Hrec.
      * injection H as <-. destruct (IH _ _ Hrec) as (n & -> & Hn).
        exists (clen c + n). split; [lia | apply prefix_len_cons, Hn].
      * apply tag_from_split, H.
    + apply tag_from_split, H.
Qed.

Lemma match_here_split cs n : match_here wna sna cs = Some n -> prefix_len cs n /\ 0 < n.
Proof.
  unfold match_here. destruct (match_entity wna cs) as [k|] eqn:He.
  - intros H. injection H as <-. unfold match_entity in He. destruct cs as [|c r]; [discriminate|].
    destruct (N.eqb c 38) eqn:Hc; [|discriminate]. apply N.eqb_eq in Hc. subst c.
    destruct (word_run wna r) as [w r'] eqn:Hw. destruct (word_run_split _ _ _ Hw) as (m & -> & ->).
    destruct (Pc m) as [|k'] eqn:Hk; [discriminate|]. destruct r' as [|c' r'']; [discriminate|].
    destruct (N.eqb c' 59) eqn:Hc'; [|discriminate]. apply N.eqb_eq in Hc'. subst c'. injection He as <-.
    split; [|lia]. exists (38%N :: m ++ [59%N]), r''. split; [cbn; rewrite <- app_assoc; reflexivity|].
    rewrite Pc_cons, Pc_app, Pc_cons, Hk. reflexivity.
  - unfold match_tag. destruct cs as [|c r]; [discriminate|].
    destruct (N.eqb c 60) eqn:Hc; [|discriminate]. apply N.eqb_eq in Hc. subst c.
    intros H. destruct (tag_ws_split _ _ _ H) as (k & -> & Hk). split; [|lia].
    apply (prefix_len_cons 60%N) in Hk. exact Hk.
Qed.

Lemma spans_ok_mono s l p p' : spans_ok s l p -> p' <= p -> spans_ok s l p'.
Proof. destruct l as [|[a b] r]; cbn [spans_ok]; [trivial | intuition lia]. Qed.

Lemma scan_ok : forall cs pre skip, scalars (pre ++ cs) -> prefix_len cs skip ->
  spans_ok (E (pre ++ cs)) (scan_spans wna sna cs (Pc pre) skip) (Pc pre + skip).
Proof.
  induction cs as [|c r IH]; intros pre skip Hs Hpl; [exact Logic.I|].
  assert (Hs' : scalars ((pre ++ [c]) ++ r)) by (rewrite <- app_assoc; exact Hs).
  assert (Heq : pre ++ c :: r = (pre ++ [c]) ++ r) by (rewrite <- app_assoc; reflexivity).
  assert (HP : Pc pre + clen c = Pc (pre ++ [c])) by (rewrite Pc_app, Pc_cons; unfold Pc at 3; cbn; lia).
  cbn [scan_spans]. destruct skip as [|k].
  - destruct (match_here wna sna (c :: r)) as [n|] eqn:Hm.
    + destruct (match_here_split _ _ Hm) as [Hpre Hpos].
      destruct n as [|n]; [lia|]. pose proof Hpre as (m & rest & Hcs & Hn).
      destruct (prefix_len_uncons _ _ _ Hpre) as [Hpl' Hle].
      cbn [spans_ok]. split; [lia|]. split; [lia|].
      assert (Hsr : scalars rest).
      { rewrite Hcs in Hs. apply scalars_app in Hs as [_ Hs]. apply scalars_app in Hs as [_ Hs]. exact Hs. }
      split; [|split; [|split]].
      * fold (Pc (pre ++ c :: r)). rewrite Hcs, !Pc_app. lia.
      * apply scalars_app in Hs as [_ Hs]. apply boundary_prefix, Hs.
      * rewrite Hcs, app_assoc. replace (Pc pre + S n) with (length (E (pre ++ m))) by (fold (Pc (pre ++ m)); rewrite Pc_app; lia).
        apply boundary_prefix, Hsr.
      * rewrite HP, Heq. replace (Pc pre + S n) with (Pc (pre ++ [c]) + (S n - clen c)) by lia.
        apply IH; assumption.
    + rewrite HP, Heq. eapply spans_ok_mono; [apply (IH (pre ++ [c]) 0 Hs' (prefix_len_0 r)) | lia].
  - destruct (prefix_len_uncons _ _ _ Hpl) as [Hpl' Hle].
    rewrite HP, Heq. replace (Pc pre + S k) with (Pc (pre ++ [c]) + (S k - clen c)) by lia.
    apply IH; assumption.
Qed.

Theorem excluded_spans_ok s : utf8_valid s = true -> spans_ok s (excluded_spans wna sna s) 0.
Proof.
  intros Hv. destruct (utf8_valid_decode s Hv) as [Hs He]. unfold excluded_spans.
  rewrite <- He at 1. apply (scan_ok (decode_chars s) [] 0 Hs (prefix_len_0 _)).
Qed.

End MatcherFacts.

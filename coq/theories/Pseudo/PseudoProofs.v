(* Pseudo/PseudoProofs.v — proofs about the model of fluent-pseudo (Pseudo.v).
   A. transform = the per-character letter map, total, output valid UTF-8, never shorter.
   B. transform_dom: splice invariant  result = done ++ skipn pos s  with |done| = pos + diff;
      no subtraction underflows, every replace_range is on boundaries, output = dom_spec.
   C. the executable matcher yields spans with the properties assumed in B.                    *)
From FluentV Require Import Base.Utf8 Base.Utf8Facts Pseudo.Pseudo Gen.Extracted.
From Coq Require Import Lia ZifyBool ZifyNat ZifyN.

Local Notation E := encode_chars.

(* the regex sources the model was written for (breaks when lib.rs changes a pattern) *)
Lemma RE_AZ_SRC_checked : RE_AZ_SRC = bytes_of_string "[a-zA-Z]".
Proof. reflexivity. Qed.
Lemma RE_EXCLUDED_SRC_checked : RE_EXCLUDED_SRC = bytes_of_string "&[#\w]+;|<\s*.+?\s*>".
Proof. reflexivity. Qed.

(* ------------------------------------------------------------------------------------------ *)
(* A. transform                                                                                *)

Lemma obind_Done {X Y} (x : X) (f : X -> outcome Y) : obind (Done x) f = f x.
Proof. reflexivity. Qed.

Lemma replace_all_az_app f a : forall b,
  replace_all_az f (a ++ b) =
  (let* x := replace_all_az f a in let* y := replace_all_az f b in Done (x ++ y)).
Proof.
  induction a as [|c a IH]; intros b; cbn [app replace_all_az].
  - cbn [obind]. destruct (replace_all_az f b); reflexivity.
  - rewrite IH. destruct (if is_az c then f c else Done [c]); cbn [obind]; try reflexivity.
    destruct (replace_all_az f a); cbn [obind]; try reflexivity.
    destruct (replace_all_az f b); cbn [obind]; try reflexivity.
    rewrite app_assoc. reflexivity.
Qed.

Lemma replace_all_az_id f l : Forall (fun b => is_az b = false) l -> replace_all_az f l = Done l.
Proof.
  induction 1 as [|b l Hb _ IH]; [reflexivity|]. cbn [replace_all_az]. rewrite Hb, IH. reflexivity.
Qed.

Lemma table_length fl up : length (table fl up) = 26.
Proof. destruct fl, up; reflexivity. Qed.

Lemma table_scalars fl up : scalars (table fl up).
Proof.
  assert (H : forallb is_scalar (table fl up) = true) by (destruct fl, up; vm_compute; reflexivity).
  apply Forall_forall. intros x Hx. rewrite forallb_forall in H. apply H, Hx.
Qed.

Lemma elongate_set_checked cc :
  byte_in cc ELONGATE_SET = (N.eqb cc 97 || N.eqb cc 101 || N.eqb cc 111 || N.eqb cc 117).
Proof.
  unfold byte_in, ELONGATE_SET. cbn [existsb].
  destruct (N.eqb cc 97), (N.eqb cc 101), (N.eqb cc 111), (N.eqb cc 117); reflexivity.
Qed.

Lemma E_one x : E [x] = encode_char x.
Proof. cbn. apply app_nil_r. Qed.
Lemma E_two x : E [x; x] = encode_char x ++ encode_char x.
Proof. cbn. rewrite app_nil_r. reflexivity. Qed.

Lemma az_replacement_letter fl e cc : is_az cc = true ->
  az_replacement (table fl false) (table fl true) e cc = Done (E (letter_map fl e cc)).
Proof.
  intros Haz. unfold az_replacement, letter_map.
  change SMALL_RANGE with (97, 122, 97)%N. change CAPS_RANGE with (65, 90, 65)%N. cbv iota beta.
  destruct (in_rng 97 122 cc) eqn:Hs.
  - unfold sub_u8. replace (N.leb 97 cc) with true by (symmetry; arith). cbn [obind].
    unfold index. rewrite (nth_error_nth' _ cc) by (rewrite table_length; arith). cbn [obind].
    rewrite elongate_set_checked.
    destruct (e && _); [rewrite E_two | rewrite E_one]; reflexivity.
  - destruct (in_rng 65 90 cc) eqn:Hc.
    + unfold sub_u8. replace (N.leb 65 cc) with true by (symmetry; arith). cbn [obind].
      unfold index. rewrite (nth_error_nth' _ cc) by (rewrite table_length; arith). cbn [obind].
      rewrite E_one. reflexivity.
    + unfold is_az in Haz. rewrite Hs, Hc in Haz. discriminate.
Qed.

Lemma letter_map_other fl e c : is_az c = false -> letter_map fl e c = [c].
Proof.
  unfold is_az, letter_map. intros H. apply orb_false_elim in H as [-> ->]. reflexivity.
Qed.

Lemma transform_char fl e c : is_scalar c = true ->
  replace_all_az (az_replacement (table fl false) (table fl true) e) (encode_char c)
  = Done (E (letter_map fl e c)).
Proof.
  intros Hc. destruct (encode_char_shape c Hc) as [[Hlt ->] | [Hge (b & t & Henc & Hb & Ht)]].
  - cbn [replace_all_az]. destruct (is_az c) eqn:Haz.
    + rewrite az_replacement_letter by exact Haz. cbn [obind]. rewrite app_nil_r. reflexivity.
    + rewrite letter_map_other by exact Haz. rewrite E_one, encode_char_ascii by exact Hlt. reflexivity.
  - rewrite letter_map_other by (unfold is_az; arith). rewrite E_one, Henc.
    apply replace_all_az_id. constructor; [unfold is_az; arith|].
    eapply Forall_impl; [|exact Ht]. intros x Hx. unfold is_az. arith.
Qed.

Lemma transform_unfold s fl e :
  transform s fl e = replace_all_az (az_replacement (table fl false) (table fl true) e) s.
Proof. unfold transform. destruct fl; reflexivity. Qed.

Lemma transform_chars fl e cs : scalars cs ->
  transform (E cs) fl e = Done (E (flat_map (letter_map fl e) cs)).
Proof.
  rewrite transform_unfold. induction cs as [|c cs IH]; intros Hs; [reflexivity|].
  apply scalars_cons in Hs as [Hc Hs]. rewrite encode_chars_cons, replace_all_az_app.
  rewrite transform_char by exact Hc. rewrite (IH Hs). cbn [obind flat_map].
  rewrite encode_chars_app. reflexivity.
Qed.

Theorem transform_correct s fl e : utf8_valid s = true -> transform s fl e = Done (transform_spec fl e s).
Proof.
  intros Hv. destruct (utf8_valid_decode s Hv) as [Hs He]. unfold transform_spec.
  rewrite <- He at 1. apply transform_chars, Hs.
Qed.

Lemma letter_map_scalars fl e c : is_scalar c = true -> scalars (letter_map fl e c).
Proof.
  intros Hc. unfold letter_map.
  assert (Hn : forall up i, is_scalar (nth i (table fl up) c) = true).
  { intros up i. destruct (Nat.lt_ge_cases i (length (table fl up))) as [Hi | Hi].
    - pose proof (table_scalars fl up) as Ht. eapply Forall_forall in Ht; [exact Ht|]. apply nth_In, Hi.
    - rewrite nth_overflow by exact Hi. exact Hc. }
  destruct (in_rng 97 122 c); [destruct (e && _); repeat constructor; apply Hn|].
  destruct (in_rng 65 90 c); repeat constructor; [apply Hn | exact Hc].
Qed.

Lemma flat_letter_map_scalars fl e cs : scalars cs -> scalars (flat_map (letter_map fl e) cs).
Proof.
  induction cs as [|c cs IH]; intros Hs; [constructor|]. apply scalars_cons in Hs as [Hc Hs].
  cbn [flat_map]. apply scalars_app. split; [apply letter_map_scalars, Hc | apply IH, Hs].
Qed.

Theorem transform_spec_utf8 fl e s : utf8_valid s = true -> utf8_valid (transform_spec fl e s) = true.
Proof.
  intros Hv. destruct (utf8_valid_decode s Hv) as [Hs _].
  apply utf8_valid_encode_chars, flat_letter_map_scalars, Hs.
Qed.

(* the output is never shorter than the input: `transform_sub.len() - sub_len` cannot underflow *)
Lemma letter_map_length fl e c : is_scalar c = true ->
  length (encode_char c) <= length (E (letter_map fl e c)).
Proof.
  intros Hc. destruct (is_az c) eqn:Haz.
  - assert (Hlt : (c < 128)%N) by (unfold is_az in Haz; arith).
    rewrite encode_char_ascii by exact Hlt. cbn [length]. unfold letter_map.
    destruct (in_rng 97 122 c); [destruct (e && _)|destruct (in_rng 65 90 c)];
      rewrite ?E_one, ?E_two, ?app_length;
      repeat match goal with |- context[encode_char ?x] => pose proof (encode_char_length x); generalize dependent (encode_char x); intros end; lia.
  - rewrite letter_map_other, E_one by exact Haz. lia.
Qed.

Lemma transform_spec_length fl e s : utf8_valid s = true -> length s <= length (transform_spec fl e s).
Proof.
  intros Hv. destruct (utf8_valid_decode s Hv) as [Hs He]. unfold transform_spec.
  rewrite <- He at 1. clear He. induction (decode_chars s) as [|c cs IH]; [cbn; lia|].
  apply scalars_cons in Hs as [Hc Hs]. cbn [flat_map]. rewrite encode_chars_cons, encode_chars_app, !app_length.
  pose proof (letter_map_length fl e c Hc). specialize (IH Hs). lia.
Qed.

(* exactly a, e, o, u are doubled, and only when elongating; everything else maps to one character *)
Lemma letter_map_doubling fl e c :
  length (letter_map fl e c) = if e && (N.eqb c 97 || N.eqb c 101 || N.eqb c 111 || N.eqb c 117) then 2 else 1.
Proof.
  unfold letter_map. destruct (in_rng 97 122 c) eqn:H1.
  - destruct (e && _); reflexivity.
  - replace (N.eqb c 97 || N.eqb c 101 || N.eqb c 111 || N.eqb c 117) with false by (symmetry; arith).
    rewrite andb_false_r. destruct (in_rng 65 90 c); reflexivity.
Qed.

(* ------------------------------------------------------------------------------------------ *)
(* B. transform_dom                                                                            *)

Lemma seg_length s a b : a <= b -> b <= length s -> length (seg s a b) = b - a.
Proof. intros H1 H2. unfold seg. rewrite firstn_length, skipn_length. lia. Qed.

Lemma skipn_skipn_add {A} (l : list A) x y : skipn x (skipn y l) = skipn (y + x) l.
Proof.
  revert l; induction y as [|y IH]; intros l; [reflexivity|].
  destruct l as [|h l]; [rewrite !skipn_nil; reflexivity|]. cbn [skipn Nat.add]. apply IH.
Qed.

Lemma seg_skipn s a b : a <= b -> skipn a s = seg s a b ++ skipn b s.
Proof.
  intros H. unfold seg. rewrite <- (firstn_skipn (b - a) (skipn a s)) at 1. f_equal.
  rewrite skipn_skipn_add. f_equal. lia.
Qed.

Lemma boundary_starts s i : utf8_valid s = true -> is_char_boundary s i = true ->
  starts_char (skipn i s) = true.
Proof.
  intros Hv Hb. apply is_char_boundary_iff in Hb as [-> | [_ Hb]]; [|exact Hb].
  cbn [skipn]. destruct (utf8_valid_chars s Hv) as (cs & Hcs & ->). apply starts_char_encode_chars, Hcs.
Qed.

Lemma starts_boundary r j : j <= length r -> starts_char (skipn j r) = true -> is_char_boundary r j = true.
Proof. intros H1 H2. apply is_char_boundary_iff. right. auto. Qed.

Lemma slice_seg s a b : a <= b -> b <= length s ->
  is_char_boundary s a = true -> is_char_boundary s b = true -> slice s a b = Done (seg s a b).
Proof.
  intros H1 H2 Ha Hb. unfold slice, seg. rewrite Ha, Hb.
  replace (Nat.leb a b) with true by (symmetry; apply Nat.leb_le; lia).
  replace (Nat.leb b (length s)) with true by (symmetry; apply Nat.leb_le; lia). reflexivity.
Qed.

Lemma seg_valid s a b : utf8_valid s = true -> a <= b -> b <= length s ->
  is_char_boundary s a = true -> is_char_boundary s b = true -> utf8_valid (seg s a b) = true.
Proof.
  intros Hv H1 H2 Ha Hb. unfold seg.
  destruct (utf8_valid_firstn_skipn s a Hv Ha) as [_ Hsk].
  apply (utf8_valid_firstn_skipn (skipn a s) (b - a) Hsk).
  apply starts_boundary; [rewrite skipn_length; lia|].
  rewrite skipn_skipn_add. replace (a + (b - a)) with b by lia. apply boundary_starts; assumption.
Qed.

Lemma replace_range_splice done s pos diff a w :
  utf8_valid s = true -> length done = pos + diff -> pos <= a -> a <= length s ->
  is_char_boundary s pos = true -> is_char_boundary s a = true ->
  replace_range (done ++ skipn pos s) (pos + diff) (a + diff) w = Done (done ++ w ++ skipn a s).
Proof.
  intros Hv Hl H1 H2 Hp Ha. unfold replace_range.
  assert (Hlen : length (done ++ skipn pos s) = length s + diff) by (rewrite app_length, skipn_length; lia).
  replace (Nat.leb (pos + diff) (a + diff)) with true by (symmetry; apply Nat.leb_le; lia).
  replace (Nat.leb (a + diff) (length (done ++ skipn pos s))) with true by (symmetry; apply Nat.leb_le; lia).
  assert (Hsk : forall k, pos <= k -> skipn (k + diff) (done ++ skipn pos s) = skipn k s).
  { intros k Hk. rewrite skipn_app. rewrite skipn_all2 by lia. cbn [app].
    rewrite skipn_skipn_add. f_equal. lia. }
  rewrite (starts_boundary _ (pos + diff)) by (try lia; rewrite Hsk by lia; apply boundary_starts; assumption).
  rewrite (starts_boundary _ (a + diff)) by (try lia; rewrite Hsk by lia; apply boundary_starts; assumption).
  cbn [andb]. rewrite Hsk by lia. f_equal. f_equal.
  rewrite <- Hl, firstn_app, firstn_all, Nat.sub_diag. cbn [firstn]. apply app_nil_r.
Qed.

Section Dom.
Variables (s : bytes) (fl e : bool).
Hypothesis Hv : utf8_valid s = true.
Let T := transform_spec fl e.

Lemma dom_loop_ok : forall spans done pos diff,
  spans_ok s spans pos -> pos <= length s -> is_char_boundary s pos = true ->
  length done = pos + diff ->
  exists done' pos' diff',
    dom_loop s fl e spans (done ++ skipn pos s) pos diff = Done (done' ++ skipn pos' s, pos', diff') /\
    length done' = pos' + diff' /\ pos' <= length s /\ is_char_boundary s pos' = true /\
    done' ++ T (seg s pos' (length s)) = done ++ dom_spec T s spans pos.
Proof.
  induction spans as [|[a b] rest IH]; intros done pos diff Hok Hpos Hbp Hl.
  - exists done, pos, diff. cbn [dom_loop dom_spec]. auto.
  - cbn [spans_ok] in Hok. destruct Hok as (H1 & H2 & H3 & Ha & Hb & Hrest).
    cbn [dom_loop]. unfold sub_usize at 1.
    replace (Nat.leb pos a) with true by (symmetry; apply Nat.leb_le; lia). cbn [obind].
    rewrite slice_seg by (try assumption; lia). cbn [obind].
    assert (Hsv : utf8_valid (seg s pos a) = true) by (apply seg_valid; try assumption; lia).
    rewrite (transform_correct _ fl e Hsv). cbn [obind]. fold T.
    pose proof (transform_spec_length fl e _ Hsv) as Hlen. fold T in Hlen.
    rewrite seg_length in Hlen by lia.
    unfold sub_usize.
    replace (Nat.leb (a - pos) (length (T (seg s pos a)))) with true by (symmetry; apply Nat.leb_le; lia).
    cbn [obind].
    rewrite replace_range_splice by (try assumption; lia). cbn [obind].
    rewrite (seg_skipn s a b) by lia.
    replace (done ++ T (seg s pos a) ++ seg s a b ++ skipn b s)
      with ((done ++ T (seg s pos a) ++ seg s a b) ++ skipn b s) by (rewrite <- !app_assoc; reflexivity).
    destruct (IH (done ++ T (seg s pos a) ++ seg s a b) b (diff + (length (T (seg s pos a)) - (a - pos))) Hrest H3 Hb)
      as (done' & pos' & diff' & Hrun & Hl' & Hp' & Hb' & Heq).
    { rewrite !app_length, seg_length by lia. lia. }
    exists done', pos', diff'. split; [exact Hrun|]. repeat split; try assumption.
    rewrite Heq. cbn [dom_spec]. rewrite <- !app_assoc. reflexivity.
Qed.

Theorem transform_dom_correct spans m :
  spans_ok s spans 0 ->
  transform_dom spans s fl e m =
  Done (if Nat.eqb (length (decode_chars s)) 1 then s else brackets m (dom_spec T s spans 0)).
Proof.
  intros Hok. unfold transform_dom. destruct (Nat.eqb (length (decode_chars s)) 1); [reflexivity|].
  destruct (dom_loop_ok spans [] 0 0 Hok ltac:(lia) eq_refl eq_refl)
    as (done' & pos' & diff' & Hrun & Hl' & Hp' & Hb' & Heq).
  cbn [app skipn] in Hrun. rewrite Hrun. cbn [obind].
  assert (Hbl : is_char_boundary s (length s) = true).
  { apply starts_boundary; [lia|]. rewrite skipn_all. reflexivity. }
  rewrite slice_seg by (try assumption; lia). cbn [obind].
  assert (Hsv : utf8_valid (seg s pos' (length s)) = true) by (apply seg_valid; try assumption; lia).
  rewrite (transform_correct _ fl e Hsv). cbn [obind]. fold T.
  replace (length (done' ++ skipn pos' s)) with (length s + diff') by (rewrite app_length, skipn_length; lia).
  rewrite replace_range_splice by (try assumption; lia). cbn [obind].
  rewrite skipn_all, app_nil_r, Heq. cbn [app]. unfold brackets. destruct m; reflexivity.
Qed.

Lemma dom_spec_utf8 : forall spans pos, spans_ok s spans pos -> pos <= length s ->
  is_char_boundary s pos = true -> utf8_valid (dom_spec T s spans pos) = true.
Proof.
  assert (Hbl : is_char_boundary s (length s) = true).
  { apply starts_boundary; [lia|]. rewrite skipn_all. reflexivity. }
  induction spans as [|[a b] rest IH]; intros pos Hok Hpos Hbp; cbn [dom_spec].
  - apply transform_spec_utf8, seg_valid; try assumption; lia.
  - cbn [spans_ok] in Hok. destruct Hok as (H1 & H2 & H3 & Ha & Hb & Hrest).
    apply utf8_valid_app_intro; [apply transform_spec_utf8, seg_valid; try assumption; lia|].
    apply utf8_valid_app_intro; [apply seg_valid; try assumption; lia|].
    apply IH; assumption.
Qed.

End Dom.

(* Pseudo/Pseudo.v — model of fluent-pseudo/src/lib.rs (transform, transform_dom), the
   specification C20 compares it with, and an executable matcher for the excluded-span regex.
   Definitions only (proofs: PseudoProofs.v).

   The `regex` crate is external code.  `transform` uses it only for the class `[a-zA-Z]`
   (replace_all = a left-to-right scan that rewrites every match), modelled bytewise: in a str an
   ASCII byte is always a whole character.  `transform_dom` receives the capture spans of
   RE_EXCLUDED as an argument `spans : list (nat * nat)` (byte offsets start,end); the theorems
   assume about them exactly what `Regex::captures_iter` guarantees (`spans_ok`).  Section Matcher
   gives an executable matcher for the concrete pattern, validated against the real regex by the
   correspondence run and proved to satisfy `spans_ok`.

   The tables, ranges, doubled-letter set and regex sources come from Gen/Extracted.v.          *)
From FluentV Require Export Base.Utf8.
From FluentV Require Import Gen.Extracted.

(* ============================================================================================ *)
(* MODEL                                                                                        *)

(* usize subtraction (debug build: panics on underflow) *)
Definition sub_usize (a b : nat) : outcome nat :=
  if Nat.leb b a then Done (a - b) else Panic "attempt to subtract with overflow".

(* u8 subtraction *)
Definition sub_u8 (a b : N) : outcome N :=
  if N.leb b a then Done (a - b)%N else Panic "attempt to subtract with overflow".

(* slice indexing small_map[pos as usize] *)
Definition index (l : list N) (i : N) : outcome N :=
  match nth_error l (N.to_nat i) with
  | Some x => Done x
  | None => Panic "index out of bounds"
  end.

(* lib.rs transform: the closure given to replace_all; cc = the matched character `as u8` *)
Definition az_replacement (small_map caps_map : list N) (elongate : bool) (cc : N) : outcome bytes :=
  let '(slo, shi, sbase) := SMALL_RANGE in
  let '(clo, chi, cbase) := CAPS_RANGE in
  if in_rng slo shi cc then
    let* pos := sub_u8 cc sbase in
    let* new_char := index small_map pos in
    (* duplicate a, e, o and u *)
    if elongate && byte_in cc ELONGATE_SET
    then Done (encode_char new_char ++ encode_char new_char)
    else Done (encode_char new_char)
  else if in_rng clo chi cc then
    let* pos := sub_u8 cc cbase in
    let* new_char := index caps_map pos in
    Done (encode_char new_char)
  else Done (encode_char cc).

(* the class [a-zA-Z] of RE_AZ (see RE_AZ_SRC_checked in PseudoProofs.v) *)
Definition is_az (b : N) : bool := in_rng 97 122 b || in_rng 65 90 b.

(* Regex::replace_all for a one-character ASCII class *)
Fixpoint replace_all_az (f : N -> outcome bytes) (s : bytes) : outcome bytes :=
  match s with
  | [] => Done []
  | b :: r =>
      let* x := (if is_az b then f b else Done [b]) in
      let* y := replace_all_az f r in
      Done (x ++ y)
  end.

(* lib.rs transform *)
Definition transform (s : bytes) (flipped elongate : bool) : outcome bytes :=
  let '(small_map, caps_map) :=
    if flipped then (FLIPPED_SMALL_MAP, FLIPPED_CAPS_MAP)
    else (TRANSFORM_SMALL_MAP, TRANSFORM_CAPS_MAP) in
  replace_all_az (az_replacement small_map caps_map elongate) s.

(* String::replace_range(a..b, with): panics unless a <= b <= len and both are char boundaries *)
Definition replace_range (r : bytes) (a b : nat) (w : bytes) : outcome bytes :=
  if Nat.leb a b && Nat.leb b (length r) && is_char_boundary r a && is_char_boundary r b
  then Done (firstn a r ++ w ++ skipn b r)
  else Panic "replace_range: not a char boundary or out of range".

(* lib.rs transform_dom: the `for cap in re_excluded.captures_iter(s)` loop; state (result, pos, diff) *)
Fixpoint dom_loop (s : bytes) (flipped elongate : bool) (caps : list (nat * nat))
                  (result : bytes) (pos diff : nat) : outcome (bytes * nat * nat) :=
  match caps with
  | [] => Done (result, pos, diff)
  | (cap_start, cap_end) :: rest =>
      let* sub_len := sub_usize cap_start pos in
      let range_lo := pos in
      let range_hi := cap_start in
      let rr_lo := pos + diff in
      let rr_hi := cap_start + diff in
      let* sub := slice s range_lo range_hi in
      let* transform_sub := transform sub flipped elongate in
      let* d := sub_usize (length transform_sub) sub_len in
      let diff := diff + d in
      let* result := replace_range result rr_lo rr_hi transform_sub in
      let pos := cap_end in
      dom_loop s flipped elongate rest result pos diff
  end.

(* lib.rs transform_dom *)
Definition transform_dom (spans : list (nat * nat)) (s : bytes) (flipped elongate with_markers : bool)
  : outcome bytes :=
  if Nat.eqb (length (decode_chars s)) 1 then Done s
  else
    let* (result, pos, diff) := dom_loop s flipped elongate spans s 0 0 in
    let* sub := slice s pos (length s) in
    let rr_lo := pos + diff in
    let rr_hi := length result in
    let* transform_sub := transform sub flipped elongate in
    let* result := replace_range result rr_lo rr_hi transform_sub in
    if with_markers then Done ([91%N] ++ result ++ [93%N])
    else Done result.

(* ============================================================================================ *)
(* SPECIFICATION                                                                                *)

Definition table (flipped upper : bool) : list N :=
  match flipped, upper with
  | false, false => TRANSFORM_SMALL_MAP
  | false, true => TRANSFORM_CAPS_MAP
  | true, false => FLIPPED_SMALL_MAP
  | true, true => FLIPPED_CAPS_MAP
  end.

(* what one character becomes: an ASCII letter becomes its table counterpart for the selected style,
   twice for a, e, o, u when elongation is on; every other character stays *)
Definition letter_map (flipped elongate : bool) (c : N) : list N :=
  if in_rng 97 122 c then                                              (* a..z *)
    let x := nth (N.to_nat (c - 97)) (table flipped false) c in
    if elongate && (N.eqb c 97 || N.eqb c 101 || N.eqb c 111 || N.eqb c 117) then [x; x] else [x]
  else if in_rng 65 90 c then                                          (* A..Z *)
    [nth (N.to_nat (c - 65)) (table flipped true) c]
  else [c].

Definition transform_spec (flipped elongate : bool) (s : bytes) : bytes :=
  encode_chars (flat_map (letter_map flipped elongate) (decode_chars s)).

(* the bytes a..b of s *)
Definition seg (s : bytes) (a b : nat) : bytes := firstn (b - a) (skipn a s).

(* what captures_iter guarantees about successive matches (from byte offset pos on) *)
Fixpoint spans_ok (s : bytes) (spans : list (nat * nat)) (pos : nat) : Prop :=
  match spans with
  | [] => True
  | (a, b) :: rest =>
      pos <= a /\ a < b /\ b <= length s /\
      is_char_boundary s a = true /\ is_char_boundary s b = true /\
      spans_ok s rest b
  end.

(* text before the first span transformed, the span itself verbatim, and so on *)
Fixpoint dom_spec (T : bytes -> bytes) (s : bytes) (spans : list (nat * nat)) (pos : nat) : bytes :=
  match spans with
  | [] => T (seg s pos (length s))
  | (a, b) :: rest => T (seg s pos a) ++ seg s a b ++ dom_spec T s rest b
  end.

Definition brackets (with_markers : bool) (x : bytes) : bytes :=
  if with_markers then [91%N] ++ x ++ [93%N] else x.

(* ============================================================================================ *)
(* EXECUTABLE MATCHER for  &[#\w]+;|<\s*.+?\s*>   (leftmost-first = backtracking priority order)  *)

Section Matcher.
(* \w and \s of the regex crate are Unicode classes; their value on non-ASCII characters is a
   parameter (the correspondence run instantiates it with a table for the characters it uses) *)
Variable word_na space_na : N -> bool.

Definition is_word (c : N) : bool :=
  if N.ltb c 128 then in_rng 48 57 c || in_rng 65 90 c || N.eqb c 95 || in_rng 97 122 c
  else word_na c.
Definition is_space (c : N) : bool :=
  if N.ltb c 128 then in_rng 9 13 c || N.eqb c 32
  else space_na c.

Definition clen (c : N) : nat := length (encode_char c).

(* [#\w]+ greedy: bytes consumed and what follows.  Backtracking into the run cannot help: the
   next thing must be `;`, which is not in the class *)
Fixpoint word_run (cs : list N) : nat * list N :=
  match cs with
  | c :: r => if N.eqb c 35 || is_word c then let '(n, r') := word_run r in (clen c + n, r') else (0, cs)
  | [] => (0, [])
  end.

(* &[#\w]+;   at the head of cs: byte length of the match *)
Definition match_entity (cs : list N) : option nat :=
  match cs with
  | c :: r =>
      if N.eqb c 38 then
        let '(n, r') := word_run r in
        match n, r' with
        | S _, c' :: _ => if N.eqb c' 59 then Some (1 + n + 1) else None
        | _, _ => None
        end
      else None
  | [] => None
  end.

Fixpoint skip_ws (cs : list N) : nat * list N :=
  match cs with
  | c :: r => if is_space c then let '(n, r') := skip_ws r in (clen c + n, r') else (0, cs)
  | [] => (0, [])
  end.

(* after `.+?` has taken at least one character (acc bytes matched so far): try to close with
   `\s*>` (greedy \s*, and `>` is not a space, so only the maximal run can be followed by `>`);
   otherwise let `.+?` take one more character, which must not be a newline *)
Fixpoint tag_body (cs : list N) (acc : nat) : option nat :=
  let '(w, r) := skip_ws cs in
  match (match r with c :: _ => N.eqb c 62 | [] => false end), cs with
  | true, _ => Some (acc + w + 1)
  | false, c :: cs' => if N.eqb c 10 then None else tag_body cs' (acc + clen c)
  | false, [] => None
  end.

(* `.+?` starts here *)
Definition tag_from (cs : list N) (acc : nat) : option nat :=
  match cs with
  | c :: cs' => if N.eqb c 10 then None else tag_body cs' (acc + clen c)
  | [] => None
  end.

(* the leading greedy `\s*`: first try with one more space, then without *)
Fixpoint tag_ws (cs : list N) (acc : nat) : option nat :=
  match (match cs with
         | c :: cs' => if is_space c then tag_ws cs' (acc + clen c) else None
         | [] => None
         end) with
  | Some e => Some e
  | None => tag_from cs acc
  end.

(* <\s*.+?\s*>   at the head of cs *)
Definition match_tag (cs : list N) : option nat :=
  match cs with
  | c :: r => if N.eqb c 60 then tag_ws r 1 else None
  | [] => None
  end.

Definition match_here (cs : list N) : option nat :=
  match match_entity cs with
  | Some n => Some n
  | None => match_tag cs
  end.

(* captures_iter: leftmost match, then continue after it.  off = byte offset of the head of cs,
   skip = bytes of the current match still to step over *)
Fixpoint scan_spans (cs : list N) (off skip : nat) : list (nat * nat) :=
  match cs with
  | [] => []
  | c :: r =>
      match skip with
      | S _ => scan_spans r (off + clen c) (skip - clen c)
      | O =>
          match match_here cs with
          | Some n => (off, off + n) :: scan_spans r (off + clen c) (n - clen c)
          | None => scan_spans r (off + clen c) 0
          end
      end
  end.

Definition excluded_spans (s : bytes) : list (nat * nat) := scan_spans (decode_chars s) 0 0.

End Matcher.

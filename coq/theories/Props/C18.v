(* Props/C18.v — Localization reflects every state change as a fresh instance would.
   Only statements here; proofs are in Fallback/LocalizationProofs.v, the model in Fallback/Localization.v.

   Reading guide.  A `world` is the Localization (cell `l_bundles`, `l_sync`, `l_res_ids`), the provider's
   shared locale cell and the log of generator consultations `w_calls` (stream?, locales, res_ids).
   `run w ops` executes a history; `fresh ids sync locales` is a Localization just built by with_env.
   `gen` is the bundle generator (any function); a bundle set is (bs_id = index of the consultation that
   built it — its identity —, bs_sync, bs_inner = what the generator returned).  ALL theorems quantify over
   every op list, every initial id list / mode / locale list and every generator.                    *)
From FluentV Require Import Base.Bytes Base.Outcome Fallback.Localization Fallback.LocalizationProofs.

(* "After any sequence of resource-id additions and removals, locale-provider changes followed by a change
   notification, and switches to asynchronous mode, requests answer exactly as a newly built localization with
   the current resource ids, locales and mode would": the set bundles() returns has the mode and the generator
   source of the set a fresh instance returns, i.e. gen(current mode, current locales, current ids).
   `notified false ops = Some false`: every provider mutation was followed by on_change before the next request. *)
Theorem C18_fresh : forall (B : Type) (gen : bool -> list locale -> res_set -> B)
    (ops : list op) ids sync locs (w : world B) rs,
  notified false ops = Some false ->
  run B gen (fresh B ids sync locs) ops = Done (w, rs) ->
  let l := w_loc B w in
  let b := fst (get_bundles B gen w) in
  let b' := fst (get_bundles B gen (fresh B (l_res_ids B l) (l_sync B l) (w_locales B w))) in
  bs_sync B b = bs_sync B b' /\ bs_inner B b = bs_inner B b' /\
  bs_sync B b = l_sync B l /\ bs_inner B b = gen (negb (l_sync B l)) (w_locales B w) (l_res_ids B l).
Proof. exact fresh_equiv. Qed.

(* "between changes the same bundle set is reused (the source is consulted once per change epoch, with exactly
   the current ids and locales)": a request consults the generator iff the cell is empty, then exactly once and
   with the current (mode, locales, ids); afterwards any number of requests, prefetches and even unannounced
   provider mutations return the very same set and never consult the generator again. *)
Theorem C18_reuse : forall (B : Type) (gen : bool -> list locale -> res_set -> B) (w : world B) b w1,
  get_bundles B gen w = (b, w1) ->
  w_calls B w1 = w_calls B w ++
    match l_bundles B (w_loc B w) with
    | Some _ => []
    | None => [(negb (l_sync B (w_loc B w)), w_locales B w, l_res_ids B (w_loc B w))]
    end /\
  forall ops w2 rs,
    forallb quiet ops = true -> run B gen w1 ops = Done (w2, rs) ->
    l_bundles B (w_loc B w2) = Some b /\ w_calls B w2 = w_calls B w1 /\
    Forall (fun r => match r with RBundles _ b' => b' = b | _ => True end) rs.
Proof.
  intros B gen w b w1 H. split; [apply (get_bundles_calls B gen w b w1 H)|].
  intros ops w2 rs Hq Hr. eapply run_quiet; [exact Hq | exact (get_bundles_cell B gen w b w1 H) | exact Hr].
Qed.

(* "A bundle set obtained before a change keeps answering consistently from the state it was created in":
   in every reachable state, a set handed out by bundles() is the generator's answer to a consultation on
   record; whatever happens afterwards the record is never rewritten (the log only grows), and no set built
   later shares its identity. *)
Theorem C18_snapshot : forall (B : Type) (gen : bool -> list locale -> res_set -> B)
    (ops : list op) ids sync locs (w : world B) rs b w1 (ops2 : list op) w2 rs2,
  run B gen (fresh B ids sync locs) ops = Done (w, rs) ->
  get_bundles B gen w = (b, w1) ->
  run B gen w1 ops2 = Done (w2, rs2) ->
  (exists ls ids', nth_error (w_calls B w1) (bs_id B b) = Some (negb (bs_sync B b), ls, ids') /\
                   bs_inner B b = gen (negb (bs_sync B b)) ls ids') /\
  (forall i c, nth_error (w_calls B w1) i = Some c -> nth_error (w_calls B w2) i = Some c) /\
  Forall (fun r => match r with RBundles _ b' => bs_id B b' = bs_id B b -> b' = b | _ => True end) rs2.
Proof.
  intros B gen ops ids sync locs w rs b w1 ops2 w2 rs2 Hr Hg Hr2.
  pose proof (run_coherent B gen ops false _ _ _ (fresh_coherent B gen ids sync locs) Hr) as Hc.
  pose proof (get_bundles_coherent B gen _ w b w1 Hc Hg) as Hc1.
  pose proof (coherent_logged B gen _ w1 b Hc1 (get_bundles_cell B gen w b w1 Hg)) as Hl.
  destruct (run_calls B gen ops2 w1 w2 rs2 Hr2) as [extra He].
  split; [exact Hl|]. split.
  - intros i c Hi. rewrite He. rewrite nth_error_app1; [exact Hi|]. apply nth_error_Some. congruence.
  - pose proof (run_results_logged B gen ops2 _ w1 w2 rs2 Hc1 Hr2) as Hrs.
    eapply Forall_impl; [|exact Hrs]. intros r Hlog. destruct r; try exact Logic.I.
    intros Hid. symmetry. apply (logged_unique B gen (w_calls B w2)); [|exact Hlog|congruence].
    rewrite He. apply logged_mono, Hl.
Qed.

(* every mutator empties the cell — set_async only when it flips the mode (otherwise it changes nothing) *)
Theorem C18_every_mutator_invalidates : forall (B : Type) (l : localization B) r rs,
  l_bundles B (add_resource_id B l r) = None /\
  l_bundles B (add_resource_ids B l rs) = None /\
  l_bundles B (fst (remove_resource_id B l r)) = None /\
  l_bundles B (fst (remove_resource_ids B l rs)) = None /\
  l_bundles B (on_change B l) = None /\
  (l_sync B l = true -> l_bundles B (set_async B l) = None /\ l_sync B (set_async B l) = false) /\
  (l_sync B l = false -> set_async B l = l).
Proof. exact mutators_invalidate. Qed.

(* the id set is keyed by value: values stay pairwise distinct, adding an id whose value is present changes
   nothing (the first type wins), removing by value removes whatever type is stored, and rebuilding a
   Localization from the current ids gives the same set (used by C18_fresh) *)
Theorem C18_res_ids_keyed_by_value : forall (s : res_set) (r : resource_id) (rs : list resource_id),
  nodup_vals s ->
  nodup_vals (set_insert s r) /\ nodup_vals (set_extend s rs) /\
  nodup_vals (set_remove s r) /\ nodup_vals (set_remove_all s rs) /\
  (set_contains s r = true -> set_insert s r = s) /\
  set_contains (set_remove s r) r = false /\
  set_from_iter s = s.
Proof.
  intros s r rs H. repeat split.
  - apply nodup_insert, H.
  - apply nodup_extend, H.
  - apply nodup_filter, H.
  - apply nodup_filter, H.
  - apply set_insert_present.
  - apply set_remove_gone.
  - apply set_from_iter_id, H.
Qed.

(* ---- non-vacuity witnesses: the generator returns its arguments ------------------------------ *)
Definition ex_gen (stream : bool) (ls : list locale) (rs : res_set) : gen_call := (stream, ls, rs).
Definition ex_a_req := mkRes [97%N] true.
Definition ex_a_opt := mkRes [97%N] false.
Definition ex_b_opt := mkRes [98%N] false.

(* request, add the same value with another type (cell emptied, set unchanged), request, unannounced
   provider change (stale set reused), announced (new set with the new locales), switch to async *)
Example C18_example_history :
  exists w rs,
    run gen_call ex_gen (fresh gen_call [ex_a_req; ex_a_opt] true [[1%N]])
      [GetBundles; GetBundles; AddResourceId ex_a_opt; GetBundles; SetLocales [[2%N]; [1%N]]; GetBundles;
       OnChange; GetBundles; SetAsync; SetAsync; GetBundles; RemoveResourceId ex_a_opt; AddResourceId ex_b_opt;
       GetBundles] = Done (w, rs) /\
    w_calls gen_call w =
      [(false, [[1%N]], [ex_a_req]); (false, [[1%N]], [ex_a_req]); (false, [[2%N]; [1%N]], [ex_a_req]);
       (true, [[2%N]; [1%N]], [ex_a_req]); (true, [[2%N]; [1%N]], [ex_b_opt])] /\
    map (fun r => match r with RBundles _ b => Some (bs_id gen_call b) | _ => None end) rs =
      [Some 0; Some 0; None; Some 1; None; Some 1; None; Some 2; None; None; Some 3; None; None; Some 4].
Proof. eexists _, _. split; [vm_compute; reflexivity|]. split; vm_compute; reflexivity. Qed.

Example C18_example_notified :
  notified false [GetBundles; SetLocales []; OnChange; GetBundles] = Some false /\
  notified false [GetBundles; SetLocales []; GetBundles] = None /\
  notified false [SetLocales []; AddResourceId ex_a_req] = Some true.
Proof. repeat split. Qed.

(* prefetching a set of the wrong kind panics (bundles.rs) *)
Example C18_example_prefetch_panic :
  run gen_call ex_gen (fresh gen_call [] false []) [PrefetchSync] = Panic "Can't prefetch a sync bundle set asynchronously" /\
  exists w rs, run gen_call ex_gen (fresh gen_call [] false []) [PrefetchAsync; GetBundles] = Done (w, rs) /\
               w_prefetches gen_call w = [(0, true)] /\ length (w_calls gen_call w) = 1.
Proof. split; [vm_compute; reflexivity|]. eexists _, _. repeat split; vm_compute; reflexivity. Qed.

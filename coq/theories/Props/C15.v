(* Props/C15.v — a concurrent bundle formats the same from many threads as from one.
   Only statements here; the model is Bundle/ConcurrentBundle.v, the proofs are in Bundle/ConcurrentBundleProofs.v
   (on top of Bundle/ResolverModel.v, ResolverPure.v (C08), ResolverTotal.v (C06) and Memo/Memoizer.v (C14)).

   THE MODEL, in one paragraph.  `programs : list (list frequest)` — thread i issues the format_pattern requests
   programs[i] in order, all against ONE bundle `b` built with new_concurrent (cold memoizer of language `lang`).  A call is a
   process (ConcurrentBundle.proc): private computation interrupted by `with_try_get_threadsafe::<PluralRules>` calls.  A
   schedule is ANY list of thread ids; the scheduled thread performs its next step: begin its next call, perform the call's next
   memoizer request — ONE ATOMIC STEP of the shared memoizer (lookup, construct if absent, insert, callback, all under the
   mutex; Memo/Memoizer.v with_try_get, the C14 model) —, or return from the call.  `run_schedule programs sched` is the state
   after the schedule; `t_done` of a thread lists (request, result) of its finished calls.

   GRANULARITY: one with_try_get_threadsafe = one atomic step; everything between two such steps is private to the call.  That
   is read off the code (the MutexGuard of intl-memoizer/src/concurrent.rs outlives construct and callback; every other piece of
   state a call writes is owned by the call), not proved.  Interleavings INSIDE a critical section, a user callback (custom
   FluentType::as_string_threadsafe, formatter, function) that re-enters the bundle's memoizer or panics, and the behaviour of
   std::sync::Mutex itself are outside the model: hence `PARTIAL` in props/C15.py, exactly as for C14.

   Everything is quantified over ALL bundles, functions, transforms, formatters, custom-type printers, CLDR rules, thread counts,
   request lists and schedules.                                                                                        *)
From FluentV Require Import Base.Bytes Base.Outcome Syntax.Ast Bundle.Args Bundle.Number Bundle.NumberProofs Bundle.Plural
  Bundle.ResolverAst Bundle.ResolverModel Bundle.ResolverSim Bundle.ResolverPure Bundle.ResolverTotal
  Bundle.ConcurrentBundle Bundle.ConcurrentBundleProofs Gen.Extracted.
From FluentV Require Memo.Memoizer Memo.MemoProofs.
From Coq Require Import Lia.

Section C15.
Variable overflow_checks : bool.
Variable call_function : bytes -> list fvalue -> fargs -> fvalue.
Variable transform : option (bytes -> bytes).
Variable formatter : option (fvalue -> option bytes).
Variable as_string : bytes -> bytes.                     (* FluentType::as_string (must NOT be used by a concurrent bundle) *)
Variable as_string_threadsafe : bytes -> bytes.          (* FluentType::as_string_threadsafe *)
Variable unescape_write : bytes -> bytes.
Variable unescape_to_string : bytes -> bytes.
Variable f64_from_str : bytes -> option fval.
Variable cerr : Type.
Variable plural_construct : Memoizer.lang -> ntype -> Memoizer.result rules_fn cerr.   (* PluralRules::construct *)
Variable b : bundle.
Variable lang : Memoizer.lang.
Variable rules : ntype -> rules_fn.                      (* the CLDR rules of the bundle's first locale *)

Notation run_schedule := (run_schedule overflow_checks call_function transform formatter as_string as_string_threadsafe
                            unescape_write unescape_to_string f64_from_str cerr plural_construct b lang).
Notation sched_step := (sched_step overflow_checks call_function transform formatter as_string as_string_threadsafe
                          unescape_write unescape_to_string f64_from_str cerr plural_construct b).
Notation weight := (weight overflow_checks call_function transform formatter as_string as_string_threadsafe
                      unescape_write unescape_to_string f64_from_str b).
Notation memo_step := (memo_step cerr plural_construct).

(* THE SINGLE-THREADED RESULT: ResolverModel.format_pattern (the model of C06/C07/C08/C09) on the same bundle; a concurrent
   bundle prints custom values with as_string_threadsafe (concurrent.rs stringify_value) *)
Notation format := (format_pattern overflow_checks call_function transform formatter rules as_string_threadsafe
                      unescape_write unescape_to_string f64_from_str b).

(* hypotheses (ConcurrentBundleProofs.v):
   values_are_f64 call_function f64_from_str programs — the hypotheses of C06_total for every request: what std's float parser
     returns, what registered functions return and what the callers pass are f64 values (fval_in_f64_range);
   constructs_rules cerr plural_construct lang rules — PluralRules::construct for the bundle's language succeeds and gives the
     rules the sequential model is run with (`rules ty` of ResolverModel.v is by definition "what the PluralRules object constructed
     for the bundle's first locale computes") *)
Notation values_are_f64 := (values_are_f64 call_function f64_from_str).
Notation constructs_rules := (constructs_rules cerr plural_construct lang rules).

(* the process form of a call IS the resolver of ResolverModel.v: answered by the sequential table of ResolverModel.v
   (`interp`), it returns what ResolverModel.format_pattern returns — same text, same scope (errors, calls, counters) up to
   the memoizer, same final table; same Panic / OutOfFuel otherwise.  For every flavour, fuel, pattern (and its identity `top`), table. *)
Theorem C15_process_is_resolver :
  forall fl args fuel top p c,
    agree (interp rules
             (format_pattern_p overflow_checks call_function transform formatter as_string as_string_threadsafe
                unescape_write unescape_to_string f64_from_str fl b args fuel top p) c)
          (format_pattern overflow_checks call_function transform formatter rules
             (stringify_value as_string as_string_threadsafe fl)
             unescape_write unescape_to_string f64_from_str b args fuel top p c).
Proof. intros. apply format_pattern_p_eq. Qed.

(* "returns, for every (message, arguments) request issued from any thread under any interleaving, exactly the text and errors
   a single-threaded run returns, without … panic":
   for ANY thread programs and ANY schedule, (1) every thread issues its requests in program order, none lost, none invented;
   (2) the mutex is never poisoned; (3) every finished call returned Done (text, scope) — no Panic, no OutOfFuel — and that
   pair is what format_pattern returns single-threadedly for the same request from ANY memoizer content c satisfying the
   memoizer invariant (cold: c = [], or whatever any sequential history of calls left: C08_history_indep), up to the memoizer
   field of the final scope (`observe_f`): same text, same error list, same function-call log, same placeable counter. *)
Theorem C15_schedule_indep :
  forall programs sched,
    values_are_f64 programs -> constructs_rules ->
    let s := run_schedule programs sched in
    map thread_reqs (s_threads s) = programs /\
    m_poisoned (s_memo s) = false /\
    forall tid th rq r,
      nth_error (s_threads s) tid = Some th -> In (rq, r) (t_done th) ->
      (exists text sc, r = Done (text, sc)) /\
      forall c, cache_ok rules c ->
        r = observe_f (format (fr_args rq) (fuel_of b (fr_pattern rq)) (fr_top rq) (fr_pattern rq) c).
Proof.
  intros programs sched Hv Hc.
  exact (sched_indep overflow_checks call_function transform formatter as_string as_string_threadsafe unescape_write
           unescape_to_string f64_from_str cerr plural_construct b lang rules Hc programs sched Hv).
Qed.

(* … and when every thread has finished (see C15_no_deadlock: that can always be reached), every request of every thread has
   been answered, in order *)
Theorem C15_all_answered :
  forall programs sched tid th,
    finished (run_schedule programs sched) = true ->
    nth_error (s_threads (run_schedule programs sched)) tid = Some th ->
    nth_error programs tid = Some (map fst (t_done th)).
Proof.
  exact (all_answered overflow_checks call_function transform formatter as_string as_string_threadsafe unescape_write
           unescape_to_string f64_from_str cerr plural_construct b lang).
Qed.

(* "this includes requests whose plural selection forces the first, lazily constructed use of the shared formatter cache at
   the same moment": in the state reached by ANY schedule (no assumption on PluralRules::construct, which may fail),
   (1) the log of construct calls holds at most one successful construction per key;
   (2) every construct call was made with the memoizer's language, for a PluralRules key, and succeeded iff construct succeeds;
   (3) whichever thread performs the next memoizer step for rule type ty (mutex not poisoned), it gets the callback's value on
       THE instance construct returns for (lang, ty) — found in the table if some thread constructed it before, otherwise
       constructed now, by this step, exactly once (the log then holds exactly one success for the key) —, or, if construct
       fails, the unwrap panic and nothing is cached. *)
Theorem C15_cold_cache :
  forall programs sched,
    let m := s_memo (run_schedule programs sched) in
    (forall k, length (filter (MemoProofs.c_is_succ k) (m_trace m)) <= 1) /\
    (forall e, In e (m_trace m) ->
       Memoizer.ev_lang e = lang /\ Memoizer.ev_type e = PLURAL_RULES /\
       exists ty, Memoizer.ev_args e = args_of ty /\
                  Memoizer.ev_ok e = match plural_construct lang ty with Memoizer.Ok _ => true | Memoizer.Err _ => false end) /\
    (forall ty num cat, m_poisoned m = false ->
       exists m',
         memo_step m ty num cat =
           (m', match plural_construct lang ty with
                | Memoizer.Ok i => select_callback num cat i
                | Memoizer.Err _ => unwrap_panic
                end) /\
         (forall i, plural_construct lang ty = Memoizer.Ok i ->
                    length (filter (MemoProofs.c_is_succ (PLURAL_RULES, args_of ty)) (m_trace m')) = 1) /\
         (forall i, Memoizer.tfind rules_fn (PLURAL_RULES, args_of ty) (Memoizer.lm_table rules_fn (m_lm m)) = Some i ->
                    m_trace m' = m_trace m)).
Proof.
  exact (cold_cache overflow_checks call_function transform formatter as_string as_string_threadsafe unescape_write
           unescape_to_string f64_from_str cerr plural_construct b lang).
Qed.

(* "without deadlock": there is one lock; it is taken by a memoizer step and released before the step ends, and the code that
   runs under it (construct, `pr.select(n) == cat`) is not a process: it cannot take the lock again (in the model: PAsk carries
   data, not a continuation, for what runs under the lock).  Hence no step is ever blocked:
   (1) in the state reached by ANY schedule, scheduling ANY thread that has not finished performs a step and lowers `weight`
       (the number of steps still ahead, counted along the longest branch of each pending call);
   (2) so any schedule can be extended to one that finishes every thread, with at most `weight` further steps. *)
Theorem C15_no_deadlock :
  forall programs sched,
    let s := run_schedule programs sched in
    (forall tid th, nth_error (s_threads s) tid = Some th -> thread_finished th = false ->
                    weight (sched_step s tid) < weight s) /\
    exists sched', length sched' <= weight s /\ finished (run_schedule programs (sched ++ sched')) = true.
Proof.
  exact (no_deadlock overflow_checks call_function transform formatter as_string as_string_threadsafe unescape_write
           unescape_to_string f64_from_str cerr plural_construct b lang).
Qed.

End C15.

(* "custom values": a concurrent bundle prints FluentValue::Custom through FluentType::as_string_threadsafe (concurrent.rs
   stringify_value) on every thread.  Two runs that differ in the threads' programs, in the schedule and in what the type's
   NON-threadsafe as_string would print give the same result for the same request: the one format_pattern computes with
   as_string_threadsafe as the printer.  A custom type whose as_string_threadsafe calls back into the memoizer it is handed, or
   panics, is outside the model (there it is a pure function of the payload). *)
Theorem C15_custom_values :
  forall overflow_checks call_function transform formatter as_string1 as_string2 as_string_threadsafe
         unescape_write unescape_to_string f64_from_str cerr plural_construct b lang rules
         programs1 programs2 sched1 sched2 tid1 tid2 th1 th2 rq r1 r2,
    values_are_f64 call_function f64_from_str programs1 -> values_are_f64 call_function f64_from_str programs2 ->
    constructs_rules cerr plural_construct lang rules ->
    nth_error (s_threads (run_schedule overflow_checks call_function transform formatter as_string1 as_string_threadsafe
                            unescape_write unescape_to_string f64_from_str cerr plural_construct b lang programs1 sched1)) tid1
      = Some th1 ->
    nth_error (s_threads (run_schedule overflow_checks call_function transform formatter as_string2 as_string_threadsafe
                            unescape_write unescape_to_string f64_from_str cerr plural_construct b lang programs2 sched2)) tid2
      = Some th2 ->
    In (rq, r1) (t_done th1) -> In (rq, r2) (t_done th2) ->
    r1 = r2 /\
    r1 = observe_f (format_pattern overflow_checks call_function transform formatter rules as_string_threadsafe
                      unescape_write unescape_to_string f64_from_str b (fr_args rq) (fuel_of b (fr_pattern rq))
                      (fr_top rq) (fr_pattern rq) []).
Proof. exact custom_values. Qed.

(* ---------- non-vacuity: a concrete bundle, three threads, every schedule ---------- *)
Definition s (x : string) : bytes := bytes_of_string x.
Definition ex_call (_ : bytes) (_ : list fvalue) (_ : fargs) : fvalue := VError.
Definition ex_id (x : bytes) : bytes := x.
Definition ex_ts (x : bytes) : bytes := (s "<ts:" ++ x ++ s ">")%list.
Definition ex_nts (x : bytes) : bytes := (s "<NOT-THREADSAFE:" ++ x ++ s ">")%list.
Definition ex_lang : bytes := s "en".
Definition ex_construct (l : Memoizer.lang) (ty : ntype) : Memoizer.result rules_fn unit :=
  Memoizer.Ok (rules_for_locale l ty).

(* sel = { $n -> [one] one {$c} [two] two *[other] other } *)
Definition ex_pattern : pattern :=
  Pattern [PlaceableElement (Select (VariableReference (s "n"))
     [Variant (KeyIdentifier (s "one")) (Pattern [TextElement (s "one "); PlaceableElement (Inline (VariableReference (s "c")))]) false;
      Variant (KeyIdentifier (s "two")) (Pattern [TextElement (s "two")]) false;
      Variant (KeyIdentifier (s "other")) (Pattern [TextElement (s "other")]) true])].
Definition ex_b : bundle := Bundle [(s "sel", EMessage (Some ex_pattern) [])] false.
Definition num (digits : string) (ty : ntype) : fvalue :=
  VNumber (FNum (FDec false (s digits) [])
                (NOptions ty StyleDecimal None CurSymbol true None None None None None)).
Definition ex_rq (n : fvalue) : frequest :=
  FReq (Some [(s "c", VCustom (s "x")); (s "n", n)]) (Some (PKey false (s "sel") None)) ex_pattern.

Definition ex_explore (programs : list (list frequest)) :=
  explore true ex_call None None ex_nts ex_ts ex_id ex_id f64_from_str_exact unit ex_construct ex_b 40
    (c_init ex_lang programs).
Definition texts (rs : list (list (frequest * outcome (bytes * scope)))) : list (list (option (bytes * list resolver_error))) :=
  map (map (fun x => match snd x with Done (t, sc) => Some (t, sc_errors sc) | _ => None end)) rs.
(* three threads, cold cache: cardinal 1 (one, prints the custom value through as_string_threadsafe), ordinal 2 (two), and
   cardinal 1 then ordinal 1.  Every one of the complete schedules (more than 1000) gives the same results. *)
Definition cell_is (expected : string) (c : option (bytes * list resolver_error)) : bool :=
  match c with Some (t, []) => bytes_eqb t (s expected) | _ => false end.
Example C15_example_all_schedules :
  let rs := map texts (ex_explore [[ex_rq (num "1" Cardinal)]; [ex_rq (num "2" Ordinal)];
                                   [ex_rq (num "1" Cardinal); ex_rq (num "1" Ordinal)]]) in
  (1000 <? length rs)%nat = true /\
  forallb (fun run => match run with
                      | [[a]; [b0]; [c; d]] => cell_is "one <ts:x>" a && cell_is "two" b0 && cell_is "one <ts:x>" c && cell_is "one <ts:x>" d
                      | _ => false
                      end) rs = true.
Proof. vm_compute. split; reflexivity. Qed.

(* the same requests single-threaded (ResolverModel.format_pattern, cold memoizer) *)
Example C15_example_sequential :
  map (fun n => match format_pattern true ex_call None None (rules_for_locale ex_lang) ex_ts ex_id ex_id f64_from_str_exact ex_b
                        (fr_args (ex_rq n)) (fuel_of ex_b ex_pattern) (fr_top (ex_rq n)) ex_pattern [] with
                | Done (t, sc) => Some (t, sc_errors sc) | _ => None end)
      [num "1" Cardinal; num "2" Ordinal; num "5" Cardinal; num "1" Ordinal]
  = [Some (s "one <ts:x>", []); Some (s "two", []); Some (s "other", []); Some (s "one <ts:x>", [])].
Proof. vm_compute. reflexivity. Qed.

(* cold cache, three threads whose first memoizer step asks for the SAME rules object: in every schedule that object is
   constructed exactly once (one log entry, successful) *)
Definition ex_traces (fuel : nat) (programs : list (list frequest)) : list (list Memoizer.cevent) :=
  (fix go (fuel : nat) (st : cstate) : list (list Memoizer.cevent) :=
     match fuel with
     | O => []
     | S f =>
         if finished st then [m_trace (s_memo st)]
         else flat_map (fun tid =>
                          match nth_error (s_threads st) tid with
                          | Some th => if thread_finished th then []
                                       else go f (sched_step true ex_call None None ex_nts ex_ts ex_id ex_id f64_from_str_exact
                                                    unit ex_construct ex_b st tid)
                          | None => []
                          end) (seq 0 (length (s_threads st)))
     end) fuel (c_init ex_lang programs).

Example C15_example_cold_cache_once :
  forallb (fun tr => match tr with
                     | [e] => Memoizer.ev_ok e && bytes_eqb (Memoizer.ev_lang e) ex_lang && bytes_eqb (Memoizer.ev_args e) (args_of Cardinal)
                     | _ => false
                     end)
          (ex_traces 40 [[ex_rq (num "1" Cardinal)]; [ex_rq (num "1" Cardinal)]; [ex_rq (num "3" Cardinal)]]) = true.
Proof. vm_compute. reflexivity. Qed.

(* why values_are_f64 is a hypothesis: a "number" no f64 can hold makes the `expect` of From<&FluentNumber> for PluralOperands
   fire INSIDE the callback, i.e. under the mutex; the model poisons the mutex, and a request that alone returns "one <ts:x>"
   panics when it is scheduled after the poisoning one.  (C06_operands_total: unreachable for every f64.) *)
Definition ex_bad : fvalue :=
  VNumber (FNum (FDec false (s "1") (s "999999999999999999999")) default_options).
Example C15_example_poison_is_modelled :
  let run sched := results_of (run_schedule true ex_call None None ex_nts ex_ts ex_id ex_id f64_from_str_exact unit ex_construct
                                 ex_b ex_lang [[ex_rq ex_bad]; [ex_rq (num "1" Cardinal)]] sched) in
  texts (run [1; 1; 1; 0; 0; 0])%nat = [[None]; [Some (s "one <ts:x>", [])]] /\
  map (map (fun x => match snd x with Panic t => Some t | _ => None end)) (run [0; 0; 0; 1; 1; 1])%nat
  = [[Some "Failed to generate operands out of FluentNumber"%string]; [Some "PoisonError"%string]].
Proof. vm_compute. split; reflexivity. Qed.

(* ================================================================================================================
   LOCK GRANULARITY — the atomicity of a memoizer access is a THEOREM, not a modelling decision.

   Above, one `with_try_get_threadsafe::<PluralRules>` call (types/mod.rs:207-210 -> fluent-bundle concurrent.rs:61 ->
   intl-memoizer concurrent.rs:25-45) is ONE step of the scheduler.  Bundle/ConcurrentBundleFine.v drops that: the
   Mutex is explicit (`fb_holder`) and the call is executed as the micro-steps of Memo/FineGrained.v (the C14 fine-grained
   model of intl-memoizer concurrent.rs with_try_get), between any two of which any other thread may be scheduled:

       Lock        concurrent.rs:32  self.map.lock().unwrap()          the ONLY step that looks at the mutex; blocks if held;
                                                                        on a poisoned mutex: guard taken, unwrap panics
       LookupType  concurrent.rs:33  map.entry::<HashMap<..>>().or_insert_with(HashMap::new)
       LookupArgs  concurrent.rs:37  match cache.entry(args.clone())
       Construct   concurrent.rs:40  I::construct(self.lang.clone(), args)?          (only on Vacant)
       Insert      concurrent.rs:41  entry.insert(val)                              (only on Vacant, construct Ok)
       Callback    concurrent.rs:44  Ok(cb(e))    = |pr| pr.0.select(b) == Ok(cat)   types/mod.rs:207-209
       Unlock      concurrent.rs:45  `}` drops the guard (poisons if the callback panicked); then types/mod.rs:210 .unwrap()

   The other steps of a thread (begin a format_pattern call, return from it; all resolver work between two accesses is
   folded into the call's continuation) are thread-local and take no lock: they touch only the Scope, the error vector and the
   output of the call (created per call by bundle.rs format_pattern), and read the bundle, which is behind `&` and never written.
   A fine schedule is ANY list of thread ids; `fb_run programs fs` is the state after it; `commit_order (fb_init programs) fs`
   is the schedule of the atomic model it induces: its thread-local steps and its SUCCESSFUL Locks, in the order they happened.
   Still outside the model: std::sync::Mutex itself (taken as: lock() succeeds iff nobody holds it), a user callback that
   re-enters the memoizer, weak-memory effects (the mutex's acquire/release ordering makes the map accesses sequentially
   consistent).
   ================================================================================================================ *)
From FluentV Require Import Bundle.ConcurrentBundleFine Bundle.ConcurrentBundleFineProofs.
From FluentV Require Memo.FineGrained Memo.FineGrainedProofs.

Section C15Fine.
Variable overflow_checks : bool.
Variable call_function : bytes -> list fvalue -> fargs -> fvalue.
Variable transform : option (bytes -> bytes).
Variable formatter : option (fvalue -> option bytes).
Variable as_string : bytes -> bytes.
Variable as_string_threadsafe : bytes -> bytes.
Variable unescape_write : bytes -> bytes.
Variable unescape_to_string : bytes -> bytes.
Variable f64_from_str : bytes -> option fval.
Variable cerr : Type.
Variable plural_construct : Memoizer.lang -> ntype -> Memoizer.result rules_fn cerr.
Variable b : bundle.
Variable lang : Memoizer.lang.
Variable rules : ntype -> rules_fn.

Notation run_schedule := (run_schedule overflow_checks call_function transform formatter as_string as_string_threadsafe
                            unescape_write unescape_to_string f64_from_str cerr plural_construct b lang).
Notation sched_step := (sched_step overflow_checks call_function transform formatter as_string as_string_threadsafe
                          unescape_write unescape_to_string f64_from_str cerr plural_construct b).
Notation fb_step := (fb_step overflow_checks call_function transform formatter as_string as_string_threadsafe
                       unescape_write unescape_to_string f64_from_str cerr plural_construct b).
Notation fb_run_from := (fb_run_from overflow_checks call_function transform formatter as_string as_string_threadsafe
                           unescape_write unescape_to_string f64_from_str cerr plural_construct b).
Notation fb_run := (fb_run overflow_checks call_function transform formatter as_string as_string_threadsafe
                      unescape_write unescape_to_string f64_from_str cerr plural_construct b lang).
Notation fb_enabled := (fb_enabled overflow_checks call_function transform formatter as_string as_string_threadsafe
                          unescape_write unescape_to_string f64_from_str cerr b).
Notation commit_order := (commit_order overflow_checks call_function transform formatter as_string as_string_threadsafe
                            unescape_write unescape_to_string f64_from_str cerr plural_construct b).
Notation fb_weight := (fb_weight overflow_checks call_function transform formatter as_string as_string_threadsafe
                         unescape_write unescape_to_string f64_from_str cerr b).
Notation FMutex := (FMutex cerr).
Notation fb_init := (fb_init cerr lang).
Notation fb_proj := (fb_proj cerr).
Notation fb_abs := (fb_abs cerr plural_construct).
Notation fb_finished := (fb_finished cerr).
Notation fb_results := (fb_results cerr).
Notation fb_memo := (fb_memo cerr).
Notation fb_holder := (fb_holder cerr).
Notation fb_threads := (fb_threads cerr).
Notation ct_th := (ct_th cerr).
Notation ct_pc := (ct_pc cerr).
Notation in_cs := (FineGrained.in_cs rules_fn cerr (outcome bool)).
Notation format := (format_pattern overflow_checks call_function transform formatter rules as_string_threadsafe
                      unescape_write unescape_to_string f64_from_str b).

(* MUTUAL EXCLUSION (what `Mutex` is for), in every state of every fine schedule: the mutex is held exactly by the thread that
   is between Lock (concurrent.rs:32) and Unlock (concurrent.rs:45) of a memoizer access — `in_cs (ct_pc ct)` —; that thread is
   at a memoizer access of its current call; no two threads are inside at once.  Nothing in the step function enforces this:
   only Lock looks at `fb_holder`. *)
Theorem C15_fine_grained_mutex :
  forall programs fs,
    let st := fb_run programs fs in
    FMutex st /\
    forall t1 t2 c1 c2,
      nth_error (fb_threads st) t1 = Some c1 -> in_cs (ct_pc c1) = true ->
      nth_error (fb_threads st) t2 = Some c2 -> in_cs (ct_pc c2) = true -> t1 = t2.
Proof.
  intros programs fs st.
  pose proof (fb_mutex overflow_checks call_function transform formatter as_string as_string_threadsafe unescape_write
                unescape_to_string f64_from_str cerr plural_construct b lang programs fs) as HM.
  split; [exact HM|]. intros t1 t2 c1 c2. apply (fmutex_exclusive cerr); exact HM.
Qed.

(* "whatever the interleaving": REDUCTION of every fine schedule to a schedule of the atomic model (the one all theorems
   above are about).  For ANY programs and ANY fine schedule fs, with cs := commit_order (fb_init programs) fs:
   (1) at EVERY point, the state in which the thread inside the critical section (if any) has finished it (`fb_abs`) is the
       state of the atomic model after cs;
   (2) at every QUIESCENT point (nobody holds the mutex) the observable state itself — the memoizer: table, construct
       counter, construct log, poison flag; every thread: call in progress, requests still to issue, finished calls with
       their results (texts, error lists) — IS the state of the atomic model after cs;
   (3) at EVERY point, also in the middle of a critical section, every thread's finished calls and their results are those
       of the atomic model after cs;
   (4) when every thread has finished, nobody holds the mutex, (2) applies, the atomic run has finished too, and every
       request of every thread has been answered, in order. *)
Theorem C15_fine_grained_reduces_to_atomic :
  forall programs fs,
    let st := fb_run programs fs in
    let cs := commit_order (fb_init programs) fs in
    fb_abs st = run_schedule programs cs /\
    (fb_holder st = None -> fb_proj st = run_schedule programs cs) /\
    fb_results st = results_of (run_schedule programs cs) /\
    (fb_finished st = true ->
       fb_holder st = None /\ fb_proj st = run_schedule programs cs /\ finished (run_schedule programs cs) = true /\
       forall tid ct, nth_error (fb_threads st) tid = Some ct -> nth_error programs tid = Some (map fst (t_done (ct_th ct)))).
Proof.
  intros programs fs st cs.
  split; [apply fb_reduction_abs|]. split; [apply fb_reduction|]. split; [apply fb_results_atomic|].
  apply fb_reduction_finished.
Qed.

(* one access is the atomic step (concurrent.rs:32-45 = Memoizer.with_try_get under the guard): from any reachable-like state
   (mutual exclusion holds) with the mutex free, a thread at a memoizer access scheduled alone is back outside after 2..7
   micro-steps, exactly one of which (the Lock) counts in commit_order, and the observable effect is ONE sched_step of the
   atomic model, i.e. ConcurrentBundle.memo_step on the shared memoizer *)
Theorem C15_fine_grained_access_is_atomic_step :
  forall st tid ct rq ty num cat k,
    FMutex st -> fb_holder st = None ->
    nth_error (fb_threads st) tid = Some ct -> t_cur (ct_th ct) = Some (rq, PAsk ty num cat k) ->
    exists j, 2 <= j <= 7 /\ fb_holder (fb_run_from st (repeat tid j)) = None /\
              commit_order st (repeat tid j) = [tid] /\
              fb_proj (fb_run_from st (repeat tid j)) = sched_step (fb_proj st) tid.
Proof.
  exact (fb_access_is_memo_step overflow_checks call_function transform formatter as_string as_string_threadsafe unescape_write
           unescape_to_string f64_from_str cerr plural_construct b).
Qed.

(* conversely the fine model loses no behaviour: every schedule of the atomic model is the observable outcome of some fine
   schedule (so the reduction is onto, and the exhaustive explorations above are explorations of fine outcomes too) *)
Theorem C15_fine_grained_realizes_atomic :
  forall programs cs, exists fs, fb_holder (fb_run programs fs) = None /\ fb_proj (fb_run programs fs) = run_schedule programs cs.
Proof.
  exact (fb_realizes overflow_checks call_function transform formatter as_string as_string_threadsafe unescape_write
           unescape_to_string f64_from_str cerr plural_construct b lang).
Qed.

(* "every formatting request returns the same text and errors as the same request made alone on a single-threaded bundle,
   whatever the interleaving" — now for every FINE schedule, at EVERY point of it (also while some thread is between Lock and
   Unlock): (1) program order; (2) the mutex is not poisoned; (3) every finished call returned Done (text, scope) — no Panic,
   no OutOfFuel — and that pair is what ResolverModel.format_pattern returns single-threadedly for the same request from ANY
   memoizer content c satisfying the memoizer invariant (cold: c = []), up to the memoizer field of the final scope: same
   text, same error list, same function-call log.  By C15_schedule_indep composed with C15_fine_grained_reduces_to_atomic;
   hypotheses as there. *)
Theorem C15_fine_grained_schedule_independent :
  forall programs fs,
    values_are_f64 call_function f64_from_str programs -> constructs_rules cerr plural_construct lang rules ->
    let st := fb_run programs fs in
    map thread_reqs (map ct_th (fb_threads st)) = programs /\
    m_poisoned (fb_memo st) = false /\
    forall tid ct rq r,
      nth_error (fb_threads st) tid = Some ct -> In (rq, r) (t_done (ct_th ct)) ->
      (exists text sc, r = Done (text, sc)) /\
      forall c, cache_ok rules c ->
        r = observe_f (format (fr_args rq) (fuel_of b (fr_pattern rq)) (fr_top rq) (fr_pattern rq) c).
Proof.
  intros programs fs Hv Hc.
  exact (fb_sched_indep overflow_checks call_function transform formatter as_string as_string_threadsafe unescape_write
           unescape_to_string f64_from_str cerr plural_construct b lang rules Hc programs fs Hv).
Qed.

(* "including simultaneous first uses of a plural-rule formatter (cold cache)", for every fine schedule and with NO assumption
   on PluralRules::construct (it may fail).  At EVERY point (also inside a critical section, e.g. between Construct
   concurrent.rs:40 and Insert concurrent.rs:41 of one thread while others wait in lock() concurrent.rs:32):
   (1) the construct log holds at most one successful construction per key;
   (2) every construct call was made with the memoizer's language, for a PluralRules key, and succeeded iff construct does;
   and at every quiescent unpoisoned point, (3) whichever thread stands at a memoizer access for rule type ty: scheduled
   alone it is outside again after 2..7 micro-steps and continues its call with the callback's value on THE instance
   construct returns for (lang, ty) — found in the table if some thread constructed it before, otherwise constructed by
   these micro-steps, exactly once — or, if construct fails, with the unwrap panic (types/mod.rs:210). *)
Theorem C15_fine_grained_cold_cache :
  forall programs fs,
    let st := fb_run programs fs in
    (forall k, length (filter (MemoProofs.c_is_succ k) (m_trace (fb_memo st))) <= 1) /\
    (forall e, In e (m_trace (fb_memo st)) ->
       Memoizer.ev_lang e = lang /\ Memoizer.ev_type e = PLURAL_RULES /\
       exists ty, Memoizer.ev_args e = args_of ty /\
                  Memoizer.ev_ok e = match plural_construct lang ty with Memoizer.Ok _ => true | Memoizer.Err _ => false end) /\
    (forall tid ct rq ty num cat k,
       fb_holder st = None -> m_poisoned (fb_memo st) = false ->
       nth_error (fb_threads st) tid = Some ct -> t_cur (ct_th ct) = Some (rq, PAsk ty num cat k) ->
       exists j, 2 <= j <= 7 /\
         let st' := fb_run programs (fs ++ repeat tid j) in
         fb_holder st' = None /\
         map ct_th (fb_threads st') =
           Memoizer.set_nth tid
             (Thread (Some (rq, resume k (match plural_construct lang ty with
                                          | Memoizer.Ok i => select_callback num cat i
                                          | Memoizer.Err _ => unwrap_panic
                                          end))) (t_todo (ct_th ct)) (t_done (ct_th ct)))
             (map ct_th (fb_threads st)) /\
         (forall i, plural_construct lang ty = Memoizer.Ok i ->
                    length (filter (MemoProofs.c_is_succ (PLURAL_RULES, args_of ty)) (m_trace (fb_memo st'))) = 1) /\
         (forall i, Memoizer.tfind rules_fn (PLURAL_RULES, args_of ty) (Memoizer.lm_table rules_fn (m_lm (fb_memo st))) = Some i ->
                    m_trace (fb_memo st') = m_trace (fb_memo st))).
Proof.
  exact (fb_cold_cache overflow_checks call_function transform formatter as_string as_string_threadsafe unescape_write
           unescape_to_string f64_from_str cerr plural_construct b lang).
Qed.

(* "no request deadlocks", with the lock explicit.  In the state reached by ANY fine schedule:
   (1) a thread that cannot move (`fb_enabled` false: finished, absent, or waiting in lock() concurrent.rs:32 for a held mutex)
       is not moved by being scheduled;
   (2) THE HOLDER NEVER WAITS AND THE LOCK IS ALWAYS RELEASED: whoever holds the mutex can move, and scheduled alone has
       dropped the guard (concurrent.rs:45) after at most 6 of its own steps — between Lock and Unlock it takes no lock and
       waits for no thread (construct and `pr.select(n) == cat` are not processes: they cannot come back to the memoizer);
   (3) if nobody holds the mutex, EVERY thread that has not finished can move;
   (4) every step of a thread that can move lowers fb_weight (7 per atomic step still ahead along the longest branch of each
       pending call, minus the micro-steps already made of the access in flight);
   (5) hence unless all threads have finished some thread can move, and
   (6) the schedule can be extended to one that finishes every thread, with at most fb_weight further steps. *)
Theorem C15_fine_grained_no_deadlock :
  forall programs fs,
    let st := fb_run programs fs in
    (forall tid, fb_enabled st tid = false -> fb_step st tid = st) /\
    (forall h, fb_holder st = Some h ->
       fb_enabled st h = true /\
       exists j, 1 <= j <= 6 /\ fb_holder (fb_run programs (fs ++ repeat h j)) = None) /\
    (fb_holder st = None -> forall tid ct, nth_error (fb_threads st) tid = Some ct -> thread_finished (ct_th ct) = false ->
       fb_enabled st tid = true) /\
    (forall tid, fb_enabled st tid = true -> fb_weight (fb_step st tid) < fb_weight st) /\
    (fb_finished st = false -> exists tid, fb_enabled st tid = true) /\
    exists fs', length fs' <= fb_weight st /\ fb_finished (fb_run programs (fs ++ fs')) = true.
Proof.
  exact (fb_no_deadlock overflow_checks call_function transform formatter as_string as_string_threadsafe unescape_write
           unescape_to_string f64_from_str cerr plural_construct b lang).
Qed.

End C15Fine.

(* non-vacuity: three threads issue the SAME plural select on a cold cache.  All begin their call; thread 1 wins the mutex;
   threads 0 and 2 are scheduled five times while it is inside (no-ops: blocked in lock()); thread 1 misses, constructs, inserts,
   runs its callback, unlocks; thread 2 gets the mutex next (thread 0 blocked once more), hits; then thread 0, hits; all return.
   One construction (call number 0, successful, language en, cardinal); every thread gets the single-threaded answer
   "one <ts:x>" with no errors (C15_example_sequential); the induced atomic schedule is [0;1;2; 1;2;0; 0;1;2] and the final
   state is the atomic model's under it. *)
Example C15_example_fine_grained :
  let programs := [[ex_rq (num "1" Cardinal)]; [ex_rq (num "1" Cardinal)]; [ex_rq (num "1" Cardinal)]] in
  let fs := [0; 1; 2;  1; 0; 1; 2; 1; 0; 1; 1; 2; 1; 1;  2; 0; 2; 2; 2; 2;  0; 0; 0; 0; 0;  0; 1; 2]%nat in
  let L := fun m => Some (FMicro m) in
  let st := fb_run true ex_call None None ex_nts ex_ts ex_id ex_id f64_from_str_exact unit ex_construct ex_b ex_lang programs fs in
  fb_actions true ex_call None None ex_nts ex_ts ex_id ex_id f64_from_str_exact unit ex_construct ex_b (fb_init unit ex_lang programs) fs
  = [(0, Some FBegin); (1, Some FBegin); (2, Some FBegin);
     (1, L FineGrained.MLock); (0, None); (1, L FineGrained.MLookupType); (2, None); (1, L FineGrained.MLookupArgs); (0, None);
     (1, L FineGrained.MConstruct); (1, L FineGrained.MInsert); (2, None); (1, L FineGrained.MCallback); (1, L FineGrained.MUnlock);
     (2, L FineGrained.MLock); (0, None); (2, L FineGrained.MLookupType); (2, L FineGrained.MLookupArgs);
     (2, L FineGrained.MCallback); (2, L FineGrained.MUnlock);
     (0, L FineGrained.MLock); (0, L FineGrained.MLookupType); (0, L FineGrained.MLookupArgs);
     (0, L FineGrained.MCallback); (0, L FineGrained.MUnlock);
     (0, Some FReturn); (1, Some FReturn); (2, Some FReturn)]%nat /\
  commit_order true ex_call None None ex_nts ex_ts ex_id ex_id f64_from_str_exact unit ex_construct ex_b (fb_init unit ex_lang programs) fs
  = [0; 1; 2; 1; 2; 0; 0; 1; 2]%nat /\
  fb_finished unit st = true /\ fb_holder unit st = None /\
  fb_proj unit st = run_schedule true ex_call None None ex_nts ex_ts ex_id ex_id f64_from_str_exact unit ex_construct ex_b ex_lang
                      programs [0; 1; 2; 1; 2; 0; 0; 1; 2]%nat /\
  texts (fb_results unit st) = [[Some (s "one <ts:x>", [])]; [Some (s "one <ts:x>", [])]; [Some (s "one <ts:x>", [])]] /\
  m_trace (fb_memo unit st) = [Memoizer.mk_cevent ex_lang PLURAL_RULES (args_of Cardinal) 0 true].
Proof. vm_compute. repeat split. Qed.

(* poisoning happens where std says it does: thread 0's callback panics under the guard (Callback leaves PRet (Ok (Panic _))), its
   Unlock — the guard dropped by the unwinding — sets the poison flag; thread 1, blocked in lock() meanwhile, then acquires the
   poisoned mutex, `lock().unwrap()` panics, its next step drops the guard again.  Same results as the atomic model
   (C15_example_poison_is_modelled, schedule [0;0;0;1;1;1]). *)
Example C15_example_fine_grained_poison :
  let programs := [[ex_rq ex_bad]; [ex_rq (num "1" Cardinal)]] in
  let fs := [0; 0; 1; 1;  0; 0; 0; 0; 0;  1;  0;  1; 1;  0; 1]%nat in
  let L := fun m => Some (FMicro m) in
  let st := fb_run true ex_call None None ex_nts ex_ts ex_id ex_id f64_from_str_exact unit ex_construct ex_b ex_lang programs fs in
  map snd (fb_actions true ex_call None None ex_nts ex_ts ex_id ex_id f64_from_str_exact unit ex_construct ex_b
             (fb_init unit ex_lang programs) fs)
  = [Some FBegin; L FineGrained.MLock; Some FBegin; None;
     L FineGrained.MLookupType; L FineGrained.MLookupArgs; L FineGrained.MConstruct; L FineGrained.MInsert; L FineGrained.MCallback;
     None; L FineGrained.MUnlock;  L FineGrained.MLock; L FineGrained.MUnlock;  Some FReturn; Some FReturn] /\
  fb_finished unit st = true /\ fb_holder unit st = None /\ m_poisoned (fb_memo unit st) = true /\
  map (map (fun x => match snd x with Panic t => Some t | _ => None end)) (fb_results unit st)
  = [[Some "Failed to generate operands out of FluentNumber"%string]; [Some "PoisonError"%string]].
Proof. vm_compute. repeat split. Qed.

Print Assumptions C15_fine_grained_mutex.
Print Assumptions C15_fine_grained_reduces_to_atomic.
Print Assumptions C15_fine_grained_access_is_atomic_step.
Print Assumptions C15_fine_grained_realizes_atomic.
Print Assumptions C15_fine_grained_schedule_independent.
Print Assumptions C15_fine_grained_cold_cache.
Print Assumptions C15_fine_grained_no_deadlock.

(* Props/C02.v — Well-formed FTL parses to exactly the tree the grammar assigns.
   Only statements here; proofs are in Syntax/ParseLemmas.v, RoundTrip.v, EntryLoop.v, RoundTripML.v, CallArgs.v, RoundTripSel.v, ArgsNest.v,
   RoundTripNest.v and WfComplete.v.
   The grammar is Syntax/Render.v: `render cs t` prints the tree t with the layout choices cs, and
   `wf_resource t` says that t is well-formed (together with WfUtf8.wf_utf8_resource: its strings are UTF-8).

   STATED ONLY (a Definition, Prop-valued):
     C02_roundtrip_statement      parse (render cs t) gives t back (after joining adjacent text elements),
                                  without errors, for every well-formed t and every layout cs
   and, as the code stands, it is FALSE: finding D7 (a comment whose last line is empty, printed as the last
   line of the file without a line end, loses that line) is a counterexample, proved here:
     C02_roundtrip_statement_refuted_by_D7
   PROVED FOR ALL WELL-FORMED TREES EXCEPT THE SHAPE OF D7, for ALL layouts cs:
     C02_roundtrip_wellformed_partial          the statement with ONE extra premise, RoundTrip.last_comment_ok t: if
                                               the LAST entry of t is a stand-alone comment (#, ## or ###), its last
                                               line is not empty.  Nothing else is excluded: every tree with
                                               wf_resource t, wf_utf8_resource t and last_comment_ok t parses back,
                                               without errors, to a tree that joins to t.  (Comments whose last line
                                               consists of spaces, and comments with an empty last line anywhere but
                                               at the very end of the resource, are covered.)
     C02_layout_independent_wellformed_partial the parsed tree (joined) does not depend on the layout, same premises
   The premise excludes exactly the shape of finding D7 (printed last and without a final line end, the empty
   last line of the comment is the bare "#" at the end of the input, which the parser drops), and there the
   statement is FALSE (Syntax/D7Exact.v):
     C02_wellformed_refuted_exactly            for every well-formed UTF-8 tree whose last entry is a stand-alone
                                               comment with at least two lines and an empty last line, the
                                               statement fails: it is not the case that all layouts parse back
     C02_D7_parse                              ... because the layout `render [] t` (first option everywhere: no
                                               final line end) parses, without errors, to a tree that joins to
                                               t WITHOUT that last comment line
     C02_D7_excluded                           these trees are exactly what last_comment_ok rejects among the
                                               trees whose last comment has two or more lines
     C02_example_D7_one_line_1/2/3             a last comment that is ONE empty line is returned with ZERO lines
                                               (by computation, for #, ## and ###, with an entry in front)
   Beyond the layouts that Render.v can choose (0-2 spaces, ...), the same holds for ALL layouts of a tree:
     C02_parse_all_layouts_partial             for every well-formed UTF-8 tree t and every text bs that is a layout of t
                                               (RoundTripNest.nest_layout d t bs, d the depth of t: ANY number of blank
                                               lines with any spaces at the start and between entries, any number
                                               of spaces around '=', any indentation >= 1 of attribute lines and of
                                               continuation lines, inline or block start of a value, blanks of any
                                               length inside { } [ ] ( ), LF or CRLF, with or without final line
                                               end), parse bs returns, without errors, a tree that joins to t
     C02_rendered_is_layout                    render cs t is such a layout when last_comment_ok t
   For ARBITRARY SOURCES (not only rendered ones): the tree of an error-free source without a lone CR (every CR is
   followed by LF: LF or CR LF line ends; ParserLines.no_lone_cr, executable) is a tree of the grammar and every
   re-layout of it parses back to it (Syntax/ParserLines.v: a new invariant of the pattern loop):
     C02_errorfree_source_tree_wellformed_crlf_partial   utf8_valid bs, no_lone_cr bs, parse bs = Done (t, []) and
                                               comments_nonempty t (executable: every comment has a line) imply
                                               wf_resource and wf_utf8_resource of the joined tree
     C02_relayout_errorfree_source_crlf_partial   ... and then parse (render cs (joined t)) joins to the joined t again,
                                               for EVERY layout cs (premise last_comment_ok as everywhere)
     C02_errorfree_source_tree_wellformed_partial, C02_relayout_errorfree_source_partial   the special case nocr bs (no
                                               CR at all) of the two
   Not covered: sources with a CR that is not followed by LF (Render.v leaves the lone CR out of the grammar).
   and the rendered source is a Rust str, so that C01 applies to it:
     C02_rendered_source_is_utf8               wf_utf8_resource t -> utf8_valid (render cs t) (Syntax/RenderFacts.v)
   How: the fragments nest_resource d below (RoundTripNest.v; d = nesting depth) extend sel_resource d by NESTED
   CALL ARGUMENTS: a positional argument may be any inline expression (a call, a term attribute, a placeable
   that holds any expression, select expressions included); and WfComplete.v proves that they are COMPLETE:
     C02_roundtrip_nested_partial              the statement on nest_resource d
     C02_nested_is_wellformed                  nest_resource d lies inside wf_resource
     C02_nested_depth_monotone                 nest_resource d is contained in nest_resource d' for d <= d'
     C02_select_in_nested                      sel_resource d is contained in nest_resource (d+1)
     C02_wellformed_in_nested                  wf_resource t and wf_utf8_resource t imply nest_resource d t for
                                               some d (no condition on comments: the fragments contain ALL
                                               well-formed trees; the theorems about them have the premise
                                               last_comment_ok t)
   PROVED FOR THE FRAGMENTS sel_resource d (RoundTripSel.v; d = nesting depth of placeables, any d), for ALL
   layouts cs (RoundTripML.v: the pattern level, generic in the placeables; EntryLoop.v: the entry level):
     C02_roundtrip_select_partial              the statement restricted to the fragment
     C02_select_is_wellformed                  the fragment lies inside wf_resource
     C02_layout_independent_select_partial     the parsed tree, after joining adjacent text elements, does
                                               not depend on the layout (the parser returns one text element
                                               per line, and how a line break is split may depend on LF/CRLF)
     C02_select_depth_monotone                 sel_resource d is contained in sel_resource (d+1)
   the same at depth 0 (placeables hold an inline expression that is not a placeable; names kept from the
   previous step):
     C02_roundtrip_multiline_partial, C02_multiline_is_wellformed, C02_layout_independent_multiline_partial
   and for the sub-fragment simple_resource of depth 0 (RoundTrip.v: one-line patterns; C02_simple_in_multiline),
   where the parser returns the tree itself:
     C02_roundtrip_simple_partial, C02_simple_is_wellformed, C02_layout_independent_simple_partial
   PLACEABLES of depth d (RoundTripSel.eokd d):
     depth 0 (CallArgs.binline): a variable reference, a message reference with or without attribute, a term
       reference without attribute, with or without CALL ARGUMENTS, a FUNCTION REFERENCE (callee: an upper-case
       letter, then upper-case letters, digits, '_' '-') with call arguments, a number literal or a string
       literal (any escapes).
       Call arguments (CallArgs.args_ok), possibly none at all "()": the positional arguments are variable
       references, message references (with or without attribute), term references without attribute and
       arguments, number or string literals; the named arguments have well-formed pairwise distinct names and a
       number or string literal as value (what the grammar allows);
     depth d+1: one of these, or a placeable around an expression of depth d ("{ { $x } }"), or a SELECT
       expression: the selector (CallArgs.bsel) is a string literal, a number literal, a variable reference, a
       function reference with call arguments as above, or a TERM ATTRIBUTE "-term.attr" with or without such
       call arguments; exactly one variant is the default; keys are well-formed identifiers or numbers; every
       variant value is a pattern as described below whose placeables have depth d (so values may have several
       lines, and selects nest).
   The fragment (sel_resource d = RoundTripML.ml_resource (eokd d)): every entry is
     * a stand-alone comment of any of the three levels (#, ##, ###), or
     * a message or a term, with or without an attached comment; its value and the value of each of its
       attributes is a pattern (RoundTripML.ml_pattern): a non-empty sequence of text elements (not empty,
       no two in a row) and placeables of depth d.  Text may contain LINE BREAKS (LF): every line is free of
       '{' '}' CR, its first
       byte is not a UTF-8 continuation byte; a line after a line break
         - may be indented by any number of spaces (extra indentation, kept by the parser),
         - may be empty (a blank line inside the pattern), but a line of spaces only must be empty unless a
           placeable follows it on the same line (then the spaces are that line's indentation),
         - otherwise its first byte after the indentation is none of . [ *
       and if the pattern has a line break at all (class RoundTripML.wl_pattern, Render.wf_pattern_lines_top;
       the same rule for the values of messages, terms, attributes and VARIANTS),
         - at least one non-blank line after the first has no indentation (the common indentation is 0), or
         - ALL lines after the first are indented deeper than the first, and the first byte of the pattern
           is none of . [ *   Such a tree has a source only in BLOCK form (the value starts on a line after
           the '=' or after the variant key, where the first line takes part in the common indentation that
           the parser removes): Render.render_value_with prints it in block form whatever the layout choice
           (Render.needs_block), and the layouts of RoundTripNest.nest_layout allow the inline form only in the
           first case.  In inline form the parser would remove the extra indentation and return ANOTHER tree
           (C02_example_block_only_inline_differs); a first byte . [ * cannot start a block line, so such a
           tree with all continuation lines indented has no source at all and is not well-formed.
         - The FIRST line may be indented as well (the first text starts with spaces; reference fixture
           multiline_values.ftl, key10: "  two\nzero\n    four"): block form only again, the first line is then a
           line like the others (not blank; after its spaces it does not start with . [ * , or the spaces are
           the indentation of a placeable), and some line after it is not indented (C02_example_first_line_indented).
       The pattern does not start with a line break (with a space only as just described) and does not end
       with a space or a line break.  A message may have no value if it
       has attributes; identifiers, numbers and strings well-formed.
     A comment (attached or stand-alone) has at least one line; no CR LF in a line; the first byte of a line
     is not a UTF-8 continuation byte; lines may be empty or consist of spaces only.  The theorems have the
     premise last_comment_ok t (D7: the last entry is not a stand-alone comment with an empty last line).
   All layouts render can choose for such trees are covered: 0-2 spaces before and after '=', inline or
   block start of each value (with an optional blank line; block start only, if all its continuation lines are
   indented), the indentation of the lines of a value after
   a line break (4-6 spaces, 8-10 in an attribute, the same for all lines of the value; the parser removes
   it), 0-1 spaces on a blank line inside a value (the proof: any number of spaces, since the repair of finding D33
   the parser returns "LF" for a blank line whatever spaces it carries), blanks (spaces and line
   breaks) inside the braces of a placeable; for call arguments: blanks (0-2 spaces or a line break with
   indentation) between the callee and "(", after "(", before and after every ",", around the ":" of a named
   argument and before ")", and an optional trailing "," after the last argument; for a select expression: 0-2 spaces or a line break before
   "->" (one space at least after a selector that ends in an identifier character), 0-2 spaces after it, the
   variants on lines of their own indented by the pattern's indentation plus 0-2, an optional blank line
   before a variant, blanks inside "[ ]", 0-2 spaces before the value, inline or block start of the value (as
   after '='), the value's further lines indented by 4-6 more, 0-2 spaces and an optional line break before the closing brace; attribute lines indented by 1-3 spaces, 0-2 blank lines at the
   start, no blank line between an attached comment and its entry, the blank lines the grammar
   requires after a stand-alone comment (so that it neither attaches to the next message nor merges with the
   next comment) plus 0-2 more between any two entries, 0-2 spaces on blank
   lines, LF or CRLF at every line end (also inside a value), final line end absent / present / followed by a
   blank line.  (The proof covers more: any indentation >= 1, any number of spaces and blank lines.)
   EXCLUDED from sel_resource d: call arguments that are
   themselves calls (function references, term references with arguments or attribute) or placeables (these
   are in nest_resource d); term references with attribute outside a selector or an argument (the grammar
   forbids them there) and message references / term references without attribute as selectors (likewise); Junk.
   Examples (vm_compute) for trees outside the fragment: C02_example_xxx.                            *)
From FluentV Require Import Base.Bytes Base.Outcome Base.Utf8 Syntax.Ast.
From FluentV Require Import Syntax.ParserModel Syntax.Render Syntax.TreeNorm Syntax.WfUtf8 Syntax.RoundTrip Syntax.RoundTripML Syntax.RoundTripSel.
From FluentV Require Import Syntax.RoundTripNest Syntax.WfComplete Syntax.RenderFacts Syntax.D7Exact.
From FluentV Require Import Syntax.ParserUtf8 Syntax.ParserBridge Syntax.ParserLines Syntax.ParserWf.

(* "Every resource that is well-formed under the Fluent 1.0 grammar parses without errors or Junk and
   yields exactly the entries the grammar assigns to it ...  The tree does not depend on layout choices
   the grammar declares insignificant."
   Well-formed: Render.wf_resource, and every string of the tree is valid UTF-8 (WfUtf8.wf_utf8_resource: the
   parser takes a Rust str, and `render` only adds ASCII bytes between the strings of the tree). *)
Definition C02_roundtrip_statement : Prop :=
  forall cs t, wf_resource t = true -> wf_utf8_resource t = true ->
  exists t', parse (render cs t) = Done (t', []) /\ map join_entry t' = t.

(* the statement for ALL well-formed trees but those of the shape of finding D7: if the last entry is a stand-alone
   comment, its last line is not empty (RoundTrip.last_comment_ok; see C02_roundtrip_statement_refuted_by_D7) *)
Theorem C02_roundtrip_wellformed_partial :
  forall cs t, wf_resource t = true -> wf_utf8_resource t = true -> last_comment_ok t = true ->
  exists t', parse (render cs t) = Done (t', []) /\ map join_entry t' = t.
Proof. exact parse_render_wf. Qed.

Theorem C02_layout_independent_wellformed_partial :
  forall cs1 cs2 t, wf_resource t = true -> wf_utf8_resource t = true -> last_comment_ok t = true ->
  exists t1 t2, parse (render cs1 t) = Done (t1, []) /\ parse (render cs2 t) = Done (t2, []) /\
                map join_entry t1 = map join_entry t2.
Proof.
  intros cs1 cs2 t Hw Hu Hc. destruct (parse_render_wf cs1 t Hw Hu Hc) as (t1 & E1 & J1).
  destruct (parse_render_wf cs2 t Hw Hu Hc) as (t2 & E2 & J2). exists t1, t2. rewrite J1, J2. auto.
Qed.

(* ... and on the excluded trees the statement is false: the layout without a final line end loses the line *)
Theorem C02_D7_parse :
  forall t0 e e', d7_pair e e' -> wf_resource (t0 ++ [e]) = true -> wf_utf8_resource (t0 ++ [e]) = true ->
  exists t', parse (render [] (t0 ++ [e])) = Done (t', []) /\ map join_entry t' = t0 ++ [e'].
Proof. exact d7_parse. Qed.

Theorem C02_wellformed_refuted_exactly :
  forall t0 e e', d7_pair e e' -> wf_resource (t0 ++ [e]) = true -> wf_utf8_resource (t0 ++ [e]) = true ->
  ~ (forall cs, exists t', parse (render cs (t0 ++ [e])) = Done (t', []) /\ map join_entry t' = t0 ++ [e]).
Proof. exact d7_refuted. Qed.

(* d7_pair e e': e is a stand-alone comment (#, ## or ###) of two or more lines whose last line is empty, e' the same
   comment without that line; these are the trees that last_comment_ok rejects *)
Theorem C02_D7_excluded : forall t0 e e', d7_pair e e' -> last_comment_ok (t0 ++ [e]) = false.
Proof.
  intros t0 e e' Hp. unfold last_comment_ok. destruct (t0 ++ [e]) eqn:E; [destruct t0; discriminate E|]. rewrite <- E, last_last.
  destruct Hp as [ls _ | ls _ | ls _]; cbn [eof_okb content]; rewrite last_last; reflexivity.
Qed.

(* every layout, not only those that Render.v can choose *)
Theorem C02_parse_all_layouts_partial :
  forall t, wf_resource t = true -> wf_utf8_resource t = true ->
  exists d, nest_resource d t = true /\
            forall bs, nest_layout d t bs -> exists t', parse bs = Done (t', []) /\ map join_entry t' = t.
Proof.
  intros t Hw Hu. destruct (wf_resource_nest t Hw Hu) as [d Hd]. exists d. split; [exact Hd|].
  intros bs HL. apply (parse_layout_nest d t bs Hd HL).
Qed.

Theorem C02_rendered_is_layout :
  forall d cs t, nest_resource d t = true -> last_comment_ok t = true -> nest_layout d t (render cs t).
Proof. exact render_nest_layout. Qed.

(* ... and the converse direction, for arbitrary sources: the tree the parser returns for an error-free source without
   a lone CR (every CR is followed by LF) is a tree of the grammar (well-formed when joined; Syntax/ParserWf.v, ParserLines.v), so every re-layout of it
   parses back to it: the tree of a source does not depend on its layout.  comments_nonempty: every comment has a line
   (executable; excludes exactly the zero-line comment of finding D7). *)
Theorem C02_errorfree_source_tree_wellformed_crlf_partial :
  forall bs t, utf8_valid bs = true -> no_lone_cr bs = true -> parse bs = Done (t, []) -> comments_nonempty t = true ->
  wf_resource (map join_entry t) = true /\ wf_utf8_resource (map join_entry t) = true.
Proof.
  intros bs t Hb Hn Hp Hc. split; [apply (parse_wf_errorfree_crlf bs t Hp Hn Hc) | apply join_utf8, (parse_utf8 bs t [] Hb Hp)].
Qed.

Theorem C02_relayout_errorfree_source_crlf_partial :
  forall bs t cs, utf8_valid bs = true -> no_lone_cr bs = true -> parse bs = Done (t, []) -> comments_nonempty t = true ->
  last_comment_ok (map join_entry t) = true ->
  exists t', parse (render cs (map join_entry t)) = Done (t', []) /\ map join_entry t' = map join_entry t.
Proof.
  intros bs t cs Hb Hn Hp Hc Hl. destruct (C02_errorfree_source_tree_wellformed_crlf_partial bs t Hb Hn Hp Hc) as [Hw Hu].
  apply (parse_render_wf cs (map join_entry t) Hw Hu Hl).
Qed.

(* the special case of a source without any CR *)
Theorem C02_errorfree_source_tree_wellformed_partial :
  forall bs t, utf8_valid bs = true -> nocr bs = true -> parse bs = Done (t, []) -> comments_nonempty t = true ->
  wf_resource (map join_entry t) = true /\ wf_utf8_resource (map join_entry t) = true.
Proof. intros bs t Hb Hn. apply (C02_errorfree_source_tree_wellformed_crlf_partial bs t Hb (nocr_no_lone bs Hn)). Qed.

Theorem C02_relayout_errorfree_source_partial :
  forall bs t cs, utf8_valid bs = true -> nocr bs = true -> parse bs = Done (t, []) -> comments_nonempty t = true ->
  last_comment_ok (map join_entry t) = true ->
  exists t', parse (render cs (map join_entry t)) = Done (t', []) /\ map join_entry t' = map join_entry t.
Proof. intros bs t cs Hb Hn. apply (C02_relayout_errorfree_source_crlf_partial bs t cs Hb (nocr_no_lone bs Hn)). Qed.

(* the text that is parsed is a Rust str (the domain of property C01) *)
Theorem C02_rendered_source_is_utf8 : forall cs t, wf_utf8_resource t = true -> utf8_valid (render cs t) = true.
Proof. exact render_utf8. Qed.

(* the fragments with nested call arguments, and their completeness *)
Theorem C02_roundtrip_nested_partial :
  forall d cs t, nest_resource d t = true -> last_comment_ok t = true ->
  exists t', parse (render cs t) = Done (t', []) /\ map join_entry t' = t.
Proof. exact parse_render_nest. Qed.

Theorem C02_nested_is_wellformed : forall d t, nest_resource d t = true -> wf_resource t = true.
Proof. exact nest_resource_wf. Qed.

Theorem C02_nested_depth_monotone : forall d d' t, d <= d' -> nest_resource d t = true -> nest_resource d' t = true.
Proof. exact nest_resource_mono. Qed.

Theorem C02_select_in_nested : forall d t, sel_resource d t = true -> nest_resource (S d) t = true.
Proof. exact sel_resource_nest. Qed.

Theorem C02_wellformed_in_nested :
  forall t, wf_resource t = true -> wf_utf8_resource t = true -> exists d, nest_resource d t = true.
Proof. exact wf_resource_nest. Qed.

(* the same statement for the trees of the fragments (no UTF-8 premise needed there); d: nesting depth *)
Theorem C02_roundtrip_select_partial :
  forall d cs t, sel_resource d t = true -> last_comment_ok t = true ->
  exists t', parse (render cs t) = Done (t', []) /\ map join_entry t' = t.
Proof. exact parse_render_sel. Qed.

Theorem C02_select_is_wellformed : forall d t, sel_resource d t = true -> wf_resource t = true.
Proof. exact sel_resource_wf. Qed.

(* layout independence on the fragment: "the tree does not depend on layout choices" *)
Theorem C02_layout_independent_select_partial :
  forall d cs1 cs2 t, sel_resource d t = true -> last_comment_ok t = true ->
  exists t1 t2, parse (render cs1 t) = Done (t1, []) /\ parse (render cs2 t) = Done (t2, []) /\
                map join_entry t1 = map join_entry t2.
Proof.
  intros d cs1 cs2 t Ht Hl. destruct (parse_render_sel d cs1 t Ht Hl) as (t1 & E1 & J1).
  destruct (parse_render_sel d cs2 t Ht Hl) as (t2 & E2 & J2). exists t1, t2. rewrite J1, J2. auto.
Qed.

Theorem C02_select_depth_monotone : forall d t, sel_resource d t = true -> sel_resource (S d) t = true.
Proof. exact sel_resource_mono. Qed.

(* depth 0: multi-line patterns whose placeables hold an inline expression of CallArgs.binline (references,
   literals, function / term references with call arguments) *)
Theorem C02_roundtrip_multiline_partial :
  forall cs t, sel_resource 0 t = true -> last_comment_ok t = true ->
  exists t', parse (render cs t) = Done (t', []) /\ map join_entry t' = t.
Proof. exact (parse_render_sel 0). Qed.

Theorem C02_multiline_is_wellformed : forall t, sel_resource 0 t = true -> wf_resource t = true.
Proof. exact (sel_resource_wf 0). Qed.

Theorem C02_layout_independent_multiline_partial :
  forall cs1 cs2 t, sel_resource 0 t = true -> last_comment_ok t = true ->
  exists t1 t2, parse (render cs1 t) = Done (t1, []) /\ parse (render cs2 t) = Done (t2, []) /\
                map join_entry t1 = map join_entry t2.
Proof. exact (C02_layout_independent_select_partial 0). Qed.

(* the one-line sub-fragment, where the parser returns the printed tree itself *)
Theorem C02_simple_in_multiline : forall t, simple_resource t = true -> sel_resource 0 t = true.
Proof. exact simple_resource_sel. Qed.

Theorem C02_roundtrip_simple_partial :
  forall cs t, simple_resource t = true ->
  exists t', parse (render cs t) = Done (t', []) /\ map join_entry t' = t.
Proof.
  intros cs t Ht. exists t. split; [apply parse_render_simple, Ht | apply simple_resource_join, Ht].
Qed.

Theorem C02_simple_is_wellformed : forall t, simple_resource t = true -> wf_resource t = true.
Proof. exact simple_resource_wf. Qed.

(* layout independence on the fragment *)
Theorem C02_layout_independent_simple_partial :
  forall cs1 cs2 t, simple_resource t = true -> parse (render cs1 t) = parse (render cs2 t).
Proof. intros cs1 cs2 t Ht. rewrite !parse_render_simple by exact Ht. reflexivity. Qed.

(* D7: the well-formed tree "one comment with one empty line", printed without a final line end, is "#";
   the parser returns a comment with NO line. *)
Theorem C02_roundtrip_statement_refuted_by_D7 : ~ C02_roundtrip_statement.
Proof.
  intros H. destruct (H [] [CommentEntry (Comment [[]])] eq_refl eq_refl) as [t' [Hp Hj]].
  vm_compute in Hp. injection Hp as <-. vm_compute in Hj. discriminate Hj.
Qed.

(* ---------------------------------------------------------------------------------------------- *)
(* Non-vacuity, and trees OUTSIDE the fragment under several layouts (by computation)              *)

Local Notation b := bytes_of_string.

Definition roundtrips_under (cs : choices) (t : resource) : Prop :=
  wf_resource t = true /\ exists t', parse (render cs t) = Done (t', []) /\ map join_entry t' = t.

Local Ltac rt := split; [vm_compute; reflexivity | eexists; split; vm_compute; reflexivity].

(* inside the fragment: a message and a term *)
Definition ex_simple : resource :=
  [ResourceComment (Comment [b "Resource"; []; b "comment"]);
   GroupComment (Comment [b "a group"]);
   GroupComment (Comment [b "another group"]);
   CommentEntry (Comment [b "free, not attached"; b "   "; []; b "still free"]);
   Message (b "hello")
           (Some (Pattern [TextElement (b "Hello, "); PlaceableElement (Inline (VariableReference (b "user")));
                           TextElement (b "! You have "); PlaceableElement (Inline (NumberLiteral (b "-3.5")));
                           PlaceableElement (Inline (TermReference (b "unit") None None)); TextElement (b " from ");
                           PlaceableElement (Inline (MessageReference (b "app") (Some (b "name"))));
                           PlaceableElement (Inline (StringLiteral (b "\u00e9{")))]))
           [Attribute (b "title") (Pattern [TextElement (b "*Hi*")]);
            Attribute (b "x-y") (Pattern [PlaceableElement (Inline (MessageReference (b "dot") None)); TextElement (b " .dot")])] None;
   Message (b "only-attrs") None [Attribute (b "a") (Pattern [TextElement (b "b")])] (Some (Comment [b "attached"; b "comment"]));
   Term (b "brand") (Pattern [TextElement (b "[Fluent]")]) [] None;
   CommentEntry (Comment [b "the end"])].
Example C02_example_simple_in_fragment : simple_resource ex_simple = true.
Proof. vm_compute. reflexivity. Qed.
(* ... and one concrete layout of it, by computation (the theorem gives all of them) *)
Example C02_example_simple_layout :
  roundtrips_under [2;3;1;3;0;3;2;2;3;1;1;3;2;0;3;1;2;2;1;3;3;2;1;0;1;2;3;3;2;1;2;2;3;0;1;3;2;2;1;1;3] ex_simple.
Proof. rt. Qed.

(* inside the fragment: multi-line values (extra indentation, a blank line inside, a line led by a placeable),
   also in an attribute *)
Definition ex_ml : resource :=
  [CommentEntry (Comment [b "free"]);
   Term (b "t")
     (Pattern [TextElement (b "first" ++ [10%N] ++ b "  indented" ++ [10; 10]%N ++ b "last ");
               PlaceableElement (Inline (MessageReference (b "m") (Some (b "a"))));
               TextElement ([10%N] ++ b "   ");
               PlaceableElement (Inline (StringLiteral (b "A{"))); TextElement (b " x")])
     [Attribute (b "attr") (Pattern [PlaceableElement (Inline (VariableReference (b "v")));
                                     TextElement ([10%N] ++ b "second" ++ [10%N] ++ b " third")])]
     (Some (Comment [b "attached"]));
   Message (b "m") (Some (Pattern [TextElement (b "one line")])) [] None].
(* inside the fragment: values whose continuation lines are ALL indented deeper than the first line (a message value
   led by a placeable, an attribute value); Render.v prints them in block form under every layout choice *)
Definition ex_block_only : resource :=
  [Message (b "a") (Some (Pattern [PlaceableElement (Inline (MessageReference (b "m") None)); TextElement ([10%N] ++ b "  x")]))
     [Attribute (b "t") (Pattern [TextElement (b "one" ++ [10%N] ++ b " two" ++ [10%N] ++ b "   three")])] None].
Example C02_example_block_only_in_fragment : sel_resource 0 ex_block_only = true /\ wf_resource ex_block_only = true.
Proof. vm_compute. split; reflexivity. Qed.
Example C02_example_block_only_rendered :
  render [] ex_block_only =
  b "a=" ++ [10%N] ++ b "    {m}" ++ [10%N] ++ b "      x" ++ [10%N] ++ b " .t=" ++ [10%N] ++ b "        one" ++ [10%N] ++
  b "         two" ++ [10%N] ++ b "           three".
Proof. vm_compute. reflexivity. Qed.
Example C02_example_block_only_layout_1 : roundtrips_under [] ex_block_only.
Proof. rt. Qed.
Example C02_example_block_only_layout_2 : roundtrips_under [1;1;1;1;1;1;1;1;1;1;1;1;1;1;1;1;1;1;1;1;1] ex_block_only.
Proof. rt. Qed.
Example C02_example_block_only_layout_3 : roundtrips_under [2;0;1;2;2;1;0;2;1;2;2;0;1;1;2;0;2;1;2;2;1;0] ex_block_only.
Proof. rt. Qed.
(* the inline form of the same value is a source of ANOTHER tree: the parser removes the indentation of "  x" *)
Example C02_example_block_only_inline_differs :
  exists t', parse (b "a = { m }" ++ [10%N] ++ b "      x" ++ [10%N]) = Done (t', []) /\
             map join_entry t' =
             [Message (b "a") (Some (Pattern [PlaceableElement (Inline (MessageReference (b "m") None)); TextElement ([10%N] ++ b "x")])) [] None].
Proof. eexists. split; vm_compute; reflexivity. Qed.

(* values whose FIRST line is indented (reference fixture multiline_values.ftl: key10, key13), and a first text that
   is the indentation of a placeable *)
Definition ex_first_line_indented : resource :=
  [Message (b "key10") (Some (Pattern [TextElement (b "  two" ++ [10%N] ++ b "zero" ++ [10%N] ++ b "    four")]))
     [Attribute (b "a") (Pattern [TextElement (b "    four" ++ [10%N]); PlaceableElement (Inline (StringLiteral (b ".")))]);
      Attribute (b "c") (Pattern [TextElement (b "  "); PlaceableElement (Inline (StringLiteral (b "."))); TextElement ([10%N] ++ b "x")])] None].
Example C02_example_first_line_indented_in_fragment :
  sel_resource 0 ex_first_line_indented = true /\ wf_resource ex_first_line_indented = true.
Proof. vm_compute. split; reflexivity. Qed.
Example C02_example_first_line_indented_layout_1 : roundtrips_under [] ex_first_line_indented.
Proof. rt. Qed.
Example C02_example_first_line_indented_layout_2 : roundtrips_under [1;1;1;1;1;1;1;1;1;1;1;1;1;1;1;1;1;1;1;1] ex_first_line_indented.
Proof. rt. Qed.
Example C02_example_first_line_indented_layout_3 : roundtrips_under [3;3;3;3;3;3;3;3;3;3;3;3;3;3;3;3;3;3;3] ex_first_line_indented.
Proof. rt. Qed.
(* the source of the reference fixture *)
Example C02_example_first_line_indented_fixture :
  exists t', parse (b "key10 =" ++ [10%N] ++ b "      two" ++ [10%N] ++ b "    zero" ++ [10%N] ++ b "        four" ++ [10%N]) = Done (t', []) /\
             map join_entry t' = [Message (b "key10") (Some (Pattern [TextElement (b "  two" ++ [10%N] ++ b "zero" ++ [10%N] ++ b "    four")])) [] None].
Proof. eexists. split; vm_compute; reflexivity. Qed.

(* the same inside a select expression: variant values whose continuation lines are all indented *)
Definition ex_block_only_variants : resource :=
  [Message (b "a") (Some (Pattern [PlaceableElement (Select (VariableReference (b "n"))
      [Variant (KeyIdentifier (b "one")) (Pattern [TextElement (b "first" ++ [10%N] ++ b "  second")]) false;
       Variant (KeyIdentifier (b "x")) (Pattern [PlaceableElement (Inline (VariableReference (b "n"))); TextElement ([10%N] ++ b " y")]) true])])) [] None].
Example C02_example_block_only_variants_in_fragment :
  sel_resource 1 ex_block_only_variants = true /\ wf_resource ex_block_only_variants = true.
Proof. vm_compute. split; reflexivity. Qed.
Example C02_example_block_only_variants_rendered :
  render [] ex_block_only_variants =
  b "a={$n ->" ++ [10%N] ++ b "    [one]" ++ [10%N] ++ b "        first" ++ [10%N] ++ b "          second" ++ [10%N] ++
  b "    *[x]" ++ [10%N] ++ b "        {$n}" ++ [10%N] ++ b "         y" ++ [10%N] ++ b "}".
Proof. vm_compute. reflexivity. Qed.
Example C02_example_block_only_variants_layout_1 : roundtrips_under [] ex_block_only_variants.
Proof. rt. Qed.
Example C02_example_block_only_variants_layout_2 :
  roundtrips_under [1;2;1;2;1;2;1;2;1;2;1;2;1;2;1;2;1;2;1;2;1;2;1;2;1;2;1;2;1;2] ex_block_only_variants.
Proof. rt. Qed.

Example C02_example_ml_in_fragment : sel_resource 0 ex_ml = true.
Proof. vm_compute. reflexivity. Qed.
Example C02_example_ml_layout_1 : roundtrips_under [] ex_ml.
Proof. rt. Qed.
Example C02_example_ml_layout_2 :
  roundtrips_under [2;1;3;2;2;3;1;1;3;0;2;3;3;2;1;2;3;1;1;1;3;2;2;2;3;1;0;1;3;3;2;2;1;3;2;2;1;1;3;3;2;1;2;3;3;1;2;0;3] ex_ml.
Proof. rt. Qed.
(* the parser's tree has one text element per line: it is not the printed tree, only joins to it *)
Example C02_example_ml_split : forall t', parse (render [] ex_ml) = Done (t', []) -> t' <> ex_ml.
Proof. intros t' H. vm_compute in H. injection H as <-. discriminate. Qed.

(* inside the fragment of depth 2: a select with identifier and number keys, a multi-line variant value, a
   nested select inside a variant, a placeable around a placeable; also as the whole value of an attribute *)
Definition ex_sel : resource :=
  [Message (b "emails")
     (Some (Pattern [TextElement (b "You have ");
                     PlaceableElement (Select (VariableReference (b "n"))
                        [Variant (KeyIdentifier (b "one")) (Pattern [TextElement (b "one email")]) false;
                         Variant (KeyNumber (b "2")) (Pattern [TextElement (b "two" ++ [10%N] ++ b "lines" ++ [10%N] ++ b "  of text")]) false;
                         Variant (KeyIdentifier (b "other"))
                           (Pattern [PlaceableElement (Inline (Placeable (Inline (VariableReference (b "n")))));
                                     TextElement (b " emails ");
                                     PlaceableElement (Select (StringLiteral (b "x"))
                                        [Variant (KeyNumber (b "-1.5")) (Pattern [TextElement (b "[a]")]) true])]) true]);
                     TextElement (b " now")]))
     [Attribute (b "title") (Pattern [PlaceableElement (Select (NumberLiteral (b "1"))
                                        [Variant (KeyIdentifier (b "a")) (Pattern [TextElement (b "A")]) true;
                                         Variant (KeyIdentifier (b "b")) (Pattern [TextElement (b "B")]) false])])]
     (Some (Comment [b "about mail"]))].
Example C02_example_sel_in_fragment : sel_resource 2 ex_sel = true.
Proof. vm_compute. reflexivity. Qed.
Example C02_example_sel_layout_1 : roundtrips_under [] ex_sel.
Proof. rt. Qed.
Example C02_example_sel_layout_2 :
  roundtrips_under [2;1;2;3;1;0;2;1;3;2;2;1;4;3;0;3;1;2;2;4;1;3;3;0;2;1;1;2;3;4;0;1;2;3;2;1;0;3;3;2;1;2;2;3;1;4;0;2;3;1;1;2;4;3;2;0;1;3;2;2;1;4;3] ex_sel.
Proof. rt. Qed.

(* inside the fragment of depth 1: a select expression with a default variant, a function reference and a term
   reference with call arguments, an attribute *)
Definition ex_select : resource :=
  [Message (b "emails")
     (Some (Pattern [TextElement (b "You have ");
                     PlaceableElement (Select (VariableReference (b "n"))
                        [Variant (KeyIdentifier (b "one")) (Pattern [TextElement (b "one email")]) false;
                         Variant (KeyIdentifier (b "other"))
                           (Pattern [PlaceableElement (Inline (FunctionReference (b "NUMBER")
                                        (CallArguments [VariableReference (b "n")]
                                           [NamedArgument (b "style") (StringLiteral (b "x"))])));
                                     TextElement (b " emails from ");
                                     PlaceableElement (Inline (TermReference (b "brand") None
                                        (Some (CallArguments [] [NamedArgument (b "case") (NumberLiteral (b "1.5"))]))))]) true])]))
     [Attribute (b "title") (Pattern [TextElement (b "Inbox")])]
     (Some (Comment [b "about mail"; []; b "second"]))].
Example C02_example_select_in_fragment : sel_resource 1 ex_select = true.
Proof. vm_compute. reflexivity. Qed.
Example C02_example_select_1 : roundtrips_under [] ex_select.
Proof. rt. Qed.
Example C02_example_select_2 : roundtrips_under [2;1;2;3;1;0;2;1;3;2;2;1;4;3;0;3;1;2;2;4;1;3;3;0;2;1;1;2;3;4;0;1;2;3;2;1;0;3;3;2;1] ex_select.
Proof. rt. Qed.
Example C02_example_select_3 : roundtrips_under [1;3;3;2;2;2;3;4;4;3;2;1;1;1;2;2;3;3;4;4;0;0;1;2;3;3;3;2;2;1;4;4;2;2;3;1;3;2;3;3;3;1;2;4;3;2;1;3] ex_select.
Proof. rt. Qed.

(* inside the fragment of depth 1: call arguments of every kind (none, positional only, named only, both), a
   function reference, a term attribute and a term attribute with arguments as selectors *)
Definition ex_calls : resource :=
  [Message (b "calls")
     (Some (Pattern [PlaceableElement (Inline (FunctionReference (b "F") (CallArguments [] [])));
                     TextElement (b " ");
                     PlaceableElement (Inline (FunctionReference (b "DATE-TIME_2")
                        (CallArguments [VariableReference (b "d"); NumberLiteral (b "-1.0"); MessageReference (b "m") (Some (b "a"));
                                        TermReference (b "t") None None; StringLiteral (b "),")]
                                       [NamedArgument (b "month") (StringLiteral (b "long")); NamedArgument (b "x-y") (NumberLiteral (b "2"))])));
                     TextElement ([10%N] ++ b "and ");
                     PlaceableElement (Inline (TermReference (b "brand") None (Some (CallArguments [StringLiteral (b "p")] []))))]))
     [Attribute (b "a") (Pattern [PlaceableElement (Select (FunctionReference (b "PLATFORM") (CallArguments [] []))
                                    [Variant (KeyIdentifier (b "mac")) (Pattern [TextElement (b "Cmd")]) false;
                                     Variant (KeyIdentifier (b "other")) (Pattern [TextElement (b "Ctrl")]) true])]);
      Attribute (b "g") (Pattern [PlaceableElement (Select (TermReference (b "brand") (Some (b "gender")) None)
                                    [Variant (KeyIdentifier (b "f")) (Pattern [TextElement (b "she")]) false;
                                     Variant (KeyIdentifier (b "other")) (Pattern [TextElement (b "it")]) true])]);
      Attribute (b "h") (Pattern [PlaceableElement (Select (TermReference (b "brand") (Some (b "gender"))
                                                              (Some (CallArguments [] [NamedArgument (b "case") (StringLiteral (b "x"))])))
                                    [Variant (KeyNumber (b "1")) (Pattern [TextElement (b "one")]) true])])]
     None].
Example C02_example_calls_in_fragment : sel_resource 1 ex_calls = true.
Proof. vm_compute. reflexivity. Qed.
Example C02_example_calls_layout_1 : roundtrips_under [] ex_calls.
Proof. rt. Qed.
Example C02_example_calls_layout_2 :
  roundtrips_under [2;1;2;3;1;0;2;1;3;2;2;1;4;3;0;3;1;2;2;4;1;3;3;0;2;1;1;2;3;4;0;1;2;3;2;1;0;3;3;2;1;2;2;3;1;4;0;2;3;1;1;2;4;3;2;0;1;3;2;2;1;4;3;
                    1;1;2;0;3;4;2;1;1;3;0;2;4;1;3;2;1;1;0;2;3;4;1;2;0;3;1;4;2;2;1;3;0;1;2;4;3;1;0;2;1;3;4;2;0;1;3;2;1;4] ex_calls.
Proof. rt. Qed.
Example C02_example_calls_layout_3 :
  roundtrips_under [3;4;1;3;2;4;1;3;3;4;1;4;3;3;1;4;3;1;4;3;3;1;4;1;3;4;3;1;3;4;1;3;4;4;3;1;1;3;4;3;1;4;3;3;1;4;1;3;4;3;1;3;4;1;3;4;4;3;1;1;3;4;
                    3;4;1;3;1;4;3;3;1;4;3;1;4;3;3;1;4;1;3;4;3;1;3;4;1;3;4;4;3;1;1;3;4;3;1;4;3;3;1;4;1;3;4;3;1;3;4;1;3;4;4;3;1;1;3;4] ex_calls.
Proof. rt. Qed.

(* a multi-line pattern with an indented line, an inner blank line and a line that starts with a placeable *)
Definition ex_multiline : resource :=
  [ResourceComment (Comment [b "resource"]);
   GroupComment (Comment [b "group"]);
   CommentEntry (Comment [b "free"]);
   Term (b "t")
     (Pattern [TextElement (b "first" ++ [10%N] ++ b "  indented" ++ [10; 10]%N ++ b "last ");
               PlaceableElement (Inline (MessageReference (b "m") (Some (b "a"))));
               TextElement [10%N];
               PlaceableElement (Inline (Placeable (Inline (StringLiteral (b "A{")))))])
     [] None].
Example C02_example_multiline_1 : roundtrips_under [] ex_multiline.
Proof. rt. Qed.
Example C02_example_multiline_2 : roundtrips_under [0;3;2;3;1;3;2;3;0;3;1;2;2;3;1;1;3;2;2;3;3;1;2;3;0;3;1;3;2;3;3;3;1;2;3;3] ex_multiline.
Proof. rt. Qed.
Example C02_example_multiline_3 : roundtrips_under [2;1;3;2;2;3;1;1;3;0;2;3;3;2;1;2;3;1;1;1;3;2;2;2;3;1;0;1;3;3;2;2;1;3;2;2;1;1;3;3;2] ex_multiline.
Proof. rt. Qed.

(* OUTSIDE sel_resource d, inside nest_resource 3: call arguments that are calls or placeables themselves *)
Definition ex_nested_args : resource :=
  [Message (b "m")
     (Some (Pattern [PlaceableElement (Inline (FunctionReference (b "F")
                       (CallArguments [FunctionReference (b "G") (CallArguments [VariableReference (b "x")] []);
                                       Placeable (Inline (TermReference (b "t") None (Some (CallArguments [] []))))]
                                      [NamedArgument (b "k") (NumberLiteral (b "1"))])))]))
     [] None].
Example C02_example_nested_args_outside : forall d, sel_resource d ex_nested_args = false.
Proof. intros [|d]; reflexivity. Qed.
Example C02_example_nested_args_in_nested : nest_resource 3 ex_nested_args = true.
Proof. vm_compute. reflexivity. Qed.
Example C02_example_nested_args_1 : roundtrips_under [] ex_nested_args.
Proof. rt. Qed.
Example C02_example_nested_args_2 : roundtrips_under [2;1;3;4;1;2;3;1;4;2;1;3;2;4;1;3;2;1;4;3;1;2;3;4;2;1;3;1;2;4;3;1;2] ex_nested_args.
Proof. rt. Qed.

(* the premises of C02_roundtrip_wellformed_partial hold for the examples above; the tree of D7 fails the third *)
Example C02_example_wellformed_premises :
  forall t, In t [ex_simple; ex_ml; ex_sel; ex_select; ex_calls; ex_nested_args; ex_multiline] ->
  wf_resource t = true /\ wf_utf8_resource t = true /\ last_comment_ok t = true.
Proof. intros t Ht. repeat (destruct Ht as [<- | Ht]; [vm_compute; auto|]). destruct Ht. Qed.
Example C02_example_D7_premise : wf_resource [CommentEntry (Comment [[]])] = true /\ last_comment_ok [CommentEntry (Comment [[]])] = false.
Proof. split; reflexivity. Qed.

(* comments that the earlier versions of the fragment excluded and that are covered now: an empty last line that is
   not at the end of the resource, an attached comment that is one empty line, a last line of spaces at the end *)
Definition ex_comments : resource :=
  [ResourceComment (Comment [b "r"; []]);
   Message (b "m") (Some (Pattern [TextElement (b "x")])) [] (Some (Comment [[]]));
   CommentEntry (Comment [b "a"; b "  "])].
Example C02_example_comments_premises :
  wf_resource ex_comments = true /\ wf_utf8_resource ex_comments = true /\ last_comment_ok ex_comments = true.
Proof. vm_compute. auto. Qed.
Example C02_example_comments_1 : roundtrips_under [] ex_comments.
Proof. rt. Qed.
Example C02_example_comments_2 : roundtrips_under [2;1;3;1;2;2;3;1;0;2;3;1;2;1;3;2;2;1] ex_comments.
Proof. rt. Qed.

(* finding D7 for a comment that is ONE empty line: it is returned with ZERO lines *)
Example C02_example_D7_one_line_1 :
  parse (render [] [Message (b "m") (Some (Pattern [TextElement (b "x")])) [] None; CommentEntry (Comment [[]])]) =
  Done ([Message (b "m") (Some (Pattern [TextElement (b "x")])) [] None; CommentEntry (Comment [])], []).
Proof. vm_compute. reflexivity. Qed.
Example C02_example_D7_one_line_2 :
  parse (render [] [Message (b "m") (Some (Pattern [TextElement (b "x")])) [] None; GroupComment (Comment [[]])]) =
  Done ([Message (b "m") (Some (Pattern [TextElement (b "x")])) [] None; GroupComment (Comment [])], []).
Proof. vm_compute. reflexivity. Qed.
Example C02_example_D7_one_line_3 :
  parse (render [] [Message (b "m") (Some (Pattern [TextElement (b "x")])) [] None; ResourceComment (Comment [[]])]) =
  Done ([Message (b "m") (Some (Pattern [TextElement (b "x")])) [] None; ResourceComment (Comment [])], []).
Proof. vm_compute. reflexivity. Qed.
(* ... and an instance of C02_D7_parse *)
Example C02_example_D7_two_lines :
  parse (render [] [Message (b "m") (Some (Pattern [TextElement (b "x")])) [] None; CommentEntry (Comment [b "a"; []])]) =
  Done ([Message (b "m") (Some (Pattern [TextElement (b "x")])) [] None; CommentEntry (Comment [b "a"])], []).
Proof. vm_compute. reflexivity. Qed.

(* the layouts really differ *)
Example C02_example_layouts_differ :
  render [] ex_select <> render [2;1;2;3;1;0;2;1;3;2;2;1;4;3;0;3;1;2;2;4;1;3;3;0;2;1;1;2;3;4;0;1;2;3;2;1;0;3;3;2;1] ex_select.
Proof. vm_compute. discriminate. Qed.

(* placeholder until the proofs land *)
From FluentV Require Import Syntax.Render Syntax.ParserModel.
Theorem C02_placeholder : True.
Proof. exact Logic.I. Qed.

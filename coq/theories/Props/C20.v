(* Props/C20.v — Pseudolocalization changes only ASCII letters and never touches markup.
   Only statements here; model, specification (`letter_map`, `transform_spec`, `dom_spec`,
   `spans_ok`) and matcher are in Pseudo/Pseudo.v, proofs in Pseudo/PseudoProofs.v.

   "For every string" = every s with utf8_valid s = true (a Rust str); "every flag combination" =
   all booleans.  The `regex` crate is external: transform_dom's theorems hold for EVERY list of
   capture spans with the properties captures_iter guarantees (`spans_ok s spans 0`: increasing,
   non-overlapping, non-empty, on char boundaries, inside s); C20_matcher shows that the executable
   matcher for the concrete pattern (the one compared with the real regex by ./check) yields such
   spans, for any classification of non-ASCII characters as \w / \s.                             *)
From FluentV Require Import Base.Utf8 Pseudo.Pseudo Pseudo.PseudoProofs Gen.Extracted.
From Coq Require Import Lia ZifyBool ZifyNat ZifyN.

(* "the transform never panics, replaces each ASCII letter by its table counterpart ..., and leaves
   every other character untouched and in place": transform is the concatenation, character by
   character and in order, of letter_map; the result is again a str *)
Theorem C20_transform : forall s flipped elongate, utf8_valid s = true ->
  transform s flipped elongate
    = Done (encode_chars (flat_map (letter_map flipped elongate) (decode_chars s)))
  /\ utf8_valid (transform_spec flipped elongate s) = true.
Proof.
  intros s fl e H. split; [apply (transform_correct s fl e H) | apply transform_spec_utf8, H].
Qed.

(* what letter_map is, against the tables extracted from lib.rs: the counterpart of the i-th letter is
   the i-th table entry of the selected style; a, e, o, u — and only they — are doubled, and only
   when elongating; anything that is not an ASCII letter is mapped to itself *)
Theorem C20_letter_map : forall flipped elongate c,
  ((97 <= c <= 122)%N ->
     exists x, nth_error (table flipped false) (N.to_nat (c - 97)) = Some x /\
       letter_map flipped elongate c =
         if elongate && (N.eqb c 97 || N.eqb c 101 || N.eqb c 111 || N.eqb c 117) then [x; x] else [x]) /\
  ((65 <= c <= 90)%N ->
     exists x, nth_error (table flipped true) (N.to_nat (c - 65)) = Some x /\
       letter_map flipped elongate c = [x]) /\
  (~ (97 <= c <= 122)%N -> ~ (65 <= c <= 90)%N -> letter_map flipped elongate c = [c]).
Proof.
  intros fl e c. unfold letter_map. repeat split.
  - intros H. replace (in_rng 97 122 c) with true by (symmetry; unfold in_rng; lia).
    eexists. split; [apply nth_error_nth'; rewrite table_length; lia | reflexivity].
  - intros H. replace (in_rng 97 122 c) with false by (symmetry; unfold in_rng; lia).
    replace (in_rng 65 90 c) with true by (symmetry; unfold in_rng; lia).
    eexists. split; [apply nth_error_nth'; rewrite table_length; lia | reflexivity].
  - intros H1 H2. replace (in_rng 97 122 c) with false by (symmetry; unfold in_rng; lia).
    replace (in_rng 65 90 c) with false by (symmetry; unfold in_rng; lia). reflexivity.
Qed.

(* "leaves every tag and character entity byte-identical and in order, applies the same selected
   style and elongation to all text between and around them, ... adds brackets only when asked":
   the result is  [ seg0' ++ span1 ++ seg1' ++ ... ++ spanN ++ segN' ]  (brackets iff with_markers),
   span_i the bytes of s between the i-th capture's offsets, seg_i' = transform_spec WITH THE
   CALLER'S FLAGS of the text between captures (dom_spec) *)
Theorem C20_dom_shape : forall s spans flipped elongate with_markers,
  utf8_valid s = true -> spans_ok s spans 0 -> length (decode_chars s) <> 1 ->
  transform_dom spans s flipped elongate with_markers
    = Done (brackets with_markers (dom_spec (transform_spec flipped elongate) s spans 0)).
Proof.
  intros s spans fl e m Hv Hok Hn. rewrite (transform_dom_correct s fl e Hv spans m Hok).
  apply Nat.eqb_neq in Hn. rewrite Hn. reflexivity.
Qed.

(* "the transform never panics" for the markup-aware variant: the usize subtractions
   (capture.start() - pos, transform_sub.len() - sub_len) never underflow, s[pos..start] and every
   replace_range are on char boundaries; and the output is a str *)
Theorem C20_dom_total : forall s spans flipped elongate with_markers,
  utf8_valid s = true -> spans_ok s spans 0 ->
  exists r, transform_dom spans s flipped elongate with_markers = Done r /\ utf8_valid r = true.
Proof.
  intros s spans fl e m Hv Hok. rewrite (transform_dom_correct s fl e Hv spans m Hok).
  eexists. split; [reflexivity|]. destruct (Nat.eqb _ 1); [exact Hv|].
  assert (H : utf8_valid (dom_spec (transform_spec fl e) s spans 0) = true).
  { apply dom_spec_utf8; try assumption; [lia | reflexivity]. }
  unfold brackets. destruct m; [|exact H].
  apply (Utf8Facts.utf8_valid_app_intro [91%N]); [reflexivity|].
  apply Utf8Facts.utf8_valid_app_intro; [exact H | reflexivity].
Qed.

(* "keeps one-character strings unchanged" (one character, not one byte; no brackets either) *)
Theorem C20_one_char : forall s spans flipped elongate with_markers,
  length (decode_chars s) = 1 -> transform_dom spans s flipped elongate with_markers = Done s.
Proof.
  intros s spans fl e m H. unfold transform_dom. rewrite H. reflexivity.
Qed.

(* the executable matcher for  &[#\w]+;|<\s*.+?\s*>  produces spans of the assumed kind *)
Theorem C20_matcher : forall (word_na space_na : N -> bool) s, utf8_valid s = true ->
  spans_ok s (excluded_spans word_na space_na s) 0.
Proof. exact excluded_spans_ok. Qed.

(* the model was written for these regex sources (Gen/Extracted.v is regenerated from lib.rs) *)
Theorem C20_patterns : RE_AZ_SRC = bytes_of_string "[a-zA-Z]" /\
                       RE_EXCLUDED_SRC = bytes_of_string "&[#\w]+;|<\s*.+?\s*>".
Proof. split; [exact RE_AZ_SRC_checked | exact RE_EXCLUDED_SRC_checked]. Qed.

(* non-vacuity: the two historical witnesses, and the crate's own dom test *)
Definition no_na (_ : N) : bool := false.

Example C20_example_callers_flags :      (* transform_dom("a<b>c", true, false, false) = U+0250 <b> U+0254 *)
  let s := [97; 60; 98; 62; 99]%N in
  excluded_spans no_na no_na s = [(1, 4)] /\
  transform_dom (excluded_spans no_na no_na s) s true false false = Done [201; 144; 60; 98; 62; 201; 148]%N.
Proof. split; vm_compute; reflexivity. Qed.

Example C20_example_one_multibyte_char : (* e-acute with markers stays e-acute *)
  transform_dom [] [195; 169]%N false true true = Done [195; 169]%N.
Proof. vm_compute. reflexivity. Qed.

Example C20_example_dom_test :           (* "Hello <a>World</a>" false true false *)
  let s := bytes_of_string "Hello <a>World</a>" in
  excluded_spans no_na no_na s = [(6, 9); (14, 18)] /\
  exists a b, transform (bytes_of_string "Hello ") false true = Done a /\
              transform (bytes_of_string "World") false true = Done b /\
              transform_dom (excluded_spans no_na no_na s) s false true false
                = Done (a ++ bytes_of_string "<a>" ++ b ++ bytes_of_string "</a>").
Proof. split; [vm_compute; reflexivity|]. eexists; eexists. repeat split; vm_compute; reflexivity. Qed.

(* Props/C16.v — Locale fallback picks the first locale that can answer, in every API shape.
   Only statements here; proofs are in Fallback/WalkProofs.v, the model in Fallback/Walk.v.

   Reading guide.  `seq` is the sequence of bundle results the request pulls from the generator
   (each `BOk b` or `BBroken b errs`), in locale order; ALL theorems quantify over every such
   sequence, every key / key list (duplicates included), every initial content of the caller's
   error vector, and every formatter `fmt` (FluentBundle::format_pattern: text + resolver errors).
   `all_wf seq` = every yielded bundle was built with a non-empty locale list; without it the real
   code panics on `bundle.locales[0]` (C16_example_panic).  The third component of every result
   is the number of bundles pulled.                                                              *)
From FluentV Require Import Base.Bytes Base.Outcome Fallback.Walk Fallback.WalkProofs.

Section C16.
Context {Pat Args RErr BErr : Type}.
Variable fmt : bundle Pat -> Pat -> option Args -> bytes * list RErr.

Local Notation err := (lerr RErr BErr).
Local Notation bundle_of := (bundle_of Pat BErr).
Local Notation carried := (carried Pat RErr BErr).
Local Notation has_message := (has_message Pat Args BErr).
Local Notation value_pattern := (value_pattern Pat Args BErr).
Local Notation has_value := (has_value Pat Args BErr).
Local Notation resolver_entry := (resolver_entry Pat RErr BErr).
Local Notation value_entry := (value_entry Pat Args RErr BErr fmt).
Local Notation message_entry := (message_entry Pat Args RErr BErr fmt).
Local Notation first_value := (first_value Pat Args RErr BErr fmt).
Local Notation first_message := (first_message Pat Args RErr BErr fmt).
Local Notation value_final := (value_final Pat Args RErr BErr).
Local Notation message_final := (message_final Pat Args RErr BErr).
Local Notation groups := (groups Pat Args RErr BErr).
Local Notation visits := (visits Pat Args BErr).
Local Notation format_value_from_inner := (format_value_from_inner Pat Args RErr BErr fmt).
Local Notation format_values_from_inner := (format_values_from_inner Pat Args RErr BErr fmt).
Local Notation format_messages_from_inner := (format_messages_from_inner Pat Args RErr BErr fmt).
Local Notation key := (key Args).

(* "a value request returns the formatting from the first locale (in the given order) whose bundle has
   that message with a value, and nothing only if no locale has one" *)
Theorem C16_value : forall (seq : list (bundle_result Pat BErr)) (k : key) (errors : list err),
  all_wf seq ->
  exists v es n,
    format_value_from_inner seq (k_id Args k) (k_args Args k) false errors 0 = Done (v, es, n) /\
    (forall pre r post p,
        seq = pre ++ r :: post ->
        (forall r', In r' pre -> value_pattern r' k = None) -> value_pattern r k = Some p ->
        v = Some (fst (fmt (bundle_of r) p (k_args Args k)))) /\
    (v = None <-> forall r, In r seq -> value_pattern r k = None).
Proof.
  intros seq k errors Hwf. eexists _, _, _. split; [apply (format_value_spec fmt), Hwf|]. split.
  - intros pre r post p -> Hpre Hr. apply first_value_split; assumption.
  - apply first_value_none.
Qed.

(* "the error list names, in order, every earlier locale that lacked the message or its value, any resolver
   errors of the locale that answered, errors carried by a partially broken bundle, and a final locale-less
   entry when nothing answered" — the exact list, and the number of bundles pulled *)
Theorem C16_errors : forall (seq : list (bundle_result Pat BErr)) (k : key) (errors : list err),
  all_wf seq ->
  exists v es n,
    format_value_from_inner seq (k_id Args k) (k_args Args k) false errors 0 = Done (v, es, n) /\
    (forall pre r post p,
        seq = pre ++ r :: post ->
        (forall r', In r' pre -> value_pattern r' k = None) -> value_pattern r k = Some p ->
        es = errors ++ flat_map (fun r' => carried r' ++ [missing_entry r' k]) pre
                    ++ carried r ++ resolver_entry r (k_id Args k) (snd (fmt (bundle_of r) p (k_args Args k))) /\
        n = S (length pre)) /\
    ((forall r, In r seq -> value_pattern r k = None) ->
        es = errors ++ flat_map (fun r' => carried r' ++ [missing_entry r' k]) seq
                    ++ [if existsb (fun r => has_message r k) seq
                        then EMissingValue (k_id Args k) None else EMissingMessage (k_id Args k) None] /\
        n = length seq).
Proof.
  intros seq k errors Hwf. eexists _, _, _. split; [apply (format_value_spec fmt), Hwf|]. split.
  - intros pre r post p -> Hpre Hr.
    destruct (single_split fmt k pre [] r post p eq_refl Hpre Hr) as [Hv Hg].
    rewrite Hv, Hg, (value_final_some pre r post k p Hr), app_nil_r, <- ?app_assoc. split; reflexivity.
  - intros Hall. destruct (single_none fmt k seq [] eq_refl Hall) as [Hv Hg].
    rewrite Hv, Hg, (value_final_none seq k Hall). split; reflexivity.
Qed.

(* "Batch requests (values …) give for every key what the single request gives": position by position,
   duplicates included *)
Theorem C16_batch : forall (seq : list (bundle_result Pat BErr)) (keys : list key) (errors errors' : list err),
  all_wf seq ->
  exists res es n,
    format_values_from_inner seq keys errors = Done (res, es, n) /\
    length res = length keys /\
    forall i k, nth_error keys i = Some k ->
      exists v es' n',
        format_value_from_inner seq (k_id Args k) (k_args Args k) false errors' 0 = Done (v, es', n') /\
        nth_error res i = Some v.
Proof.
  intros seq keys errors errors' Hwf. eexists _, _, _. split; [apply (format_values_spec fmt), Hwf|]. split.
  - apply map_length.
  - intros i k Hk. eexists _, _, _. split; [apply (format_value_spec fmt), Hwf|].
    apply map_nth_error, Hk.
Qed.

(* the relation between the error lists: both are the same locale-major `groups` function — the batch over
   the key list and the bundles it visits, the single request over the one-key list and its own depth —
   followed by the closing entries; and the batch visits exactly max_i depth_i bundles: 0 for an EMPTY key
   list (nothing is pulled and nothing is pushed, not even the errors carried by a broken first bundle),
   otherwise at least 1 whenever the sequence is not empty *)
Theorem C16_batch_errs : forall (seq : list (bundle_result Pat BErr)) (keys : list key) (errors : list err),
  all_wf seq ->
  exists res es n,
    format_values_from_inner seq keys errors = Done (res, es, n) /\
    es = errors ++ groups has_value value_entry [] (firstn n seq) keys ++ flat_map (value_final seq) keys /\
    n = list_max (map (fun k => visits has_value [] seq [k]) keys) /\
    (keys = [] -> res = [] /\ es = errors /\ n = 0) /\
    (keys <> [] -> seq <> [] -> 1 <= n) /\
    forall k (errors' : list err),
      format_value_from_inner seq (k_id Args k) (k_args Args k) false errors' 0 =
        Done (first_value seq k,
              errors' ++ groups has_value value_entry [] (firstn (visits has_value [] seq [k]) seq) [k]
                      ++ value_final seq k,
              visits has_value [] seq [k]).
Proof.
  intros seq keys errors Hwf. eexists _, _, _. split; [apply (format_values_spec fmt), Hwf|].
  split; [reflexivity|]. split; [apply batch_visits_list_max|]. split; [|split].
  - intros ->. cbn. rewrite app_nil_r. repeat split; reflexivity.
  - intros Hk Hs. destruct keys as [|k0 keys]; [congruence|]. destruct seq as [|r seq]; [congruence|].
    unfold Walk.batch_visits. cbn [is_nil]. apply visits_pos.
  - intros k errors'. apply (format_value_spec fmt), Hwf.
Qed.

(* a single request IS the batch request for the one-key list — result, error list, bundles pulled, and
   even the panic behaviour (no hypothesis on the sequence) *)
Theorem C16_single_is_batch1 : forall (seq : list (bundle_result Pat BErr)) (k : key) (errors : list err),
  format_value_from_inner seq (k_id Args k) (k_args Args k) false errors 0 =
    let* (res, es, n) := format_values_from_inner seq [k] errors in Done (hd None res, es, n).
Proof.
  intros seq k errors. rewrite (single_batch1 fmt). unfold Walk.format_values_from_inner. cbn [is_nil length repeat].
  destruct (values_while_loop Pat Args RErr BErr fmt seq [k] [VNone] errors 0) as [[[c e] n]| |];
    cbn [obind]; try reflexivity.
  destruct (values_collect Args RErr BErr [k] c e). reflexivity.
Qed.

(* "Batch requests (… messages with attributes) give for every key what the single request gives": every
   position holds the message of the first locale that has it — value optional, attributes in source order —
   and the error list has the same locale-major shape with MissingMessage / Resolver entries; an empty key
   list pulls nothing and pushes nothing *)
Theorem C16_messages : forall (seq : list (bundle_result Pat BErr)) (keys : list key) (errors : list err),
  all_wf seq ->
  exists res es n,
    format_messages_from_inner seq keys errors = Done (res, es, n) /\
    res = map (first_message seq) keys /\
    es = errors ++ groups has_message message_entry [] (firstn n seq) keys ++ flat_map (message_final seq) keys /\
    n = list_max (map (fun k => visits has_message [] seq [k]) keys) /\
    (keys = [] -> res = [] /\ es = errors /\ n = 0) /\
    (forall k pre r post msg,
        seq = pre ++ r :: post ->
        (forall r', In r' pre -> b_get_message Pat (bundle_of r') (k_id Args k) = None) ->
        b_get_message Pat (bundle_of r) (k_id Args k) = Some msg ->
        first_message seq k =
          Some (mkL10n (option_map (fun p => fst (fmt (bundle_of r) p (k_args Args k))) (m_value Pat msg))
                       (map (fun np => (fst np, fst (fmt (bundle_of r) (snd np) (k_args Args k)))) (m_attrs Pat msg)))) /\
    (forall k, first_message seq k = None <->
               forall r, In r seq -> b_get_message Pat (bundle_of r) (k_id Args k) = None).
Proof.
  intros seq keys errors Hwf. eexists _, _, _. split; [apply (format_messages_spec fmt), Hwf|].
  split; [reflexivity|]. split; [reflexivity|]. split; [apply batch_visits_list_max|]. split; [|split].
  - intros ->. cbn. rewrite app_nil_r. repeat split; reflexivity.
  - intros k pre r post msg -> Hpre Hr. apply (first_message_split fmt); assumption.
  - intros k. apply first_message_none.
Qed.

(* what a bundle contributes for a message key: MissingMessage{locale} if it lacks the message, otherwise
   Resolver{..} iff formatting the value and then the attributes (source order) reported anything *)
Theorem C16_message_entry : forall (r : bundle_result Pat BErr) (k : key),
  match b_get_message Pat (bundle_of r) (k_id Args k) with
  | None => message_entry r k = [EMissingMessage (k_id Args k) (Some (loc_of Pat BErr r))]
  | Some msg =>
      message_entry r k =
        resolver_entry r (k_id Args k)
          (match m_value Pat msg with Some p => snd (fmt (bundle_of r) p (k_args Args k)) | None => [] end
             ++ flat_map (fun np => snd (fmt (bundle_of r) (snd np) (k_args Args k))) (m_attrs Pat msg))
  end.
Proof.
  intros r k. destruct (b_get_message Pat (bundle_of r) (k_id Args k)) as [msg|] eqn:E.
  - apply (message_entry_found fmt), E.
  - apply (message_entry_absent fmt), E.
Qed.

(* "the synchronous and asynchronous APIs give identical results": the iterator and the stream variants are
   the same function of the served sequence; the *_sync API equals the async API on an iterator-mode set and,
   on a stream-mode set, returns SyncRequestInAsyncMode leaving the error vector and the generator untouched *)
Theorem C16_sync_async : forall (bs : bundles_inner Pat BErr) id args (keys : list key) (errors : list err),
  format_value Pat Args RErr BErr fmt bs id args errors = format_value_from_inner (served Pat BErr bs) id args false errors 0 /\
  format_values Pat Args RErr BErr fmt bs keys errors = format_values_from_inner (served Pat BErr bs) keys errors /\
  format_messages Pat Args RErr BErr fmt bs keys errors = format_messages_from_inner (served Pat BErr bs) keys errors /\
  match bs with
  | Iter _ _ _ =>
      format_value_sync Pat Args RErr BErr fmt bs id args errors =
        wrap_ok RErr BErr (format_value Pat Args RErr BErr fmt bs id args errors) /\
      format_values_sync Pat Args RErr BErr fmt bs keys errors =
        wrap_ok RErr BErr (format_values Pat Args RErr BErr fmt bs keys errors) /\
      format_messages_sync Pat Args RErr BErr fmt bs keys errors =
        wrap_ok RErr BErr (format_messages Pat Args RErr BErr fmt bs keys errors)
  | Stream _ _ _ =>
      format_value_sync Pat Args RErr BErr fmt bs id args errors = Done (SErr ESyncRequestInAsyncMode, errors, 0) /\
      format_values_sync Pat Args RErr BErr fmt bs keys errors = Done (SErr ESyncRequestInAsyncMode, errors, 0) /\
      format_messages_sync Pat Args RErr BErr fmt bs keys errors = Done (SErr ESyncRequestInAsyncMode, errors, 0)
  end.
Proof. intros [seq|seq] id args keys errors; repeat split; reflexivity. Qed.

(* no request panics when every bundle has a locale *)
Theorem C16_no_panic : forall (seq : list (bundle_result Pat BErr)) id args (keys : list key) (errors : list err),
  all_wf seq ->
  (exists x, format_value_from_inner seq id args false errors 0 = Done x) /\
  (exists x, format_values_from_inner seq keys errors = Done x) /\
  (exists x, format_messages_from_inner seq keys errors = Done x).
Proof.
  intros seq id args keys errors Hwf. repeat split; eexists.
  - apply (format_value_spec fmt seq (mkKey Args id args)), Hwf.
  - apply (format_values_spec fmt), Hwf.
  - apply (format_messages_spec fmt), Hwf.
Qed.

End C16.

(* ---- non-vacuity witnesses ------------------------------------------------------------------ *)
(* patterns are their own formatting result (text, resolver errors); three locales [1] [2] [3];
   key [10]: value-less in [1], value with a resolver error in [2] (a broken bundle carrying error 7);
   key [11]: only in [3];   key [12]: nowhere *)
Definition ex_fmt (b : bundle (bytes * list N)) (p : bytes * list N) (a : option unit) : bytes * list N := p.
Definition ex_bundle (loc : list locale) (ms : list (bytes * message (bytes * list N))) : bundle (bytes * list N) :=
  mkBundle _ loc (fun id => match find (fun m => bytes_eqb (fst m) id) ms with Some m => Some (snd m) | None => None end).
Definition ex_seq : list (bundle_result (bytes * list N) N) :=
  [ BOk (ex_bundle [[1%N]] [([10%N], mkMessage _ None [([20%N], ([21%N], []))])]);
    BBroken (ex_bundle [[2%N]] [([10%N], mkMessage _ (Some ([30%N], [5%N])) [])]) [7%N];
    BOk (ex_bundle [[3%N]] [([11%N], mkMessage _ (Some ([31%N], [])) [([22%N], ([23%N], [6%N]))])]) ].
Definition ex_key (id : bytes) : key unit := mkKey unit id None.

Example C16_example_value :
  format_value_from_inner _ unit N N ex_fmt ex_seq [10%N] None false [] 0 =
    Done (Some [30%N],
          [EMissingValue [10%N] (Some [1%N]); EBundle 7%N; EResolver [10%N] [2%N] [5%N]], 2).
Proof. vm_compute. reflexivity. Qed.

Example C16_example_batch :
  format_values_from_inner _ unit N N ex_fmt ex_seq [ex_key [12%N]; ex_key [10%N]; ex_key [11%N]; ex_key [10%N]] [] =
    Done ([None; Some [30%N]; Some [31%N]; Some [30%N]],
          [EMissingMessage [12%N] (Some [1%N]); EMissingValue [10%N] (Some [1%N]); EMissingMessage [11%N] (Some [1%N]);
           EMissingValue [10%N] (Some [1%N]);
           EBundle 7%N;
           EMissingMessage [12%N] (Some [2%N]); EResolver [10%N] [2%N] [5%N]; EMissingMessage [11%N] (Some [2%N]);
           EResolver [10%N] [2%N] [5%N];
           EMissingMessage [12%N] (Some [3%N]);
           EMissingMessage [12%N] None], 3).
Proof. vm_compute. reflexivity. Qed.

Example C16_example_messages :
  format_messages_from_inner _ unit N N ex_fmt ex_seq [ex_key [11%N]; ex_key [10%N]] [] =
    Done ([Some (mkL10n (Some [31%N]) [([22%N], [23%N])]); Some (mkL10n None [([20%N], [21%N])])],
          [EMissingMessage [11%N] (Some [1%N]); EBundle 7%N; EMissingMessage [11%N] (Some [2%N]);
           EResolver [11%N] [3%N] [6%N]], 3).
Proof. vm_compute. reflexivity. Qed.

(* D18 (fixed in /repo): an empty key list pulls no bundle and pushes no error — not even the errors carried
   by a broken first bundle; a one-key request on the same sequence does push them *)
Example C16_example_empty_keys :
  let broken := [BBroken (ex_bundle [[1%N]] []) [7%N]] in
  format_values_from_inner _ unit N N ex_fmt broken [] [EBundle 9%N] = Done ([], [EBundle 9%N], 0) /\
  format_messages_from_inner _ unit N N ex_fmt broken [] [] = Done ([], [], 0) /\
  format_values_from_inner _ unit N N ex_fmt broken [ex_key [10%N]] [] =
    Done ([None], [EBundle 7%N; EMissingMessage [10%N] (Some [1%N]); EMissingMessage [10%N] None], 1).
Proof. repeat split; vm_compute; reflexivity. Qed.

(* the hypothesis all_wf is needed: a bundle built with no locale makes the walk panic as soon as an error
   has to name the locale (reproduced on the real code: corpus/C16/boundary.case) *)
Example C16_example_panic :
  format_value_from_inner _ unit N N ex_fmt [BOk (ex_bundle [] [])] [10%N] None false [] 0 =
    Panic "index out of bounds: bundle.locales[0]".
Proof. vm_compute. reflexivity. Qed.

Example C16_example_sync_in_async :
  format_value_sync _ unit N N ex_fmt (Stream _ _ ex_seq) [10%N] None [EBundle 9%N] =
    Done (SErr ESyncRequestInAsyncMode, [EBundle 9%N], 0).
Proof. vm_compute. reflexivity. Qed.

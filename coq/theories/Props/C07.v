(* Props/C07.v — Resolved text and reported errors follow Fluent semantics.
   Statements only; the specification is Bundle/ResolverSpec.v (`Eval`), the proofs are in
   Bundle/ResolverRefine.v.

   `Eval … entries args name (text, errors, calls)` is a big-step relation written from the sentences
   of the property (one rule per clause), with no scope, no fuel and no placeable counter; `name` is the
   message value / message attribute / term (attribute) that is formatted.  A cycle is a reference to an entry
   that is being expanded, by NAME; the model detects it by the identity of the pattern object (since the fix
   of D31; before, it compared patterns structurally and could report a cycle where there was none).
   The theorems say that the resolver model (Bundle/ResolverModel.v, validated against the Rust code by the
   correspondence run) produces exactly what `Eval` assigns — text, the error list IN ORDER, and the
   list of registered-function invocations with their arguments — for every bundle, argument set,
   pattern, transform, formatter, function table and both isolation settings.

   Hypotheses (each is a named class, none restricts bundles/arguments otherwise):
     * `unescape_to_string s = unescape_write s`: the two forms of unescape_unicode agree (C13_writer_eq);
     * `cache_ok rules c`: the memoizer content at the start of the call is sound (C08/C14 invariant; true of
       the empty memoizer and preserved by every call);
     * `no_marks_in_values iso p` (only when isolating): no selector / call argument is a message or term
       reference or a nested placeable — otherwise isolation marks become part of a compared / passed value
       (known finding D23, C09);
     * PARTIAL: `TooManyPlaceables` not among the reported errors.  A run that reaches the placeable limit is
       not described by `Eval`; for it C07_limit_reported_once (exactly one TooManyPlaceables, reported
       iff the run was cut short) and C06_budget / C06_limit_error hold.  What is printed after the limit
       trips (the `{…}` appended by every enclosing placeable) is not specified by the property.
       REMOVED below by the budgeted specification `Specb` (Bundle/ResolverSpecLimit.v, which does specify it, from
       the Rust lines): C07_refines_all_runs / C07_refines_format_all_runs have no such hypothesis;
       C07_budget_conservative, C07_budget_total, C07_limit_run_errors, C07_after_limit relate `Specb` to `Eval`.  *)
From FluentV Require Import Base.Bytes Base.Outcome Syntax.Ast Bundle.Args Bundle.ArgsProofs Bundle.Number
  Bundle.ResolverAst Bundle.ResolverModel Bundle.ResolverEqns Bundle.ResolverSim Bundle.ResolverPure
  Bundle.ResolverSpec Bundle.ResolverRefine Bundle.ResolverSpecLimit Bundle.ResolverRefineLimit Bundle.ResolverLimitDirty Gen.Extracted.
From FluentV Require Bundle.ResolverTotal Bundle.NumberProofs.

Local Open Scope N_scope.

Section C07.
Variable overflow_checks : bool.
Variable call_function : bytes -> list fvalue -> fargs -> fvalue.
Variable transform : option (bytes -> bytes).
Variable formatter : option (fvalue -> option bytes).
Variable rules : ntype -> rules_fn.
Variable custom_as_string : bytes -> bytes.
Variable unescape_write : bytes -> bytes.
Variable unescape_to_string : bytes -> bytes.
Variable f64_from_str : bytes -> option fval.
Variable m : list (bytes * bentry).          (* the bundle's entries: id -> message | term | function *)
Variable args : option fargs.                (* the caller's arguments *)

Hypothesis unescape_forms_agree : forall s, unescape_to_string s = unescape_write s.

(* the entry points, on the pattern object named n (`key_of n` is its identity in the model) *)
Notation write iso := (write_pattern overflow_checks call_function transform formatter rules custom_as_string
                           unescape_write unescape_to_string f64_from_str (Bundle m iso) args).
Notation format iso := (format_pattern overflow_checks call_function transform formatter rules custom_as_string
                          unescape_write unescape_to_string f64_from_str (Bundle m iso) args).
Notation Spec := (Eval call_function transform formatter rules custom_as_string unescape_write f64_from_str m args).
Notation spec_inline := (eval_inline call_function transform formatter rules custom_as_string unescape_write f64_from_str m args).
Notation spec_value := (eval_value call_function transform formatter rules custom_as_string unescape_write f64_from_str m args).
Notation spec_args := (eval_args call_function transform formatter rules custom_as_string unescape_write f64_from_str m args).
Notation spec_elements := (eval_elements call_function transform formatter rules custom_as_string unescape_write f64_from_str m args).

Notation iw b := (inline_write overflow_checks call_function transform formatter rules custom_as_string
                    unescape_write unescape_to_string f64_from_str b args).
Notation ir b := (inline_resolve overflow_checks call_function transform formatter rules custom_as_string
                    unescape_write unescape_to_string f64_from_str b args).
Notation ga b := (get_arguments overflow_checks call_function transform formatter rules custom_as_string
                    unescape_write unescape_to_string f64_from_str b args).

(* "the formatted text of a message value or attribute equals what the Fluent resolution rules give … and
   nothing else is reported": whenever write_pattern on the pattern named n returns (any fuel; C06_total: it does
   at fuel_of) without having reported TooManyPlaceables, the text written (isolation marks removed), the error
   list and the function invocations are exactly those of the specification — for EVERY bundle (no hypothesis on
   its entries).  PARTIAL only in the limit hypothesis. *)
Theorem C07_refines_partial :
  forall iso fuel n p c o sc,
    cache_ok rules c -> no_marks_in_values m iso p -> pattern_named m n = Some p ->
    write iso fuel (Some (key_of n)) p c = Done (o, sc) ->
    ~ In TooManyPlaceables (sc_errors sc) ->
    Spec n (flatten (strip o), sc_errors sc, sc_calls sc).
Proof.
  intros iso fuel n p c o sc Hc Hok Hn H Hno.
  destruct (write_refines overflow_checks call_function transform formatter rules custom_as_string
              unescape_write unescape_to_string f64_from_str m args unescape_forms_agree iso fuel n p c o sc Hc Hok Hn H) as [_ J].
  destruct (limit_reported_once overflow_checks call_function transform formatter rules custom_as_string
              unescape_write unescape_to_string f64_from_str m args unescape_forms_agree iso fuel n p c o sc Hc Hok Hn H) as [_ Hd].
  apply J. destruct (sc_dirty sc); [exfalso; apply Hno, Hd; reflexivity | reflexivity].
Qed.

(* the same for the string API, isolation off: the returned string IS the specified text (every value formatter:
   D22 is fixed) *)
Theorem C07_refines_format_partial :
  forall fuel n p c text sc,
    cache_ok rules c -> pattern_named m n = Some p ->
    format false (S fuel) (Some (key_of n)) p c = Done (text, sc) ->
    ~ In TooManyPlaceables (sc_errors sc) ->
    Spec n (text, sc_errors sc, sc_calls sc).
Proof.
  intros fuel n p c text sc Hc Hn H Hno.
  exact (format_refines_off overflow_checks call_function transform formatter rules custom_as_string
           unescape_write unescape_to_string f64_from_str m args unescape_forms_agree fuel n p c text sc Hc Hn H Hno).
Qed.

(* the specification assigns at most one result: it is a function of (bundle, arguments, pattern) *)
Theorem C07_spec_functional :
  forall n r1 r2, Spec n r1 -> Spec n r2 -> r1 = r2.
Proof.
  intros n r1 r2 (q1 & N1 & H1) (q2 & N2 & H2). rewrite N1 in N2. injection N2 as <-.
  exact (proj1 (eval_functional call_function transform formatter rules custom_as_string unescape_write f64_from_str m args)
           _ _ _ _ H2 _ H1).
Qed.

(* "an exceeded placeable limit is reported once": TooManyPlaceables occurs at most once in the error
   list, and it occurs iff the run was cut short (the dirty flag; C06_limit_error gives the counter) *)
Theorem C07_limit_reported_once :
  forall iso fuel n p c o sc,
    cache_ok rules c -> no_marks_in_values m iso p -> pattern_named m n = Some p ->
    write iso fuel (Some (key_of n)) p c = Done (o, sc) ->
    (tmp_count (sc_errors sc) <= 1)%nat /\ (In TooManyPlaceables (sc_errors sc) <-> sc_dirty sc = true).
Proof.
  intros. eapply limit_reported_once; eassumption.
Qed.

(* "terms see only the arguments passed at their call site (back in force when a nested call returns)".
   Model: every call of Pattern::write / InlineExpression::write / resolve — in particular a term call made
   inside a term — gives the scope back with the local arguments it received (the D12 regression), from
   every scope reachable in a format call (sound memoizer, `travelled` = a non-empty stack of bundle pattern
   objects), for every fuel.
   Specification: the elements after a term call are evaluated in the SAME environment as the call. *)
Theorem C07_term_args_scoped :
  (forall f i sc o sc' T, cache_ok rules (sc_intls sc) -> sc_travelled sc <> [] -> sc_travelled sc = keys T ->
     iw (Bundle m false) f i sc = Done (o, sc') -> sc_local_args sc' = sc_local_args sc) /\
  (forall f i sc v sc' T, cache_ok rules (sc_intls sc) -> sc_travelled sc <> [] -> sc_travelled sc = keys T ->
     ir (Bundle m false) f i sc = Done (v, sc') -> sc_local_args sc' = sc_local_args sc) /\
  (forall T env id attr cargs rest r,
     spec_elements T env (PlaceableElement (Inline (TermReference id attr cargs)) :: rest) r ->
     exists r1 r2, spec_inline T env (TermReference id attr cargs) r1 /\ spec_elements T env rest r2 /\
                   r = r1 +++ r2).
Proof.
  split; [|split].
  - intros f. exact (proj1 (local_args_restored overflow_checks call_function transform formatter rules custom_as_string
                              unescape_write unescape_to_string f64_from_str m args unescape_forms_agree f)).
  - intros f. exact (proj2 (local_args_restored overflow_checks call_function transform formatter rules custom_as_string
                              unescape_write unescape_to_string f64_from_str m args unescape_forms_agree f)).
  - intros T env id attr cargs rest r. apply spec_term_then_rest.
Qed.

(* "An unresolvable message, term, attribute, function or caller-variable reference renders as its source
   form in braces and is reported exactly once as an error (a parameter that a term was not given renders the
   same way but is not an error)" — in the specification, for each kind: *)
Theorem C07_unknown_reference_once :
  (forall T env id attr r,                                (* message / message attribute *)
     message_target m id attr = Unknown -> spec_inline T env (MessageReference id attr) r ->
     r = (in_braces (MessageReference id attr), [Reference (RefMessage id attr)], [])) /\
  (forall T env id attr cargs r,                          (* term / term attribute: after its arguments *)
     term_target m id attr = Unknown -> spec_inline T env (TermReference id attr cargs) r ->
     exists pos named es cs, spec_args T env cargs (pos, named, es, cs) /\
       r = (in_braces (TermReference id attr cargs), es ++ [Reference (RefTerm id attr)], cs)) /\
  (forall T env id cargs r,                               (* function: after its arguments *)
     function_named m id = None -> spec_inline T env (FunctionReference id cargs) r ->
     exists pos named es cs, spec_args T env (Some cargs) (pos, named, es, cs) /\
       r = (in_braces (FunctionReference id cargs), es ++ [Reference (RefFunction id)], cs)) /\
  (forall T id r,                                         (* a variable the caller did not pass *)
     variable args None id = None -> spec_inline T None (VariableReference id) r ->
     r = (in_braces (VariableReference id), [Reference (RefVariable id)], [])) /\
  (forall T la id r,                                      (* a parameter the term was not given: no error *)
     variable args (Some la) id = None -> spec_inline T (Some la) (VariableReference id) r ->
     r = (in_braces (VariableReference id), [], [])).
Proof.
  split; [|split; [|split; [|split]]].
  - intros T env id attr r. apply spec_unknown_message.
  - intros T env id attr cargs r. apply spec_unknown_term.
  - intros T env id cargs r. apply spec_unknown_function.
  - intros T id r Hv H. exact (spec_missing_variable _ _ _ _ _ _ _ _ _ T None id r Hv H).
  - intros T la id r Hv H. exact (spec_missing_variable _ _ _ _ _ _ _ _ _ T (Some la) id r Hv H).
Qed.

(* the same on the model, in ANY scope (also after the limit has tripped): one step of InlineExpression::write
   on a reference the bundle cannot resolve writes {source form} and appends exactly one Reference error;
   a variable missing from a term's own arguments appends none *)
Theorem C07_unknown_reference_once_model :
  forall b f sc,
    (forall id attr, get_entry_message b id = None ->
       iw b (S f) (MessageReference id attr) sc =
       Done (braced (inline_write_error (MessageReference id attr)), add_error sc (Reference (RefMessage id attr)))) /\
    (forall id, lookup_variable args id sc = None ->
       iw b (S f) (VariableReference id) sc =
       Done (braced ([36] ++ id),
             match sc_local_args sc with None => add_error sc (Reference (RefVariable id)) | Some _ => sc end)) /\
    (forall id cargs pos named sc1, get_entry_term b id = None -> ga b f cargs sc = Done (pos, named, sc1) ->
       iw b (S f) (TermReference id None cargs) sc =
       Done (braced ([45] ++ id), set_local_args (add_error (set_local_args sc1 (Some named)) (Reference (RefTerm id None)))
                                                 (sc_local_args sc1))).
Proof.
  intros b f sc. split; [|split].
  - intros id attr Hg. rewrite iw_S_message, Hg. reflexivity.
  - intros id Hl. rewrite iw_S_variable, Hl. unfold missing_variable.
    destruct (sc_local_args sc); reflexivity.
  - intros id cargs pos named sc1 Hg Ha. rewrite iw_S_term, Ha. cbn [obind]. unfold term_body. rewrite Hg. reflexivity.
Qed.

(* "functions applied to resolved positional and named arguments … an unresolvable function reference is
   reported" — also where the function is asked for its VALUE (selector, call argument): the D13 regression.
   Model (any scope, any bundle): with the arguments resolved, both InlineExpression::resolve and ::write
   append exactly one Reference error; resolve returns Error, write prints {FUN()}.
   Specification: eval_value on an unknown function reports it last, after its arguments' errors. *)
Theorem C07_unknown_function_reported :
  (forall b f id cargs sc pos named sc1,
     get_entry_function b id = None -> ga b f (Some cargs) sc = Done (pos, named, sc1) ->
     ir b (S f) (FunctionReference id cargs) sc = Done (VError, add_error sc1 (Reference (RefFunction id))) /\
     iw b (S f) (FunctionReference id cargs) sc =
       Done (braced (id ++ [40; 41]), add_error sc1 (Reference (RefFunction id)))) /\
  (forall T env id cargs r,
     function_named m id = None -> spec_value T env (FunctionReference id cargs) r ->
     exists pos named es cs, spec_args T env (Some cargs) (pos, named, es, cs) /\
       r = (VError, es ++ [Reference (RefFunction id)], cs)).
Proof.
  split.
  - intros b f id cargs sc pos named sc1 Hg Ha. split.
    + rewrite ir_S_function, Ha. cbn [obind]. rewrite Hg. reflexivity.
    + rewrite iw_S_function, Ha. cbn [obind]. rewrite Hg. reflexivity.
  - intros T env id cargs r. apply spec_unknown_function_value.
Qed.

(* "selects choose the first variant whose key equals the selector (exact string, exact number, or the
   selector number's plural category) and otherwise the default".
   (1) model = specification: whatever Expression::write finds with its two loops is `chosen`;
   (2) `chosen` is the FIRST matching variant;  (3) otherwise the default;
   (4)-(6) the three equalities; (5) says numeric equality is by VALUE: the options of the selector number
   (NUMBER(..., type: "ordinal"), minimumFractionDigits of 1.0) play no role — the D14 regression. *)
Theorem C07_select_first_match :
  (forall variants sel sc hit sc',
     cache_ok rules (sc_intls sc) ->
     match sel with
     | VString _ | VNumber _ => find_variant rules f64_from_str variants sel sc
     | _ => Done (None, sc)
     end = Done (hit, sc') ->
     match hit with Some q => Some q | None => find_default variants end = chosen rules f64_from_str variants sel) /\
  (forall before v after sel,
     (forall u, In u before -> key_matches rules f64_from_str (variant_key_of u) sel = false) ->
     key_matches rules f64_from_str (variant_key_of v) sel = true ->
     chosen rules f64_from_str (before ++ v :: after) sel = Some (variant_value v)) /\
  (forall variants sel,
     (forall u, In u variants -> key_matches rules f64_from_str (variant_key_of u) sel = false) ->
     chosen rules f64_from_str variants sel = option_map variant_value (find variant_default variants)) /\
  (forall name s, key_matches rules f64_from_str (KeyIdentifier name) (VString s) = bytes_eqb name s) /\
  (forall lit x value options,
     f64_from_str lit = Some x ->
     key_matches rules f64_from_str (KeyNumber lit) (VNumber (FNum value options)) = fval_eqb x value) /\
  (forall name n cat ops,
     plural_keyword name = Some cat -> fnumber_operands n = Done ops ->
     key_matches rules f64_from_str (KeyIdentifier name) (VNumber n) = pcat_eqb (rules (o_type (n_options n)) ops) cat).
Proof.
  split; [|split; [|split; [|split; [|split]]]].
  - intros variants sel sc hit sc' Hc H.
    exact (proj1 (select_hit_spec rules f64_from_str variants sel sc hit sc' Hc H)).
  - intros before v after sel. apply chosen_first.
  - intros variants sel. apply chosen_default.
  - intros name s0. apply key_matches_string.
  - intros lit x value options. apply key_matches_number.
  - intros name n cat ops. apply key_matches_category.
Qed.

(* ================= runs that reach the placeable limit (removes the PARTIAL premise above) =================
   `SpecB n (text, errors, calls) count dirty` is the BUDGETED big-step specification of Bundle/ResolverSpecLimit.v:
   the rules of `Spec`, with the two pieces of state of resolver/scope.rs (placeables, dirty) threaded through them
   and four more rules that are the lines of the Rust code which test them: the placeable that exceeds
   MAX_PLACEABLES reports TooManyPlaceables and writes nothing (pattern.rs 43-48), a pattern writes nothing while
   dirty (pattern.rs 30-32), a placeable that ends dirty is followed by {its source} (scope.rs 72-75).
   Proofs: Bundle/ResolverRefineLimit.v. *)
Notation SpecB := (Specb call_function transform formatter rules custom_as_string unescape_write f64_from_str m args).

(* "the formatted text of a message value or attribute equals what the Fluent resolution rules give ... an exceeded
   placeable limit is reported once where it occurs": EVERY run of write_pattern on the pattern named n that returns
   (any fuel; C06_total: it does at fuel_of) — with NO hypothesis on the reported errors — writes the text, reports
   the errors IN ORDER, invokes the functions and ends with the placeable counter and dirty flag that the budgeted
   specification assigns from a fresh scope (0, not dirty).  Every bundle, argument set, both isolation settings
   (isolating: the D23 class `no_marks_in_values` stays a premise). *)
Theorem C07_refines_all_runs :
  forall iso fuel n p c o sc,
    cache_ok rules c -> no_marks_in_values m iso p -> pattern_named m n = Some p ->
    write iso fuel (Some (key_of n)) p c = Done (o, sc) ->
    SpecB n (flatten (strip o), sc_errors sc, sc_calls sc) (sc_placeables sc) (sc_dirty sc).
Proof.
  exact (specb_refines overflow_checks call_function transform formatter rules custom_as_string
           unescape_write unescape_to_string f64_from_str m args unescape_forms_agree).
Qed.

(* the same for the string API, isolation off: the returned string IS the specified text, limit or not *)
Theorem C07_refines_format_all_runs :
  forall fuel n p c text sc,
    cache_ok rules c -> pattern_named m n = Some p ->
    format false (S fuel) (Some (key_of n)) p c = Done (text, sc) ->
    SpecB n (text, sc_errors sc, sc_calls sc) (sc_placeables sc) (sc_dirty sc).
Proof.
  exact (specb_refines_format overflow_checks call_function transform formatter rules custom_as_string
           unescape_write unescape_to_string f64_from_str m args unescape_forms_agree).
Qed.

(* the budgeted specification adds nothing below the limit and is a function:
   (1) a derivation that ends not dirty is, rule by rule, a derivation of `Spec` (so C07_refines_partial is the
       corollary C07_refines_below_limit below);
   (2) at most one (text, errors, calls), counter and flag per named pattern. *)
Theorem C07_budget_conservative :
  (forall n r count, SpecB n r count false -> Spec n r) /\
  (forall n r1 c1 d1 r2 c2 d2, SpecB n r1 c1 d1 -> SpecB n r2 c2 d2 -> r1 = r2 /\ c1 = c2 /\ d1 = d2).
Proof.
  split.
  - exact (specb_conservative call_function transform formatter rules custom_as_string unescape_write f64_from_str m args).
  - exact (specb_functional call_function transform formatter rules custom_as_string unescape_write f64_from_str m args).
Qed.

(* (3) the budgeted specification leaves no pattern out: it assigns a result to EVERY named pattern of EVERY bundle
   (C06_total: the resolver returns at fuel_of when the three sources of numbers — literals, functions, arguments —
   are f64s), so with (2) it is a total function; `Spec` alone is not (it has no result for a limit run that
   would otherwise be too long to write down). *)
Theorem C07_budget_total :
  (forall s v, f64_from_str s = Some v -> NumberProofs.fval_in_f64_range v) ->
  (forall name pos named, ResolverTotal.value_ok (call_function name pos named)) ->
  ResolverTotal.oargs_ok args ->
  forall n p, pattern_named m n = Some p -> exists r count d, SpecB n r count d.
Proof.
  intros Hparse Hfun Hargs n p Hn.
  exact (specb_total overflow_checks call_function transform formatter rules custom_as_string
           unescape_write unescape_to_string f64_from_str m args unescape_forms_agree n p Hparse Hfun Hargs Hn).
Qed.

(* "an exceeded placeable limit is reported once where it occurs, and nothing else is reported" — for every result
   the budgeted specification assigns (hence, by C07_refines_all_runs, for every run):
   (1) TooManyPlaceables is in the error list exactly once when the run ends dirty and not at all otherwise;
   (2) the counter is MAX_PLACEABLES + 1 exactly when the limit was exceeded (the 101st counted placeable) and at most
       MAX_PLACEABLES otherwise;
   (3) the errors reported BEFORE TooManyPlaceables are, in order, an initial segment of the errors the un-budgeted
       rules `Spec` report for the same pattern (whenever `Spec` assigns it a result), and a run that does not
       report it has exactly the result of `Spec`.
   The errors after it come from the un-budgeted rules applied to what is left of the cut patterns: C07_after_limit
   (ResolverSpecLimit.v: only BL_limit reports TooManyPlaceables, every other rule reports what its ResolverSpec.v
   original reports). *)
Theorem C07_limit_run_errors :
  forall n t es cs count d,
    SpecB n (t, es, cs) count d ->
    (tmp_count es = (if d then 1 else 0)%nat /\ (In TooManyPlaceables es <-> d = true)) /\
    (if d then count = MAX_PLACEABLES + 1 else count <= MAX_PLACEABLES) /\
    (forall r0, Spec n r0 ->
       if d then exists before after rest, es = before ++ TooManyPlaceables :: after /\ snd (fst r0) = before ++ rest
       else r0 = (t, es, cs)).
Proof.
  intros n t es cs count d H. split; [|split].
  - exact (specb_errors call_function transform formatter rules custom_as_string unescape_write f64_from_str m args
             n t es cs count d H).
  - exact (specb_count call_function transform formatter rules custom_as_string unescape_write f64_from_str m args
             n (t, es, cs) count d H).
  - exact (specb_prefix call_function transform formatter rules custom_as_string unescape_write f64_from_str m args
             n t es cs count d H).
Qed.

(* "... and nothing else is reported", AFTER the limit: whatever the budgeted specification evaluates from a dirty
   state (the rest of a select expression, of a call's arguments, of a term call, after the limit was exceeded
   inside them) leaves the state as it is and is, rule by rule, what the UN-budgeted rules of `Spec` give for the
   same node when every pattern is emptied — the variants of its selects (blank_inline) and the values and attributes
   of the bundle's entries (blank_entries; names, presence of values and attributes unchanged):
   patterns write and report nothing; a placeable is followed by {its source}; and an error reported there is the
   unknown reference / value-less message / cycle / missing default that the un-budgeted rule reports at that node. *)
Theorem C07_after_limit :
  (forall T env p n r st',
     specb_pattern call_function transform formatter rules custom_as_string unescape_write f64_from_str m args
       T env p (n, true) r st' -> st' = (n, true) /\ r = just []) /\
  (forall T env e n r st',
     specb_tracked call_function transform formatter rules custom_as_string unescape_write f64_from_str m args
       T env e (n, true) r st' ->
     st' = (n, true) /\
     exists r1, eval_expr call_function transform formatter rules custom_as_string unescape_write f64_from_str
                  (blank_entries m) args T env (blank_expr e) r1 /\ r = r1 +++ cut_mark e) /\
  (forall T env i n r st',
     specb_inline call_function transform formatter rules custom_as_string unescape_write f64_from_str m args
       T env i (n, true) r st' ->
     st' = (n, true) /\
     eval_inline call_function transform formatter rules custom_as_string unescape_write f64_from_str
       (blank_entries m) args T env (blank_inline i) r) /\
  (forall T env i n r st',
     specb_value call_function transform formatter rules custom_as_string unescape_write f64_from_str m args
       T env i (n, true) r st' ->
     st' = (n, true) /\
     eval_value call_function transform formatter rules custom_as_string unescape_write f64_from_str
       (blank_entries m) args T env (blank_inline i) r) /\
  (forall T env a n r st',
     specb_args call_function transform formatter rules custom_as_string unescape_write f64_from_str m args
       T env a (n, true) r st' ->
     st' = (n, true) /\
     eval_args call_function transform formatter rules custom_as_string unescape_write f64_from_str
       (blank_entries m) args T env (blank_oargs a) r).
Proof.
  pose proof (specb_dirty_all call_function transform formatter rules custom_as_string unescape_write f64_from_str m args)
    as (Hp & _ & Ht & _ & Hi & _ & Hv & Ha & _).
  repeat split; intros.
  - exact (proj1 (Hp _ _ _ _ _ _ H eq_refl)).
  - exact (proj2 (Hp _ _ _ _ _ _ H eq_refl)).
  - exact (proj1 (Ht _ _ _ _ _ _ H eq_refl)).
  - exact (proj2 (Ht _ _ _ _ _ _ H eq_refl)).
  - exact (proj1 (Hi _ _ _ _ _ _ H eq_refl)).
  - exact (proj2 (Hi _ _ _ _ _ _ H eq_refl)).
  - exact (proj1 (Hv _ _ _ _ _ _ H eq_refl)).
  - exact (proj2 (Hv _ _ _ _ _ _ H eq_refl)).
  - exact (proj1 (Ha _ _ _ _ _ _ H eq_refl)).
  - exact (proj2 (Ha _ _ _ _ _ _ H eq_refl)).
Qed.

(* C07_refines_partial again, now as a corollary of the three theorems above *)
Corollary C07_refines_below_limit :
  forall iso fuel n p c o sc,
    cache_ok rules c -> no_marks_in_values m iso p -> pattern_named m n = Some p ->
    write iso fuel (Some (key_of n)) p c = Done (o, sc) ->
    ~ In TooManyPlaceables (sc_errors sc) ->
    Spec n (flatten (strip o), sc_errors sc, sc_calls sc).
Proof.
  intros iso fuel n p c o sc Hc Hok Hn H Hno.
  pose proof (C07_refines_all_runs iso fuel n p c o sc Hc Hok Hn H) as B.
  destruct (C07_limit_run_errors _ _ _ _ _ _ B) as [[_ Hd] _].
  destruct (sc_dirty sc); [exfalso; apply Hno, Hd; reflexivity|].
  exact (proj1 C07_budget_conservative _ _ _ B).
Qed.

End C07.

(* ---------- non-vacuity: the historical witnesses, on the model AND (through C07_refines_partial) on the
   specification ---------- *)
Definition ex_call (name : bytes) (pos : list fvalue) (_ : fargs) : fvalue :=
  match pos with v :: _ => v | [] => VNone end.                                   (* every registered function = identity *)
Definition ex_rules (_ : ntype) (ops : operands) : pcat :=
  if N.eqb (op_i ops) 1 && N.eqb (op_v ops) 0 then ONE else OTHER.                (* English cardinals *)
Definition ex_id (x : bytes) : bytes := x.
Definition s (x : string) : bytes := bytes_of_string x.

(* run write_pattern on the pattern named n (isolation off, empty memoizer, fuel_of) and return what C07 speaks about *)
Definition ex_run (m : list (bytes * bentry)) (a : option fargs) (n : pname) : option res :=
  match pattern_named m n with
  | None => None
  | Some p =>
      match write_pattern true ex_call None None ex_rules ex_id ex_id ex_id f64_from_str_exact (Bundle m false) a
              (fuel_of (Bundle m false) p) (Some (key_of n)) p [] with
      | Done (o, sc) => if existsb is_tmp (sc_errors sc) then None else Some (flatten (strip o), sc_errors sc, sc_calls sc)
      | _ => None
      end
  end.

Notation ExSpec m a := (Eval ex_call None None ex_rules ex_id ex_id f64_from_str_exact m a).

Lemma ex_run_spec m a n r : ex_run m a n = Some r -> ExSpec m a n r.
Proof.
  unfold ex_run. intros H. destruct (pattern_named m n) as [p|] eqn:En; [|discriminate].
  destruct (write_pattern true ex_call None None ex_rules ex_id ex_id ex_id f64_from_str_exact (Bundle m false) a
              (fuel_of (Bundle m false) p) (Some (key_of n)) p []) as [[o sc]|t|] eqn:E; try discriminate.
  destruct (existsb is_tmp (sc_errors sc)) eqn:Et; [discriminate|]. injection H as <-.
  eapply (C07_refines_partial true ex_call None None ex_rules ex_id ex_id ex_id f64_from_str_exact m a
            (fun _ => eq_refl) false _ n p [] o sc).
  - intros ty r Hf. discriminate Hf.
  - intros Hx. discriminate Hx.
  - exact En.
  - exact E.
  - intros Hin. assert (Hx : existsb is_tmp (sc_errors sc) = true) by (apply existsb_exists; exists TooManyPlaceables; auto).
    congruence.
Qed.

Definition t (x : string) := TextElement (s x).
Definition pl (i : inline) := PlaceableElement (Inline i).
Definition message (id : string) (els : list pattern_element) : bytes * bentry := (s id, EMessage (Some (Pattern els)) []).
Definition term (id : string) (els : list pattern_element) : bytes * bentry := (s id, ETerm (Pattern els) []).
Definition the (id : string) : pname := NMessage (s id) None.

(* D12 (fixed by 6123438):  -inner = x   -outer = { -inner } { $arg }   msg = { -outer(arg: "A") } *)
Definition d12 : list (bytes * bentry) :=
  [term "inner" [t "x"];
   term "outer" [pl (TermReference (s "inner") None None); t " "; pl (VariableReference (s "arg"))];
   message "msg" [pl (TermReference (s "outer") None (Some (CallArguments [] [NamedArgument (s "arg") (StringLiteral (s "A"))])))]].
Example C07_example_D12_outer_args_back :
  ExSpec d12 None (the "msg") (s "x A", [], []) /\
  ExSpec d12 (Some [(s "arg", VString (s "CALLER"))]) (the "msg") (s "x A", [], []).
Proof. split; apply ex_run_spec; vm_compute; reflexivity. Qed.

(* a term does not see the caller's arguments; a parameter it was not given is no error; a message does *)
Example C07_example_term_sees_only_its_arguments :
  ExSpec [term "t" [pl (VariableReference (s "arg"))];
          message "m" [pl (VariableReference (s "arg"))];
          message "e" [pl (TermReference (s "t") None None); t "|"; pl (MessageReference (s "m") None); t "|";
                       pl (VariableReference (s "nope"))]]
    (Some [(s "arg", VString (s "CALLER"))]) (the "e")
    (s "{$arg}|CALLER|{$nope}", [Reference (RefVariable (s "nope"))], []).
Proof. apply ex_run_spec; vm_compute; reflexivity. Qed.

(* D13 (fixed by 69d86e7):  { NOPE() -> [a] A *[b] B }  and  { IDENTITY(NOPE()) } *)
Example C07_example_D13_unknown_function_in_selector :
  ExSpec [message "e" [PlaceableElement (Select (FunctionReference (s "NOPE") (CallArguments [] []))
             [Variant (KeyIdentifier (s "a")) (Pattern [t "A"]) false; Variant (KeyIdentifier (s "b")) (Pattern [t "B"]) true])]]
    None (the "e") (s "B", [Reference (RefFunction (s "NOPE"))], []).
Proof. apply ex_run_spec; vm_compute; reflexivity. Qed.
Example C07_example_D13_unknown_function_in_argument :
  ExSpec [(s "IDENTITY", EFunction (FnUser (s "IDENTITY")));
          message "e" [pl (FunctionReference (s "IDENTITY") (CallArguments [FunctionReference (s "NOPE") (CallArguments [] [])] []))]]
    None (the "e") (s "IDENTITY()", [Reference (RefFunction (s "NOPE"))], [Call (s "IDENTITY") [VError] []]).
Proof. apply ex_run_spec; vm_compute; reflexivity. Qed.

(* D14 (fixed by cc6821a):  { NUMBER($n, type: "ordinal") -> [1] first *[other] nth }  with n = 1, and
   { 1.0 -> [1] A *[other] B } *)
Example C07_example_D14_numeric_key_by_value :
  ExSpec [(s "NUMBER", EFunction FnNUMBER);
          message "e" [PlaceableElement (Select (FunctionReference (s "NUMBER")
                 (CallArguments [VariableReference (s "n")] [NamedArgument (s "type") (StringLiteral (s "ordinal"))]))
               [Variant (KeyNumber (s "1")) (Pattern [t "first"]) false; Variant (KeyIdentifier (s "other")) (Pattern [t "nth"]) true])]]
    (Some [(s "n", VNumber (FNum (FDec false (s "1") []) default_options))]) (the "e")
    (s "first", [],
     [Call (s "NUMBER") [VNumber (FNum (FDec false (s "1") []) default_options)] [(s "type", VString (s "ordinal"))]]) /\
  ExSpec [message "f" [PlaceableElement (Select (NumberLiteral (s "1.0"))
               [Variant (KeyNumber (s "1")) (Pattern [t "A"]) false; Variant (KeyIdentifier (s "other")) (Pattern [t "B"]) true])]]
    None (the "f") (s "A", [], []).
Proof. split; apply ex_run_spec; vm_compute; reflexivity. Qed.

(* first match wins, exact number before category, plural category, default; a cycle; a value-less message *)
Example C07_example_select_and_errors :
  let keys := [Variant (KeyIdentifier (s "one")) (Pattern [t "cat"]) false;
               Variant (KeyNumber (s "1")) (Pattern [t "exact"]) false;
               Variant (KeyIdentifier (s "other")) (Pattern [t "dflt"]) true] in
  let b := [message "e" [PlaceableElement (Select (VariableReference (s "n")) keys)]] in
  let n x := Some [(s "n", VNumber (FNum (FDec false (s x) []) default_options))] in
  ExSpec b (n "1"%string) (the "e") (s "cat", [], []) /\
  ExSpec b (n "5"%string) (the "e") (s "dflt", [], []) /\
  ExSpec b None (the "e") (s "dflt", [Reference (RefVariable (s "n"))], []) /\
  ExSpec [message "a" [pl (MessageReference (s "b") None)];
          message "b" [t "<"; pl (MessageReference (s "a") None); t ">"];
          (s "nv", EMessage None [Attribute (s "x") (Pattern [t "X"])]);
          message "e" [pl (MessageReference (s "b") None); pl (MessageReference (s "nv") None); pl (MessageReference (s "nv") (Some (s "x")))]]
    None (the "e") (s "<{b}>{nv}X", [Cyclic; NoValue (s "nv")], []).
Proof. cbv zeta. split; [|split; [|split]]; apply ex_run_spec; vm_compute; reflexivity. Qed.

(* D31 (fixed by 2e7cfb6): two DIFFERENT terms with the SAME text
       -a = { $k -> [1] { -b(k: 2) } *[other] end }
       -b = { $k -> [1] { -b(k: 2) } *[other] end }
       e  = { -a(k: 1) }        f = { -b(k: 2) }        g = { -b(k: 1) }
   -b is not being expanded when -a refers to it: no cycle, "end" (the resolver used to compare patterns
   structurally and answered {-b} + Cyclic).  -b(k: 1) does refer to -b while -b is being expanded: a cycle. *)
Definition rec_body : list pattern_element :=
  [PlaceableElement (Select (VariableReference (s "k"))
     [Variant (KeyNumber (s "1"))
        (Pattern [pl (TermReference (s "b") None (Some (CallArguments [] [NamedArgument (s "k") (NumberLiteral (s "2"))])))]) false;
      Variant (KeyIdentifier (s "other")) (Pattern [t "end"]) true])].
Definition call_with_k (id k : string) : pattern_element :=
  pl (TermReference (s id) None (Some (CallArguments [] [NamedArgument (s "k") (NumberLiteral (s k))]))).
Definition equal_patterns : list (bytes * bentry) :=
  [term "a" rec_body; term "b" rec_body;
   message "e" [call_with_k "a" "1"]; message "f" [call_with_k "b" "2"]; message "g" [call_with_k "b" "1"]].

Example C07_example_equal_patterns_no_cycle :
  ExSpec equal_patterns None (the "e") (s "end", [], []) /\
  ExSpec equal_patterns None (the "f") (s "end", [], []) /\
  ExSpec equal_patterns None (the "g") (s "{-b}", [Cyclic], []).
Proof. split; [|split]; apply ex_run_spec; vm_compute; reflexivity. Qed.

(* ---------- non-vacuity of the limit theorems: runs that reach the placeable limit ---------- *)
(* run write_pattern as ex_run does, keep EVERYTHING: (text, errors, calls), the counter, the dirty flag *)
Definition ex_run_all (m : list (bytes * bentry)) (a : option fargs) (n : pname) : option (res * N * bool) :=
  match pattern_named m n with
  | None => None
  | Some p =>
      match write_pattern true ex_call None None ex_rules ex_id ex_id ex_id f64_from_str_exact (Bundle m false) a
              (fuel_of (Bundle m false) p) (Some (key_of n)) p [] with
      | Done (o, sc) => Some (flatten (strip o), sc_errors sc, sc_calls sc, sc_placeables sc, sc_dirty sc)
      | _ => None
      end
  end.

Notation ExSpecB m a := (Specb ex_call None None ex_rules ex_id ex_id f64_from_str_exact m a).

(* what the model computes is a derivation of the budgeted specification (C07_refines_all_runs), limit or not *)
Lemma ex_run_all_spec m a n r count d : ex_run_all m a n = Some (r, count, d) -> ExSpecB m a n r count d.
Proof.
  unfold ex_run_all. intros H. destruct (pattern_named m n) as [p|] eqn:En; [|discriminate].
  destruct (write_pattern true ex_call None None ex_rules ex_id ex_id ex_id f64_from_str_exact (Bundle m false) a
              (fuel_of (Bundle m false) p) (Some (key_of n)) p []) as [[o sc]|t|] eqn:E; try discriminate.
  injection H as <- <- <-.
  eapply (C07_refines_all_runs true ex_call None None ex_rules ex_id ex_id ex_id f64_from_str_exact m a
            (fun _ => eq_refl) false _ n p [] o sc).
  - intros ty r Hf. discriminate Hf.
  - intros Hx. discriminate Hx.
  - exact En.
  - exact E.
Qed.

Definition a_times (k : nat) : bytes := List.repeat 97 k.

(* one pattern of 101 placeables  m = { "a" }{ "a" }...  referenced from  e = <{ m }>:
   formatting m, 100 are written; the 101st is where the limit is exceeded: it writes nothing and reports
   TooManyPlaceables, once.  Formatting e, { m } is itself the first counted placeable, so 99 are written; the
   placeable { m } ends dirty and is followed by {m}; the text after it is not written.  Counter 101, dirty. *)
Definition hundred_and_one : list (bytes * bentry) :=
  [message "m" (List.repeat (pl (StringLiteral (s "a"))) 101);
   message "e" [t "<"; pl (MessageReference (s "m") None); t ">"]].
Example C07_example_limit_101_placeables :
  ExSpecB hundred_and_one None (the "m") (a_times 100, [TooManyPlaceables], []) 101 true /\
  ExSpecB hundred_and_one None (the "e") (s "<" ++ a_times 99 ++ s "{m}", [TooManyPlaceables], []) 101 true.
Proof. split; apply ex_run_all_spec; vm_compute; reflexivity. Qed.

(* the limit exceeded inside a call argument: F = identity is still called, with the text cut short; an unknown
   message AFTER the limit is still reported (nothing else is); every enclosing placeable appends its source *)
Definition limit_in_argument : list (bytes * bentry) :=
  [(s "F", EFunction (FnUser (s "F")));
   term "t" (List.repeat (pl (StringLiteral (s "a"))) 100);
   message "e" [pl (FunctionReference (s "F") (CallArguments [TermReference (s "t") None None; MessageReference (s "nope") None] []));
                t "|"; pl (StringLiteral (s "never"))]].
Example C07_example_limit_in_call_argument :
  ExSpecB limit_in_argument None (the "e")
    (a_times 99 ++ s "{F()}", [TooManyPlaceables; Reference (RefMessage (s "nope") None)],
     [Call (s "F") [VString (a_times 99); VString (s "{nope}")] []]) 101 true.
Proof. apply ex_run_all_spec; vm_compute; reflexivity. Qed.

(* billion laughs (the bundle of Props/C06.v C06_example_laughs: arity 10, depth 3, 1110 placeables if unbounded):
   lol3 = 10 x { lol2 }, lol2 = 10 x { lol1 }, lol1 = 10 x { lol0 }, lol0 = lol.
   The first { lol2 } is counted 1, each { lol1 } in it with its ten { lol0 } 11: after nine of them the counter is 100
   and 90 times "lol" are written; the 10th { lol1 } is the 101st counted placeable: it writes nothing and reports
   TooManyPlaceables; the enclosing placeable { lol2 } ends dirty and appends {lol2}; the other nine are skipped.
   276 bytes, as in C06_example_laughs. *)
Definition laugh (id : string) := pl (MessageReference (s id) None).
Definition laughs : list (bytes * bentry) :=
  [message "lol0" [t "lol"];
   message "lol1" (List.repeat (laugh "lol0") 10);
   message "lol2" (List.repeat (laugh "lol1") 10);
   message "lol3" (List.repeat (laugh "lol2") 10)].
Example C07_example_limit_billion_laughs :
  ExSpecB laughs None (the "lol3")
    (List.concat (List.repeat (s "lol") 90) ++ s "{lol2}", [TooManyPlaceables], []) 101 true.
Proof. apply ex_run_all_spec; vm_compute; reflexivity. Qed.

(* below the limit the budgeted specification gives what `Spec` gives (C07_budget_conservative): D12 again *)
Example C07_example_below_limit_same :
  ExSpecB d12 None (the "msg") (s "x A", [], []) 3 false /\ ExSpec d12 None (the "msg") (s "x A", [], []).
Proof.
  assert (H : ExSpecB d12 None (the "msg") (s "x A", [], []) 3 false) by (apply ex_run_all_spec; vm_compute; reflexivity).
  split; [exact H|].
  exact (proj1 (C07_budget_conservative ex_call None None ex_rules ex_id ex_id f64_from_str_exact d12 None) _ _ _ H).
Qed.

Print Assumptions C07_refines_all_runs.
Print Assumptions C07_refines_format_all_runs.
Print Assumptions C07_budget_conservative.
Print Assumptions C07_budget_total.
Print Assumptions C07_limit_run_errors.
Print Assumptions C07_after_limit.
Print Assumptions C07_refines_below_limit.

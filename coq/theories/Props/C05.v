(* Props/C05.v — C05 "Runtime parser agrees with the full parser apart from comments".

   Model: Syntax/ParserModel.v (`parse` = parser::parse, `parse_runtime` = parser::parse_runtime, both over the same
   get_message / get_term / recover, as in the Rust code).  Proofs: Syntax/RuntimeAgree.v.
   All theorems quantify over ALL byte strings `bs`; nothing is assumed about `bs` except where `wf_hash_lines`
   is stated.  The `_any_fuel` forms are stronger: the two loops may run on different recursion budgets.      *)
From FluentV Require Import Syntax.ParserModel Syntax.RuntimeAgree.
Open Scope string_scope.

(* ---- the vocabulary of the statements (definitions live in Syntax/RuntimeAgree.v; pinned here) ---- *)
Example C05_def_messages_terms : forall body,
  messages_terms body = filter (fun e => match e with Message _ _ _ _ | Term _ _ _ _ => true | _ => false end) body.
Proof. reflexivity. Qed.
Example C05_def_junks : forall body,
  junks body = filter (fun e => match e with Junk _ => true | _ => false end) body.
Proof. reflexivity. Qed.
Example C05_def_strip_comment : forall e,
  strip_comment e = match e with
                    | Message id v a _ => Message id v a None
                    | Term id v a _ => Term id v a None
                    | _ => e
                    end.
Proof. reflexivity. Qed.
(* an entry the runtime parser may return: a message or term without comment, or Junk *)
Example C05_def_rt_entry : forall e,
  rt_entry e <-> ((exists id v a, e = Message id v a None) \/ (exists id v a, e = Term id v a None)) \/
                 (exists c, e = Junk c).
Proof. intros e. reflexivity. Qed.
(* every line that starts with '#' (at offset 0 or after LF; a lone CR is ordinary content) is
   1-3 '#' followed by end of input, LF, CRLF, or a space and then anything *)
Example C05_def_wf_hash_lines : forall bs, wf_hash_lines bs = wf_from true bs.
Proof. reflexivity. Qed.
Example C05_def_wf_from : forall line_start b r,
  wf_from line_start (b :: r) =
  (if line_start && N.eqb b 35 then wf_comment_line (b :: r) else true) && wf_from (N.eqb b 10) r.
Proof. reflexivity. Qed.
Example C05_def_wf_comment_line : forall l,
  wf_comment_line l =
  let h := scan_while (N.eqb 35) l in
  Nat.leb h 3 &&
  match skipn h l with
  | [] => true
  | b :: r => N.eqb b 32 || N.eqb b 10 || (N.eqb b 13 && match r with c :: _ => N.eqb c 10 | [] => false end)
  end.
Proof. reflexivity. Qed.

(* ---- sentence 1: "For every input, the runtime parser returns exactly the messages and terms (same order,
        same content, no comments) that the full parser returns." ---- *)
Theorem C05_entries_agree : forall bs body errs body' errs',
  parse bs = Done (body, errs) -> parse_runtime bs = Done (body', errs') ->
  map strip_comment (messages_terms body) = messages_terms body'.
Proof. exact RuntimeAgree.entries_agree. Qed.

(* "no comments": the runtime result holds no comment entry and no attached comment *)
Theorem C05_runtime_no_comments : forall bs body' errs',
  parse_runtime bs = Done (body', errs') -> Forall rt_entry body'.
Proof. exact RuntimeAgree.runtime_no_comments. Qed.

(* ---- sentence 2: "When every '#' line of the input is a well-formed comment, the two also agree on all Junk
        entries and on the complete error list" ---- *)
Theorem C05_junk_agree : forall bs body errs body' errs',
  wf_hash_lines bs = true ->
  parse bs = Done (body, errs) -> parse_runtime bs = Done (body', errs') ->
  junks body = junks body' /\ errs = errs'.
Proof. exact RuntimeAgree.junk_agree. Qed.

(* the same at arbitrary, possibly different, fuels of the two entry loops *)
Theorem C05_entries_agree_any_fuel : forall bs n m body errs q body' errs' q',
  parse_m bs n 0 = Ok (body, errs) q -> parse_runtime_m bs m 0 = Ok (body', errs') q' ->
  map strip_comment (messages_terms body) = messages_terms body'.
Proof. exact RuntimeAgree.entries_agree_m. Qed.
Theorem C05_junk_agree_any_fuel : forall bs n m body errs q body' errs' q',
  wf_hash_lines bs = true ->
  parse_m bs n 0 = Ok (body, errs) q -> parse_runtime_m bs m 0 = Ok (body', errs') q' ->
  junks body = junks body' /\ errs = errs'.
Proof. exact RuntimeAgree.junk_agree_m. Qed.

(* get_message / get_term do not depend on the fuel once it suffices: the fact that lets two loops with
   different iteration counts be compared *)
Theorem C05_fuel_independent : forall bs n m s p,
  get_message bs n s p <> Fuel -> get_message bs m s p <> Fuel -> get_message bs n s p = get_message bs m s p.
Proof. exact RuntimeAgree.get_message_indep. Qed.

(* ---- witnesses (vm_compute on concrete inputs) ---- *)
(* (entries, messages+terms, junk, errors) of the full parser, then of the runtime parser *)
Definition C05_summary (s : string) : option ((nat * nat * nat * nat) * (nat * nat * nat * nat)) :=
  match parse (bytes_of_string s), parse_runtime (bytes_of_string s) with
  | Done (b, e), Done (b', e') =>
      Some ((length b, length (messages_terms b), length (junks b), length e),
            (length b', length (messages_terms b'), length (junks b'), length e'))
  | _, _ => None
  end.
Definition C05_agree (s : string) : Prop :=
  match parse (bytes_of_string s), parse_runtime (bytes_of_string s) with
  | Done (b, e), Done (b', e') => map strip_comment (messages_terms b) = messages_terms b'
  | _, _ => False
  end.

(* comments of all three levels before, between and after entries; an attached comment; LF and CRLF;
   every '#' line well formed: Junk and errors agree as well *)
Definition C05_input_wf : string :=
  "### resource" ++ String "010" (
  "## group" ++ String "010" (String "010" (
  "# attached" ++ String "010" (
  "foo = Foo" ++ String "010" (
  "#" ++ String "013" (String "010" (
  "# two" ++ String "013" (String "010" (
  "-term = T" ++ String "010" (String "010" (
  "## between" ++ String "010" (String "010" (String "010" (
  " junk line" ++ String "010" (
  "bar = Bar" ++ String "010" (
  "  .attr = A" ++ String "010" (
  "### after" ++ String "010" (
  "# last")))))))))))))))))).
Example C05_example_wf :
  wf_hash_lines (bytes_of_string C05_input_wf) = true /\
  C05_summary C05_input_wf = Some ((9, 3, 1, 1), (4, 3, 1, 1)) /\
  C05_agree C05_input_wf.
Proof. vm_compute. repeat split. Qed.

(* malformed '#' lines ("#x", "####", "#" CR at the end): messages and terms still agree, Junk does not *)
Definition C05_input_malformed : string :=
  "# ok" ++ String "010" (
  "#x" ++ String "010" (
  "  y" ++ String "010" (
  "foo = 1" ++ String "010" (
  "####" ++ String "010" (
  "-t = 2" ++ String "010" (
  "#" ++ String "013" "")))))).
Example C05_example_malformed :
  wf_hash_lines (bytes_of_string C05_input_malformed) = false /\
  C05_summary C05_input_malformed = Some ((6, 2, 3, 3), (3, 2, 1, 1)) /\
  C05_agree C05_input_malformed.
Proof. vm_compute. repeat split. Qed.

(* skip_comment leaves ptr at length + 1 when a comment ends the input without a line end *)
Example C05_example_overshoot :
  skip_comment (bytes_of_string "# c") 5 0 = Ok tt 4 /\ length (bytes_of_string "# c") = 3.
Proof. vm_compute. split; reflexivity. Qed.

(* wf_hash_lines on the boundary cases of the oracle (props/C05.py all_hash_lines_wf) *)
Example C05_example_wf_cases :
  map (fun s => wf_hash_lines (bytes_of_string s))
      ["#"; "###"; "####"; "#x"; "# x"; "##" ++ String "013" (String "010" "a"); "#" ++ String "013" "";
       "a" ++ String "013" "#x"; "a" ++ String "010" "#x"; " #x"; ""]
  = [true; true; false; false; true; true; false; true; false; true; true].
Proof. vm_compute. reflexivity. Qed.

(* placeholder until the proofs land *)
From FluentV Require Import Syntax.ParserModel.
Theorem C05_placeholder : True.
Proof. exact Logic.I. Qed.

(* Props/C17.v — fallback bundles are generated lazily, once, in order, under any interleaving.
   Only statements here; the model is Fallback/Cache.v (a transliteration of fluent-fallback/src/cache.rs),
   proofs are in Fallback/CacheProofs.v.

   Quantification.  `script` is ANY pattern of Ready(item) / Pending steps of the fused source (past its
   end: None for ever), `n` ANY number of consumers (stream / iterator handles, one per request),
   items of ANY type.  `reachable script n s`: s is reached from `init script n` by ANY interleaving of
     - `Poll c`       the executor polls handle c with c's waker — at any time, woken or not (spurious),
     - `SourceReady`  the pending source becomes ready and wakes ONLY the waker it holds,
     - a poll of a request future of bundles.rs (`request_step`, the `while let Some(b) = stream.next().await` loops).
   In particular every `run (init script n) sched` is reachable (C17_schedules_reachable).
   No cancellation: handles are never dropped while waiting.                                   *)
From Coq Require Import List Arith Lia.
Import ListNotations.
From FluentV Require Import Base.Outcome Fallback.Cache Fallback.CacheProofs.

Theorem C17_schedules_reachable : forall A (script : list (sstep A)) n sched,
  reachable script n (run (init script n) sched).
Proof. intros. apply run_reachable. constructor. Qed.

(* "the bundle source is asked for the next locale only when a request actually needs it" (1):
   the cached items are always a prefix of the source's sequence, and the source is polled only by a
   consumer that has used up the cache (curr = len); wake-ups alone never poll it *)
Theorem C17_prefix : forall A (script : list (sstep A)) n s, reachable script n s ->
  (exists rest, src_items script = items s ++ rest) /\
  (forall c, n_polls (fst (poll_next s c)) <> n_polls s ->
             exists k, nth_error (cons s) c = Some k /\ curr k = length (items s)) /\
  n_polls (source_ready s) = n_polls s /\
  (forall c, n_polls (clear_woken c s) = n_polls s).
Proof.
  intros A script n s H. apply reachable_Inv in H. destruct H as (HD & _ & _).
  split; [eexists; apply (di_prefix _ _ _ HD)|].
  split; [intros c; apply polls_only_at_frontier|].
  split; [apply source_ready_no_poll|reflexivity].
Qed.

(* "each locale's bundle is produced at most once and then reused": the log of what the source handed
   out IS the cache content (every element pulled once, pushed once, in order), and cache + rest of the
   source is the source's sequence (no element skipped or repeated) *)
Theorem C17_once : forall A (script : list (sstep A)) n s, reachable script n s ->
  pulled s = items s /\ n_some s = length (items s) /\ items s ++ src_items (src s) = src_items script.
Proof.
  intros A script n s H. apply reachable_Inv in H. destruct H as (HD & _ & _).
  split; [apply (di_pulled _ _ _ HD)|split; [apply (di_some _ _ _ HD)|symmetry; apply (di_prefix _ _ _ HD)]].
Qed.

(* "every consumer observes the same bundles in the same order with none lost or duplicated":
   what consumer c has been handed is exactly the first `curr` cached items; one that was told None has
   seen the whole source sequence *)
Theorem C17_same_order : forall A (script : list (sstep A)) n s, reachable script n s ->
  forall c k, nth_error (cons s) c = Some k ->
    seen k = firstn (curr k) (items s) /\
    (fin k = true -> seen k = items s /\ items s = src_items script).
Proof.
  intros A script n s H c k Hk. apply reachable_Inv in H.
  destruct (Inv_same_order _ _ _ _ _ _ H Hk) as (H1 & _ & H3). auto.
Qed.

(* "asked only when needed" (2), counting: whatever has been generated has been handed to the consumer
   that asked for it (nobody's view is longer than the cache, somebody's view is the whole cache), and
   #answers of the source = #items + #consumers that were told None (the end of the source is not cached:
   every consumer that walks to the end asks the fused source once more — see C17_lazy_single_end_pull_refuted) *)
Theorem C17_lazy : forall A (script : list (sstep A)) n s, reachable script n s ->
  (items s <> [] -> exists c k, nth_error (cons s) c = Some k /\ seen k = items s) /\
  (forall c k, nth_error (cons s) c = Some k -> length (seen k) <= length (items s)) /\
  n_some s + n_none s = length (items s) + length (filter fin (cons s)).
Proof.
  intros A script n s H. apply reachable_Inv in H.
  split; [apply (Inv_lazy_front _ _ _ _ H)|split].
  - intros c k Hk. destruct (Inv_same_order _ _ _ _ _ _ H Hk) as (_ & H2 & _). exact H2.
  - destruct H as (HD & _ & _). rewrite (di_some _ _ _ HD), (di_none _ _ _ HD). unfold fin_ind. rewrite sumf_filter. reflexivity.
Qed.

(* as long as nobody has walked off the end: #pulls = 1 + deepest index any consumer asked for
   (= the largest curr) *)
Theorem C17_lazy_depth : forall A (script : list (sstep A)) n s, reachable script n s ->
  (forall c k, nth_error (cons s) c = Some k -> fin k = false) -> items s <> [] ->
  exists c k, nth_error (cons s) c = Some k /\ n_some s + n_none s = curr k /\
              forall c' k', nth_error (cons s) c' = Some k' -> curr k' <= curr k.
Proof.
  intros A script n s H. apply reachable_Inv in H. apply (Inv_lazy_depth _ _ _ _ H).
Qed.

(* the naive reading "never more than 1 + deepest index pulls" is false of the code: two consumers on an
   empty source both poll it (the end is re-pulled by every consumer that reaches it) *)
Theorem C17_lazy_single_end_pull_refuted :
  ~ (forall (script : list (sstep nat)) n sched,
       let s := run (init script n) sched in n_some s + n_none s <= S (length (items s))).
Proof. intros H. specialize (H [] 2 [Poll 0; Poll 1]). vm_compute in H. lia. Qed.

(* "every request that is waiting is eventually woken" — safety half.  A waiting consumer has been woken
   already, or its waker is queued in pending_wakes, it is at the frontier, and there is a rescuer: the
   source holds a waker, or some woken unfinished consumer is at the frontier (its poll will ask the
   source).  The source's waker is the last one queued and belongs to a waiting consumer.  And whenever a
   poll gets an answer (item or end) from the source, pending_wakes is drained and EVERY waiting consumer
   has been woken — for a bare poll_next and for the executor's poll (wake-up consumed first). *)
Theorem C17_no_lost_wakeup : forall A (script : list (sstep A)) n s, reachable script n s ->
  (forall c k, nth_error (cons s) c = Some k -> blocked k = true ->
     woken k = true \/
     (In c (pending_wakes s) /\ curr k = length (items s) /\
      ((exists w, waiting s = Some w) \/
       (exists w kw, nth_error (cons s) w = Some kw /\ woken kw = true /\ fin kw = false /\ curr kw = length (items s))))) /\
  (forall w, waiting s = Some w ->
     (exists r, src s = SPending :: r) /\ (exists l, pending_wakes s = l ++ [w]) /\
     exists k, nth_error (cons s) w = Some k /\ blocked k = true /\ fin k = false /\ curr k = length (items s)) /\
  (forall c s0, s0 = s \/ s0 = clear_woken c s ->
     n_some s0 + n_none s0 < n_some (fst (poll_next s0 c)) + n_none (fst (poll_next s0 c)) ->
     pending_wakes (fst (poll_next s0 c)) = [] /\
     forall c' k', nth_error (cons (fst (poll_next s0 c))) c' = Some k' -> blocked k' = true -> woken k' = true).
Proof.
  intros A script n s H. apply reachable_Inv in H. pose proof H as (HD & HW & HL).
  split; [|split].
  - intros c k Hk Hb. destruct (woken k) eqn:Hw; [left; auto|right].
    destruct (wi_blocked _ _ _ HW _ _ Hk ltac:(discriminate) Hb Hw) as (Hin & Hc).
    split; auto. split; auto.
    assert (Hne : pending_wakes s <> []) by (intros E; rewrite E in Hin; destruct Hin).
    destruct (wi_pw _ _ _ HW Hne) as [?|[?|(w & kw & Hex & _)]]; [left; auto|right; auto|discriminate].
  - apply (wi_waiting _ _ _ HW).
  - intros c s0 Hs0 Hlt. eapply Inv_wake_all_step; eauto.
Qed.

(* "... and completes" — liveness half, over finite schedules.  `fair s a`: a is a step a fair environment
   owes (poll a consumer that is not finished and is not waiting or has been woken; fire a pending source).
   From every reachable state: (1) a fair continuation of length <= variant s finishes every consumer;
   (2) along ANY continuation, fair or not, at most `variant s` fair steps can be taken at all;
   (3) as long as somebody is not finished a fair step is enabled, (4) and none once all are finished.
   So no schedule that keeps taking enabled fair steps can avoid completion. *)
Theorem C17_progress : forall A (script : list (sstep A)) n s, reachable script n s ->
  (exists cont, length cont <= variant s /\ count_fair s cont = length cont /\ all_done (run s cont) = true) /\
  (forall cont, count_fair s cont <= variant s) /\
  (forall cont, all_done (run s cont) = false -> exists a, fair (run s cont) a = true) /\
  (forall cont a, all_done (run s cont) = true -> fair (run s cont) a = false).
Proof.
  intros A script n s H. apply reachable_Inv in H.
  split; [|split; [|split]].
  - destruct (fair_run_done _ script n (variant s) s H (le_n _)) as (H1 & H2 & H3).
    exists (fair_run (variant s) s). auto.
  - intros cont. apply (count_fair_bound _ script n). exact H.
  - intros cont Hnd. exists (pick (run s cont)). apply (pick_fair _ script n); [apply Inv_run; exact H|exact Hnd].
  - intros cont a Hd. apply (done_no_fair _ script n); [apply Inv_run; exact H|exact Hd].
Qed.

(* the request futures of bundles.rs only use the handle-level transitions: one poll of a request future
   is "consume the wake-up, then poll_next m >= 1 times"; hence every theorem above covers them.
   "asked only when a request actually needs it" for batches: a batch request with NO keys
   (format_values / format_messages with an empty list) changes nothing — no source poll, no item pulled *)
Theorem C17_request_refines : forall A (script : list (sstep A)) n s c fuel no_keys answers s' p,
  request_step fuel no_keys answers s c = Done (s', p) ->
  (if no_keys then s' = s /\ p = Ready None
   else exists m, 1 <= m <= fuel /\ s' = poll_n m (clear_woken c s) c) /\
  (reachable script n s -> reachable script n s').
Proof.
  intros A script n s c fuel no_keys answers s' p H. split.
  - unfold request_step in H. destruct no_keys; [injection H as <- <-; auto|]. eapply request_poll_iter; eauto.
  - intros Hr. econstructor; eauto.
Qed.

Theorem C17_lazy_empty_request : forall A fuel answers (s : astate A) c s' p,
  request_step fuel true answers s c = Done (s', p) ->
  n_polls s' = n_polls s /\ items s' = items s /\ s' = s.
Proof. intros A fuel answers s c s' p H. cbn in H. injection H as <- <-. auto. Qed.

(* ---- the synchronous iterator variant (Cache / CacheIter) ---------------------------------- *)
(* `sreachable src n c`: c is reached from `cache_new src n` by next() calls on the n handles in ANY
   interleaving and by whole synchronous requests (format_*_from_iter, `request_sync_step`). *)

Theorem C17_sync_histories_reachable : forall A (src0 : list A) n h, sreachable src0 n (cache_run (cache_new src0 n) h).
Proof. intros. apply cache_run_sreachable. constructor. Qed.

Theorem C17_sync_prefix : forall A (src0 : list A) n c, sreachable src0 n c ->
  src0 = c_items c ++ c_iter c /\
  (forall i, c_calls (fst (cache_iter_next c i)) <> c_calls c ->
             exists k, nth_error (c_cons c) i = Some k /\ curr k = length (c_items c)).
Proof.
  intros A src0 n c H. apply sreachable_inv in H. split; [apply (si_prefix _ _ _ H)|].
  intros i. apply calls_only_at_frontier.
Qed.

Theorem C17_sync_once : forall A (src0 : list A) n c, sreachable src0 n c ->
  c_items c ++ c_iter c = src0 /\
  c_calls c = length (c_items c) + length (filter fin (c_cons c)).
Proof.
  intros A src0 n c H. apply sreachable_inv in H. split; [symmetry; apply (si_prefix _ _ _ H)|].
  rewrite (si_calls _ _ _ H). unfold fin_ind. rewrite sumf_filter. reflexivity.
Qed.

Theorem C17_sync_same_order : forall A (src0 : list A) n c, sreachable src0 n c ->
  forall i k, nth_error (c_cons c) i = Some k ->
    seen k = firstn (curr k) (c_items c) /\ (fin k = true -> seen k = c_items c /\ c_items c = src0).
Proof.
  intros A src0 n c H i k Hk. apply sreachable_inv in H.
  destruct (sync_same_order _ _ _ _ _ H Hk) as (H1 & _ & H3). auto.
Qed.

Theorem C17_sync_lazy : forall A (src0 : list A) n c, sreachable src0 n c ->
  (c_items c <> [] -> exists i k, nth_error (c_cons c) i = Some k /\ seen k = c_items c) /\
  (forall i k, nth_error (c_cons c) i = Some k -> length (seen k) <= length (c_items c)).
Proof.
  intros A src0 n c H. apply sreachable_inv in H. split; [apply (sync_lazy_front _ _ _ H)|].
  intros i k Hk. destruct (sync_same_order _ _ _ _ _ H Hk) as (_ & H2 & _). exact H2.
Qed.

Theorem C17_sync_request_refines : forall A (src0 : list A) n c i fuel no_keys answers c' r,
  request_sync_step fuel no_keys answers c i = Done (c', r) ->
  (if no_keys then c' = c /\ r = None
   else exists m, 1 <= m <= fuel /\ c' = next_n m c i) /\
  (sreachable src0 n c -> sreachable src0 n c').
Proof.
  intros A src0 n c i fuel no_keys answers c' r H. split.
  - unfold request_sync_step in H. destruct no_keys; [injection H as <- <-; auto|]. eapply request_sync_iter; eauto.
  - intros Hr. econstructor; eauto.
Qed.

(* ---- non-vacuity ----------------------------------------------------------------------------- *)
Definition ex_script : list (sstep nat) := [SPending; SReady 7; SPending; SReady 8].

(* two consumers both find the source pending: both queued, the source holds only the LAST waker *)
Example C17_example_two_blocked :
  let s := run (init ex_script 2) [Poll 0; Poll 1] in
  pending_wakes s = [0; 1] /\ waiting s = Some 1 /\ map blocked (cons s) = [true; true] /\ n_polls s = 2.
Proof. vm_compute. auto. Qed.

(* the source wakes only consumer 1; its poll pulls item 7, drains pending_wakes and wakes consumer 0,
   then runs into the next Pending; consumer 0 is served from the cache without touching the source *)
Example C17_example_wake_chain :
  let s1 := run (init ex_script 2) [Poll 0; Poll 1; SourceReady] in
  let s2 := run s1 [Poll 1] in
  let s3 := run s2 [Poll 1; Poll 0] in
  map woken (cons s1) = [false; true] /\
  items s2 = [7] /\ pending_wakes s2 = [] /\ map woken (cons s2) = [true; true] /\
  pending_wakes s3 = [1] /\ waiting s3 = Some 1 /\ map seen (cons s3) = [[7]; [7]] /\ n_polls s3 = 4 /\ n_some s3 = 1.
Proof. vm_compute. repeat split; reflexivity. Qed.

(* from the two-blocked state the fair scheduler finishes everybody within the variant; both saw 7, 8 *)
Example C17_example_progress :
  let s := run (init ex_script 2) [Poll 0; Poll 1] in
  let s' := run s (fair_run (variant s) s) in
  all_done s' = true /\ map seen (cons s') = [[7; 8]; [7; 8]] /\ n_some s' = 2 /\ n_none s' = 2 /\
  length (fair_run (variant s) s) <= variant s.
Proof. vm_compute. repeat split; auto. repeat constructor. Qed.

(* spurious polls of a waiting consumer only re-register / re-queue its waker *)
Example C17_example_spurious :
  let s := run (init ex_script 2) [Poll 0; Poll 0; Poll 0; Poll 1; Poll 0] in
  pending_wakes s = [0; 0; 0; 1; 0] /\ waiting s = Some 0 /\ items s = [] /\ n_some s = 0.
Proof. vm_compute. auto. Qed.

(* synchronous: interleaved iterators of different depths *)
Example C17_example_sync :
  let c := cache_run (cache_new [5; 6; 7] 3) [0; 1; 1; 0; 2; 1; 1; 1] in
  c_items c = [5; 6; 7] /\ c_calls c = 4 /\ map seen (c_cons c) = [[5; 6]; [5; 6; 7]; [5]] /\ map fin (c_cons c) = [false; true; false].
Proof. vm_compute. auto. Qed.

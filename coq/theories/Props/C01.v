(* Props/C01.v — C01 "Parsing is total": for every Unicode string both the full and the runtime
   parser return; they never panic and never loop forever.

   The statements are about the executable model Syntax/ParserModel.v (a transliteration of
   fluent-syntax/src/parser/*.rs that is run against the real parser by ./check C01); the proofs
   are in Syntax/ParserTotal.v (with ParserSpec.v and ParserHelpers.v).  "Every Unicode string" is
   every byte string satisfying utf8_valid, which is what Rust's `str` guarantees.               *)
From FluentV Require Import Base.Bytes Base.Utf8 Syntax.ParserModel Syntax.ParserTotal Syntax.ParserConsts Gen.Extracted.

(* "never panic": no str slice off a char boundary or out of range, no usize underflow, no
   unreachable!() — and this safety holds at EVERY fuel, i.e. for every prefix of the execution,
   independently of the termination argument.                                                    *)
Theorem C01_no_panic : forall bs n, utf8_valid bs = true -> forall t, parse_m bs n 0 <> Pan t.
Proof. exact parse_m_no_panic. Qed.

Theorem C01_no_panic_runtime : forall bs n, utf8_valid bs = true -> forall t, parse_runtime_m bs n 0 <> Pan t.
Proof. exact parse_runtime_m_no_panic. Qed.

(* "both the full and the runtime parser return": with the fuel `fuel_for bs` the model neither
   runs out of fuel (never loops forever) nor panics, and no error escapes the entry loop.       *)
Theorem C01_parse_total : forall bs, utf8_valid bs = true -> exists r, parse bs = Done r.
Proof. exact parse_total. Qed.

Theorem C01_parse_runtime_total : forall bs, utf8_valid bs = true -> exists r, parse_runtime bs = Done r.
Proof. exact parse_runtime_total. Qed.

(* the fuel that suffices (recursion depth + loop iterations along one call path) is linear *)
Theorem C01_fuel_linear : forall bs, fuel_for bs = 8 * length bs + 16.
Proof. exact fuel_linear. Qed.

(* the byte classes used by the model are those written in the Rust source now (regenerated into
   Gen/Extracted.v by tools/extract_consts.py on every run): pattern-continuation exclusions, junk
   recovery start bytes, identifier and callee characters, trimmed whitespace, text stop bytes,
   two-byte escapes, unicode escape lengths *)
Theorem C01_byte_classes_from_source :
  (forall b, is_byte_pattern_continuation b = negb (byte_in b PARSER_NOT_CONTINUATION)) /\
  (forall b, (is_ascii_alphabetic b || N.eqb b 45 || N.eqb b 35) = (is_ascii_alphabetic b || byte_in b PARSER_ENTRY_START_EXTRA)) /\
  (forall b, is_ident_char b = (is_ascii_alphanumeric b || byte_in b PARSER_IDENT_EXTRA)) /\
  (forall name, is_callee name = forallb (fun c => is_ascii_uppercase c || is_ascii_digit c || byte_in c PARSER_CALLEE_EXTRA) name) /\
  (forall b, matches_fluent_ws b = byte_in b FLUENT_WS) /\
  (forall b, (N.eqb b c_lf || N.eqb b 123 || N.eqb b 125) = byte_in b PARSER_TEXT_STOP) /\
  (forall c, (N.eqb c 92 || N.eqb c 123 || N.eqb c 34) = byte_in c PARSER_SIMPLE_ESCAPES) /\
  PARSER_UNICODE_ESCAPE_LENGTHS = (4, 6).
Proof.
  repeat split; [exact continuation_from_source | exact entry_start_from_source | exact ident_char_from_source
                | exact callee_from_source | exact fluent_ws_from_source | exact text_stop_from_source
                | exact simple_escapes_from_source].
Qed.

(* non-vacuity witnesses *)

(* the historical witness  a = {"\u00é"} : the error slice of the bad escape must be extended to
   the end of the two-byte character; the entry becomes one Junk and one error *)
Definition witness_unicode_escape : bytes :=
  bytes_of_string "a = {""\u00" ++ [195; 169]%N ++ bytes_of_string """}".

Example C01_example_witness_valid : utf8_valid witness_unicode_escape = true.
Proof. vm_compute. reflexivity. Qed.

Example C01_example_witness_full :
  exists e, parse witness_unicode_escape = Done ([Junk witness_unicode_escape], [e]).
Proof. vm_compute. eexists. reflexivity. Qed.

Example C01_example_witness_runtime :
  exists e, parse_runtime witness_unicode_escape = Done ([Junk witness_unicode_escape], [e]).
Proof. vm_compute. eexists. reflexivity. Qed.

(* a message with a multi-byte character in its text parses to a message, without errors *)
Example C01_example_message :
  parse (bytes_of_string "k = " ++ [195; 169]%N ++ bytes_of_string " {$x}" ++ [10]%N) =
  Done ([Message (bytes_of_string "k")
           (Some (Pattern [TextElement ([195; 169; 32]%N);
                           PlaceableElement (Inline (VariableReference (bytes_of_string "x")))]))
           [] None], []).
Proof. vm_compute. reflexivity. Qed.

(* placeholder until ParserTotal.v lands *)
From FluentV Require Import Syntax.ParserModel.
Theorem C01_fuel_linear : forall bs, fuel_for bs = 8 * length bs + 16.
Proof. reflexivity. Qed.

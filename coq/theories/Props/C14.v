(* Props/C14.v — the formatter memoizer constructs each formatter once, per key, under any schedule.
   Only statements here; proofs are in Memo/MemoProofs.v, the models in Memo/Memoizer.v (sequential:
   IntlLangMemoizer::with_try_get, IntlMemoizer::get_for_lang, drop of a handle) and Memo/Concurrent.v
   (threads over the Mutex-based memoizer, one with_try_get = one atomic step, schedules = lists of thread ids).

   Everything is quantified over ALL formatter/constructor/callback behaviours (the Section variables:
   `construct` may fail or succeed depending on language, type, args and the number of earlier construct
   calls; `callback` is any function of the instance), ALL histories `ops` from the initial state, ALL
   thread programs and ALL schedules.  "A history" is a list of get_for_lang / drop / with_try_get
   operations on client handles; `w_trace` is the log of construct calls (memoizer id, arguments passed,
   call number, success) and `succs m k tr` its successful constructions of key k = (type, args) by
   memoizer m.                                                                                       *)
From FluentV Require Import Base.Bytes Base.Outcome Memo.Memoizer Memo.Concurrent Memo.MemoProofs.

Section C14.
Variables I E R : Type.
Variable construct : lang -> type_id -> args -> nat -> result I E.
Variable callback : cb_id -> I -> R.

Notation step := (step I E R construct callback).
Notation exec := (exec I E R construct callback).
Notation outputs := (outputs I E R construct callback).
Notation init := (init I).
Notation run_schedule := (run_schedule I E R construct callback).

(* "a formatter for a given (type, arguments) is constructed at most once per memoizer while construction
   succeeds": in any history, the successful constructions of a key by a memoizer number at most one *)
Theorem C14_once : forall ops m k, length (succs m k (w_trace I (exec init ops))) <= 1.
Proof. intros ops m k. apply (once_inv I E construct), reachable_inv. Qed.

(* "with exactly those arguments and the memoizer's language": every construct call of a history was made
   by a with_try_get of that history, on a live handle of that memoizer, with exactly the requested type
   and args, at the then current call number, and with the language of that memoizer ... *)
Theorem C14_args_lang : forall ops me, In me (w_trace I (exec init ops)) ->
  exists pre h cb post,
    ops = pre ++ OpWith h (ev_type (snd me)) (ev_args (snd me)) cb :: post /\
    handle I (exec init pre) h = Some (fst me) /\
    ev_n (snd me) = w_counter I (exec init pre) /\
    memo_lang I (exec init ops) (fst me) = Some (ev_lang (snd me)).
Proof. exact (trace_origin I E R construct callback). Qed.

(* ... and that language is the one the memoizer was requested for (get_for_lang l returned it) *)
Theorem C14_args_lang_memo : forall ops l m,
  In (OpGet l, OutMemo m) (combine ops (outputs init ops)) -> memo_lang I (exec init ops) m = Some l.
Proof. intros ops l m. apply get_lang_run, inv_init. Qed.

(* "every callback for that key runs against that one instance and its result is returned unchanged":
   in a history pre ++ [with_try_get h t a cb] ++ post, a successful result r is `callback cb i` where i is
   the instance returned by THE successful construction of (t, a) by h's memoizer in the whole history
   (unique by C14_once; it may lie in pre or be this very call) *)
Theorem C14_same_inst : forall pre h t a cb post r,
  outputs (exec init pre) [OpWith h t a cb] = [OutRes (Ok r)] ->
  exists m e i,
    handle I (exec init pre) h = Some m /\
    succs m (t, a) (w_trace I (exec init (pre ++ OpWith h t a cb :: post))) = [(m, e)] /\
    construct (ev_lang e) t a (ev_n e) = Ok i /\ r = callback cb i.
Proof.
  intros pre h t a cb post r H.
  rewrite (outputs_cons I E R construct callback) in H.
  destruct (step (exec init pre) (OpWith h t a cb)) as [w' out] eqn:S. cbn in H. inversion H; subst out.
  destruct (same_inst_history I E R construct callback pre h t a cb post w' r S) as [m [e [i [A [B [C D]]]]]].
  exists m, e, i. rewrite (exec_app I E R construct callback), (exec_cons I E R construct callback), S. auto.
Qed.

(* "a failed construction is returned as the error, is not cached and does not disturb other keys": from any
   reachable state, a with_try_get whose key is not cached and whose constructor fails returns exactly that
   error, changes no cache entry of any memoizer, no handle and no language entry, logs one failed call, and
   a retry of the same key (through any handle of that memoizer) calls construct again, with the next call
   number, and returns what that call gives *)
Theorem C14_fail : forall ops h t a cb m l er,
  let w := exec init ops in
  handle I w h = Some m -> memo_lang I w m = Some l -> cached I w m (t, a) = None ->
  construct l t a (w_counter I w) = Err er ->
  exists w', step w (OpWith h t a cb) = (w', OutRes (Err er)) /\
    (forall m2 k, cached I w' m2 k = cached I w m2 k) /\
    w_handles I w' = w_handles I w /\ w_map I w' = w_map I w /\ w_counter I w' = S (w_counter I w) /\
    w_trace I w' = (m, mk_cevent l t a (w_counter I w) false) :: w_trace I w /\
    forall h2 cb2, handle I w h2 = Some m ->
      exists w'', step w' (OpWith h2 t a cb2) =
        (w'', match construct l t a (S (w_counter I w)) with
              | Ok i => OutRes (Ok (callback cb2 i))
              | Err er2 => OutRes (Err er2)
              end).
Proof. intros ops h t a cb m l er w. apply fail_spec, reachable_inv. Qed.

(* conversely an error result is always the error of a logged failed construct call for the requested key,
   and that step changed no cache entry *)
Theorem C14_fail_only_construct : forall ops h t a cb w' er,
  step (exec init ops) (OpWith h t a cb) = (w', OutRes (Err er)) ->
  exists m e, handle I (exec init ops) h = Some m /\ w_trace I w' = (m, e) :: w_trace I (exec init ops) /\
              ev_key e = (t, a) /\ ev_ok e = false /\ construct (ev_lang e) t a (ev_n e) = Err er /\
              forall m2 k, cached I w' m2 k = cached I (exec init ops) m2 k.
Proof. intros ops h t a cb w' er. apply err_step. Qed.

(* "does not disturb other keys", for every with_try_get (successful or not): only the entry of the requested
   key in the handle's memoizer can change; and no operation ever changes or removes an existing entry *)
Theorem C14_other_keys : forall ops h t a cb w' out m m' k,
  step (exec init ops) (OpWith h t a cb) = (w', out) -> handle I (exec init ops) h = Some m ->
  (m', k) <> (m, (t, a)) -> cached I w' m' k = cached I (exec init ops) m' k.
Proof. intros ops h t a cb w' out m m' k. apply with_other_keys. Qed.

Theorem C14_entries_stable : forall ops o w' out m k i,
  step (exec init ops) o = (w', out) -> cached I (exec init ops) m k = Some i -> cached I w' m k = Some i.
Proof. intros ops o w' out m k i. apply cached_step, reachable_inv. Qed.

(* "memoizers handed out per language are shared while in use": while some handle on a memoizer of language l
   is live, get_for_lang l returns that same memoizer (same allocation, hence same table) and changes nothing
   else *)
Theorem C14_langs_shared : forall ops h m l,
  let w := exec init ops in
  handle I w h = Some m -> memo_lang I w m = Some l ->
  step w (OpGet l) =
    (mk_world I (w_counter I w) (w_trace I w) (w_next I w) (w_heap I w) (w_map I w) (w_handles I w ++ [Some m]),
     OutMemo m).
Proof. intros ops h m l w. apply get_shared, reachable_inv. Qed.

(* ... once no live handle has language l (never requested, or all dropped), get_for_lang l returns a fresh
   memoizer: a new allocation with an empty table; the tables of existing allocations are untouched *)
Theorem C14_langs_fresh : forall ops l,
  let w := exec init ops in
  (forall h m, handle I w h = Some m -> memo_lang I w m <> Some l) ->
  exists w', step w (OpGet l) = (w', OutMemo (w_next I w)) /\
             w_next I w' = S (w_next I w) /\ memo_lang I w' (w_next I w) = Some l /\
             (forall k, cached I w' (w_next I w) k = None) /\
             (forall m k, m < w_next I w -> cached I w' m k = cached I w m k).
Proof. intros ops l w. apply get_fresh, reachable_inv. Qed.

(* dropping a live handle changes nothing but that handle *)
Theorem C14_langs_drop : forall ops h m,
  let w := exec init ops in
  handle I w h = Some m ->
  step w (OpDrop h) =
    (mk_world I (w_counter I w) (w_trace I w) (w_next I w) (w_heap I w) (w_map I w) (set_nth h None (w_handles I w)),
     OutDrop).
Proof. intros ops h m w. apply drop_spec. Qed.

(* "and independent across languages": two get_for_lang calls of one history that returned the same memoizer
   asked for the same language *)
Theorem C14_langs : forall ops l1 l2 m,
  In (OpGet l1, OutMemo m) (combine ops (outputs init ops)) ->
  In (OpGet l2, OutMemo m) (combine ops (outputs init ops)) -> l1 = l2.
Proof.
  intros ops l1 l2 m H1 H2.
  pose proof (get_lang_run I E R construct callback ops init (inv_init I E construct) l1 m H1) as A.
  pose proof (get_lang_run I E R construct callback ops init (inv_init I E construct) l2 m H2) as B.
  congruence.
Qed.

(* "for the thread-safe variant any interleaving of lookups from any number of threads": for every thread
   programs and EVERY schedule, the run is the sequential model executing the requests in the schedule's order
   `lin` on one memoizer — same table, same call counter, same construct log — every thread got back exactly
   the results the sequential run gives to its requests, and issued its requests in program order.  Hence all
   theorems above hold of every interleaving; the most important are restated below.
   Granularity: one with_try_get = one atomic step (see Memo/Concurrent.v and PARTIAL in props/C14.py).   *)
Theorem C14_schedules : forall l threads sched,
  let s := run_schedule l threads sched in
  let lin := linearize threads sched in
  exists rs,
    outputs init (seq_program l lin) = OutMemo 0 :: map OutRes rs /\ length rs = length lin /\
    (handle I (exec init (seq_program l lin)) 0 = Some 0 /\
     hfind I 0 (w_heap I (exec init (seq_program l lin))) = Some (c_memo I E R s) /\
     w_counter I (exec init (seq_program l lin)) = c_counter I E R s /\
     w_trace I (exec init (seq_program l lin)) = map (pair 0) (c_trace I E R s)) /\
    (forall tid, tid < length threads -> nth tid (c_results I E R s) [] = pick E R tid (combine lin rs)) /\
    (forall tid, tid < length threads ->
       map fst (nth tid (c_results I E R s) []) ++ nth tid (c_progs I E R s) [] = nth tid threads []).
Proof. exact (sched_refines I E R construct callback). Qed.

Theorem C14_schedules_complete : forall l threads sched tid,
  finished I E R (run_schedule l threads sched) = true -> tid < length threads ->
  map fst (nth tid (c_results I E R (run_schedule l threads sched)) []) = nth tid threads [].
Proof. exact (sched_complete I E R construct callback). Qed.

Theorem C14_schedules_once : forall l threads sched k,
  length (filter (c_is_succ k) (c_trace I E R (run_schedule l threads sched))) <= 1.
Proof. exact (sched_once I E R construct callback). Qed.

Theorem C14_schedules_args_lang : forall l threads sched e,
  In e (c_trace I E R (run_schedule l threads sched)) ->
  ev_lang e = l /\ ev_n e < c_counter I E R (run_schedule l threads sched) /\
  exists tid cb, In (ev_type e, ev_args e, cb) (nth tid threads []).
Proof. exact (sched_args_lang I E R construct callback). Qed.

Theorem C14_schedules_same_inst : forall l threads sched tid t a cb r,
  tid < length threads ->
  In ((t, a, cb), Ok r) (nth tid (c_results I E R (run_schedule l threads sched)) []) ->
  exists e i, filter (c_is_succ (t, a)) (c_trace I E R (run_schedule l threads sched)) = [e] /\
              ev_lang e = l /\ construct l t a (ev_n e) = Ok i /\ r = callback cb i.
Proof. exact (sched_same_inst I E R construct callback). Qed.

Theorem C14_schedules_fail : forall l threads sched tid t a cb er,
  tid < length threads ->
  In ((t, a, cb), Err er) (nth tid (c_results I E R (run_schedule l threads sched)) []) ->
  exists e, In e (c_trace I E R (run_schedule l threads sched)) /\ ev_key e = (t, a) /\ ev_ok e = false /\
            construct l t a (ev_n e) = Err er.
Proof. exact (sched_err I E R construct callback). Qed.

End C14.

(* ---- non-vacuity: a concrete constructor (args [1..] always fails, [2;x..] fails while fewer than x construct
   calls were made, anything else succeeds; the instance records everything it was built from) *)
Definition ex_inst := (lang * type_id * args * nat)%type.
Definition ex_construct (l : lang) (t : type_id) (a : args) (n : nat) : result ex_inst nat :=
  match a with
  | 1%N :: _ => Err n
  | 2%N :: x :: _ => if Nat.ltb n (N.to_nat x) then Err n else Ok (l, t, a, n)
  | _ => Ok (l, t, a, n)
  end.
Definition ex_callback (cb : cb_id) (i : ex_inst) : cb_id * ex_inst := (cb, i).

Example C14_example_history :
  let en := [101; 110]%N in let fr := [102; 114]%N in
  outputs ex_inst nat (cb_id * ex_inst) ex_construct ex_callback (init ex_inst)
    [OpGet en; OpWith 0 0 [0%N] 1; OpWith 0 0 [0%N] 2; OpGet en; OpWith 1 0 [0%N] 3; OpWith 0 1 [0%N] 4;
     OpWith 0 0 [2; 3]%N 5; OpWith 1 0 [2; 3]%N 6; OpGet fr; OpWith 2 0 [0%N] 7;
     OpDrop 0; OpDrop 1; OpGet en; OpWith 3 0 [0%N] 8; OpWith 0 0 [0%N] 9]
  = [OutMemo 0; OutRes (Ok (1, (en, 0, [0%N], 0))); OutRes (Ok (2, (en, 0, [0%N], 0))); OutMemo 0;
     OutRes (Ok (3, (en, 0, [0%N], 0))); OutRes (Ok (4, (en, 1, [0%N], 1)));
     OutRes (Err 2); OutRes (Ok (6, (en, 0, [2; 3]%N, 3))); OutMemo 1; OutRes (Ok (7, (fr, 0, [0%N], 4)));
     OutDrop; OutDrop; OutMemo 2; OutRes (Ok (8, (en, 0, [0%N], 5))); OutDead].
Proof. vm_compute. reflexivity. Qed.

Example C14_example_schedules :
  let en := [101; 110]%N in
  let threads := [[(0, [0%N], 1); (0, [2; 1]%N, 2)]; [(0, [2; 1]%N, 3); (0, [0%N], 4)]] in
  map (fun sched => c_results ex_inst nat (cb_id * ex_inst)
                      (run_schedule ex_inst nat (cb_id * ex_inst) ex_construct ex_callback en threads sched))
      [[0; 0; 1; 1]; [1; 0; 1; 0]]
  = [ [[((0, [0%N], 1), Ok (1, (en, 0, [0%N], 0))); ((0, [2; 1]%N, 2), Ok (2, (en, 0, [2; 1]%N, 1)))];
       [((0, [2; 1]%N, 3), Ok (3, (en, 0, [2; 1]%N, 1))); ((0, [0%N], 4), Ok (4, (en, 0, [0%N], 0)))]];
      [[((0, [0%N], 1), Ok (1, (en, 0, [0%N], 1))); ((0, [2; 1]%N, 2), Ok (2, (en, 0, [2; 1]%N, 2)))];
       [((0, [2; 1]%N, 3), Err 0); ((0, [0%N], 4), Ok (4, (en, 0, [0%N], 1)))]] ].
Proof. vm_compute. reflexivity. Qed.

(* Props/C14.v — the formatter memoizer constructs each formatter once, per key, under any schedule.
   Only statements here; proofs are in Memo/MemoProofs.v, the models in Memo/Memoizer.v (sequential:
   IntlLangMemoizer::with_try_get, IntlMemoizer::get_for_lang, drop of a handle) and Memo/Concurrent.v
   (threads over the Mutex-based memoizer, one with_try_get = one atomic step, schedules = lists of thread ids).

   Everything is quantified over ALL formatter/constructor/callback behaviours (the Section variables:
   `construct` may fail or succeed depending on language, type, args and the number of earlier construct
   calls; `callback` is any function of the instance), ALL histories `ops` from the initial state, ALL
   thread programs and ALL schedules.  "A history" is a list of get_for_lang / drop / with_try_get
   operations on client handles; `w_trace` is the log of construct calls (memoizer id, arguments passed,
   call number, success) and `succs m k tr` its successful constructions of key k = (type, args) by
   memoizer m.                                                                                       *)
From FluentV Require Import Base.Bytes Base.Outcome Memo.Memoizer Memo.Concurrent Memo.MemoProofs.
From FluentV Require Import Memo.FineGrained Memo.FineGrainedProofs.

Section C14.
Variables I E R : Type.
Variable construct : lang -> type_id -> args -> nat -> result I E.
Variable callback : cb_id -> I -> R.

Notation step := (step I E R construct callback).
Notation exec := (exec I E R construct callback).
Notation outputs := (outputs I E R construct callback).
Notation init := (init I).
Notation run_schedule := (run_schedule I E R construct callback).

(* "a formatter for a given (type, arguments) is constructed at most once per memoizer while construction
   succeeds": in any history, the successful constructions of a key by a memoizer number at most one *)
Theorem C14_once : forall ops m k, length (succs m k (w_trace I (exec init ops))) <= 1.
Proof. intros ops m k. apply (once_inv I E construct), reachable_inv. Qed.

(* "with exactly those arguments and the memoizer's language": every construct call of a history was made
   by a with_try_get of that history, on a live handle of that memoizer, with exactly the requested type
   and args, at the then current call number, and with the language of that memoizer ... *)
Theorem C14_args_lang : forall ops me, In me (w_trace I (exec init ops)) ->
  exists pre h cb post,
    ops = pre ++ OpWith h (ev_type (snd me)) (ev_args (snd me)) cb :: post /\
    handle I (exec init pre) h = Some (fst me) /\
    ev_n (snd me) = w_counter I (exec init pre) /\
    memo_lang I (exec init ops) (fst me) = Some (ev_lang (snd me)).
Proof. exact (trace_origin I E R construct callback). Qed.

(* ... and that language is the one the memoizer was requested for (get_for_lang l returned it) *)
Theorem C14_args_lang_memo : forall ops l m,
  In (OpGet l, OutMemo m) (combine ops (outputs init ops)) -> memo_lang I (exec init ops) m = Some l.
Proof. intros ops l m. apply get_lang_run, inv_init. Qed.

(* "every callback for that key runs against that one instance and its result is returned unchanged":
   in a history pre ++ [with_try_get h t a cb] ++ post, a successful result r is `callback cb i` where i is
   the instance returned by THE successful construction of (t, a) by h's memoizer in the whole history
   (unique by C14_once; it may lie in pre or be this very call) *)
Theorem C14_same_inst : forall pre h t a cb post r,
  outputs (exec init pre) [OpWith h t a cb] = [OutRes (Ok r)] ->
  exists m e i,
    handle I (exec init pre) h = Some m /\
    succs m (t, a) (w_trace I (exec init (pre ++ OpWith h t a cb :: post))) = [(m, e)] /\
    construct (ev_lang e) t a (ev_n e) = Ok i /\ r = callback cb i.
Proof.
  intros pre h t a cb post r H.
  rewrite (outputs_cons I E R construct callback) in H.
  destruct (step (exec init pre) (OpWith h t a cb)) as [w' out] eqn:S. cbn in H. inversion H; subst out.
  destruct (same_inst_history I E R construct callback pre h t a cb post w' r S) as [m [e [i [A [B [C D]]]]]].
  exists m, e, i. rewrite (exec_app I E R construct callback), (exec_cons I E R construct callback), S. auto.
Qed.

(* "a failed construction is returned as the error, is not cached and does not disturb other keys": from any
   reachable state, a with_try_get whose key is not cached and whose constructor fails returns exactly that
   error, changes no cache entry of any memoizer, no handle and no language entry, logs one failed call, and
   a retry of the same key (through any handle of that memoizer) calls construct again, with the next call
   number, and returns what that call gives *)
Theorem C14_fail : forall ops h t a cb m l er,
  let w := exec init ops in
  handle I w h = Some m -> memo_lang I w m = Some l -> cached I w m (t, a) = None ->
  construct l t a (w_counter I w) = Err er ->
  exists w', step w (OpWith h t a cb) = (w', OutRes (Err er)) /\
    (forall m2 k, cached I w' m2 k = cached I w m2 k) /\
    w_handles I w' = w_handles I w /\ w_map I w' = w_map I w /\ w_counter I w' = S (w_counter I w) /\
    w_trace I w' = (m, mk_cevent l t a (w_counter I w) false) :: w_trace I w /\
    forall h2 cb2, handle I w h2 = Some m ->
      exists w'', step w' (OpWith h2 t a cb2) =
        (w'', match construct l t a (S (w_counter I w)) with
              | Ok i => OutRes (Ok (callback cb2 i))
              | Err er2 => OutRes (Err er2)
              end).
Proof. intros ops h t a cb m l er w. apply fail_spec, reachable_inv. Qed.

(* conversely an error result is always the error of a logged failed construct call for the requested key,
   and that step changed no cache entry *)
Theorem C14_fail_only_construct : forall ops h t a cb w' er,
  step (exec init ops) (OpWith h t a cb) = (w', OutRes (Err er)) ->
  exists m e, handle I (exec init ops) h = Some m /\ w_trace I w' = (m, e) :: w_trace I (exec init ops) /\
              ev_key e = (t, a) /\ ev_ok e = false /\ construct (ev_lang e) t a (ev_n e) = Err er /\
              forall m2 k, cached I w' m2 k = cached I (exec init ops) m2 k.
Proof. intros ops h t a cb w' er. apply err_step. Qed.

(* "does not disturb other keys", for every with_try_get (successful or not): only the entry of the requested
   key in the handle's memoizer can change; and no operation ever changes or removes an existing entry *)
Theorem C14_other_keys : forall ops h t a cb w' out m m' k,
  step (exec init ops) (OpWith h t a cb) = (w', out) -> handle I (exec init ops) h = Some m ->
  (m', k) <> (m, (t, a)) -> cached I w' m' k = cached I (exec init ops) m' k.
Proof. intros ops h t a cb w' out m m' k. apply with_other_keys. Qed.

Theorem C14_entries_stable : forall ops o w' out m k i,
  step (exec init ops) o = (w', out) -> cached I (exec init ops) m k = Some i -> cached I w' m k = Some i.
Proof. intros ops o w' out m k i. apply cached_step, reachable_inv. Qed.

(* "memoizers handed out per language are shared while in use": while some handle on a memoizer of language l
   is live, get_for_lang l returns that same memoizer (same allocation, hence same table) and changes nothing
   else *)
Theorem C14_langs_shared : forall ops h m l,
  let w := exec init ops in
  handle I w h = Some m -> memo_lang I w m = Some l ->
  step w (OpGet l) =
    (mk_world I (w_counter I w) (w_trace I w) (w_next I w) (w_heap I w) (w_map I w) (w_handles I w ++ [Some m]),
     OutMemo m).
Proof. intros ops h m l w. apply get_shared, reachable_inv. Qed.

(* ... once no live handle has language l (never requested, or all dropped), get_for_lang l returns a fresh
   memoizer: a new allocation with an empty table; the tables of existing allocations are untouched *)
Theorem C14_langs_fresh : forall ops l,
  let w := exec init ops in
  (forall h m, handle I w h = Some m -> memo_lang I w m <> Some l) ->
  exists w', step w (OpGet l) = (w', OutMemo (w_next I w)) /\
             w_next I w' = S (w_next I w) /\ memo_lang I w' (w_next I w) = Some l /\
             (forall k, cached I w' (w_next I w) k = None) /\
             (forall m k, m < w_next I w -> cached I w' m k = cached I w m k).
Proof. intros ops l w. apply get_fresh, reachable_inv. Qed.

(* dropping a live handle changes nothing but that handle *)
Theorem C14_langs_drop : forall ops h m,
  let w := exec init ops in
  handle I w h = Some m ->
  step w (OpDrop h) =
    (mk_world I (w_counter I w) (w_trace I w) (w_next I w) (w_heap I w) (w_map I w) (set_nth h None (w_handles I w)),
     OutDrop).
Proof. intros ops h m w. apply drop_spec. Qed.

(* "and independent across languages": two get_for_lang calls of one history that returned the same memoizer
   asked for the same language *)
Theorem C14_langs : forall ops l1 l2 m,
  In (OpGet l1, OutMemo m) (combine ops (outputs init ops)) ->
  In (OpGet l2, OutMemo m) (combine ops (outputs init ops)) -> l1 = l2.
Proof.
  intros ops l1 l2 m H1 H2.
  pose proof (get_lang_run I E R construct callback ops init (inv_init I E construct) l1 m H1) as A.
  pose proof (get_lang_run I E R construct callback ops init (inv_init I E construct) l2 m H2) as B.
  congruence.
Qed.

(* "for the thread-safe variant any interleaving of lookups from any number of threads": for every thread
   programs and EVERY schedule, the run is the sequential model executing the requests in the schedule's order
   `lin` on one memoizer — same table, same call counter, same construct log — every thread got back exactly
   the results the sequential run gives to its requests, and issued its requests in program order.  Hence all
   theorems above hold of every interleaving; the most important are restated below.
   Granularity: one with_try_get = one atomic step (see Memo/Concurrent.v and PARTIAL in props/C14.py).   *)
Theorem C14_schedules : forall l threads sched,
  let s := run_schedule l threads sched in
  let lin := linearize threads sched in
  exists rs,
    outputs init (seq_program l lin) = OutMemo 0 :: map OutRes rs /\ length rs = length lin /\
    (handle I (exec init (seq_program l lin)) 0 = Some 0 /\
     hfind I 0 (w_heap I (exec init (seq_program l lin))) = Some (c_memo I E R s) /\
     w_counter I (exec init (seq_program l lin)) = c_counter I E R s /\
     w_trace I (exec init (seq_program l lin)) = map (pair 0) (c_trace I E R s)) /\
    (forall tid, tid < length threads -> nth tid (c_results I E R s) [] = pick E R tid (combine lin rs)) /\
    (forall tid, tid < length threads ->
       map fst (nth tid (c_results I E R s) []) ++ nth tid (c_progs I E R s) [] = nth tid threads []).
Proof. exact (sched_refines I E R construct callback). Qed.

Theorem C14_schedules_complete : forall l threads sched tid,
  finished I E R (run_schedule l threads sched) = true -> tid < length threads ->
  map fst (nth tid (c_results I E R (run_schedule l threads sched)) []) = nth tid threads [].
Proof. exact (sched_complete I E R construct callback). Qed.

Theorem C14_schedules_once : forall l threads sched k,
  length (filter (c_is_succ k) (c_trace I E R (run_schedule l threads sched))) <= 1.
Proof. exact (sched_once I E R construct callback). Qed.

Theorem C14_schedules_args_lang : forall l threads sched e,
  In e (c_trace I E R (run_schedule l threads sched)) ->
  ev_lang e = l /\ ev_n e < c_counter I E R (run_schedule l threads sched) /\
  exists tid cb, In (ev_type e, ev_args e, cb) (nth tid threads []).
Proof. exact (sched_args_lang I E R construct callback). Qed.

Theorem C14_schedules_same_inst : forall l threads sched tid t a cb r,
  tid < length threads ->
  In ((t, a, cb), Ok r) (nth tid (c_results I E R (run_schedule l threads sched)) []) ->
  exists e i, filter (c_is_succ (t, a)) (c_trace I E R (run_schedule l threads sched)) = [e] /\
              ev_lang e = l /\ construct l t a (ev_n e) = Ok i /\ r = callback cb i.
Proof. exact (sched_same_inst I E R construct callback). Qed.

Theorem C14_schedules_fail : forall l threads sched tid t a cb er,
  tid < length threads ->
  In ((t, a, cb), Err er) (nth tid (c_results I E R (run_schedule l threads sched)) []) ->
  exists e, In e (c_trace I E R (run_schedule l threads sched)) /\ ev_key e = (t, a) /\ ev_ok e = false /\
            construct l t a (ev_n e) = Err er.
Proof. exact (sched_err I E R construct callback). Qed.

End C14.

(* ---- non-vacuity: a concrete constructor (args [1..] always fails, [2;x..] fails while fewer than x construct
   calls were made, anything else succeeds; the instance records everything it was built from) *)
Definition ex_inst := (lang * type_id * args * nat)%type.
Definition ex_construct (l : lang) (t : type_id) (a : args) (n : nat) : result ex_inst nat :=
  match a with
  | 1%N :: _ => Err n
  | 2%N :: x :: _ => if Nat.ltb n (N.to_nat x) then Err n else Ok (l, t, a, n)
  | _ => Ok (l, t, a, n)
  end.
Definition ex_callback (cb : cb_id) (i : ex_inst) : cb_id * ex_inst := (cb, i).

Example C14_example_history :
  let en := [101; 110]%N in let fr := [102; 114]%N in
  outputs ex_inst nat (cb_id * ex_inst) ex_construct ex_callback (init ex_inst)
    [OpGet en; OpWith 0 0 [0%N] 1; OpWith 0 0 [0%N] 2; OpGet en; OpWith 1 0 [0%N] 3; OpWith 0 1 [0%N] 4;
     OpWith 0 0 [2; 3]%N 5; OpWith 1 0 [2; 3]%N 6; OpGet fr; OpWith 2 0 [0%N] 7;
     OpDrop 0; OpDrop 1; OpGet en; OpWith 3 0 [0%N] 8; OpWith 0 0 [0%N] 9]
  = [OutMemo 0; OutRes (Ok (1, (en, 0, [0%N], 0))); OutRes (Ok (2, (en, 0, [0%N], 0))); OutMemo 0;
     OutRes (Ok (3, (en, 0, [0%N], 0))); OutRes (Ok (4, (en, 1, [0%N], 1)));
     OutRes (Err 2); OutRes (Ok (6, (en, 0, [2; 3]%N, 3))); OutMemo 1; OutRes (Ok (7, (fr, 0, [0%N], 4)));
     OutDrop; OutDrop; OutMemo 2; OutRes (Ok (8, (en, 0, [0%N], 5))); OutDead].
Proof. vm_compute. reflexivity. Qed.

Example C14_example_schedules :
  let en := [101; 110]%N in
  let threads := [[(0, [0%N], 1); (0, [2; 1]%N, 2)]; [(0, [2; 1]%N, 3); (0, [0%N], 4)]] in
  map (fun sched => c_results ex_inst nat (cb_id * ex_inst)
                      (run_schedule ex_inst nat (cb_id * ex_inst) ex_construct ex_callback en threads sched))
      [[0; 0; 1; 1]; [1; 0; 1; 0]]
  = [ [[((0, [0%N], 1), Ok (1, (en, 0, [0%N], 0))); ((0, [2; 1]%N, 2), Ok (2, (en, 0, [2; 1]%N, 1)))];
       [((0, [2; 1]%N, 3), Ok (3, (en, 0, [2; 1]%N, 1))); ((0, [0%N], 4), Ok (4, (en, 0, [0%N], 0)))]];
      [[((0, [0%N], 1), Ok (1, (en, 0, [0%N], 1))); ((0, [2; 1]%N, 2), Ok (2, (en, 0, [2; 1]%N, 2)))];
       [((0, [2; 1]%N, 3), Err 0); ((0, [0%N], 4), Ok (4, (en, 0, [0%N], 1)))]] ].
Proof. vm_compute. reflexivity. Qed.

(* ==================================================================================================================
   LOCK GRANULARITY.  The theorems C14_schedules* above take one with_try_get as one atomic step.  Below that is no
   longer assumed: Memo/FineGrained.v makes the Mutex of intl-memoizer/src/concurrent.rs explicit and splits one
   with_try_get into the micro-steps a thread really performs, any of which may be interleaved with the micro-steps of
   any other thread:
       Lock        concurrent.rs:32  let mut map = self.map.lock().unwrap();       (blocks while another thread holds it)
       LookupType  concurrent.rs:33  map.entry::<HashMap<I::Args, I>>().or_insert_with(HashMap::new)
       LookupArgs  concurrent.rs:37  match cache.entry(args.clone()) { Occupied .. (l.38) | Vacant .. (l.39) }
       Construct   concurrent.rs:40  let val = I::construct(self.lang.clone(), args)?;    (`?`: on Err straight to Unlock)
       Insert      concurrent.rs:41  entry.insert(val)
       Callback    concurrent.rs:44  Ok(cb(e))
       Unlock      concurrent.rs:45  end of scope: the guard `map` is dropped, the result returned
   A fine schedule is ANY list of thread ids (a blocked / finished / non-existent thread scheduled = no-op).  Only the
   Lock step looks at the mutex; mutual exclusion and atomicity are the theorems.  What remains a reading of the code
   is now only (a) the order of these seven micro-steps in the source text and the scope of the guard, (b) that
   std::sync::Mutex is a mutex.                                                                                      *)
Section C14Fine.
Variables I E R : Type.
Variable construct : lang -> type_id -> args -> nat -> result I E.
Variable callback : cb_id -> I -> R.

Notation fine_run := (fine_run I E R construct callback).
Notation run_schedule := (run_schedule I E R construct callback).
Notation lock_order := (lock_order I E R construct callback).
Notation f_init := (f_init I E R).
Notation f_proj := (f_proj I E R).
Notation f_abs := (f_abs I E R construct callback).

(* mutual exclusion, for every thread programs and EVERY fine schedule, at every point: two threads that are both
   between their Lock and their Unlock are the same thread, and it is the one recorded as holder of the mutex *)
Theorem C14_fine_grained_mutex : forall l threads fs t1 t2 th1 th2,
  let s := fine_run l threads fs in
  nth_error (f_threads I E R s) t1 = Some th1 -> in_cs I E R (ft_pc I E R th1) = true ->
  nth_error (f_threads I E R s) t2 = Some th2 -> in_cs I E R (ft_pc I E R th2) = true ->
  t1 = t2 /\ f_holder I E R s = Some t1.
Proof.
  intros l threads fs t1 t2 th1 th2 s H1 C1 H2 C2.
  pose proof (fine_mutex I E R construct callback l threads fs) as HM.
  split; [exact (mutex_exclusive I E R _ _ _ _ _ HM H1 C1 H2 C2)|].
  exact (proj1 (mx_inside I E R _ HM _ _ H1 C1)).
Qed.

(* "for the thread-safe variant any interleaving of lookups from any number of threads" — the reduction: for EVERY
   fine schedule fs there is a coarse schedule cs (the thread ids in the order in which their Lock steps succeeded)
   such that
   (1) at every point of the run, the observable state (map, construct counter, construct log, per-thread results and
       remaining programs) in which the one thread inside the critical section — if any — has run on to its Unlock
       (`f_abs`; for a thread that has just locked the pending work is literally `with_try_get`) is the state of the
       atomic-step model of Memo/Concurrent.v under cs;
   (2) whenever no thread is inside a critical section the observable state itself is that state;
   (3) in particular when all threads have finished, and then cs runs every thread to completion too.
   Hence C14_schedules .. C14_schedules_fail (and through C14_schedules the sequential theorems) hold of every
   interleaving of the micro-steps.                                                                               *)
Theorem C14_fine_grained_reduces_to_atomic : forall l threads fs,
  let s := fine_run l threads fs in
  exists cs, cs = lock_order (f_init l threads) fs /\
    f_abs s = run_schedule l threads cs /\
    (f_holder I E R s = None -> f_proj s = run_schedule l threads cs) /\
    (f_finished I E R s = true ->
       f_holder I E R s = None /\ f_proj s = run_schedule l threads cs /\
       finished I E R (run_schedule l threads cs) = true).
Proof.
  intros l threads fs s. exists (lock_order (f_init l threads) fs). split; [reflexivity|].
  split; [exact (fine_reduction_abs I E R construct callback l threads fs)|].
  split; [exact (fine_reduction I E R construct callback l threads fs)|].
  exact (fine_reduction_finished I E R construct callback l threads fs).
Qed.

(* the seven micro-steps of one request, when nothing is interleaved, compose to the atomic step: from any reachable
   state in which the mutex is free, a thread with a request scheduled alone is outside again after at most 7
   micro-steps, its Lock succeeded exactly once, and the observable effect is `sched_step` = with_try_get of lib.rs *)
Theorem C14_fine_grained_request_is_with_try_get : forall l threads fs tid th rq rest,
  let s := fine_run l threads fs in
  f_holder I E R s = None -> nth_error (f_threads I E R s) tid = Some th -> ft_prog I E R th = rq :: rest ->
  exists k, 1 <= k <= 7 /\
    f_holder I E R (fine_run_from I E R construct callback s (repeat tid k)) = None /\
    lock_order s (repeat tid k) = [tid] /\
    f_proj (fine_run_from I E R construct callback s (repeat tid k)) =
      sched_step I E R construct callback (f_proj s) tid.
Proof.
  intros l threads fs tid th rq rest s.
  exact (fine_request_is_with_try_get I E R construct callback s tid th rq rest
           (fine_mutex I E R construct callback l threads fs)).
Qed.

(* "a formatter for a given (type, arguments) is constructed at most once per memoizer while construction succeeds",
   under EVERY interleaving of the micro-steps and at EVERY point of it (also while a thread is inside the critical
   section): the construct log never holds two successful constructions of one key *)
Theorem C14_fine_grained_once : forall l threads fs k,
  length (filter (c_is_succ k) (f_trace I E R (fine_run l threads fs))) <= 1.
Proof. exact (fine_once I E R construct callback). Qed.

(* results = those of the induced sequential program: at every quiescent point of every fine schedule the run is the
   sequential model of Memo/Memoizer.v executing the requests in lock order on one memoizer — same table, counter and
   construct log, every thread got exactly the results the sequential run gives to its requests, in program order *)
Theorem C14_fine_grained_sequential : forall l threads fs,
  let s := fine_run l threads fs in
  let lin := linearize threads (lock_order (f_init l threads) fs) in
  f_holder I E R s = None ->
  exists rs,
    outputs I E R construct callback (init I) (seq_program l lin) = OutMemo 0 :: map OutRes rs /\
    length rs = length lin /\
    (handle I (exec I E R construct callback (init I) (seq_program l lin)) 0 = Some 0 /\
     hfind I 0 (w_heap I (exec I E R construct callback (init I) (seq_program l lin))) = Some (f_memo I E R s) /\
     w_counter I (exec I E R construct callback (init I) (seq_program l lin)) = f_counter I E R s /\
     w_trace I (exec I E R construct callback (init I) (seq_program l lin)) = map (pair 0) (f_trace I E R s)) /\
    (forall tid, tid < length threads ->
       nth tid (map (ft_results I E R) (f_threads I E R s)) [] = pick E R tid (combine lin rs)) /\
    (forall tid, tid < length threads ->
       map fst (nth tid (map (ft_results I E R) (f_threads I E R s)) []) ++
       nth tid (map (ft_prog I E R) (f_threads I E R s)) [] = nth tid threads []).
Proof. exact (fine_refines I E R construct callback). Qed.

Theorem C14_fine_grained_complete : forall l threads fs tid,
  f_finished I E R (fine_run l threads fs) = true -> tid < length threads ->
  map fst (nth tid (map (ft_results I E R) (f_threads I E R (fine_run l threads fs))) []) = nth tid threads [].
Proof. exact (fine_complete I E R construct callback). Qed.

(* "every callback for that key runs against that one instance and its result is returned unchanged", fine-grained *)
Theorem C14_fine_grained_same_inst : forall l threads fs tid t a cb r,
  let s := fine_run l threads fs in
  f_holder I E R s = None -> tid < length threads ->
  In ((t, a, cb), Ok r) (nth tid (map (ft_results I E R) (f_threads I E R s)) []) ->
  exists e i, filter (c_is_succ (t, a)) (f_trace I E R s) = [e] /\
              ev_lang e = l /\ construct l t a (ev_n e) = Ok i /\ r = callback cb i.
Proof. exact (fine_same_inst I E R construct callback). Qed.

(* "a failed construction is returned as the error", fine-grained *)
Theorem C14_fine_grained_fail : forall l threads fs tid t a cb er,
  let s := fine_run l threads fs in
  f_holder I E R s = None -> tid < length threads ->
  In ((t, a, cb), Err er) (nth tid (map (ft_results I E R) (f_threads I E R s)) []) ->
  exists e, In e (f_trace I E R s) /\ ev_key e = (t, a) /\ ev_ok e = false /\ construct l t a (ev_n e) = Err er.
Proof. exact (fine_err I E R construct callback). Qed.

(* conversely the fine-grained model loses no behaviour: every schedule of the atomic-step model is the lock order of
   some fine schedule with the same observable state — the two models have exactly the same quiescent outcomes *)
Theorem C14_fine_grained_realizes_atomic : forall l threads cs,
  exists fs, f_holder I E R (fine_run l threads fs) = None /\
             f_proj (fine_run l threads fs) = run_schedule l threads cs.
Proof. exact (fine_realizes I E R construct callback). Qed.

End C14Fine.

(* sensitivity — the theorems above really depend on the critical section reaching from the lookup (concurrent.rs:37)
   to the insert (concurrent.rs:41).  In the check-then-act variant `broken_step` of Memo/FineGrained.v
   (lock; lookup; UNLOCK; construct; LOCK; insert; callback; unlock — same micro-steps, same mutex, only the guard's
   scope differs) there are two threads and a schedule under which one key is successfully constructed twice and the
   two callbacks run against different instances: C14_fine_grained_once and C14_fine_grained_same_inst fail for it *)
Theorem C14_check_then_act_refuted :
  exists threads fs,
    let s := broken_run nat unit nat bx_construct bx_callback [] threads fs in
    b_finished nat unit nat s = true /\ b_holder nat unit nat s = None /\
    length (filter (c_is_succ (0, [])) (b_trace nat unit nat s)) = 2 /\
    map (bt_results nat unit nat) (b_threads nat unit nat s) = [[((0, [], 7), Ok 0)]; [((0, [], 8), Ok 1)]].
Proof. exact fine_broken_constructs_twice. Qed.

(* non-vacuity: three threads ask for the same key; thread 1 wins the mutex, threads 0 and 2 are scheduled while it is
   inside (no-ops: blocked in lock()), thread 2 gets the mutex next, then thread 0.  One construction (call number 0),
   three callbacks against that instance; the induced coarse schedule is [1; 2; 0] and the final state is the coarse
   model's under it. *)
Example C14_example_fine_grained :
  let en := [101; 110]%N in
  let threads := [[(0, [0%N], 1)]; [(0, [0%N], 2)]; [(0, [0%N], 3)]] in
  let fs := [1; 0; 1; 2; 1; 0; 1; 1; 2; 1; 1;  2; 0; 2; 2; 2; 2;  0; 0; 0; 0; 0] in
  let X := (cb_id * ex_inst)%type in
  let s := fine_run ex_inst nat X ex_construct ex_callback en threads fs in
  fine_actions ex_inst nat X ex_construct ex_callback (f_init ex_inst nat X en threads) fs
  = [(1, Some MLock); (0, None); (1, Some MLookupType); (2, None); (1, Some MLookupArgs); (0, None);
     (1, Some MConstruct); (1, Some MInsert); (2, None); (1, Some MCallback); (1, Some MUnlock);
     (2, Some MLock); (0, None); (2, Some MLookupType); (2, Some MLookupArgs); (2, Some MCallback); (2, Some MUnlock);
     (0, Some MLock); (0, Some MLookupType); (0, Some MLookupArgs); (0, Some MCallback); (0, Some MUnlock)] /\
  lock_order ex_inst nat X ex_construct ex_callback (f_init ex_inst nat X en threads) fs = [1; 2; 0] /\
  f_finished ex_inst nat X s = true /\
  f_proj ex_inst nat X s = run_schedule ex_inst nat X ex_construct ex_callback en threads [1; 2; 0] /\
  f_trace ex_inst nat X s = [mk_cevent en 0 [0%N] 0 true] /\
  map (ft_results ex_inst nat X) (f_threads ex_inst nat X s)
  = [[((0, [0%N], 1), Ok (1, (en, 0, [0%N], 0)))];
     [((0, [0%N], 2), Ok (2, (en, 0, [0%N], 0)))];
     [((0, [0%N], 3), Ok (3, (en, 0, [0%N], 0)))]].
Proof. vm_compute. repeat split. Qed.

(* the same three threads in the check-then-act variant: all three miss before anyone inserts -> three constructions *)
Example C14_example_check_then_act :
  let en := [101; 110]%N in
  let threads := [[(0, [0%N], 1)]; [(0, [0%N], 2)]; [(0, [0%N], 3)]] in
  let fs := [0; 0; 0; 0;  1; 1; 1; 1;  2; 2; 2; 2;  0; 1; 2;  0; 0; 0; 0;  1; 1; 1; 1;  2; 2; 2; 2] in
  let X := (cb_id * ex_inst)%type in
  let s := broken_run ex_inst nat X ex_construct ex_callback en threads fs in
  b_finished ex_inst nat X s = true /\
  length (filter (c_is_succ (0, [0%N])) (b_trace ex_inst nat X s)) = 3 /\
  map (bt_results ex_inst nat X) (b_threads ex_inst nat X s)
  = [[((0, [0%N], 1), Ok (1, (en, 0, [0%N], 0)))];
     [((0, [0%N], 2), Ok (2, (en, 0, [0%N], 1)))];
     [((0, [0%N], 3), Ok (3, (en, 0, [0%N], 2)))]].
Proof. vm_compute. repeat split. Qed.

Print Assumptions C14_fine_grained_mutex.
Print Assumptions C14_fine_grained_reduces_to_atomic.
Print Assumptions C14_fine_grained_request_is_with_try_get.
Print Assumptions C14_fine_grained_once.
Print Assumptions C14_fine_grained_realizes_atomic.
Print Assumptions C14_fine_grained_sequential.
Print Assumptions C14_fine_grained_complete.
Print Assumptions C14_fine_grained_same_inst.
Print Assumptions C14_fine_grained_fail.
Print Assumptions C14_check_then_act_refuted.

(* Props/C13.v — String-literal escapes decode exactly and never fail.
   Only statements here; the model and the specification are in Syntax/UnescapeModel.v (read
   `unescape_spec`, `unescape_chars`, `decode_escape` there: they carry the meaning of "decode
   exactly"), proofs in Syntax/UnescapeProofs.v.

   "For every string" = every bs with `utf8_valid bs = true` (a Rust `str`).  The model functions
   return `outcome`: `Done x`, `Panic tag` (a str index that Rust would reject) or `OutOfFuel`;
   every theorem below exhibits a `Done`, so no panic and no fuel exhaustion at the fuel the model
   fixes itself (`unescape_fuel input = S (length input)`).                                      *)
From FluentV Require Import Base.Utf8 Syntax.UnescapeModel Syntax.UnescapeProofs.

(* "unescaping returns (never panics)": both public functions, for every prior writer content *)
Theorem C13_total : forall bs w, utf8_valid bs = true ->
  (exists c, unescape_unicode_to_string bs = Done c) /\ (exists w', unescape_unicode w bs = Done w').
Proof.
  intros bs w H. split.
  - destruct (to_string_spec bs H) as (c & Hc & _). exists c. exact Hc.
  - eexists. apply writer_correct, H.
Qed.

(* "maps \\ to a backslash, \quote to a quote, \uXXXX and \UXXXXXX to the scalar with that hex value
   (U+FFFD when it is not a scalar value or the escape is malformed), leaving all other text
   byte-identical and in order": the result is `unescape_spec bs` *)
Theorem C13_spec : forall bs, utf8_valid bs = true ->
  exists c, unescape_unicode_to_string bs = Done c /\ cow_bytes c = unescape_spec bs.
Proof. exact to_string_spec. Qed.

(* "the writer form and the string form agree": the writer receives exactly the string form,
   appended to whatever it held *)
Theorem C13_writer_eq : forall bs w, utf8_valid bs = true ->
  exists c, unescape_unicode_to_string bs = Done c /\ unescape_unicode w bs = Done (w ++ cow_bytes c).
Proof.
  intros bs w H. destruct (to_string_spec bs H) as (c & Hc & He). exists c. split; [exact Hc|].
  rewrite He. apply writer_correct, H.
Qed.

(* "input without a backslash is returned borrowed and unchanged" — and only such input *)
Theorem C13_borrowed : forall bs, utf8_valid bs = true ->
  (~ In 92%N bs -> unescape_unicode_to_string bs = Done (Borrowed bs)) /\
  (In 92%N bs -> unescape_unicode_to_string bs = Done (Owned (unescape_spec bs))).
Proof.
  intros bs H. rewrite (to_string_correct bs H). split; intros Hb.
  - destruct (has_backslash bs) eqn:E; [|reflexivity]. apply has_backslash_iff in E. contradiction.
  - apply has_backslash_iff in Hb. rewrite Hb. reflexivity.
Qed.

(* the output is again a str *)
Theorem C13_utf8_out : forall bs, utf8_valid bs = true ->
  exists c, unescape_unicode_to_string bs = Done c /\ utf8_valid (cow_bytes c) = true.
Proof.
  intros bs H. destruct (to_string_spec bs H) as (c & Hc & He). exists c. split; [exact Hc|].
  rewrite He. apply spec_utf8, H.
Qed.

(* what the specification says about well-formed escapes, spelled out (sanity of the spec):
   \\ and \quote *)
Theorem C13_spec_simple : forall c rest, c = 92%N \/ c = 34%N ->
  unescape_chars 0 (92%N :: c :: rest) = c :: unescape_chars 0 rest.
Proof.
  intros c rest [-> | ->]; cbn [unescape_chars N.eqb Pos.eqb decode_escape];
    rewrite unescape_chars_drop_skip; f_equal; f_equal; apply drop_skip_0.
Qed.

(* \uXXXX with four hex digits of value v: the scalar v (or U+FFFD), and the text continues right after *)
Theorem C13_spec_u4 : forall hs rest v, length hs = 4 -> hex_value 4 0 hs = Some v ->
  unescape_chars 0 (92%N :: 117%N :: hs ++ rest)
  = (if is_scalar v then v else 65533%N) :: unescape_chars 0 rest.
Proof. exact spec_u4. Qed.

(* \UXXXXXX with six hex digits *)
Theorem C13_spec_u6 : forall hs rest v, length hs = 6 -> hex_value 6 0 hs = Some v ->
  unescape_chars 0 (92%N :: 85%N :: hs ++ rest)
  = (if is_scalar v then v else 65533%N) :: unescape_chars 0 rest.
Proof. exact spec_u6. Qed.

(* non-vacuity and readability: the witnesses of the two historical defects, a surrogate, an
   out-of-range value, a truncated escape, and the crate's doc example *)
Example C13_example_doc :      (* Foo \U01F60A Bar *)
  unescape_unicode_to_string [70;111;111;32;92;85;48;49;70;54;48;65;32;66;97;114]%N
  = Done (Owned [70;111;111;32;240;159;152;138;32;66;97;114]%N).
Proof. vm_compute. reflexivity. Qed.

Example C13_example_multibyte_after_escape :   (* \u0 e-acute e-acute x  ->  U+FFFD x *)
  unescape_unicode_to_string [92;117;48;195;169;195;169;120]%N = Done (Owned [239;191;189;120]%N)
  /\ unescape_spec [92;117;48;195;169;195;169;120]%N = [239;191;189;120]%N.
Proof. split; vm_compute; reflexivity. Qed.

Example C13_example_sign :     (* \u+123 -> U+FFFD, not U+0123 *)
  unescape_unicode_to_string [92;117;43;49;50;51]%N = Done (Owned [239;191;189]%N).
Proof. vm_compute. reflexivity. Qed.

Example C13_example_surrogate_range_truncated :  (* \ud800  \U110000  \u12 *)
  unescape_spec [92;117;100;56;48;48]%N = [239;191;189]%N /\
  unescape_spec [92;85;49;49;48;48;48;48]%N = [239;191;189]%N /\
  unescape_spec [97;92;117;49;50]%N = [97;239;191;189]%N /\
  unescape_unicode [119]%N [97;92;117;49;50]%N = Done [119;97;239;191;189]%N.
Proof. repeat split; vm_compute; reflexivity. Qed.

(* Props/C19.v — ResourceManager: files loaded once, bundles per locale, I/O faults reported.
   Only statements here; proofs are in Resmgr/ResmgrProofs.v, the model in Resmgr/Resmgr.v.

   Quantification: `fs : nat -> bytes -> read_result` is an ARBITRARY file-system history (what
   fs::read_to_string returns for each path at each time: content, NotFound, IsDir, InvalidUtf8,
   Denied — so files may change, vanish or appear between any two requests); `parse` is an
   arbitrary total parser (the real one returns a resource also for text with syntax errors);
   `m` is an arbitrary manager state unless a theorem says "reachable"; request histories are
   arbitrary lists of (time, GetBundle | IterNext).  The bundle is the registry model of C10.   *)
From FluentV Require Import Base.Bytes Base.Outcome Syntax.Ast Bundle.Registry Gen.Extracted
  Resmgr.Resmgr Resmgr.ResmgrProofs.

(* "read from the paths obtained by substituting locale and resource id into the scheme": for a
   scheme made of {locale}, {res_id} (any position, any count) and literal bytes other than '{',
   and a locale without '{' (every LanguageIdentifier), the two sequential str::replace calls are
   the simultaneous substitution.  The hypothesis on literals is needed: see C19_paths_counterexample. *)
Theorem C19_paths : forall ts locale resource_id,
  lits_not_brace ts -> no_open_brace locale ->
  path_of (scheme_text ts) locale resource_id = scheme_subst ts locale resource_id.
Proof. exact path_is_substitution. Qed.

(* a literal '{' can combine with the inserted locale into a second-round placeholder:
   scheme "{r{locale}_id}" with locale "es" and resource id "x" reads "x", not "{res_id}" *)
Example C19_paths_counterexample :
  let ts := [Lit 123; Lit 114; Loc; Lit 95; Lit 105; Lit 100; Lit 125]%N in
  path_of (scheme_text ts) [101; 115]%N [120]%N = [120]%N /\
  scheme_subst ts [101; 115]%N [120]%N = PLACEHOLDER_2.
Proof. split; vm_compute; reflexivity. Qed.

(* "a bundle request returns a bundle containing exactly the messages of the listed resources ... or
   the list of all such failures; it does not panic [non-empty locale list]":
   rs = what each listed resource resolves to (cache first, else the file system now), in order.
   The call returns Done (never Panic); the result is Ok b exactly when there is no failure, else
   Err of ALL failures in resource order (bundle_errors: Io e of an unreadable resource, the
   Overriding errors of a readable one against everything listed before it).  b is, through the
   C10 refinement, the keyed map of add_resource over the readable resources: get_message finds the
   first definition of the id among the listed resources and only if it is a message.
   Only paths of (first locale, listed ids) are read, at time t. *)
Theorem C19_bundle : forall fs parse m t locale locales ids,
  let rs := request_results fs parse m t locale ids in
  exists m' b,
    get_bundle fs parse m t (locale :: locales) ids = Done (m', bundle_result b (bundle_errors rs [])) /\
    abs F0 b = lift F0 (spec F0 (map AddResource (oks rs))) /\
    (forall id, get_message F0 b id =
       match afind (flat_map (defs_of F0) (oks rs)) id with Some (DMessage msg) => Some msg | _ => None end) /\
    (path_scheme m' = path_scheme m /\
     exists c l, cache m' = cache m ++ c /\ io_log m' = io_log m ++ l /\
       Forall (fun ev => ev_time ev = t /\
                 exists id, In id ids /\ ev_path ev = path_of (path_scheme m) locale id) l).
Proof.
  intros fs parse m t locale locales ids.
  destruct (get_bundle_spec fs parse m t locale locales ids) as (m' & b & H1 & H2 & H3 & H4 & _).
  exists m', b. repeat split; try assumption; apply H4.
Qed.

(* no error means every listed resource was readable; any unreadable one is reported *)
Theorem C19_bundle_ok_all_read : forall fs parse m t locale ids,
  bundle_errors (request_results fs parse m t locale ids) [] = [] ->
  forall x, In x (request_results fs parse m t locale ids) -> exists r, x = Ok r.
Proof. intros fs parse m t locale ids. apply bundle_errors_nil_iff. Qed.

(* the literal behaviour outside the property's quantifier: an EMPTY locale list panics (`&locales[0]`) *)
Theorem C19_empty_locale_list_panics : forall fs parse m t ids,
  get_bundle fs parse m t [] ids = Panic "index out of bounds".
Proof. exact get_bundle_empty_panics. Qed.

(* "tolerates syntax errors inside a file": the outcome of a request (Ok/Err, the error list, every
   message lookup) is the same as if every entry that is not a message or term — the Junk a syntax
   error leaves, comments — were deleted from every parsed file, cached or read now *)
Theorem C19_tolerant : forall fs parse m t locale locales ids,
  let parse' := fun s => strip_unkeyed (parse s) in
  let m2 := Manager (path_scheme m) (strip_cache (cache m)) (io_log m) in
  exists m1' b1 m2' b2 errs,
    get_bundle fs parse m t (locale :: locales) ids = Done (m1', bundle_result b1 errs) /\
    get_bundle fs parse' m2 t (locale :: locales) ids = Done (m2', bundle_result b2 errs) /\
    forall id, get_message F0 b1 id = get_message F0 b2 id.
Proof. exact tolerant. Qed.

(* "each file is read and parsed at most once per manager and later requests see the first-loaded
   content": for the manager reached by ANY request history from ResourceManager::new,
   (1) no path occurs twice among the successful reads of the I/O trace;
   (2) the cached paths are exactly the successfully read paths, in order;
   (3) a cached resource is the parse of what its (single) successful read returned at that time;
   (4) it stays cached, unchanged, under any further history — whatever fs does later;
   (5) a request for a cached path returns it without touching the file system;
   (6) a failed read is reported and NOT cached: the next request reads again and loads. *)
Theorem C19_once : forall fs parse scheme qs,
  let m := serve_all fs parse (new_manager scheme) qs in
  NoDup (map ev_path (filter ev_ok (io_log m))) /\
  map fst (cache m) = map ev_path (filter ev_ok (io_log m)) /\
  (forall p r, afind (cache m) p = Some r ->
     exists t s, In (IoEvent t p true) (io_log m) /\ fs t p = ReadOk s /\ r = parse s) /\
  (forall p r, afind (cache m) p = Some r ->
     forall qs2, afind (cache (serve_all fs parse m qs2)) p = Some r) /\
  (forall t id locale r, afind (cache m) (path_of (path_scheme m) locale id) = Some r ->
     get_resource fs parse m t id locale = (m, Ok r)) /\
  (forall t id locale e,
     afind (cache m) (path_of (path_scheme m) locale id) = None ->
     fs t (path_of (path_scheme m) locale id) = ReadErr e ->
     exists m', get_resource fs parse m t id locale = (m', Err (Io e)) /\
       cache m' = cache m /\ path_scheme m' = path_scheme m /\
       forall t2 s, fs t2 (path_of (path_scheme m) locale id) = ReadOk s ->
         exists m'', get_resource fs parse m' t2 id locale = (m'', Ok (parse s))).
Proof. exact once. Qed.

(* "the multi-locale request yields one result per locale in the given order, lazily": creating the
   iterator touches nothing; the call with internal index idx yields, for idx < |locales|, exactly
   what get_bundle [locales[idx]] yields NOW (time of this call, cache of this moment), advances to
   idx+1 and reads only paths of that locale; for idx >= |locales| it yields None and changes nothing *)
Theorem C19_lazy_multi : forall fs parse m t locales ids idx,
  get_bundles m locales ids = 0 /\
  match nth_error locales idx with
  | None => bundles_next fs parse m t locales ids idx = Done (m, idx, None)
  | Some locale =>
      exists m' res,
        get_bundle fs parse m t [locale] ids = Done (m', res) /\
        bundles_next fs parse m t locales ids idx = Done (m', S idx, Some res) /\
        path_scheme m' = path_scheme m /\
        exists c l, cache m' = cache m ++ c /\ io_log m' = io_log m ++ l /\
          Forall (fun ev => ev_time ev = t /\
                    exists id, In id ids /\ ev_path ev = path_of (path_scheme m) locale id) l
  end.
Proof.
  intros fs parse m t locales ids idx. split; [reflexivity|].
  pose proof (bundles_next_spec fs parse m t locales ids idx) as H.
  destruct (nth_error locales idx); [|exact H].
  destruct H as (m' & res & H1 & H2 & H3). exists m', res. repeat split; try assumption; apply H3.
Qed.

(* non-vacuity: scheme "{locale}/{res_id}"; a.ftl present (message a), b.ftl missing at time 0 and
   present at time 1; at time 1 a.ftl has changed but the cached parse is served *)
Example C19_example :
  let scheme := PLACEHOLDER_1 ++ [47]%N ++ PLACEHOLDER_2 in
  let en := [101; 110]%N in let fa := [97]%N in let fb := [98]%N in
  let pa := en ++ [47]%N ++ fa in let pb := en ++ [47]%N ++ fb in
  let fs := fun (t : nat) (p : bytes) =>
    if bytes_eqb p pa then ReadOk [N.of_nat t] else
    if bytes_eqb p pb then (match t with O => ReadErr NotFound | _ => ReadOk [7%N] end) else ReadErr IsDir in
  let parse := fun (s : bytes) => [Message s None [] None] in
  exists m1 m2 b,
    get_bundle fs parse (new_manager scheme) 0 [en] [fa; fb] = Done (m1, Err [Io NotFound]) /\
    map fst (cache m1) = [pa] /\
    get_bundle fs parse m1 1 [en] [fa; fb] = Done (m2, Ok b) /\
    has_message F0 b [0%N] = true /\ has_message F0 b [7%N] = true /\ has_message F0 b [1%N] = false /\
    map ev_ok (io_log m2) = [true; false; true].
Proof. do 3 eexists. repeat split; vm_compute; reflexivity. Qed.

(* Props/C06.v — Formatting is total and bounded.  Statements only; proofs are in
   Bundle/ResolverTotal.v, Bundle/ResolverBounds.v and Bundle/NumberProofs.v.

   The model (Bundle/ResolverModel.v) is quantified over: the build profile (`overflow_checks`),
   the registered functions, the text transform, the value formatter, the CLDR rules, the printing
   of custom types, the two unescape functions, std's float parser, the bundle (any association
   of ids to message / term / function entries = any set of parsed resources), the caller's
   arguments, the pattern that is formatted and the memoizer content at the time of the call.

   Hypotheses `values_are_f64` (three of them): the exact-decimal numbers of the model stand for
   f64 values, i.e. what std's parser returns, what registered functions return and what the
   caller passes is in the range of an f64 (NumberProofs.v fval_in_f64_range).  In Rust these are
   facts about the type f64; without them the model's `PluralOperands::try_from(f64).expect(..)`
   can fail on "numbers" no f64 can hold.                                                     *)
From FluentV Require Import Base.Bytes Base.Outcome Syntax.Ast Bundle.Args Bundle.Number Bundle.NumberProofs
  Bundle.ResolverAst Bundle.ResolverModel Bundle.ResolverTotal Gen.Extracted.

Section C06.
Variable overflow_checks : bool.
Variable call_function : bytes -> list fvalue -> fargs -> fvalue.
Variable transform : option (bytes -> bytes).
Variable formatter : option (fvalue -> option bytes).
Variable rules : ntype -> rules_fn.
Variable custom_as_string : bytes -> bytes.
Variable unescape_write : bytes -> bytes.
Variable unescape_to_string : bytes -> bytes.
Variable f64_from_str : bytes -> option fval.
Variable b : bundle.
Variable args : option fargs.
Variable top : option pkey.       (* which pattern object of the bundle p is (None: not one of them) *)
Variable p : pattern.
Variable intls : intl_cache.

Definition values_are_f64 : Prop :=
  (forall s v, f64_from_str s = Some v -> fval_in_f64_range v) /\
  (forall name pos named, value_ok (call_function name pos named)) /\
  oargs_ok args.

Notation format := (format_pattern overflow_checks call_function transform formatter rules custom_as_string
                      unescape_write unescape_to_string f64_from_str b args).
Notation write := (write_pattern overflow_checks call_function transform formatter rules custom_as_string
                     unescape_write unescape_to_string f64_from_str b args).

(* "formatting returns a string: it never panics, aborts or fails to terminate": with the explicit
   fuel `fuel_of b p` = 1 + depth of p + (number of patterns in the bundle) x (deepest pattern + 2),
   both entry points return Done — not Panic (unreachable!/expect/unwrap/u8 overflow), not
   OutOfFuel — for self-referential, cyclic and exponentially expanding bundles alike. *)
Theorem C06_total :
  values_are_f64 ->
  (exists text sc, format (fuel_of b p) top p intls = Done (text, sc)) /\
  (exists toks sc, write (fuel_of b p) top p intls = Done (toks, sc)).
Proof.
  intros (H1 & H2 & H3). split.
  - destruct (format_pattern_total overflow_checks call_function transform formatter rules custom_as_string
                unescape_write unescape_to_string f64_from_str b args H1 H2 H3 top p intls) as (t & sc & E & _); eauto.
  - destruct (write_pattern_total overflow_checks call_function transform formatter rules custom_as_string
                unescape_write unescape_to_string f64_from_str b args H1 H2 H3 top p intls) as (t & sc & E & _); eauto.
Qed.

(* "At most 100 placeables are resolved per call": the counter ends at most at MAX_PLACEABLES + 1
   (the increment that trips the guard), and that fits the u8 — in a debug build (overflow_checks
   = true) an overflow would be a Panic, which C06_total excludes. *)
Theorem C06_budget :
  values_are_f64 ->
  (MAX_PLACEABLES + 1 < 2 ^ PLACEABLES_BITS)%N /\
  (forall text sc, format (fuel_of b p) top p intls = Done (text, sc) -> (sc_placeables sc <= MAX_PLACEABLES + 1)%N) /\
  (forall toks sc, write (fuel_of b p) top p intls = Done (toks, sc) -> (sc_placeables sc <= MAX_PLACEABLES + 1)%N).
Proof.
  intros (H1 & H2 & H3). split; [apply max_placeables_fits|]. split.
  - intros text sc E.
    destruct (format_pattern_total overflow_checks call_function transform formatter rules custom_as_string
                unescape_write unescape_to_string f64_from_str b args H1 H2 H3 top p intls) as (t & sc' & E' & P).
    rewrite E in E'. injection E' as <- <-. eapply Post_new_budget, P.
  - intros toks sc E.
    destruct (write_pattern_total overflow_checks call_function transform formatter rules custom_as_string
                unescape_write unescape_to_string f64_from_str b args H1 H2 H3 top p intls) as (t & sc' & E' & P).
    rewrite E in E'. injection E' as <- <-. eapply Post_new_budget, P.
Qed.

(* "exceeding the limit … is reported as an error": if the counter reached MAX_PLACEABLES + 1 (or
   the dirty flag is set) TooManyPlaceables is in the error list. *)
Theorem C06_limit_error :
  values_are_f64 ->
  (forall text sc, format (fuel_of b p) top p intls = Done (text, sc) ->
     (sc_placeables sc = MAX_PLACEABLES + 1)%N \/ sc_dirty sc = true -> In TooManyPlaceables (sc_errors sc)) /\
  (forall toks sc, write (fuel_of b p) top p intls = Done (toks, sc) ->
     (sc_placeables sc = MAX_PLACEABLES + 1)%N \/ sc_dirty sc = true -> In TooManyPlaceables (sc_errors sc)).
Proof.
  intros (H1 & H2 & H3). split.
  - intros text sc E.
    destruct (format_pattern_total overflow_checks call_function transform formatter rules custom_as_string
                unescape_write unescape_to_string f64_from_str b args H1 H2 H3 top p intls) as (t & sc' & E' & P).
    rewrite E in E'. injection E' as <- <-. eapply Post_new_limit, P.
  - intros toks sc E.
    destruct (write_pattern_total overflow_checks call_function transform formatter rules custom_as_string
                unescape_write unescape_to_string f64_from_str b args H1 H2 H3 top p intls) as (t & sc' & E' & P).
    rewrite E in E'. injection E' as <- <-. eapply Post_new_limit, P.
Qed.

(* "… or meeting a cycle is reported as an error": Scope::track on a pattern that is already being
   resolved (the same object of the bundle, identified by its key, is on `travelled`) does not enter it; it prints the reference
   in braces and reports Cyclic.  (Errors are only ever appended: Ctl.ctl_errs.) *)
Theorem C06_cycle_error :
  forall fuel k q exp sc,
    key_mem k (sc_travelled sc) = true ->
    track overflow_checks call_function transform formatter rules custom_as_string unescape_write
      unescape_to_string f64_from_str b args (S fuel) k q exp sc =
    Done (braced (inline_write_error exp), add_error sc Cyclic).
Proof. intros. now apply track_cyclic. Qed.

End C06.

(* "extreme numeric arguments": the plural-operands conversion never reaches its `expect`, for
   every value in the range of an f64 and EVERY minimum_fraction_digits (the 10^k arithmetic is
   checked and saturates). *)
Theorem C06_operands_total :
  forall n : fnumber, fval_in_f64_range (n_value n) -> exists ops, fnumber_operands n = Done ops.
Proof. exact fnumber_operands_total. Qed.

(* The float parser the extracted model is run with (Number.v f64_from_str_exact, exact decimals)
   meets the first `values_are_f64` hypothesis on every literal of at most 19 bytes (a sufficient,
   not a necessary bound: what matters is that the integer and the fraction part each fit a u64;
   literals beyond 15 significant digits are outside the model's validity anyway, class D15). *)
Theorem C06_exact_parser_in_range :
  forall s v, f64_from_str_exact s = Some v -> length s <= 19 -> fval_in_f64_range v.
Proof. exact f64_from_str_exact_in_range. Qed.

(* ---------- non-vacuity: the model on the classical attacks and on the historical witnesses ---------- *)
Definition ex_call (_ : bytes) (_ : list fvalue) (_ : fargs) : fvalue := VError.
Definition ex_rules_one (_ : ntype) (_ : operands) : pcat := ONE.
Definition ex_id (x : bytes) : bytes := x.
Definition s (x : string) : bytes := bytes_of_string x.
Definition ref (id : string) := PlaceableElement (Inline (MessageReference (s id) None)).
Definition lit := PlaceableElement (Inline (StringLiteral (s "a"))).
Definition ex_run (m : list (bytes * bentry)) (top : option pkey) (p : pattern) :=
  match format_pattern true ex_call None None ex_rules_one ex_id ex_id ex_id f64_from_str_exact (Bundle m false) None
          (fuel_of (Bundle m false) p) top p [] with
  | Done (t, sc) => Some (length t, sc_errors sc, sc_placeables sc, sc_dirty sc)
  | _ => None
  end.

(* billion laughs, arity 10, depth 3 (1110 placeables if unbounded): stops at the 101st, 276 bytes *)
Definition laughs : list (bytes * bentry) :=
  [(s "lol0", EMessage (Some (Pattern [TextElement (s "lol")])) []);
   (s "lol1", EMessage (Some (Pattern (repeat (ref "lol0") 10))) []);
   (s "lol2", EMessage (Some (Pattern (repeat (ref "lol1") 10))) []);
   (s "lol3", EMessage (Some (Pattern (repeat (ref "lol2") 10))) [])].
Example C06_example_laughs :
  ex_run laughs (Some (PKey false (s "lol3") None)) (Pattern (repeat (ref "lol2") 10)) = Some (276, [TooManyPlaceables], 101%N, true).
Proof. vm_compute. reflexivity. Qed.

(* a = { b }, b = { a } *)
Example C06_example_cycle :
  ex_run [(s "a", EMessage (Some (Pattern [ref "b"])) []); (s "b", EMessage (Some (Pattern [ref "a"])) [])]
         (Some (PKey false (s "a") None))
         (Pattern [ref "b"]) = Some (3, [Cyclic], 2%N, false).
Proof. vm_compute. reflexivity. Qed.

(* D9 (fixed by 644bc0e): the limit trips inside `{ 1 -> [one] {m7} *[other] y }` and inside `{ { m7 } }` *)
Definition m7 := [(s "m7", EMessage (Some (Pattern [lit; lit; lit])) [])].
Example C06_example_limit_in_variant :
  ex_run m7 None (Pattern (repeat lit 99 ++
               [PlaceableElement (Select (NumberLiteral (s "1"))
                  [Variant (KeyIdentifier (s "one")) (Pattern [ref "m7"]) false;
                   Variant (KeyIdentifier (s "other")) (Pattern [TextElement (s "y")]) true])]))
  = Some (102, [TooManyPlaceables], 101%N, true).
Proof. vm_compute. reflexivity. Qed.
Example C06_example_limit_in_nested_placeable :
  ex_run m7 None (Pattern (repeat lit 99 ++ [PlaceableElement (Inline (Placeable (Inline (Placeable (Inline (MessageReference (s "m7") None))))))]))
  = Some (103, [TooManyPlaceables], 101%N, true).
Proof. vm_compute. reflexivity. Qed.

(* D10 (fixed by 1bd1445): 20 and more visible fraction digits saturate instead of overflowing *)
Example C06_example_operands_25_digits :
  fnumber_operands (FNum (FDec false (s "1") (s "5")) (NOptions Cardinal StyleDecimal None CurSymbol true None (Some 25%N) None None None))
  = Done (Operands (FDec false (s "1") (s "5")) 1 25 1 u64_max 5).
Proof. vm_compute. reflexivity. Qed.

(* ---------- bounded work ---------- *)
From FluentV Require Import Bundle.ResolverBounds.

Section C06_bounds.
Variable overflow_checks : bool.
Variable call_function : bytes -> list fvalue -> fargs -> fvalue.
Variable transform : option (bytes -> bytes).
Variable formatter : option (fvalue -> option bytes).
Variable rules : ntype -> rules_fn.
Variable custom_as_string : bytes -> bytes.
Variable unescape_write : bytes -> bytes.
Variable unescape_to_string : bytes -> bytes.
Variable f64_from_str : bytes -> option fval.
Variable b : bundle.
Variable args : option fargs.
Variable top : option pkey.       (* which pattern object of the bundle p is (None: not one of them) *)
Variable p : pattern.
Variable intls : intl_cache.
(* C = a bound on the number of elements of any pattern and on the number of function-call sites of
   any one placeable expression, over p, the bundle's patterns and the variant patterns inside
   them (ResolverBounds.v sz_pattern); C <= size of the resources *)
Variable C : nat.
Hypothesis HC : forall q, In q (bundle_patterns b) -> sz_pattern q <= C.
Hypothesis Hp : sz_pattern p <= C.

(* "invocation count of a registered function": at most (MAX_PLACEABLES + 1) x C invocations per call,
   through either entry point, for every fuel (i.e. whenever the call returns) *)
Theorem C06_calls_bounded :
  (forall fuel text sc,
     format_pattern overflow_checks call_function transform formatter rules custom_as_string
       unescape_write unescape_to_string f64_from_str b args fuel top p intls = Done (text, sc) ->
     length (sc_calls sc) <= (N.to_nat MAX_PLACEABLES + 1) * C) /\
  (forall fuel toks sc,
     write_pattern overflow_checks call_function transform formatter rules custom_as_string
       unescape_write unescape_to_string f64_from_str b args fuel top p intls = Done (toks, sc) ->
     length (sc_calls sc) <= (N.to_nat MAX_PLACEABLES + 1) * C).
Proof.
  split.
  - intros fuel text sc H. eapply format_pattern_bounds; eassumption.
  - intros fuel toks sc H. eapply write_pattern_bounds; eassumption.
Qed.

(* "the output is bounded by a fixed multiple of the combined size of resources and arguments".
   PARTIAL: what is proved is a bound on the NUMBER of pieces written — text elements, printed
   values, `{reference}` fallbacks, isolation marks — : at most C + (MAX_PLACEABLES + 1) x (C + 8).
   A bound in bytes would need a bound on every piece; one kind of piece has none in the code:
   a number prints with `minimum_fraction_digits` zeros, and NUMBER(1, minimumFractionDigits:
   99999999999) makes FluentNumber::as_string ask for ~10^11 bytes (finding D11).  Not proved
   here either: that text elements, argument strings and function results are each bounded by
   the input size (true by construction for the first two; a hypothesis on user functions). *)
Theorem C06_bounded_partial :
  forall fuel toks sc,
    write_pattern overflow_checks call_function transform formatter rules custom_as_string
      unescape_write unescape_to_string f64_from_str b args fuel top p intls = Done (toks, sc) ->
    length toks <= C + (N.to_nat MAX_PLACEABLES + 1) * (C + 8).
Proof. intros fuel toks sc H. eapply write_pattern_bounds; eassumption. Qed.

(* PARTIAL (bytes): if every piece that was written — a (transformed) text element, a printed value,
   a part of a `{reference}` fallback, an isolation mark — has at most W bytes, the text has at most
   W x (C + (MAX_PLACEABLES + 1) x (C + 8)) bytes.  The hypothesis is on the pieces of THIS output,
   not yet on the inputs: deriving W from "every argument string / function result / formatter
   output <= F bytes, every minimum_fraction_digits <= K, transform lengthens by at most a factor
   T" needs one more invariant over all values in flight (in particular strings resolved from
   patterns in call-argument position can be printed again through term parameters) and was not
   attempted.  Without a bound on minimum_fraction_digits no W exists (D11).
   (Since then that invariant has been proved: C06_bounded_bytes at the end of this file derives W
   from the inputs; this statement is kept as the lemma it is.) *)
Theorem C06_bounded_bytes_partial :
  forall W fuel toks sc,
    write_pattern overflow_checks call_function transform formatter rules custom_as_string
      unescape_write unescape_to_string f64_from_str b args fuel top p intls = Done (toks, sc) ->
    Forall (fun t => length (token_bytes t) <= W) toks ->
    length (flatten toks) <= W * (C + (N.to_nat MAX_PLACEABLES + 1) * (C + 8)).
Proof.
  intros W fuel toks sc H HW.
  pose proof (C06_bounded_partial fuel toks sc H) as Hn.
  pose proof (flatten_length_le W toks HW) as Hb.
  assert (W * length toks <= W * (C + (N.to_nat MAX_PLACEABLES + 1) * (C + 8))) by (apply Nat.mul_le_mono_l; exact Hn).
  eapply Nat.le_trans; eassumption.
Qed.

End C06_bounds.

(* ---------- bounded output IN BYTES, from the inputs alone ---------- *)
From FluentV Require Import Bundle.ResolverBytes.

Section C06_bytes.
Variable overflow_checks : bool.
Variable call_function : bytes -> list fvalue -> fargs -> fvalue.
Variable transform : option (bytes -> bytes).
Variable formatter : option (fvalue -> option bytes).
Variable rules : ntype -> rules_fn.
Variable custom_as_string : bytes -> bytes.
Variable unescape_write : bytes -> bytes.
Variable unescape_to_string : bytes -> bytes.
Variable f64_from_str : bytes -> option fval.
Variable b : bundle.
Variable args : option fargs.
Variable top : option pkey.
Variable p : pattern.
Variable intls : intl_cache.
(* C as in C06_bounded_partial *)
Variable C : nat.
Hypothesis HC : forall q, In q (bundle_patterns b) -> sz_pattern q <= C.
Hypothesis Hp : sz_pattern p <= C.
(* the four bounds; each is compared with a MEASURE OF THE INPUTS defined in Bundle/ResolverBytes.v
   (so Lmax, Amax, Kmax can be taken equal to the measures: they are not assumptions) *)
Variable Lmax Amax Fmax : nat.
Variable Kmax : N.
(* well-formedness of named arguments (a computed boolean): no named-argument value is a message
   reference, a term reference or a placeable, and a value named minimumFractionDigits is a literal.
   The grammar allows literals only (NamedArgument ::= Identifier ":" (StringLiteral | NumberLiteral):
   ResolverBytes.named_literals_ok), but fluent-syntax ACCEPTS a message reference or a function call
   there (get_inline_expression: the identifier arm is not guarded by !only_literal), and with a
   message reference as the value of a term parameter the output is exponential in the size of the
   resources — REAL CODE, see C06_example_named_message_reference below.  This premise excludes
   exactly that; without it no bound in terms of Lmax, Amax, Fmax, Kmax exists. *)
Hypothesis Hwf : named_args_ok b p = true.
(* (a) the longest string of p and of the bundle's patterns (variant patterns included): text
   elements, string and number literals, the text of every `{reference}` fallback
   (inline_write_error: id, -id.attr, id(), $id) *)
Hypothesis Ha : strings_max b p <= Lmax.
(* (b) the longest printed argument: strings by length, numbers by FluentNumber::as_string (value
   and options), custom values by FluentType::as_string *)
Hypothesis Hb : args_size custom_as_string args <= Amax.
(* (c) external code (section variables): every value a registered function returns prints in
   <= Fmax bytes, every formatter output has <= Fmax bytes, and transform, unescape_unicode and
   f64::from_str+Display map a string of <= Lmax bytes to <= Fmax bytes *)
Hypothesis Hc : external_bounded call_function transform formatter custom_as_string unescape_write
                  unescape_to_string f64_from_str Lmax Fmax.
(* (d) the largest minimumFractionDigits literal among the named arguments of the calls in p and
   the bundle.  This is the VALUE of a literal, not its length: the code pads a number with that
   many zeros whatever the value (FluentNumber::as_string; finding D11, NUMBER(1,
   minimumFractionDigits: 99999999999) asks for ~10^11 bytes from an 11-byte literal).  With Kmax
   = the measure the theorem holds for D11 too and says how large the output may get; "bounded by
   a fixed multiple of the SIZE of the resources" holds exactly for the inputs where this value is
   bounded by their size — hypothesis (d) excludes exactly D11.  (minimum_fraction_digits of
   arguments and of function results need no hypothesis: (b)/(c) bound their printed form, which
   is at least that long.) *)
Hypothesis Hd : (mfd_max f64_from_str b p <= Kmax)%N.

(* "the output is bounded by a fixed multiple of the combined size of resources and arguments":
   every piece written has at most W bytes (Bundle/ResolverBytes.v write_pattern_tokens: an
   invariant over every value in flight — Numbers, term parameters, arguments), and there are at
   most C + (MAX_PLACEABLES + 1) x (C + 8) pieces (C06_bounded_partial).  For every fuel, i.e.
   whenever the call returns (that it does: C06_total); through either entry point. *)
Theorem C06_bounded_bytes :
  let B := Nat.max Lmax (Nat.max Amax Fmax) in
  let W := B + Nat.max (N.to_nat Kmax) B + 3 in
  (forall fuel toks sc,
     write_pattern overflow_checks call_function transform formatter rules custom_as_string
       unescape_write unescape_to_string f64_from_str b args fuel top p intls = Done (toks, sc) ->
     length (flatten toks) <= W * (C + (N.to_nat MAX_PLACEABLES + 1) * (C + 8))) /\
  (forall fuel text sc,
     format_pattern overflow_checks call_function transform formatter rules custom_as_string
       unescape_write unescape_to_string f64_from_str b args fuel top p intls = Done (text, sc) ->
     length text <= W * (C + (N.to_nat MAX_PLACEABLES + 1) * (C + 8))).
Proof.
  split.
  - intros fuel toks sc H.
    exact (write_pattern_bytes overflow_checks call_function transform formatter rules custom_as_string
             unescape_write unescape_to_string f64_from_str b args p Lmax Amax Fmax Kmax C
             Hwf Ha Hd Hb Hc HC Hp fuel top intls toks sc H).
  - intros fuel text sc H.
    exact (format_pattern_bytes overflow_checks call_function transform formatter rules custom_as_string
             unescape_write unescape_to_string f64_from_str b args p Lmax Amax Fmax Kmax C
             Hwf Ha Hd Hb Hc HC Hp fuel top intls text sc H).
Qed.

End C06_bytes.
Print Assumptions C06_bounded_bytes.

(* The float parser the extracted model is run with meets its part of (c) with Fmax = Lmax + 1:
   it prints what it read, minus redundant zeros, plus a 0 before a leading point. *)
Theorem C06_exact_parser_prints_short :
  forall s v, f64_from_str_exact s = Some v -> length (fval_to_string v) <= length s + 1.
Proof. exact f64_from_str_exact_prints_short. Qed.
Print Assumptions C06_exact_parser_prints_short.

(* ---------- non-vacuity of C06_bounded_bytes ---------- *)
(* the external code of the examples above meets (c) for every L with F = L + 1 *)
Lemma ex_external_bounded Lmax :
  external_bounded ex_call None None ex_id ex_id ex_id f64_from_str_exact Lmax (Lmax + 1).
Proof.
  unfold external_bounded, ex_id. repeat split; try discriminate.
  - intros name pos named. cbn. apply Nat.le_0_l.
  - intros x Hx. apply (Nat.le_trans _ _ _ Hx), Nat.le_add_r.
  - intros x Hx. apply (Nat.le_trans _ _ _ Hx), Nat.le_add_r.
  - intros x v Hx E. apply (Nat.le_trans _ _ _ (f64_from_str_exact_prints_short x v E)), Nat.add_le_mono_r, Hx.
Qed.

(* billion laughs: L = 4 (the ids), no arguments, no options: W = 5 + 5 + 3, C = 10, at most
   13 x 1828 = 23764 bytes for every fuel (the run above: 276) *)
Example C06_example_bytes_laughs :
  forall fuel toks sc,
    write_pattern true ex_call None None ex_rules_one ex_id ex_id ex_id f64_from_str_exact (Bundle laughs false) None
      fuel (Some (PKey false (s "lol3") None)) (Pattern (repeat (ref "lol2") 10)) [] = Done (toks, sc) ->
    length (flatten toks) <= (5 + Nat.max 0 5 + 3) * (10 + (N.to_nat MAX_PLACEABLES + 1) * (10 + 8)).
Proof.
  intros fuel toks sc H.
  refine (proj1 (C06_bounded_bytes true ex_call None None ex_rules_one ex_id ex_id ex_id f64_from_str_exact
                   (Bundle laughs false) None (Some (PKey false (s "lol3") None)) (Pattern (repeat (ref "lol2") 10)) []
                   10 _ _ 4 0 5 0%N _ _ _ _ _) fuel toks sc H).
  - apply sz_bound_check. vm_compute. reflexivity.
  - apply Nat.leb_le. vm_compute. reflexivity.
  - vm_compute. reflexivity.
  - apply Nat.leb_le. vm_compute. reflexivity.
  - apply Nat.leb_le. vm_compute. reflexivity.
  - exact (ex_external_bounded 4).
  - apply N.leb_le. vm_compute. reflexivity.
Qed.

(* every kind of value at once:  m = { NUMBER($n, minimumFractionDigits: 3) } { -t(x: "abc") }{ lol1 }{ 2.50 },
   -t = <{ $x }>,  $n = 1.5,  isolation on.  L = 8 ("NUMBER()"), A = 3, F = 9, K = 3: W = 9 + 9 + 3 *)
Definition rich_p : pattern :=
  Pattern [PlaceableElement (Inline (FunctionReference (s "NUMBER")
              (CallArguments [VariableReference (s "n")]
                             [NamedArgument (s "minimumFractionDigits") (NumberLiteral (s "3"))])));
           TextElement (s " ");
           PlaceableElement (Inline (TermReference (s "t") None
              (Some (CallArguments [] [NamedArgument (s "x") (StringLiteral (s "abc"))]))));
           ref "lol1"; PlaceableElement (Inline (NumberLiteral (s "2.50")))].
Definition rich : bundle :=
  Bundle ([(s "NUMBER", EFunction FnNUMBER);
           (s "t", ETerm (Pattern [TextElement (s "<"); PlaceableElement (Inline (VariableReference (s "x")));
                                   TextElement (s ">")]) []);
           (s "m", EMessage (Some rich_p) [])] ++ laughs) true.
Definition rich_args : option fargs :=
  Some [(s "n", VNumber (FNum (FDec false (s "1") (s "5")) default_options))].

Example C06_example_bytes_measures :
  (named_args_ok rich rich_p, strings_max rich rich_p, args_size ex_id rich_args, mfd_max f64_from_str_exact rich rich_p)
  = (true, 8, 3, 3%N).
Proof. vm_compute. reflexivity. Qed.

Example C06_example_bytes_rich :
  forall fuel toks sc,
    write_pattern true ex_call None None ex_rules_one ex_id ex_id ex_id f64_from_str_exact rich rich_args
      fuel (Some (PKey false (s "m") None)) rich_p [] = Done (toks, sc) ->
    length (flatten toks) <= (9 + Nat.max 3 9 + 3) * (10 + (N.to_nat MAX_PLACEABLES + 1) * (10 + 8)).
Proof.
  intros fuel toks sc H.
  refine (proj1 (C06_bounded_bytes true ex_call None None ex_rules_one ex_id ex_id ex_id f64_from_str_exact
                   rich rich_args (Some (PKey false (s "m") None)) rich_p []
                   10 _ _ 8 3 9 3%N _ _ _ _ _) fuel toks sc H).
  - apply sz_bound_check. vm_compute. reflexivity.
  - apply Nat.leb_le. vm_compute. reflexivity.
  - vm_compute. reflexivity.
  - apply Nat.leb_le. vm_compute. reflexivity.
  - apply Nat.leb_le. vm_compute. reflexivity.
  - exact (ex_external_bounded 8).
  - apply N.leb_le. vm_compute. reflexivity.
Qed.

(* ... and the call does return: 22 pieces, the widest ("1.500") 5 bytes, 63 bytes in all *)
Example C06_example_bytes_rich_run :
  match write_pattern true ex_call None None ex_rules_one ex_id ex_id ex_id f64_from_str_exact rich rich_args
          (fuel_of rich rich_p) (Some (PKey false (s "m") None)) rich_p [] with
  | Done (t, sc) => Some (length t, list_max (map (fun x => length (token_bytes x)) t), length (flatten t), sc_errors sc)
  | _ => None
  end = Some (22, 5, 63, []).
Proof. vm_compute. reflexivity. Qed.

(* D11 is exactly what (d) measures: an 11-byte literal, Kmax must be 99999999999 *)
Example C06_example_bytes_D11 :
  let p := Pattern [PlaceableElement (Inline (FunctionReference (s "NUMBER")
              (CallArguments [NumberLiteral (s "1")]
                             [NamedArgument (s "minimumFractionDigits") (NumberLiteral (s "99999999999"))])))] in
  (strings_max (Bundle [] false) p, mfd_max f64_from_str_exact (Bundle [] false) p) = (11, 99999999999%N).
Proof. vm_compute. reflexivity. Qed.

(* Why named_args_ok is a premise — a finding about the real code, not a proof artefact.  Resources
   that fluent-syntax parses without error:
       -t = {$x}{$x}{$x}      m = ab      ma = { -t(x: m) }      maa = { -t(x: ma) }   ...
   (a message reference as the value of a named argument).  Formatting the 8th of the chain resolves
   33 placeables, reports no error, every string of the input has <= 9 bytes, and ONE piece of the
   output has 2 x 3^7 = 4374 bytes, the whole output 13122 = 6 x 3^7 bytes; each further message
   (~25 bytes, 4 placeables) triples it.  The real bundle returns the same 13122 bytes, 9565938 bytes
   at depth 14 from 459 bytes of FTL; depth 24 stays under the limit of 100 placeables. *)
Definition chain_name (k : nat) : bytes := s "m" ++ repeat 97%N k.
Definition chain_msg (k : nat) : bytes * bentry :=
  (chain_name (S k),
   EMessage (Some (Pattern [PlaceableElement (Inline (TermReference (s "t") None
              (Some (CallArguments [] [NamedArgument (s "x") (MessageReference (chain_name k) None)]))))])) []).
Definition chain (d : nat) : bundle :=
  let vx := PlaceableElement (Inline (VariableReference (s "x"))) in
  Bundle ((s "t", ETerm (Pattern [vx; vx; vx]) []) ::
          (chain_name 0, EMessage (Some (Pattern [TextElement (s "ab")])) []) :: map chain_msg (seq 0 d)) false.
Example C06_example_named_message_reference :
  let p := Pattern [PlaceableElement (Inline (MessageReference (chain_name 8) None))] in
  match write_pattern true ex_call None None ex_rules_one ex_id ex_id ex_id f64_from_str_exact (chain 8) None
          (fuel_of (chain 8) p) None p [] with
  | Done (t, sc) => Some (named_args_ok (chain 8) p, strings_max (chain 8) p,
                          N.of_nat (list_max (map (fun x => length (token_bytes x)) t)),
                          N.of_nat (length (flatten t)), sc_placeables sc, sc_errors sc)
  | _ => None
  end = Some (false, 9, 4374%N, 13122%N, 33%N, []).
Proof. vm_compute. reflexivity. Qed.

(* ---------- ... as a FIXED MULTIPLE of the input size ---------- *)
From FluentV Require Import Bundle.ResolverBytesLinear.

Section C06_linear.
Variable overflow_checks : bool.
Variable call_function : bytes -> list fvalue -> fargs -> fvalue.
Variable transform : option (bytes -> bytes).
Variable formatter : option (fvalue -> option bytes).
Variable rules : ntype -> rules_fn.
Variable custom_as_string : bytes -> bytes.
Variable unescape_write : bytes -> bytes.
Variable unescape_to_string : bytes -> bytes.
Variable f64_from_str : bytes -> option fval.
Variable b : bundle.
Variable args : option fargs.
Variable top : option pkey.
Variable p : pattern.
Variable intls : intl_cache.
Variable Lmax Amax Fmax : nat.
Variable Kmax : N.
(* Tmax: the text of one pattern — the sum of what its text elements write (after the transform,
   if any) — at most, over p, the bundle's patterns and all variant patterns inside them
   (ResolverBytesLinear.text_max; <= the size of the resources when there is no transform) *)
Variable Tmax : nat.
Hypothesis Hwf : named_args_ok b p = true.                              (* as in C06_bounded_bytes *)
Hypothesis Ha : strings_max b p <= Lmax.                                (* (a) *)
Hypothesis Hb : args_size custom_as_string args <= Amax.                (* (b) *)
Hypothesis Hc : external_bounded call_function transform formatter custom_as_string unescape_write
                  unescape_to_string f64_from_str Lmax Fmax.            (* (c) *)
Hypothesis Hd : (mfd_max f64_from_str b p <= Kmax)%N.                   (* (d): excludes D11 *)
Hypothesis Ht : text_max transform b p <= Tmax.

(* C06_bounded_bytes multiplies the widest piece by the number of pieces — a product of two input
   sizes.  Counting the text elements by their bytes gives the sentence of the property as it
   stands: the output has at most
        Tmax + 101 x (Tmax + 8 W)  =  102 Tmax + 808 W      bytes,   W <= 2 max(L, A, F) + K + 3,
   a fixed multiple (constants from MAX_PLACEABLES only) of the sizes of resources, arguments and
   external outputs and of the largest minimumFractionDigits — no premise on C at all.  Each
   increment of the placeable counter pays for one more pattern's text and eight other pieces. *)
Theorem C06_bounded_bytes_linear :
  let B := Nat.max Lmax (Nat.max Amax Fmax) in
  let W := B + Nat.max (N.to_nat Kmax) B + 3 in
  (forall fuel toks sc,
     write_pattern overflow_checks call_function transform formatter rules custom_as_string
       unescape_write unescape_to_string f64_from_str b args fuel top p intls = Done (toks, sc) ->
     length (flatten toks) <= Tmax + (N.to_nat MAX_PLACEABLES + 1) * (Tmax + 8 * W)) /\
  (forall fuel text sc,
     format_pattern overflow_checks call_function transform formatter rules custom_as_string
       unescape_write unescape_to_string f64_from_str b args fuel top p intls = Done (text, sc) ->
     length text <= Tmax + (N.to_nat MAX_PLACEABLES + 1) * (Tmax + 8 * W)).
Proof.
  split.
  - intros fuel toks sc H.
    exact (write_pattern_bytes_linear overflow_checks call_function transform formatter rules custom_as_string
             unescape_write unescape_to_string f64_from_str b args p Lmax Amax Fmax Kmax Tmax
             Hwf Ha Hd Hb Hc Ht fuel top intls toks sc H).
  - intros fuel text sc H.
    exact (format_pattern_bytes_linear overflow_checks call_function transform formatter rules custom_as_string
             unescape_write unescape_to_string f64_from_str b args p Lmax Amax Fmax Kmax Tmax
             Hwf Ha Hd Hb Hc Ht fuel top intls text sc H).
Qed.

End C06_linear.
Print Assumptions C06_bounded_bytes_linear.

(* billion laughs again: Tmax = 3 ("lol"), W = 13: at most 3 + 101 x (3 + 104) = 10810 bytes (the run: 276) *)
Example C06_example_linear_laughs :
  forall fuel toks sc,
    write_pattern true ex_call None None ex_rules_one ex_id ex_id ex_id f64_from_str_exact (Bundle laughs false) None
      fuel (Some (PKey false (s "lol3") None)) (Pattern (repeat (ref "lol2") 10)) [] = Done (toks, sc) ->
    length (flatten toks) <= 3 + (N.to_nat MAX_PLACEABLES + 1) * (3 + 8 * (5 + Nat.max 0 5 + 3)).
Proof.
  intros fuel toks sc H.
  refine (proj1 (C06_bounded_bytes_linear true ex_call None None ex_rules_one ex_id ex_id ex_id f64_from_str_exact
                   (Bundle laughs false) None (Some (PKey false (s "lol3") None)) (Pattern (repeat (ref "lol2") 10)) []
                   4 0 5 0%N 3 _ _ _ _ _ _) fuel toks sc H).
  - vm_compute. reflexivity.
  - apply Nat.leb_le. vm_compute. reflexivity.
  - apply Nat.leb_le. vm_compute. reflexivity.
  - exact (ex_external_bounded 4).
  - apply N.leb_le. vm_compute. reflexivity.
  - apply Nat.leb_le. vm_compute. reflexivity.
Qed.

(* the mixed bundle: Tmax = 3, W = 21: at most 3 + 101 x (3 + 168) = 17274 bytes (the run: 63) *)
Example C06_example_linear_rich :
  forall fuel toks sc,
    write_pattern true ex_call None None ex_rules_one ex_id ex_id ex_id f64_from_str_exact rich rich_args
      fuel (Some (PKey false (s "m") None)) rich_p [] = Done (toks, sc) ->
    length (flatten toks) <= 3 + (N.to_nat MAX_PLACEABLES + 1) * (3 + 8 * (9 + Nat.max 3 9 + 3)).
Proof.
  intros fuel toks sc H.
  refine (proj1 (C06_bounded_bytes_linear true ex_call None None ex_rules_one ex_id ex_id ex_id f64_from_str_exact
                   rich rich_args (Some (PKey false (s "m") None)) rich_p []
                   8 3 9 3%N 3 _ _ _ _ _ _) fuel toks sc H).
  - vm_compute. reflexivity.
  - apply Nat.leb_le. vm_compute. reflexivity.
  - apply Nat.leb_le. vm_compute. reflexivity.
  - exact (ex_external_bounded 8).
  - apply N.leb_le. vm_compute. reflexivity.
  - apply Nat.leb_le. vm_compute. reflexivity.
Qed.

(* ---------- ... for EVERY BUNDLE BUILT FROM PARSED RESOURCES: no premise on named arguments ---------- *)
From FluentV Require Import Bundle.ParsedBundle.
From FluentV Require Syntax.ParserModel.

(* "For every bundle built from any parsed resources ... the output is bounded by a fixed multiple of the combined
   size of resources and arguments."  C06_bounded_bytes and C06_bounded_bytes_linear carry the premise
   `named_args_ok b p = true`, which an arbitrary association of ids to patterns need not meet
   (C06_example_named_message_reference).  A bundle BUILT FROM PARSED RESOURCES meets it: here the bundle is
   `bundle_of ts funcs iso` (Bundle/ParsedBundle.v: add_resource for each tree of ts in order, then add_function for
   each name of funcs, first registration of an id wins — the construction the executable model runs, equal by
   reflexivity in Bundle/ParsedBundleAgree.v), every tree of ts is what the model parser returned for SOME byte
   string (`parse bs = Done (t, errs)`: any source, with or without errors, no hypothesis on bs), and p is a pattern
   of the bundle (the value or an attribute value of a message or term registered in it).  The parser-output shape
   theorem (Syntax/ParserShape.v parse_shape; it holds since the repair of finding D32) makes every named-argument
   value a literal (Bundle/ParsedNamedArgs.v), so the premise is discharged (ParsedBundle.built_named_args_ok), and
   `sz_pattern p <= C` follows from HC.  What remains are the measures of the inputs and their comparison with the
   four bounds: (a) strings of the resources, (b) printed arguments, (c) external code, (d) the largest
   minimumFractionDigits VALUE, which excludes exactly finding D11 (see C06_bounded_bytes). *)
Section C06_parsed.
Variable overflow_checks : bool.
Variable call_function : bytes -> list fvalue -> fargs -> fvalue.
Variable transform : option (bytes -> bytes).
Variable formatter : option (fvalue -> option bytes).
Variable rules : ntype -> rules_fn.
Variable custom_as_string : bytes -> bytes.
Variable unescape_write : bytes -> bytes.
Variable unescape_to_string : bytes -> bytes.
Variable f64_from_str : bytes -> option fval.
Variable ts : list resource.          (* the resources, in the order of the add_resource calls *)
Variable funcs : list bytes.          (* the names registered by add_function *)
Variable iso : bool.                  (* use_isolating *)
Variable args : option fargs.
Variable top : option pkey.
Variable p : pattern.
Variable intls : intl_cache.
Notation b := (bundle_of ts funcs iso).
(* every resource is an output of the parser *)
Hypothesis Hparsed : forall t, In t ts -> exists bs errs, ParserModel.parse bs = Done (t, errs).
(* p is a pattern of the bundle *)
Hypothesis Hin : In p (bundle_patterns b).
Variable Lmax Amax Fmax : nat.
Variable Kmax : N.
Hypothesis Ha : strings_max b p <= Lmax.                                (* (a) *)
Hypothesis Hb : args_size custom_as_string args <= Amax.                (* (b) *)
Hypothesis Hc : external_bounded call_function transform formatter custom_as_string unescape_write
                  unescape_to_string f64_from_str Lmax Fmax.            (* (c) *)
Hypothesis Hd : (mfd_max f64_from_str b p <= Kmax)%N.                   (* (d): excludes D11 *)

(* widest piece x number of pieces (C as in C06_bounded_partial) *)
Theorem C06_bounded_bytes_parsed :
  forall C : nat, (forall q, In q (bundle_patterns b) -> sz_pattern q <= C) ->
  let B := Nat.max Lmax (Nat.max Amax Fmax) in
  let W := B + Nat.max (N.to_nat Kmax) B + 3 in
  (forall fuel toks sc,
     write_pattern overflow_checks call_function transform formatter rules custom_as_string
       unescape_write unescape_to_string f64_from_str b args fuel top p intls = Done (toks, sc) ->
     length (flatten toks) <= W * (C + (N.to_nat MAX_PLACEABLES + 1) * (C + 8))) /\
  (forall fuel text sc,
     format_pattern overflow_checks call_function transform formatter rules custom_as_string
       unescape_write unescape_to_string f64_from_str b args fuel top p intls = Done (text, sc) ->
     length text <= W * (C + (N.to_nat MAX_PLACEABLES + 1) * (C + 8))).
Proof.
  intros C HC.
  exact (C06_bounded_bytes overflow_checks call_function transform formatter rules custom_as_string
           unescape_write unescape_to_string f64_from_str b args top p intls C HC (HC p Hin) Lmax Amax Fmax Kmax
           (built_named_args_ok ts funcs iso p Hparsed Hin) Ha Hb Hc Hd).
Qed.

(* the fixed multiple: 102 Tmax + 808 W, W <= 2 max(L, A, F) + K + 3 (Tmax as in C06_bounded_bytes_linear) *)
Theorem C06_bounded_bytes_linear_parsed :
  forall Tmax : nat, text_max transform b p <= Tmax ->
  let B := Nat.max Lmax (Nat.max Amax Fmax) in
  let W := B + Nat.max (N.to_nat Kmax) B + 3 in
  (forall fuel toks sc,
     write_pattern overflow_checks call_function transform formatter rules custom_as_string
       unescape_write unescape_to_string f64_from_str b args fuel top p intls = Done (toks, sc) ->
     length (flatten toks) <= Tmax + (N.to_nat MAX_PLACEABLES + 1) * (Tmax + 8 * W)) /\
  (forall fuel text sc,
     format_pattern overflow_checks call_function transform formatter rules custom_as_string
       unescape_write unescape_to_string f64_from_str b args fuel top p intls = Done (text, sc) ->
     length text <= Tmax + (N.to_nat MAX_PLACEABLES + 1) * (Tmax + 8 * W)).
Proof.
  intros Tmax Ht.
  exact (C06_bounded_bytes_linear overflow_checks call_function transform formatter rules custom_as_string
           unescape_write unescape_to_string f64_from_str b args top p intls Lmax Amax Fmax Kmax Tmax
           (built_named_args_ok ts funcs iso p Hparsed Hin) Ha Hb Hc Hd Ht).
Qed.

End C06_parsed.
Print Assumptions C06_bounded_bytes_parsed.
Print Assumptions C06_bounded_bytes_linear_parsed.

(* ---------- non-vacuity: FTL text -> model parser -> bundle -> bound ---------- *)
(* a term called with a named literal argument, a NUMBER call with minimumFractionDigits, message and attribute
   references *)
Definition parsed_ftl : bytes :=
  s "-t = <{ $x }>" ++ [10%N] ++
  s "hello = Hello { -t(x: ""abc"") }!" ++ [10%N] ++
  s "    .title = { NUMBER(2, minimumFractionDigits: 3) }" ++ [10%N] ++
  s "bye = Bye { hello } { hello.title }" ++ [10%N].
Definition parsed_tree : resource :=
  match ParserModel.parse parsed_ftl with Done (t, _) => t | _ => [] end.
Definition parsed_b : bundle := bundle_of [parsed_tree] [s "NUMBER"] true.
Definition parsed_p : pattern :=
  match get_entry_message parsed_b (s "bye") with Some (Some q, _) => q | _ => Pattern [] end.

(* the parser returns three entries and no error; the term call carries the named argument x: "abc" *)
Example C06_example_parsed_tree :
  ParserModel.parse parsed_ftl = Done (parsed_tree, []) /\
  map (fun e => match e with Message id _ _ _ => id | Term id _ _ _ => id | _ => [] end) parsed_tree = [s "t"; s "hello"; s "bye"] /\
  get_entry_message parsed_b (s "hello") =
    Some (Some (Pattern [TextElement (s "Hello ");
                         PlaceableElement (Inline (TermReference (s "t") None
                           (Some (CallArguments [] [NamedArgument (s "x") (StringLiteral (s "abc"))]))));
                         TextElement (s "!")]),
          [Attribute (s "title")
             (Pattern [PlaceableElement (Inline (FunctionReference (s "NUMBER")
                (CallArguments [NumberLiteral (s "2")]
                               [NamedArgument (s "minimumFractionDigits") (NumberLiteral (s "3"))])))])]).
Proof. vm_compute. repeat split. Qed.

Lemma parsed_premises :
  (forall t, In t [parsed_tree] -> exists bs errs, ParserModel.parse bs = Done (t, errs)) /\
  In parsed_p (bundle_patterns parsed_b).
Proof.
  split.
  - intros t [<- | []]. exists parsed_ftl, []. vm_compute. reflexivity.
  - vm_compute. do 3 right. left. reflexivity.
Qed.

(* the measures: L = 11 (the fallback text hello.title), K = 3, Tmax = 7 ("Hello !"), C = 4; named_args_ok is
   computed here only to show it; the theorems do not ask for it *)
Example C06_example_parsed_measures :
  (named_args_ok parsed_b parsed_p, strings_max parsed_b parsed_p, mfd_max f64_from_str_exact parsed_b parsed_p,
   text_max None parsed_b parsed_p, list_max (map sz_pattern (bundle_patterns parsed_b)))
  = (true, 11, 3%N, 7, 4).
Proof. vm_compute. reflexivity. Qed.

(* W = 12 + 12 + 3: at most 27 x 1216 = 32832 bytes, for every fuel *)
Example C06_example_parsed_bytes :
  forall fuel toks sc,
    write_pattern true ex_call None None ex_rules_one ex_id ex_id ex_id f64_from_str_exact parsed_b None
      fuel (Some (PKey false (s "bye") None)) parsed_p [] = Done (toks, sc) ->
    length (flatten toks) <= (12 + Nat.max 3 12 + 3) * (4 + (N.to_nat MAX_PLACEABLES + 1) * (4 + 8)).
Proof.
  intros fuel toks sc H.
  refine (proj1 (C06_bounded_bytes_parsed true ex_call None None ex_rules_one ex_id ex_id ex_id f64_from_str_exact
                   [parsed_tree] [s "NUMBER"] true None (Some (PKey false (s "bye") None)) parsed_p []
                   (proj1 parsed_premises) (proj2 parsed_premises) 11 0 12 3%N _ _ _ _ 4 _) fuel toks sc H).
  - apply Nat.leb_le. vm_compute. reflexivity.
  - apply Nat.leb_le. vm_compute. reflexivity.
  - exact (ex_external_bounded 11).
  - apply N.leb_le. vm_compute. reflexivity.
  - apply sz_bound_check. vm_compute. reflexivity.
Qed.

(* the fixed multiple: at most 7 + 101 x (7 + 216) = 22530 bytes *)
Example C06_example_parsed_linear :
  forall fuel toks sc,
    write_pattern true ex_call None None ex_rules_one ex_id ex_id ex_id f64_from_str_exact parsed_b None
      fuel (Some (PKey false (s "bye") None)) parsed_p [] = Done (toks, sc) ->
    length (flatten toks) <= 7 + (N.to_nat MAX_PLACEABLES + 1) * (7 + 8 * (12 + Nat.max 3 12 + 3)).
Proof.
  intros fuel toks sc H.
  refine (proj1 (C06_bounded_bytes_linear_parsed true ex_call None None ex_rules_one ex_id ex_id ex_id f64_from_str_exact
                   [parsed_tree] [s "NUMBER"] true None (Some (PKey false (s "bye") None)) parsed_p []
                   (proj1 parsed_premises) (proj2 parsed_premises) 11 0 12 3%N _ _ _ _ 7 _) fuel toks sc H).
  - apply Nat.leb_le. vm_compute. reflexivity.
  - apply Nat.leb_le. vm_compute. reflexivity.
  - exact (ex_external_bounded 11).
  - apply N.leb_le. vm_compute. reflexivity.
  - apply Nat.leb_le. vm_compute. reflexivity.
Qed.

(* ... and the call returns: "Bye Hello <(FSI)abc(PDI)>! 2.000", 10 pieces, 28 bytes, no error *)
Example C06_example_parsed_run :
  match write_pattern true ex_call None None ex_rules_one ex_id ex_id ex_id f64_from_str_exact parsed_b None
          (fuel_of parsed_b parsed_p) (Some (PKey false (s "bye") None)) parsed_p [] with
  | Done (t, sc) => Some (length t, length (flatten t), sc_errors sc)
  | _ => None
  end = Some (10, 28, []).
Proof. vm_compute. reflexivity. Qed.

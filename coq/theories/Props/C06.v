(* Props/C06.v — Formatting is total and bounded.  Statements only; proofs are in
   Bundle/ResolverTotal.v, Bundle/ResolverBounds.v and Bundle/NumberProofs.v.

   The model (Bundle/ResolverModel.v) is quantified over: the build profile (`overflow_checks`),
   the registered functions, the text transform, the value formatter, the CLDR rules, the printing
   of custom types, the two unescape functions, std's float parser, the bundle (any association
   of ids to message / term / function entries = any set of parsed resources), the caller's
   arguments, the pattern that is formatted and the memoizer content at the time of the call.

   Hypotheses `values_are_f64` (three of them): the exact-decimal numbers of the model stand for
   f64 values, i.e. what std's parser returns, what registered functions return and what the
   caller passes is in the range of an f64 (NumberProofs.v fval_in_f64_range).  In Rust these are
   facts about the type f64; without them the model's `PluralOperands::try_from(f64).expect(..)`
   can fail on "numbers" no f64 can hold.                                                     *)
From FluentV Require Import Base.Bytes Base.Outcome Syntax.Ast Bundle.Args Bundle.Number Bundle.NumberProofs
  Bundle.ResolverAst Bundle.ResolverModel Bundle.ResolverTotal Gen.Extracted.

Section C06.
Variable overflow_checks : bool.
Variable call_function : bytes -> list fvalue -> fargs -> fvalue.
Variable transform : option (bytes -> bytes).
Variable formatter : option (fvalue -> option bytes).
Variable rules : ntype -> rules_fn.
Variable custom_as_string : bytes -> bytes.
Variable unescape_write : bytes -> bytes.
Variable unescape_to_string : bytes -> bytes.
Variable f64_from_str : bytes -> option fval.
Variable b : bundle.
Variable args : option fargs.
Variable top : option pkey.       (* which pattern object of the bundle p is (None: not one of them) *)
Variable p : pattern.
Variable intls : intl_cache.

Definition values_are_f64 : Prop :=
  (forall s v, f64_from_str s = Some v -> fval_in_f64_range v) /\
  (forall name pos named, value_ok (call_function name pos named)) /\
  oargs_ok args.

Notation format := (format_pattern overflow_checks call_function transform formatter rules custom_as_string
                      unescape_write unescape_to_string f64_from_str b args).
Notation write := (write_pattern overflow_checks call_function transform formatter rules custom_as_string
                     unescape_write unescape_to_string f64_from_str b args).

(* "formatting returns a string: it never panics, aborts or fails to terminate": with the explicit
   fuel `fuel_of b p` = 1 + depth of p + (number of patterns in the bundle) x (deepest pattern + 2),
   both entry points return Done — not Panic (unreachable!/expect/unwrap/u8 overflow), not
   OutOfFuel — for self-referential, cyclic and exponentially expanding bundles alike. *)
Theorem C06_total :
  values_are_f64 ->
  (exists text sc, format (fuel_of b p) top p intls = Done (text, sc)) /\
  (exists toks sc, write (fuel_of b p) top p intls = Done (toks, sc)).
Proof.
  intros (H1 & H2 & H3). split.
  - destruct (format_pattern_total overflow_checks call_function transform formatter rules custom_as_string
                unescape_write unescape_to_string f64_from_str b args H1 H2 H3 top p intls) as (t & sc & E & _); eauto.
  - destruct (write_pattern_total overflow_checks call_function transform formatter rules custom_as_string
                unescape_write unescape_to_string f64_from_str b args H1 H2 H3 top p intls) as (t & sc & E & _); eauto.
Qed.

(* "At most 100 placeables are resolved per call": the counter ends at most at MAX_PLACEABLES + 1
   (the increment that trips the guard), and that fits the u8 — in a debug build (overflow_checks
   = true) an overflow would be a Panic, which C06_total excludes. *)
Theorem C06_budget :
  values_are_f64 ->
  (MAX_PLACEABLES + 1 < 2 ^ PLACEABLES_BITS)%N /\
  (forall text sc, format (fuel_of b p) top p intls = Done (text, sc) -> (sc_placeables sc <= MAX_PLACEABLES + 1)%N) /\
  (forall toks sc, write (fuel_of b p) top p intls = Done (toks, sc) -> (sc_placeables sc <= MAX_PLACEABLES + 1)%N).
Proof.
  intros (H1 & H2 & H3). split; [apply max_placeables_fits|]. split.
  - intros text sc E.
    destruct (format_pattern_total overflow_checks call_function transform formatter rules custom_as_string
                unescape_write unescape_to_string f64_from_str b args H1 H2 H3 top p intls) as (t & sc' & E' & P).
    rewrite E in E'. injection E' as <- <-. eapply Post_new_budget, P.
  - intros toks sc E.
    destruct (write_pattern_total overflow_checks call_function transform formatter rules custom_as_string
                unescape_write unescape_to_string f64_from_str b args H1 H2 H3 top p intls) as (t & sc' & E' & P).
    rewrite E in E'. injection E' as <- <-. eapply Post_new_budget, P.
Qed.

(* "exceeding the limit … is reported as an error": if the counter reached MAX_PLACEABLES + 1 (or
   the dirty flag is set) TooManyPlaceables is in the error list. *)
Theorem C06_limit_error :
  values_are_f64 ->
  (forall text sc, format (fuel_of b p) top p intls = Done (text, sc) ->
     (sc_placeables sc = MAX_PLACEABLES + 1)%N \/ sc_dirty sc = true -> In TooManyPlaceables (sc_errors sc)) /\
  (forall toks sc, write (fuel_of b p) top p intls = Done (toks, sc) ->
     (sc_placeables sc = MAX_PLACEABLES + 1)%N \/ sc_dirty sc = true -> In TooManyPlaceables (sc_errors sc)).
Proof.
  intros (H1 & H2 & H3). split.
  - intros text sc E.
    destruct (format_pattern_total overflow_checks call_function transform formatter rules custom_as_string
                unescape_write unescape_to_string f64_from_str b args H1 H2 H3 top p intls) as (t & sc' & E' & P).
    rewrite E in E'. injection E' as <- <-. eapply Post_new_limit, P.
  - intros toks sc E.
    destruct (write_pattern_total overflow_checks call_function transform formatter rules custom_as_string
                unescape_write unescape_to_string f64_from_str b args H1 H2 H3 top p intls) as (t & sc' & E' & P).
    rewrite E in E'. injection E' as <- <-. eapply Post_new_limit, P.
Qed.

(* "… or meeting a cycle is reported as an error": Scope::track on a pattern that is already being
   resolved (the same object of the bundle, identified by its key, is on `travelled`) does not enter it; it prints the reference
   in braces and reports Cyclic.  (Errors are only ever appended: Ctl.ctl_errs.) *)
Theorem C06_cycle_error :
  forall fuel k q exp sc,
    key_mem k (sc_travelled sc) = true ->
    track overflow_checks call_function transform formatter rules custom_as_string unescape_write
      unescape_to_string f64_from_str b args (S fuel) k q exp sc =
    Done (braced (inline_write_error exp), add_error sc Cyclic).
Proof. intros. now apply track_cyclic. Qed.

End C06.

(* "extreme numeric arguments": the plural-operands conversion never reaches its `expect`, for
   every value in the range of an f64 and EVERY minimum_fraction_digits (the 10^k arithmetic is
   checked and saturates). *)
Theorem C06_operands_total :
  forall n : fnumber, fval_in_f64_range (n_value n) -> exists ops, fnumber_operands n = Done ops.
Proof. exact fnumber_operands_total. Qed.

(* The float parser the extracted model is run with (Number.v f64_from_str_exact, exact decimals)
   meets the first `values_are_f64` hypothesis on every literal of at most 19 bytes (a sufficient,
   not a necessary bound: what matters is that the integer and the fraction part each fit a u64;
   literals beyond 15 significant digits are outside the model's validity anyway, class D15). *)
Theorem C06_exact_parser_in_range :
  forall s v, f64_from_str_exact s = Some v -> length s <= 19 -> fval_in_f64_range v.
Proof. exact f64_from_str_exact_in_range. Qed.

(* ---------- non-vacuity: the model on the classical attacks and on the historical witnesses ---------- *)
Definition ex_call (_ : bytes) (_ : list fvalue) (_ : fargs) : fvalue := VError.
Definition ex_rules_one (_ : ntype) (_ : operands) : pcat := ONE.
Definition ex_id (x : bytes) : bytes := x.
Definition s (x : string) : bytes := bytes_of_string x.
Definition ref (id : string) := PlaceableElement (Inline (MessageReference (s id) None)).
Definition lit := PlaceableElement (Inline (StringLiteral (s "a"))).
Definition ex_run (m : list (bytes * bentry)) (top : option pkey) (p : pattern) :=
  match format_pattern true ex_call None None ex_rules_one ex_id ex_id ex_id f64_from_str_exact (Bundle m false) None
          (fuel_of (Bundle m false) p) top p [] with
  | Done (t, sc) => Some (length t, sc_errors sc, sc_placeables sc, sc_dirty sc)
  | _ => None
  end.

(* billion laughs, arity 10, depth 3 (1110 placeables if unbounded): stops at the 101st, 276 bytes *)
Definition laughs : list (bytes * bentry) :=
  [(s "lol0", EMessage (Some (Pattern [TextElement (s "lol")])) []);
   (s "lol1", EMessage (Some (Pattern (repeat (ref "lol0") 10))) []);
   (s "lol2", EMessage (Some (Pattern (repeat (ref "lol1") 10))) []);
   (s "lol3", EMessage (Some (Pattern (repeat (ref "lol2") 10))) [])].
Example C06_example_laughs :
  ex_run laughs (Some (PKey false (s "lol3") None)) (Pattern (repeat (ref "lol2") 10)) = Some (276, [TooManyPlaceables], 101%N, true).
Proof. vm_compute. reflexivity. Qed.

(* a = { b }, b = { a } *)
Example C06_example_cycle :
  ex_run [(s "a", EMessage (Some (Pattern [ref "b"])) []); (s "b", EMessage (Some (Pattern [ref "a"])) [])]
         (Some (PKey false (s "a") None))
         (Pattern [ref "b"]) = Some (3, [Cyclic], 2%N, false).
Proof. vm_compute. reflexivity. Qed.

(* D9 (fixed by 644bc0e): the limit trips inside `{ 1 -> [one] {m7} *[other] y }` and inside `{ { m7 } }` *)
Definition m7 := [(s "m7", EMessage (Some (Pattern [lit; lit; lit])) [])].
Example C06_example_limit_in_variant :
  ex_run m7 None (Pattern (repeat lit 99 ++
               [PlaceableElement (Select (NumberLiteral (s "1"))
                  [Variant (KeyIdentifier (s "one")) (Pattern [ref "m7"]) false;
                   Variant (KeyIdentifier (s "other")) (Pattern [TextElement (s "y")]) true])]))
  = Some (102, [TooManyPlaceables], 101%N, true).
Proof. vm_compute. reflexivity. Qed.
Example C06_example_limit_in_nested_placeable :
  ex_run m7 None (Pattern (repeat lit 99 ++ [PlaceableElement (Inline (Placeable (Inline (Placeable (Inline (MessageReference (s "m7") None))))))]))
  = Some (103, [TooManyPlaceables], 101%N, true).
Proof. vm_compute. reflexivity. Qed.

(* D10 (fixed by 1bd1445): 20 and more visible fraction digits saturate instead of overflowing *)
Example C06_example_operands_25_digits :
  fnumber_operands (FNum (FDec false (s "1") (s "5")) (NOptions Cardinal StyleDecimal None CurSymbol true None (Some 25%N) None None None))
  = Done (Operands (FDec false (s "1") (s "5")) 1 25 1 u64_max 5).
Proof. vm_compute. reflexivity. Qed.

(* ---------- bounded work ---------- *)
From FluentV Require Import Bundle.ResolverBounds.

Section C06_bounds.
Variable overflow_checks : bool.
Variable call_function : bytes -> list fvalue -> fargs -> fvalue.
Variable transform : option (bytes -> bytes).
Variable formatter : option (fvalue -> option bytes).
Variable rules : ntype -> rules_fn.
Variable custom_as_string : bytes -> bytes.
Variable unescape_write : bytes -> bytes.
Variable unescape_to_string : bytes -> bytes.
Variable f64_from_str : bytes -> option fval.
Variable b : bundle.
Variable args : option fargs.
Variable top : option pkey.       (* which pattern object of the bundle p is (None: not one of them) *)
Variable p : pattern.
Variable intls : intl_cache.
(* C = a bound on the number of elements of any pattern and on the number of function-call sites of
   any one placeable expression, over p, the bundle's patterns and the variant patterns inside
   them (ResolverBounds.v sz_pattern); C <= size of the resources *)
Variable C : nat.
Hypothesis HC : forall q, In q (bundle_patterns b) -> sz_pattern q <= C.
Hypothesis Hp : sz_pattern p <= C.

(* "invocation count of a registered function": at most (MAX_PLACEABLES + 1) x C invocations per call,
   through either entry point, for every fuel (i.e. whenever the call returns) *)
Theorem C06_calls_bounded :
  (forall fuel text sc,
     format_pattern overflow_checks call_function transform formatter rules custom_as_string
       unescape_write unescape_to_string f64_from_str b args fuel top p intls = Done (text, sc) ->
     length (sc_calls sc) <= (N.to_nat MAX_PLACEABLES + 1) * C) /\
  (forall fuel toks sc,
     write_pattern overflow_checks call_function transform formatter rules custom_as_string
       unescape_write unescape_to_string f64_from_str b args fuel top p intls = Done (toks, sc) ->
     length (sc_calls sc) <= (N.to_nat MAX_PLACEABLES + 1) * C).
Proof.
  split.
  - intros fuel text sc H. eapply format_pattern_bounds; eassumption.
  - intros fuel toks sc H. eapply write_pattern_bounds; eassumption.
Qed.

(* "the output is bounded by a fixed multiple of the combined size of resources and arguments".
   PARTIAL: what is proved is a bound on the NUMBER of pieces written — text elements, printed
   values, `{reference}` fallbacks, isolation marks — : at most C + (MAX_PLACEABLES + 1) x (C + 8).
   A bound in bytes would need a bound on every piece; one kind of piece has none in the code:
   a number prints with `minimum_fraction_digits` zeros, and NUMBER(1, minimumFractionDigits:
   99999999999) makes FluentNumber::as_string ask for ~10^11 bytes (finding D11).  Not proved
   here either: that text elements, argument strings and function results are each bounded by
   the input size (true by construction for the first two; a hypothesis on user functions). *)
Theorem C06_bounded_partial :
  forall fuel toks sc,
    write_pattern overflow_checks call_function transform formatter rules custom_as_string
      unescape_write unescape_to_string f64_from_str b args fuel top p intls = Done (toks, sc) ->
    length toks <= C + (N.to_nat MAX_PLACEABLES + 1) * (C + 8).
Proof. intros fuel toks sc H. eapply write_pattern_bounds; eassumption. Qed.

(* PARTIAL (bytes): if every piece that was written — a (transformed) text element, a printed value,
   a part of a `{reference}` fallback, an isolation mark — has at most W bytes, the text has at most
   W x (C + (MAX_PLACEABLES + 1) x (C + 8)) bytes.  The hypothesis is on the pieces of THIS output,
   not yet on the inputs: deriving W from "every argument string / function result / formatter
   output <= F bytes, every minimum_fraction_digits <= K, transform lengthens by at most a factor
   T" needs one more invariant over all values in flight (in particular strings resolved from
   patterns in call-argument position can be printed again through term parameters) and was not
   attempted.  Without a bound on minimum_fraction_digits no W exists (D11). *)
Theorem C06_bounded_bytes_partial :
  forall W fuel toks sc,
    write_pattern overflow_checks call_function transform formatter rules custom_as_string
      unescape_write unescape_to_string f64_from_str b args fuel top p intls = Done (toks, sc) ->
    Forall (fun t => length (token_bytes t) <= W) toks ->
    length (flatten toks) <= W * (C + (N.to_nat MAX_PLACEABLES + 1) * (C + 8)).
Proof.
  intros W fuel toks sc H HW.
  pose proof (C06_bounded_partial fuel toks sc H) as Hn.
  pose proof (flatten_length_le W toks HW) as Hb.
  assert (W * length toks <= W * (C + (N.to_nat MAX_PLACEABLES + 1) * (C + 8))) by (apply Nat.mul_le_mono_l; exact Hn).
  eapply Nat.le_trans; eassumption.
Qed.

End C06_bounds.

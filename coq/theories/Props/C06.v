(* Props/C06.v — placeholder while the proofs are being written (replaced below). *)
From FluentV Require Import Gen.Extracted.
From Coq Require Import NArith.
Theorem C06_budget_const : (MAX_PLACEABLES + 1 < 2 ^ PLACEABLES_BITS)%N.
Proof. reflexivity. Qed.

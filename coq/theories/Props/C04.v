(* Props/C04.v — Serializer round trip: serialize then parse gives the same tree; the serializer
   output is a fixed point.  Only statements here; proofs are in Syntax/SerializerProofs.v and, for the
   fragments, in Syntax/RoundTrip.v + SerializerRoundTrip.v (one-line patterns) and Syntax/RoundTripML.v +
   EntryLoop.v + SerializerLoop.v + SerializerML.v (multi-line patterns) + RoundTripSel.v + SerializerSel.v (select
   expressions and nested placeables) + CallArgs.v + SerializerCalls.v (call arguments) + ArgsNest.v + RoundTripNest.v +
   SerializerNest.v (nested call arguments) + WfComplete.v (every well-formed tree is in a fragment).

   PROVED IN FULL, for ALL trees (not only parser outputs), about Syntax/SerializerModel.v:
     C04_serialize_total          serialize_with_options never panics / always returns
     C04_indent_balanced          every serialize_xxx writer action returns and restores indent_level
     C04_output_extends           ... and only appends to the buffer
     C04_write_char_into_indent_line_start / _elsewhere / _general
                                  the one action that does not only append replaces exactly one character
     C04_junk_verbatim, C04_junk_skipped     Junk is written byte for byte / not at all (the D6 repair)
     C04_comment_lines            the exact text serialize_comment writes
     C04_final_indent_zero        a run of the serializer ends at the indent level it started with
   PROVED FOR ALL PARSER OUTPUTS (no hypothesis on the input bs):
     C04_parser_output_shape      the shape of every tree the parser returns (Syntax/ParserShape.v, over the Hoare
                                  rules of ParserAccounting.v): every pattern, at every nesting depth, has at least
                                  one element; no text element is empty or contains '{' '}'; a line feed occurs in
                                  a text element only as its last byte; a final text element does not end in space,
                                  CR or LF; the expression of a placeable is not a term attribute; every select
                                  has exactly one default variant and a selector of an admissible kind;
                                  the value of every named argument is a string literal or a number literal
                                  (since the repair of D32; shape_named), and the names of the named
                                  arguments of a call are pairwise distinct
     C04_parser_output_identifiers   every identifier of a parser output (of messages, terms, attributes, references,
                                  attribute accessors, identifier keys, named arguments) is a well-formed
                                  identifier, every callee satisfies is_callee, and every number literal (as an
                                  expression, as a variant key) is a well-formed number: an optional '-', digits,
                                  optionally '.' and digits, and every string literal a well-formed quoted text
                                  (no '"', no line feed, a backslash only in \\ \" \{ \uXXXX \UXXXXXX)
                                  (Syntax/ParserLex.v)
     C04_parser_output_utf8       if the input is a Rust str (utf8_valid bs), every string of the tree the parser returns
                                  is valid UTF-8 (Syntax/ParserUtf8.v: every string is a slice of the source between
                                  character boundaries, a final text element trimmed of ASCII white space)
   PROVED FOR EVERY PARSER OUTPUT WHOSE JOINED TREE IS WELL-FORMED, both serializer options:
     C04_roundtrip_str_inputs_partial   for every Rust str bs (utf8_valid bs = true) and every tree t with
                                  parse bs = Done (t, errs) such that map join_entry t satisfies Render.wf_resource:
                                  round trip and fixed point (the UTF-8 premise of the next theorem is discharged
                                  by C04_parser_output_utf8)
     C04_roundtrip_parser_outputs_partial   for every bs and every tree t with parse bs = Done (t, errs) such that
                                  map join_entry t (adjacent text elements joined) satisfies Render.wf_resource and
                                  WfUtf8.wf_utf8_resource: round trip (no errors, same normal form) and fixed
                                  point.  (Syntax/ParserBridge.v: the shape theorem gives the split-tree half of
                                  snest_resource, WfComplete the joined-tree half.)  The premise is the executable
                                  boolean Coverage.c04_covered t (C04_roundtrip_covered_partial), so
                                  the remaining gap of C04 is explicit: parser outputs whose joined tree is not
                                  well-formed in the sense of Render.v -- Junk, a zero-line comment (D7), a lone
                                  CR in text or in a comment, the leading spaces of D30 (a lone-CR case as well).
                                  For ERROR-FREE sources without a lone CR the gap is closed but for D7:
                                  C04_roundtrip_errorfree_crlf_partial below.  (A blank line inside a
                                  pattern with spaces beyond the common indentation was such a case until the
                                  repair of finding D33: C04_example_spaces_on_blank_line.)
                                  COVERED since Render.wf_value has the block-form rule (wf_pattern_lines_top): a
                                  value (of a message, a term, an attribute or a VARIANT) all of whose
                                  continuation lines are indented deeper than its first line
                                  (C04_example_block_only_value, C04_example_block_only_variants; sources in
                                  block form), and a value whose FIRST line is indented deeper than a later line
                                  (C04_example_first_line_indented: reference fixture multiline_values.ftl, key10)
   PROVED FOR EVERY ERROR-FREE PARSER OUTPUT (parse bs = Done (t, [])) WITHOUT CR IN ITS TEXTS (Syntax/ParserWf.v):
     C04_parser_output_content    the CONTENT half of the premise: every entry, joined, satisfies Render.wf_entry
                                  without the line rules and the comments (ParserWf.wf_entry_content: non-empty
                                  patterns, text bytes, identifiers, callees, number and string literals, call
                                  arguments with literal named values and distinct names, select expressions with
                                  one default and an admissible selector, no term attribute as placeable, a
                                  message without value has attributes; no Junk).  nocr_resource t is executable.
     C04_roundtrip_errorfree_partial   so the round trip and the fixed point hold for every Rust str bs whose parse is
                                  error-free and CR-free as soon as the LINE rules of the joined patterns and the
                                  comments are well-formed (ParserWf.lines_and_comments_ok, executable: Render's
                                  wf_pattern_lines_top on every pattern, wf_comment on every comment): the remaining
                                  gap of C04 for error-free inputs is exactly that
   PROVED FOR EVERY PARSER OUTPUT OF A SOURCE IN WHICH EVERY CR IS FOLLOWED BY LF (ParserLines.no_lone_cr bs, executable:
   CR LF line ends are allowed, a lone CR is not; nocr bs, no byte 13 at all, is the special case and the theorems
   without _crlf in their names are the corollaries for it; Syntax/ParserLines.v, Syntax/ParserWf.v):
     C04_parser_output_lines_crlf, C04_parser_output_lines      the LINE half of the premise: every pattern of the tree (values of messages, terms,
                                  attributes and variants, at every depth), joined, satisfies Render.lines_ok_pattern,
                                  i.e. wf_pattern_lines_top: first line not blank, last line not blank and without
                                  trailing space, continuation lines not starting with . [ * and blank lines empty,
                                  and the indentation rule (common indentation 0 / block-form rules).  By a new
                                  invariant of the pattern loop (every placeholder described as a piece: at a line
                                  start or not, its indentation, its body, whether it ends the line; the common
                                  indent is the minimum of the counted indentations) and its finish (dedent, drop
                                  of trailing blank elements, trim of the last element).  At a CR LF line end
                                  the parser leaves the CR out and keeps the LF as an element of its own
                                  (TextElementTermination::CRLF); the invariant follows it with a state "on the LF
                                  of a CR LF whose line is still open".
     C04_parser_output_nocr_crlf, C04_parser_output_nocr      no text element of the tree holds a CR (the CR of a CR LF
                                  line end is left out, and there is no other CR)
     C04_roundtrip_errorfree_crlf_partial, C04_roundtrip_errorfree_nocr_partial
                                  THE ROUND TRIP AND THE FIXED POINT FOR EVERY ERROR-FREE PARSE OF A Rust str WITHOUT
                                  A LONE CR (LF or CR LF line ends, mixed at will), with ONE executable side
                                  condition on the tree: comments_nonempty t (every comment has at least one line:
                                  exactly not the zero-line comment of finding D7).  No premise about the shape,
                                  the content or the lines of the patterns, or about the comment lines, is left
                                  (ParserWf.parse_comment_lines_crlf: the comment lines have neither LF nor CR).
                                  NOT covered: a source with a CR that is not followed by LF (a lone CR is a legal
                                  text character; Render.v, the grammar of this framework, leaves it out:
                                  documented exclusion).  C04_example_errorfree_crlf_premises: a source with CR LF
                                  line ends that satisfies the premises.
   PROVED FOR THE PARSE OF EVERY LAYOUT OF EVERY WELL-FORMED TREE but the shape of D7, both serializer options:
     C04_roundtrip_wellformed_sources_partial   for every tree tj with Render.wf_resource tj, WfUtf8.wf_utf8_resource tj
                                  and RoundTrip.last_comment_ok tj (finding D7: if the LAST entry is a stand-alone
                                  comment, its last line is not empty) and EVERY layout cs: the tree t that the parser returns for
                                  render cs tj serializes to a text that parses back, without errors, to a tree with
                                  the same normal form, and serialising that tree gives the same text (round trip and
                                  fixed point).  So C04 holds for the parser output of every source the grammar
                                  (Render.v) produces from such a tree
     C04_roundtrip_layout_sources_partial   the same for EVERY text bs that is a layout of such a tree tj in the general
                                  sense of RoundTripNest.nest_layout (any amount of spaces and blank lines where the
                                  grammar allows them, any indentation >= 1, LF or CRLF, ...; see Props/C02.v): the
                                  parser's tree for bs round-trips through the serializer and is a fixed point
   PROVED FOR THE FRAGMENTS snest_resource d (Syntax/SerializerNest.v; d = nesting depth, any d), both options:
     C04_roundtrip_nested_partial, C04_fixpoint_nested_partial, C04_nested_output (the text:
                                  SerializerNest.snest_resource_text; as for ssel_resource below, and a positional
                                  argument may be any inline expression: a call, a term attribute, a placeable
                                  "{" expression "}" -- a select expression in it is written over several lines
                                  inside the parentheses)
     C04_nested_contains_parser_outputs   for every tree tj of RoundTripNest.nest_resource d (C02's fragment with
                                  nested call arguments, which contains every well-formed tree:
                                  C02_wellformed_in_nested) with last_comment_ok tj and EVERY layout cs, the tree
                                  the parser returns for render cs tj is in snest_resource d
     C04_multiline_in_nested      sml_resource (below) is contained in snest_resource 0
   The fragment snest_resource d: as ssel_resource d below with RoundTripNest.nest_pattern d in place of
   RoundTripSel.sel_pattern d (call arguments of any nesting), the condition on text elements also inside
   call arguments.
   PROVED FOR THE FRAGMENTS ssel_resource d (Syntax/SerializerSel.v; d = nesting depth of placeables, any d), both
   serializer options:
     C04_roundtrip_select_partial, C04_fixpoint_select_partial, C04_select_output (the text:
                                  SerializerSel.ssel_resource_text; a select expression is written as
                                  "{ " selector " ->" LF, one line per variant indented one level deeper with
                                  "*" in the last column of the indentation of the default variant, "[key]" and
                                  the value, then the closing brace on a line of its own at the pattern's
                                  indentation; a placeable around a placeable as "{{ " ... " }}"; call arguments
                                  as "(" argument ", " argument ... ")" directly behind the callee, a named
                                  argument as name ": " value, "()" when there is none),
     C04_select_contains_parser_outputs   for every tree tj of RoundTripSel.sel_resource d (C02's fragment of depth
                                  d) and EVERY layout cs, the tree the parser returns for render cs tj is in
                                  ssel_resource d
     C04_multiline_in_select      sml_resource (below) is contained in ssel_resource 0
   The fragment ssel_resource d: as sml_resource below, but the patterns join -- at every nesting level -- to a
   pattern of RoundTripSel.sel_pattern d (placeables of depth d: references, literals, function references and
   term references with CALL ARGUMENTS (positional: references without arguments and literals; named: literals),
   placeables around placeables, select expressions whose selector is a string/number literal, a variable
   reference, a function reference with call arguments or a TERM ATTRIBUTE with or without call arguments, and
   whose variant values are such patterns of depth d-1; see Props/C02.v), and the text elements at every nesting
   level are non-empty with a line feed only as last byte.
   PROVED FOR THE SUB-FRAGMENT sml_resource (Syntax/SerializerML.v; depth 0), both serializer options:
     C04_roundtrip_multiline_partial   the round trip: the serializer's text parses back, without errors, to a
                                  tree of the fragment with the same normal form (adjacent text elements joined,
                                  whitespace-only comment lines emptied)
     C04_fixpoint_multiline_partial    serialising the re-parsed tree gives the same text
     C04_multiline_output         the text itself (SerializerML.sml_resource_text: as for the one-line fragment,
                                  and a value with a line break starts on a new line unless its first byte is
                                  one of . [ * ; every line after a line break is written as LF, 4 spaces (8 in
                                  an attribute) and the line, also when the line is empty)
     C04_multiline_contains_parser_outputs   for every tree tj of RoundTripML.ml_resource RoundTripSel.eoks (the
                                  multi-line fragment of C02, depth 0, WITHOUT call arguments) and EVERY layout
                                  cs of it, the tree the parser returns for render cs tj is in the fragment (and
                                  joins to tj): the fragment is what the parser produces from these sources
     C04_simple_in_multiline      the one-line fragment below is a sub-fragment
   The fragment sml_resource (and ssel_resource d, snest_resource d above): the entries are as in simple_resource
   below (stand-alone comments, messages and terms with or without attached comment, attributes; in these three
   fragments a comment may END in an empty or whitespace-only line, the one-line fragment excludes that), but the value of a message, term or attribute is a
   pattern as the parser returns it for a multi-line value: a list of text elements and placeables with a
   simple inline expression such that
     - no text element is empty, and a line feed occurs in a text element only as its last byte
       (one text element per line; a blank line inside the value is the text element "LF"; the indentation of
       a line beyond the common one is part of its text element, or a text element of its own in front of a
       placeable), and
     - the elements joined (adjacent text elements concatenated) form a pattern of RoundTripML.wl_pattern eoks
       (placeables hold a simple inline expression: a reference without call arguments or a literal; call
       arguments, select expressions and nested placeables are in ssel_resource above)
       (see Props/C02.v: lines free of '{' '}' CR, continuation lines not starting with . [ *, blank lines
       inside empty, no leading/trailing space or line break; common indentation 0, or all continuation lines
       indented and a first byte that may start a block line -- the serializer writes a value with several
       lines in block form whenever its first byte allows it).
   PROVED FOR THE SUB-FRAGMENT simple_resource (Syntax/RoundTrip.v: stand-alone comments of all three levels;
   messages and terms with or without attached comment whose value and attribute values are one-line patterns
   made of text and placeables with a reference (no call arguments) or a literal; messages with attributes
   only; see Props/C02.v for the exact definition and what it excludes), both serializer options:
     C04_roundtrip_simple_partial the round trip: the serializer's text parses back, without errors, to the tree
                                  with its whitespace-only comment lines emptied (otherwise the SAME tree)
     C04_fixpoint_simple_partial  serialising the re-parsed tree gives the same text
     C04_simple_output            the text itself (one line per message/term/attribute/comment line, blank lines
                                  around stand-alone comments)
     C04_simple_are_parser_outputs   every tree of the fragment is a parser output (so the two theorems above
                                  are not vacuous as statements about "trees the parser can produce")
   STATED ONLY (Definitions, Prop-valued):
     C04_roundtrip_statement, C04_fixpoint_statement      the property over all parser outputs
   and, as the code stands, both are FALSE: the recorded finding D7 (a lone '#' as last line) is a
   counterexample, proved here (D21, a lone CR as only content of a pattern's last line, was a second one
   until it was fixed in the repository and in the model):
     C04_roundtrip_statement_refuted_by_D7, C04_fixpoint_statement_refuted_by_D7
   Examples (vm_compute): C04_example_xxx — round trip and fixed point on concrete inputs.          *)
From FluentV Require Import Base.Bytes Base.Outcome Base.Utf8 Syntax.Ast.
From FluentV Require Import Syntax.ParserModel Syntax.SerializerModel Syntax.SerializerProofs Syntax.TreeNorm.
From FluentV Require Import Syntax.Render Syntax.RoundTrip Syntax.SerializerRoundTrip.
From FluentV Require Import Syntax.EntryLoop Syntax.RoundTripML Syntax.RoundTripSel Syntax.SerializerML Syntax.SerializerSel.
From FluentV Require Import Syntax.WfUtf8 Syntax.RoundTripNest Syntax.WfComplete Syntax.SerializerNest.
From FluentV Require Import Syntax.ParserShape Syntax.ParserLex Syntax.ParserUtf8 Syntax.ParserBridge Syntax.Coverage Syntax.ParserLines Syntax.ParserWf.

(* ---- "serialising ... yields" : the serializer returns for every tree ---- *)
Theorem C04_serialize_total :
  forall with_junk (t : resource), exists s, serialize_with_options with_junk t = Done s.
Proof. exact serialize_total. Qed.

(* ---- the lemma behind totality: indent / dedent are balanced, so dedent never underflows ---- *)
Definition returns_with_same_indent (a : W) : Prop :=
  forall x, exists x', a x = Done x' /\ indent_level x' = indent_level x.

Theorem C04_indent_balanced :
  (forall p, returns_with_same_indent (serialize_pattern p)) /\
  (forall e, returns_with_same_indent (serialize_expression e)) /\
  (forall i, returns_with_same_indent (serialize_inline_expression i)) /\
  (forall el, returns_with_same_indent (serialize_element el)) /\
  (forall a, returns_with_same_indent (serialize_call_arguments a)) /\
  (* a variant: the default marker '*' is written INTO the indentation, so a default variant needs
     the position a select expression gives it: at a line start, inside at least one indent *)
  (forall k p d x, (d = false \/ (ends_with 10 x = true /\ indent_level x <> 0)) ->
     exists x', serialize_variant (Variant k p d) x = Done x' /\ indent_level x' = indent_level x) /\
  (forall with_junk st e, exists st',
     serialize_entry with_junk st e = Done st' /\ indent_level (w st') = indent_level (w st)) /\
  (forall with_junk st body, exists st',
     serialize_resource with_junk st body = Done st' /\ indent_level (w st') = indent_level (w st)).
Proof.
  assert (B : forall a, balanced a -> returns_with_same_indent a).
  { intros a Ha x. destruct (Ha x) as [x' [E [L _]]]. exists x'. split; assumption. }
  repeat split.
  - intros p. apply B, ser_pattern_balanced.
  - intros e. apply B, ser_expression_balanced.
  - intros i. apply B, ser_inline_balanced.
  - intros el. apply B, ser_element_balanced.
  - intros a. apply B, ser_call_arguments_balanced.
  - intros k p d x H. destruct (ser_variant_ok (Variant k p d) x H) as [x' [E [L _]]].
    exists x'. split; assumption.
  - intros wj st e. destruct (serialize_entry_ok wj st e) as [st' [E [L _]]]. exists st'. split; assumption.
  - intros wj st body. destruct (serialize_resource_ok wj body st) as [st' [E [L _]]].
    exists st'. split; assumption.
Qed.

(* ---- the buffer only grows: the input buffer is a suffix of the (reversed) output buffer ---- *)
Definition only_appends (a : W) : Prop :=
  forall x x', a x = Done x' -> exists added, rbuf x' = added ++ rbuf x.

Theorem C04_output_extends :
  (forall item, only_appends (write_literal item)) /\
  only_appends newline /\
  (forall p, only_appends (serialize_pattern p)) /\
  (forall e, only_appends (serialize_expression e)) /\
  (forall i, only_appends (serialize_inline_expression i)) /\
  (forall el, only_appends (serialize_element el)) /\
  (forall a, only_appends (serialize_call_arguments a)) /\
  (forall k p d x x', (d = false \/ (ends_with 10 x = true /\ indent_level x <> 0)) ->
     serialize_variant (Variant k p d) x = Done x' -> exists added, rbuf x' = added ++ rbuf x) /\
  (forall with_junk st e st', serialize_entry with_junk st e = Done st' ->
     exists added, rbuf (w st') = added ++ rbuf (w st)) /\
  (forall with_junk st body st', serialize_resource with_junk st body = Done st' ->
     exists added, rbuf (w st') = added ++ rbuf (w st)).
Proof.
  assert (B : forall a, balanced a -> only_appends a).
  { intros a Ha x x' E. destruct (Ha x) as [x2 [E2 [_ A]]]. rewrite E2 in E. injection E as <-. exact A. }
  repeat split.
  - intros item. apply B, balanced_write_literal.
  - apply B, balanced_newline.
  - intros p. apply B, ser_pattern_balanced.
  - intros e. apply B, ser_expression_balanced.
  - intros i. apply B, ser_inline_balanced.
  - intros el. apply B, ser_element_balanced.
  - intros a. apply B, ser_call_arguments_balanced.
  - intros k p d x x' H E. destruct (ser_variant_ok (Variant k p d) x H) as [x2 [E2 [_ A]]].
    rewrite E2 in E. injection E as <-. exact A.
  - intros wj st e st' E. destruct (serialize_entry_ok wj st e) as [st2 [E2 [_ A]]].
    rewrite E2 in E. injection E as <-. exact A.
  - intros wj st body st' E. destruct (serialize_resource_ok wj body st) as [st2 [E2 [_ A]]].
    rewrite E2 in E. injection E as <-. exact A.
Qed.

(* write_char_into_indent is the exception.  Where the serializer uses it (a default variant: at a line
   start, indent level k+1) the pending indentation is written with its last space replaced by the
   character: forward, the buffer grows by 4k+3 spaces and ch. *)
Theorem C04_write_char_into_indent_line_start : forall ch x k,
  ends_with 10 x = true -> indent_level x = S k ->
  write_char_into_indent ch x = Done (Writer (ch :: repeat 32%N (4 * k + 3) ++ rbuf x) (S k)).
Proof. exact write_char_into_indent_line_start. Qed.

(* anywhere else it REPLACES the last character (b: any one-byte character other than a line feed) *)
Theorem C04_write_char_into_indent_elsewhere : forall ch x b r,
  rbuf x = b :: r -> N.eqb b 10 = false -> is_cont b = false ->
  write_char_into_indent ch x = Done (Writer (ch :: r) (indent_level x)).
Proof. exact write_char_into_indent_elsewhere. Qed.

(* in general: String::pop after the lazy indentation, then push *)
Theorem C04_write_char_into_indent_general : forall ch x,
  write_char_into_indent ch x =
  Done (Writer (ch :: pop_char (rbuf (if ends_with 10 x then write_indent x else x))) (indent_level x)).
Proof. exact write_char_into_indent_general. Qed.

(* ---- "Junk preserved when serialising with junk, dropped otherwise" ---- *)
(* with junk, writer at a line start (where every entry starts), level 0: the content is appended verbatim *)
Theorem C04_junk_verbatim : forall st content,
  (rbuf (w st) = [] \/ exists r, rbuf (w st) = 10%N :: r) -> indent_level (w st) = 0 ->
  serialize_entry true st (Junk content) =
  Done (SState (Writer (rev content ++ rbuf (w st)) 0) false).
Proof. exact serialize_junk_verbatim. Qed.

(* without junk a Junk entry changes neither the buffer nor the serializer state *)
Theorem C04_junk_skipped : forall st content, serialize_entry false st (Junk content) = Done st.
Proof. exact serialize_junk_skipped. Qed.

(* ---- comments: per content line  prefix, then " " and the line unless it is whitespace only, then the
   line end (CR LF when the text written so far ends in CR, LF otherwise).  Forward buffer. ---- *)
Theorem C04_comment_lines : forall c prefix x,
  (rbuf x = [] \/ exists r, rbuf x = 10%N :: r) -> indent_level x = 0 ->
  exists x', serialize_comment c prefix x = Done x' /\
    rev (rbuf x') =
    rev (rbuf x) ++
    concat (map (fun l => let body := prefix ++ (if all_fluent_ws l then [] else 32%N :: l) in
                          body ++ line_end_after body) (content c)).
Proof.
  intros c prefix x Hs Hl.
  destruct (serialize_comment_lines_spec (content c) prefix x Hs Hl) as [x' [E [_ [_ W]]]].
  exists x'. split; [exact E | exact W].
Qed.

(* the serializer as a whole ends at the indent level it started with (0) *)
Theorem C04_final_indent_zero : forall with_junk t st,
  serialize_resource with_junk (SState (Writer [] 0) false) t = Done st -> indent_level (w st) = 0.
Proof. intros wj t st H. apply serialize_resource_level0 in H. exact H. Qed.

(* ---------------------------------------------------------------------------------------------- *)
(* The property itself, over all parser outputs (STATED, not proved).                               *)

(* "For every tree the parser can produce, serialising it and parsing the text again yields an equal
   tree (pattern text compared after joining adjacent text elements, whitespace-only comment lines equal
   to empty ones; Junk preserved when serialising with junk, dropped otherwise)." *)
Definition C04_roundtrip_statement : Prop :=
  forall bs t errs, utf8_valid bs = true -> parse bs = Done (t, errs) ->
  forall with_junk s, serialize_with_options with_junk t = Done s ->
  exists t2 errs2, parse s = Done (t2, errs2) /\ norm t2 = norm (drop_junk_unless with_junk t).

(* "Serialising the re-parsed tree reproduces the same text byte for byte." *)
Definition C04_fixpoint_statement : Prop :=
  forall bs t errs, utf8_valid bs = true -> parse bs = Done (t, errs) ->
  forall with_junk s, serialize_with_options with_junk t = Done s ->
  forall t2 errs2, parse s = Done (t2, errs2) -> serialize_with_options with_junk t2 = Done s.

(* As the code stands both are false.  D7: the source "#" parses to a comment with ZERO lines, which is
   serialised as a single line feed, which parses to the empty resource. *)
Theorem C04_roundtrip_statement_refuted_by_D7 : ~ C04_roundtrip_statement.
Proof.
  intros H.
  destruct (H [35%N] [CommentEntry (Comment [])] [] eq_refl eq_refl true [10%N] eq_refl)
    as [t2 [e2 [Hp Hn]]].
  vm_compute in Hp. injection Hp as <- <-. vm_compute in Hn. discriminate Hn.
Qed.

Theorem C04_fixpoint_statement_refuted_by_D7 : ~ C04_fixpoint_statement.
Proof.
  intros H.
  pose proof (H [35%N] [CommentEntry (Comment [])] [] eq_refl eq_refl true [10%N] eq_refl [] [] eq_refl) as Hs.
  vm_compute in Hs. discriminate Hs.
Qed.

(* ---------------------------------------------------------------------------------------------- *)
(* The property on the fragment simple_resource (see Props/C02.v for what the fragment excludes)     *)

Lemma simple_no_junk t with_junk : simple_resource t = true -> drop_junk_unless with_junk t = t.
Proof.
  intros Ht. destruct with_junk; [reflexivity|]. unfold drop_junk_unless.
  induction t as [|e r IH]; [reflexivity|]. cbn [simple_resource forallb] in Ht.
  apply andb_prop in Ht as [He Hr]. cbn [filter]. destruct e; try discriminate; cbn [entry_is_junk negb];
    rewrite (IH Hr); reflexivity.
Qed.

(* ---- select expressions and nested placeables (SerializerSel.ssel_resource d, any depth d) ---- *)
Theorem C04_roundtrip_select_partial :
  forall d bs t errs, parse bs = Done (t, errs) -> ssel_resource d t = true ->
  forall with_junk s, serialize_with_options with_junk t = Done s ->
  exists t2 errs2, parse s = Done (t2, errs2) /\ norm t2 = norm (drop_junk_unless with_junk t) /\
                   errs2 = [] /\ ssel_resource d t2 = true.
Proof.
  intros d bs t errs _ Ht wj s Hs.
  destruct (parse_serialize_ssel d wj t Ht) as (t2 & Es & Ep & Hn & Ht2 & _).
  rewrite Es in Hs. injection Hs as <-.
  exists t2, []. rewrite (g_no_junk (ssel_pok d) t wj Ht). repeat split; assumption.
Qed.

Theorem C04_fixpoint_select_partial :
  forall d bs t errs, parse bs = Done (t, errs) -> ssel_resource d t = true ->
  forall with_junk s, serialize_with_options with_junk t = Done s ->
  forall t2 errs2, parse s = Done (t2, errs2) -> serialize_with_options with_junk t2 = Done s.
Proof.
  intros d bs t errs _ Ht wj s Hs t2 errs2 Hp2.
  destruct (parse_serialize_ssel d wj t Ht) as (t2' & Es & Ep & _ & _ & Efix).
  rewrite Es in Hs. injection Hs as <-. rewrite Ep in Hp2. injection Hp2 as <- <-. exact Efix.
Qed.

Theorem C04_select_output :
  forall d with_junk t, ssel_resource d t = true ->
  serialize_with_options with_junk t = Done (ssel_resource_text d t).
Proof. intros d wj t Ht. destruct (parse_serialize_ssel d wj t Ht) as (t2 & Es & _). exact Es. Qed.

Theorem C04_select_contains_parser_outputs :
  forall d cs tj, sel_resource d tj = true -> last_comment_ok tj = true ->
  exists t, parse (render cs tj) = Done (t, []) /\ ssel_resource d t = true /\ map join_entry t = tj.
Proof. exact parser_outputs_ssel. Qed.

Theorem C04_multiline_in_select : forall t, sml_resource t = true -> ssel_resource 0 t = true.
Proof. exact sml_resource_ssel. Qed.

(* ---- all parser outputs: their shape; C04 when the joined tree is well-formed ---- *)
Theorem C04_parser_output_shape : forall bs t errs, parse bs = Done (t, errs) -> Forall shape_entry t.
Proof. exact parse_shape. Qed.

Theorem C04_roundtrip_parser_outputs_partial :
  forall bs t errs, parse bs = Done (t, errs) ->
  wf_resource (map join_entry t) = true -> wf_utf8_resource (map join_entry t) = true ->
  forall with_junk s, serialize_with_options with_junk t = Done s ->
  exists t2 errs2, parse s = Done (t2, errs2) /\ norm t2 = norm (drop_junk_unless with_junk t) /\ errs2 = [] /\
                   serialize_with_options with_junk t2 = Done s.
Proof.
  intros bs t errs Hp Hw Hu wj s Hs.
  destruct (parser_output_snest bs t errs Hp Hw Hu) as [d Hd].
  destruct (parse_serialize_snest d wj t Hd) as (t2 & Es & Ep & Hn & _ & Efix).
  rewrite Es in Hs. injection Hs as <-.
  exists t2, []. rewrite (g_no_junk (snest_pok d) t wj Hd). repeat split; assumption.
Qed.

Theorem C04_parser_output_identifiers : forall bs t errs, parse bs = Done (t, errs) -> Forall lex_entry t.
Proof. exact parse_lex. Qed.

Theorem C04_parser_output_utf8 :
  forall bs t errs, utf8_valid bs = true -> parse bs = Done (t, errs) -> wf_utf8_resource t = true.
Proof. exact parse_utf8. Qed.

(* for a Rust str as input the UTF-8 premise is not needed *)
Theorem C04_roundtrip_str_inputs_partial :
  forall bs t errs, utf8_valid bs = true -> parse bs = Done (t, errs) -> wf_resource (map join_entry t) = true ->
  forall with_junk s, serialize_with_options with_junk t = Done s ->
  exists t2 errs2, parse s = Done (t2, errs2) /\ norm t2 = norm (drop_junk_unless with_junk t) /\ errs2 = [] /\
                   serialize_with_options with_junk t2 = Done s.
Proof.
  intros bs t errs Hb Hp Hw. apply (C04_roundtrip_parser_outputs_partial bs t errs Hp Hw).
  apply join_utf8, (parse_utf8 bs t errs Hb Hp).
Qed.

(* the CONTENT conditions of the grammar hold for every error-free parser output whose texts have no CR: what is left
   of the premise wf_resource are the line rules of the patterns and the comments (ParserWf.lines_and_comments_ok) *)
Theorem C04_parser_output_content :
  forall bs t, parse bs = Done (t, []) -> nocr_resource t = true ->
  Forall (fun e => wf_entry_content (join_entry e) = true) t.
Proof. exact parse_wf_content. Qed.

Theorem C04_roundtrip_errorfree_partial :
  forall bs t, utf8_valid bs = true -> parse bs = Done (t, []) -> nocr_resource t = true ->
  forallb lines_and_comments_ok (map join_entry t) = true ->
  forall with_junk s, serialize_with_options with_junk t = Done s ->
  exists t2 errs2, parse s = Done (t2, errs2) /\ norm t2 = norm (drop_junk_unless with_junk t) /\ errs2 = [] /\
                   serialize_with_options with_junk t2 = Done s.
Proof.
  intros bs t Hb Hp Hn Hl. apply (C04_roundtrip_str_inputs_partial bs t [] Hb Hp). apply (parse_wf_from_lines bs t Hp Hn Hl).
Qed.

(* the LINE rules of the grammar hold for every pattern (at every depth, joined) of every parser output of a source
   without CR: Syntax/ParserLines.v *)
Theorem C04_parser_output_lines :
  forall bs t errs, nocr bs = true -> parse bs = Done (t, errs) -> Forall ln_entry t.
Proof. exact parse_lines. Qed.

(* the texts of a parser output are slices of the source: without CR in the source there is none in the texts *)
Theorem C04_parser_output_nocr :
  forall bs t errs, nocr bs = true -> parse bs = Done (t, errs) -> nocr_resource t = true.
Proof. exact parse_nocr. Qed.

(* the same three for sources with CR LF line ends: every CR is followed by LF (ParserLines.no_lone_cr, executable) *)
Theorem C04_parser_output_lines_crlf :
  forall bs t errs, no_lone_cr bs = true -> parse bs = Done (t, errs) -> Forall ln_entry t.
Proof. exact parse_lines_crlf. Qed.

Theorem C04_parser_output_nocr_crlf :
  forall bs t errs, no_lone_cr bs = true -> parse bs = Done (t, errs) -> nocr_resource t = true.
Proof. exact parse_nocr_crlf. Qed.

Theorem C04_nocr_is_no_lone_cr : forall bs, nocr bs = true -> no_lone_cr bs = true.
Proof. exact nocr_no_lone. Qed.

(* so: for every Rust str WITHOUT A LONE CR (every CR is followed by LF) whose parse is error-free, the round trip and
   the fixed point hold, provided the tree has no comment without a line (the zero-line comment of finding D7) *)
Theorem C04_roundtrip_errorfree_crlf_partial :
  forall bs t, utf8_valid bs = true -> no_lone_cr bs = true -> parse bs = Done (t, []) -> comments_nonempty t = true ->
  forall with_junk s, serialize_with_options with_junk t = Done s ->
  exists t2 errs2, parse s = Done (t2, errs2) /\ norm t2 = norm (drop_junk_unless with_junk t) /\ errs2 = [] /\
                   serialize_with_options with_junk t2 = Done s.
Proof.
  intros bs t Hb Hn Hp Hc. apply (C04_roundtrip_str_inputs_partial bs t [] Hb Hp). apply (parse_wf_errorfree_crlf bs t Hp Hn Hc).
Qed.

(* the special case of a Rust str WITHOUT CR *)
Theorem C04_roundtrip_errorfree_nocr_partial :
  forall bs t, utf8_valid bs = true -> nocr bs = true -> parse bs = Done (t, []) -> comments_nonempty t = true ->
  forall with_junk s, serialize_with_options with_junk t = Done s ->
  exists t2 errs2, parse s = Done (t2, errs2) /\ norm t2 = norm (drop_junk_unless with_junk t) /\ errs2 = [] /\
                   serialize_with_options with_junk t2 = Done s.
Proof.
  intros bs t Hb Hn Hp Hc. apply (C04_roundtrip_str_inputs_partial bs t [] Hb Hp). apply (parse_wf_errorfree bs t Hp Hn Hc).
Qed.

(* the same with the executable premise Coverage.c04_covered (for the harness: which parser outputs are covered) *)
Theorem C04_roundtrip_covered_partial :
  forall bs t errs, parse bs = Done (t, errs) -> c04_covered t = true ->
  forall with_junk s, serialize_with_options with_junk t = Done s ->
  exists t2 errs2, parse s = Done (t2, errs2) /\ norm t2 = norm (drop_junk_unless with_junk t) /\ errs2 = [] /\
                   serialize_with_options with_junk t2 = Done s.
Proof.
  intros bs t errs Hp Hc. unfold c04_covered in Hc. apply andb_prop in Hc as [Hw Hu].
  apply (C04_roundtrip_parser_outputs_partial bs t errs Hp Hw Hu).
Qed.

(* ---- nested call arguments (SerializerNest.snest_resource d) ---- *)
Theorem C04_roundtrip_nested_partial :
  forall d bs t errs, parse bs = Done (t, errs) -> snest_resource d t = true ->
  forall with_junk s, serialize_with_options with_junk t = Done s ->
  exists t2 errs2, parse s = Done (t2, errs2) /\ norm t2 = norm (drop_junk_unless with_junk t) /\
                   errs2 = [] /\ snest_resource d t2 = true.
Proof.
  intros d bs t errs _ Ht wj s Hs.
  destruct (parse_serialize_snest d wj t Ht) as (t2 & Es & Ep & Hn & Ht2 & _).
  rewrite Es in Hs. injection Hs as <-.
  exists t2, []. rewrite (g_no_junk (snest_pok d) t wj Ht). repeat split; assumption.
Qed.

Theorem C04_fixpoint_nested_partial :
  forall d bs t errs, parse bs = Done (t, errs) -> snest_resource d t = true ->
  forall with_junk s, serialize_with_options with_junk t = Done s ->
  forall t2 errs2, parse s = Done (t2, errs2) -> serialize_with_options with_junk t2 = Done s.
Proof.
  intros d bs t errs _ Ht wj s Hs t2 errs2 Hp2.
  destruct (parse_serialize_snest d wj t Ht) as (t2' & Es & Ep & _ & _ & Efix).
  rewrite Es in Hs. injection Hs as <-. rewrite Ep in Hp2. injection Hp2 as <- <-. exact Efix.
Qed.

Theorem C04_nested_output :
  forall d with_junk t, snest_resource d t = true ->
  serialize_with_options with_junk t = Done (snest_resource_text d t).
Proof. intros d wj t Ht. destruct (parse_serialize_snest d wj t Ht) as (t2 & Es & _). exact Es. Qed.

Theorem C04_nested_contains_parser_outputs :
  forall d cs tj, nest_resource d tj = true -> last_comment_ok tj = true ->
  exists t, parse (render cs tj) = Done (t, []) /\ snest_resource d t = true /\ map join_entry t = tj.
Proof. exact parser_outputs_snest. Qed.

Theorem C04_multiline_in_nested : forall t, sml_resource t = true -> snest_resource 0 t = true.
Proof. exact sml_resource_snest. Qed.

(* C04 for the parser output of every layout of every well-formed tree that has not the shape of finding D7 (if its
   last entry is a stand-alone comment, the last line of that comment is not empty): round trip (no errors, same
   normal form) and fixed point *)
Theorem C04_roundtrip_wellformed_sources_partial :
  forall cs tj, wf_resource tj = true -> wf_utf8_resource tj = true -> last_comment_ok tj = true ->
  forall t errs, parse (render cs tj) = Done (t, errs) ->
  forall with_junk s, serialize_with_options with_junk t = Done s ->
  exists t2 errs2, parse s = Done (t2, errs2) /\ norm t2 = norm (drop_junk_unless with_junk t) /\ errs2 = [] /\
                   serialize_with_options with_junk t2 = Done s.
Proof.
  intros cs tj Hw Hu Hc t errs Hp wj s Hs.
  destruct (wf_resource_nest tj Hw Hu) as [d Hd].
  destruct (parser_outputs_snest d cs tj Hd Hc) as (t' & Ep' & Ht' & _). rewrite Ep' in Hp. injection Hp as <- <-.
  destruct (parse_serialize_snest d wj t' Ht') as (t2 & Es & Ep & Hn & _ & Efix).
  rewrite Es in Hs. injection Hs as <-.
  exists t2, []. rewrite (g_no_junk (snest_pok d) t' wj Ht'). repeat split; assumption.
Qed.

(* ... and for the parser output of EVERY layout of a well-formed tree (the general layout relation) *)
Theorem C04_roundtrip_layout_sources_partial :
  forall tj, wf_resource tj = true -> wf_utf8_resource tj = true ->
  exists d, nest_resource d tj = true /\
  forall bs, nest_layout d tj bs ->
  forall t errs, parse bs = Done (t, errs) ->
  forall with_junk s, serialize_with_options with_junk t = Done s ->
  exists t2 errs2, parse s = Done (t2, errs2) /\ norm t2 = norm (drop_junk_unless with_junk t) /\ errs2 = [] /\
                   serialize_with_options with_junk t2 = Done s.
Proof.
  intros tj Hw Hu. destruct (wf_resource_nest tj Hw Hu) as [d Hd]. exists d. split; [exact Hd|].
  intros bs HL t errs Hp wj s Hs.
  destruct (parser_outputs_snest_layout d tj bs Hd HL) as (t' & Ep' & Ht' & _). rewrite Ep' in Hp. injection Hp as <- <-.
  destruct (parse_serialize_snest d wj t' Ht') as (t2 & Es & Ep & Hn & _ & Efix).
  rewrite Es in Hs. injection Hs as <-.
  exists t2, []. rewrite (g_no_junk (snest_pok d) t' wj Ht'). repeat split; assumption.
Qed.

(* ---- the multi-line fragment (SerializerML.sml_resource) ---- *)
(* C04_roundtrip_statement with the extra premise that the parsed tree lies in the fragment; there are no
   errors, and the re-parsed tree is in the fragment again *)
Theorem C04_roundtrip_multiline_partial :
  forall bs t errs, parse bs = Done (t, errs) -> sml_resource t = true ->
  forall with_junk s, serialize_with_options with_junk t = Done s ->
  exists t2 errs2, parse s = Done (t2, errs2) /\ norm t2 = norm (drop_junk_unless with_junk t) /\
                   errs2 = [] /\ sml_resource t2 = true.
Proof.
  intros bs t errs _ Ht wj s Hs.
  destruct (parse_serialize_sml wj t Ht) as (t2 & Es & Ep & Hn & Ht2 & _).
  rewrite Es in Hs. injection Hs as <-.
  exists t2, []. rewrite (g_no_junk sml_pok t wj Ht). repeat split; assumption.
Qed.

Theorem C04_fixpoint_multiline_partial :
  forall bs t errs, parse bs = Done (t, errs) -> sml_resource t = true ->
  forall with_junk s, serialize_with_options with_junk t = Done s ->
  forall t2 errs2, parse s = Done (t2, errs2) -> serialize_with_options with_junk t2 = Done s.
Proof.
  intros bs t errs _ Ht wj s Hs t2 errs2 Hp2.
  destruct (parse_serialize_sml wj t Ht) as (t2' & Es & Ep & _ & _ & Efix).
  rewrite Es in Hs. injection Hs as <-. rewrite Ep in Hp2. injection Hp2 as <- <-. exact Efix.
Qed.

Theorem C04_multiline_output :
  forall with_junk t, sml_resource t = true ->
  serialize_with_options with_junk t = Done (sml_resource_text t).
Proof. intros wj t Ht. destruct (parse_serialize_sml wj t Ht) as (t2 & Es & _). exact Es. Qed.

(* the fragment contains the parser's output for every layout of every tree of C02's multi-line fragment *)
Theorem C04_multiline_contains_parser_outputs :
  forall cs tj, ml_resource eoks tj = true -> last_comment_ok tj = true ->
  exists t, parse (render cs tj) = Done (t, []) /\ sml_resource t = true /\ map join_entry t = tj.
Proof. exact parser_outputs_sml. Qed.

Theorem C04_simple_in_multiline : forall t, simple_resource t = true -> sml_resource t = true.
Proof. exact simple_resource_sml. Qed.

(* ---- the one-line fragment (RoundTrip.simple_resource), where more is known ---- *)
(* C04_roundtrip_statement with the extra premise that the parsed tree lies in the fragment.  The re-parsed
   tree is even known exactly: it is the first tree with every whitespace-only comment line made empty
   (SerializerRoundTrip.nz_resource; for a tree without such lines: the same tree), and there are no errors *)
Theorem C04_roundtrip_simple_partial :
  forall bs t errs, parse bs = Done (t, errs) -> simple_resource t = true ->
  forall with_junk s, serialize_with_options with_junk t = Done s ->
  exists t2 errs2, parse s = Done (t2, errs2) /\ norm t2 = norm (drop_junk_unless with_junk t) /\
                   t2 = nz_resource t /\ errs2 = [].
Proof.
  intros bs t errs _ Ht wj s Hs.
  destruct (parse_serialize_simple wj t Ht) as [s' [Hs' Hp]].
  rewrite Hs' in Hs. injection Hs as <-.
  exists (nz_resource t), []. rewrite (simple_no_junk t wj Ht), norm_nz_resource. split; [exact Hp | repeat split].
Qed.

Theorem C04_fixpoint_simple_partial :
  forall bs t errs, parse bs = Done (t, errs) -> simple_resource t = true ->
  forall with_junk s, serialize_with_options with_junk t = Done s ->
  forall t2 errs2, parse s = Done (t2, errs2) -> serialize_with_options with_junk t2 = Done s.
Proof.
  intros bs t errs _ Ht wj s Hs t2 errs2 Hp2.
  destruct (parse_serialize_simple wj t Ht) as [s' [Hs' Hp]].
  rewrite Hs' in Hs. injection Hs as <-. rewrite Hp in Hp2. injection Hp2 as <- <-.
  rewrite (serialize_nz wj t Ht). exact Hs'.
Qed.

(* the text (SerializerRoundTrip.simple_resource_text): per message  id " = " line, then per attribute a new
   line with four spaces, ".", the attribute id, " = " and its line, then LF (a line: text as it is, a
   placeable as "{ " expression " }"); a term has a leading '-'; a
   message without value has  id " ="  and its attributes; a stand-alone comment is preceded by an empty line
   unless it is the first entry, has per line the prefix (#, ##, ###), " " and the line (an empty or
   whitespace-only line: the prefix only) and LF, and is followed by an empty line; an attached comment is
   written the same way directly in front of its message or term, without empty lines *)
Theorem C04_simple_output :
  forall with_junk t, simple_resource t = true ->
  serialize_with_options with_junk t = Done (simple_resource_text t).
Proof. exact serialize_simple. Qed.

Example C04_example_simple_output :
  let t := [ResourceComment (Comment [bytes_of_string "r"; []; bytes_of_string "s"]);
            Message (bytes_of_string "m") (Some (Pattern [TextElement (bytes_of_string "[v] "); PlaceableElement (Inline (VariableReference (bytes_of_string "x")))]))
                    [Attribute (bytes_of_string "a") (Pattern [TextElement (bytes_of_string "w x")])] None;
            CommentEntry (Comment [bytes_of_string "free"; bytes_of_string "  "; bytes_of_string "x"]);
            Message (bytes_of_string "k") (Some (Pattern [TextElement (bytes_of_string "v")])) []
                    (Some (Comment [bytes_of_string "attached"]));
            Message (bytes_of_string "n") None [Attribute (bytes_of_string "b") (Pattern [TextElement (bytes_of_string "*")])] None;
            Term (bytes_of_string "t") (Pattern [TextElement (bytes_of_string "y")]) [] None] in
  simple_resource t = true /\
  serialize_with_options true t =
  Done (bytes_of_string "### r" ++ [10%N] ++ bytes_of_string "###" ++ [10%N] ++ bytes_of_string "### s" ++ [10; 10]%N ++
        bytes_of_string "m = [v] { $x }" ++ [10%N] ++ bytes_of_string "    .a = w x" ++ [10; 10]%N ++
        bytes_of_string "# free" ++ [10%N] ++ bytes_of_string "#" ++ [10%N] ++ bytes_of_string "# x" ++ [10; 10]%N ++
        bytes_of_string "# attached" ++ [10%N] ++ bytes_of_string "k = v" ++ [10%N] ++
        bytes_of_string "n =" ++ [10%N] ++ bytes_of_string "    .b = *" ++ [10%N] ++
        bytes_of_string "-t = y" ++ [10%N]).
Proof. split; vm_compute; reflexivity. Qed.

(* the premise "parse bs = Done (t, errs)" is satisfiable for every tree of the fragment *)
Theorem C04_simple_are_parser_outputs :
  forall t, simple_resource t = true -> exists bs, parse bs = Done (t, []).
Proof. intros t Ht. exists (render [] t). apply parse_render_simple, Ht. Qed.

(* ---------------------------------------------------------------------------------------------- *)
(* Non-vacuity: the round trip and the fixed point on concrete inputs                               *)

Definition roundtrips (with_junk : bool) (bs : bytes) : Prop :=
  exists t errs s t2 errs2,
    parse bs = Done (t, errs) /\ serialize_with_options with_junk t = Done s /\
    parse s = Done (t2, errs2) /\
    norm t2 = norm (drop_junk_unless with_junk t) /\
    serialize_with_options with_junk t2 = Done s.

Local Ltac conj_compute := repeat (split; [vm_compute; reflexivity|]); vm_compute; reflexivity.
Local Notation b := bytes_of_string.
Local Notation LF := [10%N].
Local Notation CRLF := [13%N; 10%N].

(* a source whose tree is in the multi-line fragment: extra indentation, a blank line inside, a line led by a
   placeable, CRLF line ends, a multi-line attribute; its serialization *)
Example C04_example_multiline_in_fragment :
  let src := b "# c" ++ CRLF ++ b "-t = first" ++ CRLF ++ b "     indented" ++ CRLF ++ CRLF ++ b "   last { m.a }" ++ LF ++
             b "      { ""A{"" } x" ++ LF ++ b "  .attr = {$v}" ++ LF ++ b "     second" ++ LF ++ b "      third" ++ LF in
  exists t, parse src = Done (t, []) /\ sml_resource t = true /\
            serialize_with_options true t =
            Done (b "# c" ++ LF ++ b "-t =" ++ LF ++ b "    first" ++ LF ++ b "      indented" ++ LF ++ b "    " ++ LF ++
                  b "    last { m.a }" ++ LF ++ b "       { ""A{"" } x" ++ LF ++
                  b "    .attr =" ++ LF ++ b "        { $v }" ++ LF ++ b "        second" ++ LF ++ b "         third" ++ LF).
Proof. eexists. conj_compute. Qed.

(* a source whose tree is in the fragment of depth 2: a select with a multi-line variant value, a nested select,
   a placeable around a placeable; its serialization *)
Example C04_example_select_in_fragment :
  let src := b "m = You have { $n ->" ++ LF ++ b "   [one] one email" ++ LF ++ b "   [2] two" ++ LF ++ b "      lines" ++ LF ++
             b "  *[other] {{$n}} emails { ""x"" ->" ++ LF ++ b "       *[-1.5] [a]" ++ LF ++ b "     }" ++ LF ++ b "  } now" ++ LF in
  exists t, parse src = Done (t, []) /\ ssel_resource 2 t = true /\
            serialize_with_options true t =
            Done (b "m =" ++ LF ++ b "    You have { $n ->" ++ LF ++ b "        [one] one email" ++ LF ++ b "        [2]" ++ LF ++
                  b "            two" ++ LF ++ b "            lines" ++ LF ++ b "       *[other]" ++ LF ++
                  b "            {{ $n }} emails { ""x"" ->" ++ LF ++ b "               *[-1.5] [a]" ++ LF ++
                  b "            }" ++ LF ++ b "    } now" ++ LF).
Proof. eexists. conj_compute. Qed.

(* a source whose tree is in the fragment of depth 1: call arguments under several layouts (blanks, trailing
   comma, none at all), a function reference / a term attribute with and without arguments as selectors; its
   serialization *)
Example C04_example_calls_in_fragment :
  let src := b "m = { F( ) } { NUMBER( $n ,  style : ""x"" , ) }" ++ LF ++
             b "  .a = { PLATFORM() ->" ++ LF ++ b "     [mac] Cmd { -brand( case:""g"") }" ++ LF ++ b "    *[other] Ctrl" ++ LF ++ b "  }" ++ LF ++
             b "  .g = { -brand.gender ->" ++ LF ++ b "    *[other] it" ++ LF ++ b "  }" ++ LF ++
             b "  .h = {-brand.gender (case: 1,)->" ++ LF ++ b "    *[x] y" ++ LF ++ b "  }" ++ LF in
  exists t, parse src = Done (t, []) /\ ssel_resource 1 t = true /\
            serialize_with_options true t =
            Done (b "m = { F() } { NUMBER($n, style: ""x"") }" ++ LF ++
                  b "    .a =" ++ LF ++ b "        { PLATFORM() ->" ++ LF ++ b "            [mac] Cmd { -brand(case: ""g"") }" ++ LF ++
                  b "           *[other] Ctrl" ++ LF ++ b "        }" ++ LF ++
                  b "    .g =" ++ LF ++ b "        { -brand.gender ->" ++ LF ++ b "           *[other] it" ++ LF ++ b "        }" ++ LF ++
                  b "    .h =" ++ LF ++ b "        { -brand.gender(case: 1) ->" ++ LF ++ b "           *[x] y" ++ LF ++ b "        }" ++ LF).
Proof. eexists. conj_compute. Qed.

(* a source with nested call arguments (a call, a term attribute, a placeable with a select expression as
   arguments): its tree is in the fragment of depth 3; its serialization *)
Example C04_example_nested_in_fragment :
  let src := b "m = { F( G($x) , -t.a,{ $n ->" ++ LF ++ b "     *[k] v" ++ LF ++ b "  }, z : 1 ) }" ++ LF in
  exists t, parse src = Done (t, []) /\ snest_resource 3 t = true /\
            serialize_with_options true t =
            Done (b "m = { F(G($x), -t.a, {$n ->" ++ LF ++ b "       *[k] v" ++ LF ++ b "    }, z: 1) }" ++ LF).
Proof. eexists. conj_compute. Qed.

(* a block-form source whose continuation lines are all indented deeper than the first line of the value: its tree
   is covered (c04_covered), it is in the fragment, and the serializer writes it in block form again *)
Example C04_example_block_only_value :
  let src := b "a =" ++ LF ++ b "    { m }" ++ LF ++ b "      x" ++ LF ++ b "  .t =" ++ LF ++ b "   one" ++ LF ++ b "    two" ++ LF in
  exists t, parse src = Done (t, []) /\ c04_covered t = true /\ snest_resource 1 t = true /\
            serialize_with_options true t =
            Done (b "a =" ++ LF ++ b "    { m }" ++ LF ++ b "      x" ++ LF ++ b "    .t =" ++ LF ++ b "        one" ++ LF ++ b "         two" ++ LF).
Proof. eexists. conj_compute. Qed.

(* non-vacuity of C04_roundtrip_errorfree_nocr_partial: a source that satisfies all its premises *)
Example C04_example_errorfree_premises :
  let src := b "# c" ++ LF ++ b "a = x { $n ->" ++ LF ++ b "   [one] first" ++ LF ++ b "      second" ++ LF ++ b "  *[other]" ++ LF ++
             b "      {$n}" ++ LF ++ b "       y" ++ LF ++ b " } z" ++ LF ++ b "  .t =" ++ LF ++ b "      two" ++ LF ++ b "    zero" ++ LF in
  exists t, parse src = Done (t, []) /\ utf8_valid src = true /\ nocr src = true /\ comments_nonempty t = true.
Proof. eexists. conj_compute. Qed.

(* non-vacuity of C04_roundtrip_errorfree_crlf_partial: CR LF line ends after a text, after a placeable, on a blank
   line, on a line of spaces, in a comment and inside a select expression; what the serializer writes has LF only (the
   LF of a CR LF line end is a text element of its own, and the serializer indents after it: spaces on the blank lines) *)
Example C04_example_errorfree_crlf_premises :
  let CRLF := [13; 10]%N in
  let src := b "# c" ++ CRLF ++ b "a = x" ++ CRLF ++ b "  {$n}" ++ CRLF ++ CRLF ++ b "   " ++ CRLF ++ b "    y {$m}  " ++ CRLF ++ b "  z" ++ CRLF ++
             b "b = { $n ->" ++ CRLF ++ b "   [one] first" ++ CRLF ++ b "      second" ++ CRLF ++ b "  *[other]" ++ CRLF ++
             b "      {$n}" ++ CRLF ++ b " }" ++ CRLF in
  exists t, parse src = Done (t, []) /\ utf8_valid src = true /\ no_lone_cr src = true /\ nocr src = false /\ comments_nonempty t = true /\
            serialize_with_options true t =
            Done (b "# c" ++ LF ++ b "a =" ++ LF ++ b "    x" ++ LF ++ b "    { $n }" ++ LF ++ b "    " ++ LF ++ b "    " ++ LF ++ b "      y { $m }  " ++ LF ++ b "    z" ++ LF ++
                  b "b =" ++ LF ++ b "    { $n ->" ++ LF ++ b "        [one]" ++ LF ++ b "            first" ++ LF ++ b "            second" ++ LF ++
                  b "       *[other] { $n }" ++ LF ++ b "    }" ++ LF).
Proof. eexists. conj_compute. Qed.

Example C04_example_first_line_indented :
  let src := b "key10 =" ++ LF ++ b "      two" ++ LF ++ b "    zero" ++ LF ++ b "        four" ++ LF ++
             b "key13 =" ++ LF ++ b "    four" ++ LF ++ b "{"".""}" ++ LF in
  exists t, parse src = Done (t, []) /\ c04_covered t = true /\ snest_resource 0 t = true /\
            serialize_with_options true t =
            Done (b "key10 =" ++ LF ++ b "      two" ++ LF ++ b "    zero" ++ LF ++ b "        four" ++ LF ++
                  b "key13 =" ++ LF ++ b "        four" ++ LF ++ b "    { ""."" }" ++ LF).
Proof. eexists. conj_compute. Qed.

Example C04_example_block_only_variants :
  let src := b "a = { $n ->" ++ LF ++ b "   [one]" ++ LF ++ b "      first" ++ LF ++ b "        second" ++ LF ++
             b "  *[x]" ++ LF ++ b "      {$n}" ++ LF ++ b "       y" ++ LF ++ b " }" ++ LF in
  exists t, parse src = Done (t, []) /\ c04_covered t = true /\ snest_resource 1 t = true /\
            serialize_with_options true t =
            Done (b "a =" ++ LF ++ b "    { $n ->" ++ LF ++ b "        [one]" ++ LF ++ b "            first" ++ LF ++
                  b "              second" ++ LF ++ b "       *[x]" ++ LF ++ b "            { $n }" ++ LF ++ b "             y" ++ LF ++
                  b "    }" ++ LF).
Proof. eexists. conj_compute. Qed.

(* a blank line inside a value with more spaces than the common indentation: since the repair of finding D33 the
   parser returns "LF" for it (the spaces of a blank line are not text), the tree is covered *)
Example C04_example_spaces_on_blank_line :
  let src := b "a =" ++ LF ++ b "    x" ++ LF ++ b "      " ++ LF ++ b "    y" ++ LF in
  (exists t, parse src = Done (t, []) /\ c04_covered t = true /\
             map join_entry t = [Message (b "a") (Some (Pattern [TextElement (b "x" ++ LF ++ LF ++ b "y")])) [] None]) /\
  roundtrips true src.
Proof. split; [eexists; repeat (split; [vm_compute; reflexivity|]); vm_compute; reflexivity | do 5 eexists; conj_compute]. Qed.

(* a select expression with a default variant *)
Example C04_example_select :
  roundtrips true (b "a = { $n ->" ++ LF ++ b "    [one] x" ++ LF ++ b "   *[other] y {-t(k: 1)}" ++ LF ++ b "}" ++ LF).
Proof. do 5 eexists. conj_compute. Qed.

(* a multi-line value whose first text starts with '[' (stays on the line of the '=') *)
Example C04_example_bracket_multiline :
  roundtrips true (b "a = [x" ++ LF ++ b "    y" ++ LF ++ b "  .at =" ++ LF ++ b "     *z" ++ LF ++ b "       w" ++ LF).
Proof. do 5 eexists. conj_compute. Qed.

(* a CRLF source with an attached comment and a group comment *)
Example C04_example_crlf :
  roundtrips false (b "# c" ++ CRLF ++ b "a = x" ++ CRLF ++ b "  y" ++ CRLF ++ CRLF ++ b "## g" ++ CRLF ++ b "#  " ++ CRLF).
Proof. do 5 eexists. conj_compute. Qed.

(* Junk between entries, both options *)
Example C04_example_junk_kept :
  roundtrips true (b "a = 1" ++ LF ++ b "}junk" ++ LF ++ b "b = 2" ++ LF).
Proof. do 5 eexists. conj_compute. Qed.
Example C04_example_junk_dropped :
  roundtrips false (b "a = 1" ++ LF ++ b "}junk" ++ LF ++ b "b = 2" ++ LF).
Proof. do 5 eexists. conj_compute. Qed.

(* the Junk entry is really there in the first tree and really gone / kept in the second *)
Example C04_example_junk_trees :
  exists t errs, parse (b "a = 1" ++ LF ++ b "}junk" ++ LF ++ b "b = 2" ++ LF) = Done (t, errs) /\
    length t = 3 /\ length (drop_junk_unless false t) = 2 /\
    serialize_with_options true t = Done (b "a = 1" ++ LF ++ b "}junk" ++ LF ++ b "b = 2" ++ LF) /\
    serialize_with_options false t = Done (b "a = 1" ++ LF ++ b "b = 2" ++ LF).
Proof. do 2 eexists. conj_compute. Qed.

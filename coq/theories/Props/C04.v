(* placeholder until the proofs land *)
From FluentV Require Import Syntax.SerializerModel.
Theorem C04_placeholder : True.
Proof. exact Logic.I. Qed.

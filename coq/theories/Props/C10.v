(* Props/C10.v — the bundle registry behaves as a keyed map over any history of additions.
   Only statements here; proofs are in Bundle/RegistryProofs.v, the model in Bundle/Registry.v.

   A history is `ops : list (op F)` (AddResource r | AddResourceOverriding r | AddFunction id f,
   r any parsed resource: messages with or without value/attributes, terms, comments, junk,
   duplicate ids, in any order); `run F ops` is the bundle reached from FluentBundle::new.
   `spec F ops = fold_left spec_step ops []` is the keyed map id -> definition (one key space for
   messages, terms — id without '-' — and functions).  F is the (opaque) type of functions.   *)
From FluentV Require Import Base.Bytes Base.Outcome Syntax.Ast Bundle.Registry Bundle.RegistryProofs.

(* no history panics (the `unreachable!()` arm of add_resource is never taken) *)
Theorem C10_total : forall F (ops : list (op F)), exists b, run F ops = Done b.
Proof. exact run_total. Qed.

(* invariant over all histories: keys are unique and every stored (resource idx, entry idx) is in
   range and points at an entry of the stored kind and id *)
Theorem C10_inv : forall F (ops : list (op F)) b, run F ops = Done b ->
  NoDup (map fst (entries F b)) /\
  forall id e, afind (entries F b) id = Some e ->
    match e with
    | EMessage ri ei => exists res v a c,
        nth_error (resources F b) ri = Some res /\ nth_error res ei = Some (Message id v a c)
    | ETerm ri ei => exists res v a c,
        nth_error (resources F b) ri = Some res /\ nth_error res ei = Some (Term id v a c)
    | EFunction _ => True
    end.
Proof. exact inv_explicit. Qed.

(* refinement: the registry, read through its stored indices, IS the spec map (same keys, same order
   of first insertion, every reference resolves to the definition the map holds) *)
Theorem C10_refines : forall F (ops : list (op F)) b, run F ops = Done b ->
  abs F b = lift F (spec F ops).
Proof. exact run_refines. Qed.

(* "looking up a message returns the entry a keyed map would hold" — all lookups, after any history *)
Theorem C10_lookup : forall F (ops : list (op F)) b id, run F ops = Done b ->
  get_message F b id = match afind (spec F ops) id with Some (DMessage m) => Some m | _ => None end /\
  get_entry_term F b id = match afind (spec F ops) id with Some (DTerm t) => Some t | _ => None end /\
  get_entry_function F b id = match afind (spec F ops) id with Some (DFunction f) => Some f | _ => None end /\
  has_message F b id = match afind (spec F ops) id with Some (DMessage _) => true | _ => false end.
Proof. exact lookups_run. Qed.

(* "the first definition wins under add_resource; every later duplicate is reported ...; the rest of
   that resource is still added": after any history, add_resource r returns exactly dup_errors
   (Ok when there are none), keeps every existing key, and adds the first definition in r of every
   other id *)
Theorem C10_first_wins : forall F (ops : list (op F)) b r, run F ops = Done b ->
  exists b',
    add_resource F b r = Done (b', result_of (dup_errors F (map fst (entries F b)) r)) /\
    run F (ops ++ [AddResource r]) = Done b' /\
    map fst (entries F b) = map fst (spec F ops) /\
    forall id, afind (spec F (ops ++ [AddResource r])) id =
      match afind (spec F ops) id with Some d => Some d | None => afind (defs_of F r) id end.
Proof. exact first_wins. Qed.

(* what dup_errors is: the entry at ANY position of the resource is reported — as
   Overriding{its own kind, its id} — iff its id is already a key or occurs earlier in the same
   resource; entries are reported in source order; comments and junk report nothing *)
Theorem C10_errors_exact : forall F seen pre e post,
  match def_of F e with
  | Some (id, d) =>
      dup_errors F seen (pre ++ e :: post) =
        dup_errors F seen pre
        ++ (if bmem id seen || bmem id (map fst (defs_of F pre)) then [Overriding (def_kind F d) id] else [])
        ++ dup_errors F (seen_after F seen (pre ++ [e])) post
  | None => dup_errors F seen (pre ++ e :: post) = dup_errors F seen (pre ++ post)
  end.
Proof.
  intros F seen pre e post. destruct (def_of F e) as [[id d]|] eqn:E.
  - apply dup_errors_exact, E.
  - apply dup_errors_junk, E.
Qed.

(* "the latest definition wins under add_resource_overriding" (across kinds: the key space is shared) *)
Theorem C10_last_wins : forall F (ops : list (op F)) b r, run F ops = Done b ->
  run F (ops ++ [AddResourceOverriding r]) = Done (add_resource_overriding F b r) /\
  forall id, afind (spec F (ops ++ [AddResourceOverriding r])) id =
    match afind (rev (defs_of F r)) id with Some d => Some d | None => afind (spec F ops) id end.
Proof. exact last_wins. Qed.

(* add_function inserts only into a vacant key; otherwise Overriding{Function, id} and no change *)
Theorem C10_function : forall F (ops : list (op F)) b id f, run F ops = Done b ->
  run F (ops ++ [AddFunction id f]) = Done (fst (add_function F b id f)) /\
  snd (add_function F b id f) =
    (match afind (spec F ops) id with None => Ok tt | Some _ => Err (Overriding KFunction id) end) /\
  (afind (spec F ops) id <> None -> fst (add_function F b id f) = b) /\
  forall id2, afind (spec F (ops ++ [AddFunction id f])) id2 =
    match afind (spec F ops) id2 with
    | Some d => Some d
    | None => if bytes_eqb id id2 then Some (DFunction f) else None
    end.
Proof. exact function_vacant_only. Qed.

(* "a message lookup never returns a term or function": what get_message returns is the message
   definition the map holds under that id, it carries that id, and it is a Message node of one of
   the added resources; ids held by a term or a function (or by nothing) give None *)
Theorem C10_kind_safe : forall F (ops : list (op F)) b id, run F ops = Done b ->
  (forall m, get_message F b id = Some m ->
     afind (spec F ops) id = Some (DMessage m) /\ msg_id m = id /\
     exists res ei, In res (resources F b) /\
       nth_error res ei = Some (Message id (msg_value m) (msg_attributes m) (msg_comment m))) /\
  (forall t, afind (spec F ops) id = Some (DTerm t) -> get_message F b id = None /\ has_message F b id = false) /\
  (forall f, afind (spec F ops) id = Some (DFunction f) -> get_message F b id = None /\ has_message F b id = false) /\
  (afind (spec F ops) id = None -> get_message F b id = None /\ has_message F b id = false).
Proof.
  intros F ops b id H. split; [intros m Hm; eapply kind_safe; eassumption | apply not_message, H].
Qed.

(* "the returned message exposes exactly the value and the attributes (in source order, lookup by
   name) of that definition": value/attributes are the node's fields; get_attribute is the FIRST
   attribute of that name, None iff there is none *)
Theorem C10_view : forall m key,
  value m = msg_value m /\ attributes m = msg_attributes m /\
  (forall a, get_attribute m key = Some a <->
     exists l1 l2, attributes m = l1 ++ a :: l2 /\ attr_id a = key /\ forall a', In a' l1 -> attr_id a' <> key) /\
  (get_attribute m key = None <-> forall a, In a (attributes m) -> attr_id a <> key).
Proof.
  intros m key. split; [reflexivity|]. split; [reflexivity|]. split.
  - intros a. apply get_attribute_some.
  - apply get_attribute_none.
Qed.

(* non-vacuity: message a (first wins, duplicate inside the resource reported), term -b shares the
   key space, overriding replaces a message by a term, a function cannot take an occupied key *)
Example C10_example :
  let t := Pattern [TextElement [120]%N] in
  let ida := [97]%N in let idb := [98]%N in
  let r1 := [Message ida (Some t) [Attribute idb t; Attribute idb (Pattern [])] None; Junk []; Message ida None [] None] in
  let r2 := [Term ida t [] None; Message idb (Some t) [] None] in
  exists b1 b2 b3,
    add_resource Z (new Z) r1 = Done (b1, Err [Overriding KMessage ida]) /\
    add_resource Z b1 r2 = Done (b2, Err [Overriding KTerm ida]) /\
    has_message Z b2 ida = true /\ has_message Z b2 idb = true /\
    option_map (fun m => get_attribute m idb) (get_message Z b2 ida) = Some (Some (Attribute idb t)) /\
    b3 = add_resource_overriding Z b2 r2 /\
    has_message Z b3 ida = false /\ get_entry_term Z b3 ida = Some (Trm ida t [] None) /\
    snd (add_function Z b3 ida 7%Z) = Err (Overriding KFunction ida) /\
    snd (add_function Z b3 [99]%N 7%Z) = Ok tt.
Proof. do 3 eexists. repeat split; vm_compute; reflexivity. Qed.

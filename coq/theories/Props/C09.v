(* Props/C09.v — Bidi isolation is additive, balanced and confined to interpolated values.
   Statements only; proofs are in Bundle/ResolverSim.v (simulation between the isolating and the
   non-isolating run) and Bundle/ResolverIso.v (shape of the output).

   The theorems are about the TOKEN output of the model (`Txt bytes | TFSI | TPDI`): the marks
   written by Pattern::write are tokens of their own, so "the text contains no FSI/PDI of its
   own" (the property's quantifier) is built in; at byte level the same statements hold when no
   Txt token contains U+2068/U+2069, which the oracle checks on the real output.

   Excluded class (finding D23, witness C09_strip_refuted_in_selector below): a selector or call
   argument that is a message/term reference or a nested placeable.  Its value is the flattened
   output of a pattern, marks included, and is compared with variant keys / handed to functions,
   so the two runs can diverge.  `ok_pattern` (ResolverSim.v) = no such selector or argument.   *)
From FluentV Require Import Base.Bytes Base.Outcome Syntax.Ast Bundle.Args Bundle.Number
  Bundle.ResolverAst Bundle.ResolverModel Bundle.ResolverSim Bundle.ResolverIso Gen.Extracted.

Section C09.
Variable overflow_checks : bool.
Variable call_function : bytes -> list fvalue -> fargs -> fvalue.
Variable transform : option (bytes -> bytes).
Variable formatter : option (fvalue -> option bytes).
Variable rules : ntype -> rules_fn.
Variable custom_as_string : bytes -> bytes.
Variable unescape_write : bytes -> bytes.
Variable unescape_to_string : bytes -> bytes.
Variable f64_from_str : bytes -> option fval.
Variable m : list (bytes * bentry).          (* the bundle's entries; the flag varies *)
Variable args : option fargs.

Notation write iso := (write_pattern overflow_checks call_function transform formatter rules custom_as_string
                         unescape_write unescape_to_string f64_from_str (Bundle m iso) args).

(* "removing the marks gives the isolation-off text exactly" — and the same errors and the same
   function invocations; both runs end the same way (Done / same Panic / OutOfFuel), for any fuel *)
Theorem C09_strip :
  forall fuel top p c,
    cache_ok rules c ->
    (forall q, In q (bundle_patterns (Bundle m true)) -> ok_pattern q = true) -> ok_pattern p = true ->
    match write true fuel top p c, write false fuel top p c with
    | Done (o_on, sc_on), Done (o_off, sc_off) =>
        strip o_on = o_off /\ sc_errors sc_on = sc_errors sc_off /\ sc_calls sc_on = sc_calls sc_off
    | Panic a, Panic b => a = b
    | OutOfFuel, OutOfFuel => True
    | _, _ => False
    end.
Proof.
  intros fuel top p c Hc Hb Hp. unfold write_pattern.
  destruct (sim_all overflow_checks call_function transform formatter rules custom_as_string
              unescape_write unescape_to_string f64_from_str m true false args (or_intror Hb) fuel) as (Hpw & _).
  specialize (Hpw top p (scope_new c) (scope_new c) (Rs_refl rules (scope_new c) Hc) (or_intror Hp)).
  unfold b1, b2 in Hpw.
  pose proof (out_all overflow_checks call_function transform formatter rules custom_as_string
                unescape_write unescape_to_string f64_from_str (Bundle m false) args fuel) as (Bpw & _).
  specialize (Bpw top p (scope_new c)).
  destruct (pattern_write _ _ _ _ _ _ _ _ _ (Bundle m true) args fuel top p (scope_new c)) as [[o1 s1]|t1|],
           (pattern_write _ _ _ _ _ _ _ _ _ (Bundle m false) args fuel top p (scope_new c)) as [[o2 s2]|t2|];
    unfold RR, rel_out in Hpw; cbn [fst snd] in Hpw; try tauto.
  destruct Hpw as [[Hs _] HR]. destruct (Rs_fields rules _ _ HR) as (_ & _ & _ & _ & Ee & Ec).
  destruct (Bpw o2 s2 eq_refl) as [_ Hno]. rewrite Hs, (Hno eq_refl). auto.
Qed.

(* "Marks are balanced and properly nested": the tokens form a Dyck word over TFSI/TPDI *)
Theorem C09_balanced :
  forall iso fuel top p c o sc, write iso fuel top p c = Done (o, sc) -> balanced o.
Proof.
  intros iso fuel top p c o sc H.
  pose proof (out_all overflow_checks call_function transform formatter rules custom_as_string
                unescape_write unescape_to_string f64_from_str (Bundle m iso) args fuel) as (Bpw & _).
  apply (Bpw top p (scope_new c) o sc H).
Qed.

(* "each pair wraps exactly one interpolated value of a multi-element pattern": the output of
   Pattern::write is, element by element, the (transformed) text or the value v of the placeable —
   v = what Scope::maybe_track wrote for exactly that expression, itself balanced — and v is
   wrapped in exactly one TFSI … TPDI pair iff use_isolating && len > 1 && the expression is not a
   message/term reference or string literal (`loop_out`, ResolverIso.v).  `lo_stop` = the loop ended
   (no more elements, or the dirty flag was set). *)
Theorem C09_one_value :
  forall iso f k p sc o sc',
    pattern_write overflow_checks call_function transform formatter rules custom_as_string
      unescape_write unescape_to_string f64_from_str (Bundle m iso) args (S f) k p sc = Done (o, sc') ->
    loop_out overflow_checks call_function transform formatter rules custom_as_string
      unescape_write unescape_to_string f64_from_str (Bundle m iso) args f k p
      (length (pattern_elements p)) (pattern_elements p) o.
Proof.
  intros iso f k p sc o sc' H.
  pose proof (out_all overflow_checks call_function transform formatter rules custom_as_string
                unescape_write unescape_to_string f64_from_str (Bundle m iso) args f) as (_ & _ & _ & Bmt & _).
  eapply (pattern_loop_out overflow_checks call_function transform formatter rules custom_as_string
            unescape_write unescape_to_string f64_from_str (Bundle m iso) args f k p _ Bmt). exact H.
Qed.

(* "patterns with a single element get none": a one-element pattern writes its text, or the value
   of its placeable, with no mark of its own *)
Theorem C09_single :
  forall iso f k x sc o sc',
    pattern_write overflow_checks call_function transform formatter rules custom_as_string
      unescape_write unescape_to_string f64_from_str (Bundle m iso) args (S f) k (Pattern [x]) sc = Done (o, sc') ->
    o = [] \/
    match x with
    | TextElement value => o = [Txt (apply_transform transform value)]
    | PlaceableElement e =>
        exists sc0 sc1,
          maybe_track overflow_checks call_function transform formatter rules custom_as_string
            unescape_write unescape_to_string f64_from_str (Bundle m iso) args f k (Pattern [x]) e sc0 = Done (o, sc1)
    end.
Proof.
  intros iso f k x sc o sc' H. apply C09_one_value in H. cbn [pattern_elements length] in H.
  inversion H as [| value rest o' Hr | e rest v o' sc0 sc1 Hv Hb Hr]; subst; [left; reflexivity | |].
  - right. inversion Hr; subst. reflexivity.
  - right. inversion Hr; subst. unfold needs_isolation, wrap. cbn [Nat.ltb Nat.leb].
    rewrite Bool.andb_false_r. cbn. rewrite !app_nil_r. eauto.
Qed.

End C09.

(* ---------- non-vacuity and the excluded class ---------- *)
Definition ex_call (_ : bytes) (_ : list fvalue) (_ : fargs) : fvalue := VError.
Definition ex_rules (_ : ntype) (_ : operands) : pcat := OTHER.
Definition ex_id (s : bytes) : bytes := s.
Definition ex_write (m : list (bytes * bentry)) (iso : bool) (args : option fargs) (p : pattern) :=
  match write_pattern true ex_call None None ex_rules ex_id ex_id ex_id f64_from_str_exact (Bundle m iso) args
          (fuel_of (Bundle m iso) p) None p [] with
  | Done (o, sc) => Some (o, sc_errors sc)
  | _ => None
  end.
Definition s (x : string) : bytes := bytes_of_string x.

(* hello = Hello, { $name }!   with name = "World" *)
Example C09_example_hello :
  let p := Pattern [TextElement (s "Hello, "); PlaceableElement (Inline (VariableReference (s "name"))); TextElement (s "!")] in
  let a := Some [(s "name", VString (s "World"))] in
  ex_write [] true a p = Some ([Txt (s "Hello, "); TFSI; Txt (s "World"); TPDI; Txt (s "!")], []) /\
  ex_write [] false a p = Some ([Txt (s "Hello, "); Txt (s "World"); Txt (s "!")], []).
Proof. split; vm_compute; reflexivity. Qed.

(* D23:  -t = x
             .attr = a{ 1 }
         msg = { -t.attr ->
             [a1] MATCH
            *[other] DEFAULT }
   isolation off: the selector is "a1" and MATCH is chosen; isolation on: the selector is
   "a" FSI "1" PDI and DEFAULT is chosen.  So C09_strip is false without `ok_pattern`. *)
Example C09_strip_refuted_in_selector :
  let m := [(s "t", ETerm (Pattern [TextElement (s "x")])
                          [Attribute (s "attr") (Pattern [TextElement (s "a"); PlaceableElement (Inline (NumberLiteral (s "1")))])])] in
  let p := Pattern [PlaceableElement (Select (TermReference (s "t") (Some (s "attr")) None)
                      [Variant (KeyIdentifier (s "a1")) (Pattern [TextElement (s "MATCH")]) false;
                       Variant (KeyIdentifier (s "other")) (Pattern [TextElement (s "DEFAULT")]) true])] in
  ex_write m true None p = Some ([Txt (s "DEFAULT")], []) /\
  ex_write m false None p = Some ([Txt (s "MATCH")], []) /\
  ok_pattern p = false.
Proof. repeat split; vm_compute; reflexivity. Qed.

(* Props/C11.v — FluentArgs is a map: last write wins, lookup finds every key.
   Only statements here; proofs are in Bundle/ArgsProofs.v.
   "any sequence of set operations" = a write list kvs; the state reached is `from_iter kvs`
   (FluentArgs::set in a loop: what from_iter, fluent_args! and manual calls all do);
   get/iter do not change the state.  Values are an arbitrary type V (the code never looks
   inside a value).                                                                          *)
From FluentV Require Import Base.Bytes Base.Outcome Bundle.Args Bundle.ArgsProofs.
From Coq Require Import Sorting.Sorted.

(* set never panics, from any state *)
Theorem C11_set_total : forall V (a : args V) k v, exists a', set V a k v = Done a'.
Proof. exact set_total. Qed.

(* every reachable state is strictly sorted by key: the precondition of the binary search *)
Theorem C11_sorted : forall V kvs (a : args V),
  from_iter V kvs = Done a -> StronglySorted (fun x y => bytes_lt (fst x) (fst y)) a.
Proof. exact from_iter_sorted. Qed.

(* get returns the most recent write of the key, and nothing for a key never set *)
Theorem C11_last_write_wins : forall V kvs k,
  exists a : args V, from_iter V kvs = Done a /\ get V a k = Done (last_write V kvs k).
Proof.
  intros V kvs k. destruct (from_iter_total V kvs) as [a Ha].
  exists a. split; [exact Ha | apply get_after_writes, Ha].
Qed.

(* one step: set k v makes get k = v and changes no other key — from ANY state *)
Theorem C11_get_set : forall V (a a' : args V) k v,
  set V a k v = Done a' ->
  get V a' k = Done (Some v) /\ forall k2, k2 <> k -> get V a' k2 = get V a k2.
Proof.
  intros V a a' k v H. split; [eapply get_set_same, H | intros k2 Hne; eapply get_set_other; eassumption].
Qed.

(* iteration yields every key exactly once, with its last-written value *)
Theorem C11_iter_once : forall V kvs (a : args V),
  from_iter V kvs = Done a ->
  NoDup (map fst (iter V a)) /\
  (forall k, In k (map fst (iter V a)) <-> In k (map fst kvs)) /\
  (forall k v, In (k, v) (iter V a) <-> last_write V kvs k = Some v).
Proof. exact iter_once. Qed.

(* non-vacuity: a write list with a duplicate, an empty and a non-ASCII key *)
Example C11_example :
  let kvs := [([110;97]%N, 1%Z); ([]%N, 2%Z); ([195;169]%N, 3%Z); ([110;97]%N, 4%Z)] in
  exists a, from_iter Z kvs = Done a /\
    get Z a [110;97]%N = Done (Some 4%Z) /\ get Z a []%N = Done (Some 2%Z) /\
    get Z a [110]%N = Done None /\ length (iter Z a) = 3.
Proof. eexists. repeat split; vm_compute; reflexivity. Qed.

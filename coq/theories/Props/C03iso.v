(* Props/C03iso.v — property C03, containment half: "damaging one entry of a well-formed resource
   leaves every other message and term parsed exactly as before", and "an entry that breaks a
   documented syntax rule is never admitted".  Model: Syntax/ParserModel.v; proofs:
   Syntax/ParserIsolation.v (suffix independence, entries after, violations) and Syntax/ParserPrefix.v
   (entries before).  (The accounting half is Props/C03.v.)

   All statements are for EVERY byte string.  The only side conditions are
     * `head_noncont s`: the suffix s does not begin with a UTF-8 continuation byte (always true of a
       suffix of a Rust `str` cut at a line start).  Without it the model of the longer string panics
       where Rust's `&source[a..b]` would (slice off a char boundary) while the suffix alone is fine;
     * `ends_nl pre`: the prefix is empty or ends with '\n', i.e. the cut is at a line start (needed for
       the entry loops only: scan_to_next_entry_start looks at the byte before the cursor).
   Positions of the longer string are positions of the suffix shifted by `length pre`:
   `sh_res d f r` shifts the ptr, the error positions and the error slice of a result by d and maps
   the value by f (f shifts positions stored in values; trees carry no positions).                  *)
From FluentV Require Import Syntax.ParserModel Syntax.RuntimeAgree Syntax.ParserIsolation Syntax.ParserPrefix.
From Coq Require Import List.
Import ListNotations.

(* ---------------------------------------------------------------------------------------------- *)
(* 1. suffix independence: what the parser does from position p on depends only on the bytes from  *)
(*    p on.  bs1 = pre ++ s; the run on bs1 from p + |pre| is the run on s from p, shifted.        *)
(* ---------------------------------------------------------------------------------------------- *)

(* the recursive knot: get_pattern, pattern_loop, get_placeable, get_expression, get_variants,
   variants_loop, get_inline_expression, string_loop, get_call_arguments, args_loop, at every fuel;
   `knot_sim pre s bs1 n` is the conjunction of  f bs1 n args (p + |pre|) = sh_res |pre| sh (f s n args p)
   over these ten functions (pattern_loop: the stored text-slice positions of the state are shifted) *)
Theorem C03_suffix_independence_knot : forall pre s n,
  head_noncont s -> knot_sim pre s (pre ++ s) n.
Proof. exact suffix_independence_knot. Qed.

Theorem C03_suffix_independence_get_entry : forall pre s n es p,
  head_noncont s ->
  get_entry (pre ++ s) n (es + length pre) (p + length pre) =
  sh_res (length pre) (fun x => x) (get_entry s n es p).
Proof. exact suffix_independence_get_entry. Qed.

Theorem C03_suffix_independence_get_entry_runtime : forall pre s n es p,
  head_noncont s ->
  get_entry_runtime (pre ++ s) n (es + length pre) (p + length pre) =
  sh_res (length pre) (fun x => x) (get_entry_runtime s n es p).
Proof. exact suffix_independence_get_entry_runtime. Qed.

(* junk recovery (rewinds to the last '\n' of the failed entry, scans for the next entry start) *)
Theorem C03_suffix_independence_recover : forall pre s es err p,
  head_noncont s -> (s <> [] -> ends_nl pre) ->
  recover (pre ++ s) (es + length pre) (sh_err (length pre) err) (p + length pre) =
  sh_res (length pre) (sh_ej pre) (recover s es err p).
Proof. exact suffix_independence_recover. Qed.

(* the two entry loops, started at a loop head: same entries, errors shifted *)
Theorem C03_suffix_independence_parse_loop : forall pre s n body errors lc cnt p,
  head_noncont s -> (s <> [] -> ends_nl pre) ->
  parse_loop (pre ++ s) n body (map (sh_err (length pre)) errors) lc cnt (p + length pre) =
  sh_res (length pre) (sh_out (length pre)) (parse_loop s n body errors lc cnt p).
Proof. exact suffix_independence_parse_loop. Qed.

Theorem C03_suffix_independence_parse_runtime_loop : forall pre s n body errors p,
  head_noncont s -> (s <> [] -> ends_nl pre) ->
  parse_runtime_loop (pre ++ s) n body (map (sh_err (length pre)) errors) (p + length pre) =
  sh_res (length pre) (sh_out (length pre)) (parse_runtime_loop s n body errors p).
Proof. exact suffix_independence_parse_runtime_loop. Qed.

(* two different prefixes: both runs are the same run r0 (the run of the suffix alone), shifted *)
Theorem C03_suffix_independence : forall pre1 pre2 s n lc cnt p,
  head_noncont s -> ends_nl pre1 -> ends_nl pre2 ->
  exists r0,
    parse_loop (pre1 ++ s) n [] [] lc cnt (p + length pre1) = sh_res (length pre1) (sh_out (length pre1)) r0 /\
    parse_loop (pre2 ++ s) n [] [] lc cnt (p + length pre2) = sh_res (length pre2) (sh_out (length pre2)) r0.
Proof. exact suffix_independence. Qed.

(* ---------------------------------------------------------------------------------------------- *)
(* 2. the entries after the damaged one.                                                           *)
(*    `loop_heads bs` (executable) lists the ptr values at the heads of the entry loop of parse bs; *)
(*    `at_head bs q front ef lc cnt`: the loop is at a head with ptr q having pushed the entries    *)
(*    `front` and the errors `ef`, with comment `lc` pending and `cnt` blank lines after it.        *)
(*    If both resources pre ++ mid_i ++ post have a loop head exactly where post begins, then       *)
(*      body_i   = front_i ++ with_pending lc_i cnt_i tail                                          *)
(*      errors_i = ef_i ++ (et shifted by |pre ++ mid_i|)                                           *)
(*    with the SAME tail and et, which are what `parse post` returns.  `with_pending` is the only   *)
(*    interaction: a comment that ends mid_i is attached to the first entry of post when that is a  *)
(*    message/term and fewer than two blank lines separate them, and is a standalone comment        *)
(*    otherwise; with comments stripped (mts) and for Junk there is no exception.                   *)
(* ---------------------------------------------------------------------------------------------- *)
Theorem C03_entries_after_unchanged : forall pre mid1 mid2 post b1 e1 b2 e2,
  head_noncont post ->
  parse (pre ++ mid1 ++ post) = Done (b1, e1) -> parse (pre ++ mid2 ++ post) = Done (b2, e2) ->
  In (length (pre ++ mid1)) (loop_heads (pre ++ mid1 ++ post)) ->
  In (length (pre ++ mid2)) (loop_heads (pre ++ mid2 ++ post)) ->
  exists front1 ef1 lc1 cnt1 front2 ef2 lc2 cnt2 tail et,
    at_head (pre ++ mid1 ++ post) (length (pre ++ mid1)) front1 ef1 lc1 cnt1 /\
    at_head (pre ++ mid2 ++ post) (length (pre ++ mid2)) front2 ef2 lc2 cnt2 /\
    b1 = front1 ++ with_pending lc1 cnt1 tail /\ e1 = ef1 ++ map (sh_err (length (pre ++ mid1))) et /\
    b2 = front2 ++ with_pending lc2 cnt2 tail /\ e2 = ef2 ++ map (sh_err (length (pre ++ mid2))) et /\
    mts b1 = mts front1 ++ mts tail /\ mts b2 = mts front2 ++ mts tail /\
    junks b1 = junks front1 ++ junks tail /\ junks b2 = junks front2 ++ junks tail /\
    (forall r, parse post = Done r -> r = (tail, et)).
Proof. exact entries_after_unchanged. Qed.

(* the same, from the loop-head states *)
Theorem C03_entries_after_head : forall pre1 pre2 post front1 ef1 lc1 cnt1 front2 ef2 lc2 cnt2 b1 e1 b2 e2,
  head_noncont post ->
  at_head (pre1 ++ post) (length pre1) front1 ef1 lc1 cnt1 ->
  at_head (pre2 ++ post) (length pre2) front2 ef2 lc2 cnt2 ->
  parse (pre1 ++ post) = Done (b1, e1) -> parse (pre2 ++ post) = Done (b2, e2) ->
  exists tail et,
    b1 = front1 ++ with_pending lc1 cnt1 tail /\ e1 = ef1 ++ map (sh_err (length pre1)) et /\
    b2 = front2 ++ with_pending lc2 cnt2 tail /\ e2 = ef2 ++ map (sh_err (length pre2)) et /\
    (forall r, parse post = Done r -> r = (tail, et)).
Proof. exact entries_after_head. Qed.

(* membership in the executable list gives a loop-head state *)
Theorem C03_loop_heads_sound : forall bs q,
  In q (loop_heads bs) -> exists front ef lc cnt, at_head bs q front ef lc cnt.
Proof. exact loop_heads_at_head. Qed.

(* ---------------------------------------------------------------------------------------------- *)
(* 3. the entries before the damaged one.                                                          *)
(*    `starts_e l`: l begins with an ASCII letter or '-' (a message or term in column 0).           *)
(*    If the loop of parse (pre ++ post1) reaches a head exactly where post1 begins, WITH NO ERROR  *)
(*    SO FAR (ef = []), and post1, post2 both begin like a message or term, then the loop of        *)
(*    parse (pre ++ post2) reaches a head at the same place in the same state: same entries in      *)
(*    front, same pending comment, same blank count, no error.  That the place is a loop head in    *)
(*    the second run is a conclusion.  The hypothesis "no error so far" cannot be dropped for the   *)
(*    error list (C03_errors_before_may_differ below); a message followed by a broken attribute     *)
(*    line (Junk) shows that the TREE in front can also depend on what follows once there is Junk   *)
(*    (C03_example_attribute_retraction).                                                           *)
(* ---------------------------------------------------------------------------------------------- *)
Theorem C03_entries_before_unchanged : forall pre post1 post2 front lc cnt b2 e2,
  starts_e post1 -> starts_e post2 ->
  at_head (pre ++ post1) (length pre) front [] lc cnt ->
  parse (pre ++ post2) = Done (b2, e2) ->
  at_head (pre ++ post2) (length pre) front [] lc cnt.
Proof. exact entries_before_unchanged. Qed.

(* the sentence of the property.  E: an entry; D: E damaged; pre: error free up to the head where E
   begins; `post`: the rest, beginning at a loop head in both parses.  The messages and terms
   (comments stripped) in front of the span and after it are the same in both parses: `mts front`
   and `mts tail`, where (tail, et) is what `parse post` returns. *)
Theorem C03_containment : forall pre E D post front lc cnt bE eE bD eD,
  E <> [] -> D <> [] -> starts_e (E ++ post) -> starts_e (D ++ post) -> head_noncont post ->
  parse (pre ++ E ++ post) = Done (bE, eE) -> parse (pre ++ D ++ post) = Done (bD, eD) ->
  at_head (pre ++ E ++ post) (length pre) front [] lc cnt ->
  In (length (pre ++ E)) (loop_heads (pre ++ E ++ post)) ->
  In (length (pre ++ D)) (loop_heads (pre ++ D ++ post)) ->
  exists midE midD tail et,
    mts bE = mts front ++ midE ++ mts tail /\
    mts bD = mts front ++ midD ++ mts tail /\
    at_head (pre ++ D ++ post) (length pre) front [] lc cnt /\
    (forall r, parse post = Done r -> r = (tail, et)).
Proof. exact containment. Qed.

(* for a well-formed resource (parse reports no error), with executable hypotheses only *)
Theorem C03_containment_wellformed : forall pre E D post bE bD eD,
  E <> [] -> D <> [] -> starts_e (E ++ post) -> starts_e (D ++ post) -> head_noncont post ->
  parse (pre ++ E ++ post) = Done (bE, []) -> parse (pre ++ D ++ post) = Done (bD, eD) ->
  In (length pre) (loop_heads (pre ++ E ++ post)) ->
  In (length (pre ++ E)) (loop_heads (pre ++ E ++ post)) ->
  In (length (pre ++ D)) (loop_heads (pre ++ D ++ post)) ->
  exists front midE midD tail et,
    mts bE = mts front ++ midE ++ mts tail /\
    mts bD = mts front ++ midD ++ mts tail /\
    In (length pre) (loop_heads (pre ++ E ++ post)) /\
    (exists lc cnt, at_head (pre ++ D ++ post) (length pre) front [] lc cnt) /\
    (forall r, parse post = Done r -> r = (tail, et)).
Proof. exact containment_wellformed. Qed.

(* heads of one run: a later head extends an earlier one *)
Theorem C03_heads_extend : forall bs p front ef lc cnt p' front' ef' lc' cnt',
  at_head bs p front ef lc cnt -> at_head bs p' front' ef' lc' cnt' -> p < p' ->
  exists mid, mts front' = mts front ++ mid.
Proof. exact at_head_ext. Qed.

(* ---------------------------------------------------------------------------------------------- *)
(* 4. "an entry that breaks a documented syntax rule is never admitted": where the rule is broken   *)
(*    the parsing function returns Err, for every input and every surrounding state; an Err of      *)
(*    get_entry becomes a Junk and an error of the same kind (C03_entry_error_is_junk).             *)
(* ---------------------------------------------------------------------------------------------- *)
Theorem C03_violation_multiple_default : forall bs n acc p, is_byte_at bs 42 p = true ->
  variants_loop bs (S n) acc true p = Err (PError MultipleDefaultVariants (S p) (S (S p)) None) (S p).
Proof. exact violation_multiple_default. Qed.

Theorem C03_violation_missing_default : forall bs n acc p,
  is_byte_at bs 42 p = false -> is_byte_at bs 91 p = false ->
  variants_loop bs (S n) acc false p = Err (PError MissingDefaultVariant p (S p) None) p.
Proof. exact violation_missing_default. Qed.

Theorem C03_violation_message_reference_as_selector : forall bs n p id p1,
  get_inline_expression bs n false p = Ok (MessageReference id None) p1 ->
  is_byte_at bs 45 (after_blank bs p1) = true -> is_byte_at bs 62 (S (after_blank bs p1)) = true ->
  get_expression bs (S n) p =
  Err (PError MessageReferenceAsSelector (after_blank bs p1) (S (after_blank bs p1)) None) (after_blank bs p1).
Proof. exact violation_message_reference_as_selector. Qed.

Theorem C03_violation_message_attribute_as_selector : forall bs n p id at_ p1,
  get_inline_expression bs n false p = Ok (MessageReference id (Some at_)) p1 ->
  is_byte_at bs 45 (after_blank bs p1) = true -> is_byte_at bs 62 (S (after_blank bs p1)) = true ->
  get_expression bs (S n) p =
  Err (PError MessageAttributeAsSelector (after_blank bs p1) (S (after_blank bs p1)) None) (after_blank bs p1).
Proof. exact violation_message_attribute_as_selector. Qed.

Theorem C03_violation_term_reference_as_selector : forall bs n p id a p1,
  get_inline_expression bs n false p = Ok (TermReference id None a) p1 ->
  is_byte_at bs 45 (after_blank bs p1) = true -> is_byte_at bs 62 (S (after_blank bs p1)) = true ->
  get_expression bs (S n) p =
  Err (PError TermReferenceAsSelector (after_blank bs p1) (S (after_blank bs p1)) None) (after_blank bs p1).
Proof. exact violation_term_reference_as_selector. Qed.

Theorem C03_violation_term_attribute_as_placeable : forall bs n p id at_ a p1,
  get_inline_expression bs n false p = Ok (TermReference id (Some at_) a) p1 ->
  (is_byte_at bs 45 (after_blank bs p1) && is_byte_at bs 62 (S (after_blank bs p1)))%bool = false ->
  get_expression bs (S n) p =
  Err (PError TermAttributeAsPlaceable (after_blank bs p1) (S (after_blank bs p1)) None) (after_blank bs p1).
Proof. exact violation_term_attribute_as_placeable. Qed.

Theorem C03_violation_positional_after_named : forall bs n positional named nm names p expr p1,
  p < length_ bs -> is_byte_at bs 41 p = false ->
  get_inline_expression bs n false p = Ok expr p1 ->
  (forall id, expr = MessageReference id None -> is_byte_at bs 58 (after_blank bs p1) = false) ->
  exists q, args_loop bs (S n) positional named (nm :: names) p =
            Err (PError PositionalArgumentFollowsNamed q (S q) None) q.
Proof. exact violation_positional_after_named. Qed.

Theorem C03_violation_duplicate_named : forall bs n positional named names p id p1,
  p < length_ bs -> is_byte_at bs 41 p = false ->
  get_inline_expression bs n false p = Ok (MessageReference id None) p1 ->
  is_byte_at bs 58 (after_blank bs p1) = true -> has_name names id = true ->
  args_loop bs (S n) positional named names p =
  Err (PError (DuplicatedNamedArgument id) (after_blank bs p1) (S (after_blank bs p1)) None) (after_blank bs p1).
Proof. exact violation_duplicate_named. Qed.

Theorem C03_violation_forbidden_callee : forall bs n p b id p1 args p2,
  byte_at bs p = Some b -> is_ascii_alphabetic b = true ->
  get_identifier_unchecked bs (S p) = Ok id p1 -> get_call_arguments bs n p1 = Ok (Some args) p2 ->
  is_callee id = false ->
  get_inline_expression bs (S n) false p = Err (PError ForbiddenCallee p2 (S p2) None) p2.
Proof. exact violation_forbidden_callee. Qed.

(* the value of a named argument is a literal: anything else (message/function/variable reference, placeable) is rejected *)
Theorem C03_violation_named_argument_not_literal : forall bs n p b,
  byte_at bs p = Some b -> N.eqb b 34 = false -> is_ascii_digit b = false -> N.eqb b 45 = false ->
  get_inline_expression bs (S n) true p = Err (PError ExpectedLiteral p (S p) None) p.
Proof. exact violation_named_argument_not_literal. Qed.

Theorem C03_violation_unterminated_string : forall bs n p, byte_at bs p = Some c_lf ->
  string_loop bs (S n) p = Err (PError UnterminatedStringLiteral p (S p) None) p.
Proof. exact violation_unterminated_string. Qed.

Theorem C03_violation_bad_escape : forall bs n p c,
  byte_at bs p = Some 92%N -> byte_at bs (S p) = Some c ->
  (N.eqb c 92 || N.eqb c 123 || N.eqb c 34)%bool = false -> N.eqb c 117 = false -> N.eqb c 85 = false ->
  string_loop bs (S n) p = Err (PError (UnknownEscapeSequence (u8_to_string c)) p (S p) None) p.
Proof. exact violation_bad_escape. Qed.

Theorem C03_violation_unbalanced_brace : forall bs p i, p <= length_ bs ->
  memchr3 (rest bs p) = Some i -> nth_error (rest bs p) i = Some 125%N ->
  get_text_slice bs p = Err (PError UnbalancedClosingBrace (i + p) (S (i + p)) None) (i + p).
Proof. exact violation_unbalanced_brace. Qed.

Theorem C03_violation_message_without_value : forall bs n es p id p1 k p2 p3 p4 c p5 p6,
  get_identifier bs p = Ok id p1 -> skip_blank_inline bs p1 = Ok k p2 -> expect_byte bs 61 p2 = Ok tt p3 ->
  get_pattern bs n p3 = Ok None p4 -> skip_blank_block bs p4 = Ok c p5 -> get_attributes bs n [] p5 = Ok [] p6 ->
  get_message bs n es p = Err (PError (ExpectedMessageField id) es p6 None) p6.
Proof. exact violation_message_without_value. Qed.

Theorem C03_violation_missing_variant_value : forall bs n acc hd p dflt p1 key p2 p3,
  take_byte_if bs 42 p = Ok dflt p1 -> (dflt && hd = false)%bool -> is_byte_at bs 91 p1 = true ->
  get_variant_key bs (S p1) = Ok key p2 -> get_pattern bs n p2 = Ok None p3 ->
  variants_loop bs (S n) acc hd p = Err (PError MissingValue p3 (S p3) None) p3.
Proof. exact violation_missing_variant_value. Qed.

Theorem C03_violation_bad_unicode_escape : forall bs n p k, byte_at bs p = Some 92%N ->
  (byte_at bs (S p) = Some 117%N /\ k = 4) \/ (byte_at bs (S p) = Some 85%N /\ k = 6) ->
  scan_while is_ascii_hexdigit (rest bs (S (S p))) < k ->
  match string_loop bs (S n) p with
  | Err e _ => exists seq, kind e = InvalidUnicodeEscapeSequence seq
  | Pan _ => True          (* the slice for the message is cut off a char boundary: not on valid UTF-8 *)
  | _ => False
  end.
Proof. exact violation_bad_unicode_escape. Qed.

Theorem C03_violation_term_without_value : forall bs n es p p0 id p1 k p2 p3 k' p3' p4 c p5 attrs p6,
  expect_byte bs 45 p = Ok tt p0 ->
  get_identifier bs p0 = Ok id p1 -> skip_blank_inline bs p1 = Ok k p2 -> expect_byte bs 61 p2 = Ok tt p3 ->
  skip_blank_inline bs p3 = Ok k' p3' ->
  get_pattern bs n p3' = Ok None p4 -> skip_blank_block bs p4 = Ok c p5 -> get_attributes bs n [] p5 = Ok attrs p6 ->
  get_term bs n es p = Err (PError (ExpectedTermField id) es p6 None) p6.
Proof. exact violation_term_without_value. Qed.

(* whatever makes get_entry fail: the loop pushes a Junk (after flushing a pending comment) and an
   error of the same kind; the failed entry is not in the tree as a message or term *)
Theorem C03_entry_error_is_junk : forall bs n body errors lc cnt p err p1 res qf,
  p < length_ bs -> get_entry bs n p p = Err err p1 ->
  parse_loop bs (S n) body errors lc cnt p = Ok res qf ->
  exists e' content rest_b rest_e,
    fst res = rev (flush lc body) ++ Junk content :: rest_b /\ snd res = rev errors ++ e' :: rest_e /\
    kind e' = kind err.
Proof. exact entry_error_is_junk. Qed.

(* ---------------------------------------------------------------------------------------------- *)
(* non-vacuity witnesses                                                                           *)
(* ---------------------------------------------------------------------------------------------- *)
Definition nl : bytes := [10%N].
Definition ex_post : bytes := bytes_of_string "b = x" ++ nl ++ bytes_of_string "c = y" ++ nl.
Definition ex_bad : bytes := bytes_of_string "a = { FUN(" ++ nl.
Definition ex_good : bytes := bytes_of_string "a = ok" ++ nl.
Definition msg (id v : string) (c : option comment) : entry :=
  Message (bytes_of_string id) (Some (Pattern [TextElement (bytes_of_string v)])) [] c.

(* "a = { FUN(\nb = x\nc = y\n" vs "a = ok\nb = x\nc = y\n": both have a loop head where "b = x" begins
   (11 resp. 7), the entries b, c are identical and equal to parse "b = x\nc = y\n" *)
Example C03_example_witness :
  parse ([] ++ ex_bad ++ ex_post) =
    Done ([Junk ex_bad; msg "b" "x" None; msg "c" "y" None],
          [PError ExpectedInlineExpression 10 11 (Some (0, 11))]) /\
  parse ([] ++ ex_good ++ ex_post) = Done ([msg "a" "ok" None; msg "b" "x" None; msg "c" "y" None], []) /\
  parse ex_post = Done ([msg "b" "x" None; msg "c" "y" None], []) /\
  loop_heads ([] ++ ex_bad ++ ex_post) = [0; 11; 17; 23] /\ length ([] ++ ex_bad) = 11 /\
  loop_heads ([] ++ ex_good ++ ex_post) = [0; 7; 13; 19] /\ length ([] ++ ex_good) = 7 /\
  head_noncont ex_post.
Proof. vm_compute. repeat split; reflexivity. Qed.

(* a comment inside post is attached to the first entry after the damaged one in both resources *)
Definition ex_post_c : bytes := bytes_of_string "# note" ++ nl ++ bytes_of_string "b = x" ++ nl.
Definition note : comment := Comment [bytes_of_string "note"].
Example C03_example_comment_after_damage :
  parse (ex_bad ++ ex_post_c) =
    Done ([Junk ex_bad; msg "b" "x" (Some note)], [PError ExpectedInlineExpression 10 11 (Some (0, 11))]) /\
  parse (ex_good ++ ex_post_c) = Done ([msg "a" "ok" None; msg "b" "x" (Some note)], []) /\
  parse ex_post_c = Done ([msg "b" "x" (Some note)], []) /\
  loop_heads (ex_bad ++ ex_post_c) = [0; 11; 18; 24] /\ loop_heads (ex_good ++ ex_post_c) = [0; 7; 14; 20].
Proof. vm_compute. repeat split; reflexivity. Qed.

(* the exception, exactly: the damaged entry is a COMMENT that was pending at the head where post
   begins.  "# note\nb = x\n" attaches the comment to b (with_pending (Some note) 0); damaging the comment
   ("#note": no space) turns it into Junk and b has no comment.  Stripped of comments b is the same. *)
Definition ex_post_b : bytes := bytes_of_string "b = x" ++ nl.
Example C03_example_pending_comment :
  parse ((bytes_of_string "# note" ++ nl) ++ ex_post_b) = Done ([msg "b" "x" (Some note)], []) /\
  parse ((bytes_of_string "#note" ++ nl) ++ ex_post_b) =
    Done ([Junk (bytes_of_string "#note" ++ nl); msg "b" "x" None], [PError (ExpectedToken 32) 1 2 (Some (0, 6))]) /\
  parse ex_post_b = Done ([msg "b" "x" None], []) /\
  with_pending (Some note) 0 [msg "b" "x" None] = [msg "b" "x" (Some note)] /\
  loop_heads ((bytes_of_string "# note" ++ nl) ++ ex_post_b) = [0; 7; 13] /\
  loop_heads ((bytes_of_string "#note" ++ nl) ++ ex_post_b) = [0; 6; 12].
Proof. vm_compute. repeat split; reflexivity. Qed.


(* the hypothesis "no error before q" of C03_entries_before_unchanged is needed for the error list:
   pre = "a = {$x\n" ends in a Junk in both runs, 8 = |pre| is a loop head in both, both continuations
   begin with '-', the Junk text is the same, but the error KIND recorded for it depends on what follows
   (the placeable looks ahead: "-b" is not "->", so '}' is expected; "->x" is a selector without variants) *)
Definition ex_pre_junk : bytes := bytes_of_string "a = {$x" ++ nl.
Example C03_errors_before_may_differ :
  omap (fun r => (loop_heads (ex_pre_junk ++ bytes_of_string "-b = y" ++ nl), hd (Junk []) (fst r), map kind (snd r)))
       (parse (ex_pre_junk ++ bytes_of_string "-b = y" ++ nl)) =
    Done ([0; 8; 15], Junk ex_pre_junk, [ExpectedToken 125]) /\
  omap (fun r => (loop_heads (ex_pre_junk ++ bytes_of_string "->x" ++ nl), hd (Junk []) (fst r), hd_error (map kind (snd r))))
       (parse (ex_pre_junk ++ bytes_of_string "->x" ++ nl)) =
    Done ([0; 8; 12], Junk ex_pre_junk, Some (ExpectedCharRange [10; 32; 124; 32; 13; 10]%N)).
Proof. vm_compute. split; reflexivity. Qed.

(* with Junk in front, the TREE in front can depend on what follows as well: " .b = {" is Junk when the
   next line is "c = z" (message a has no attribute) but a valid attribute of a when it is "c}" *)
Definition ex_pre_attr : bytes := bytes_of_string "a = x" ++ nl ++ bytes_of_string " .b = {" ++ nl.
Example C03_example_attribute_retraction :
  omap (fun r => (length (fst r), length (snd r))) (parse (ex_pre_attr ++ bytes_of_string "c = z" ++ nl)) = Done (3, 1) /\
  omap (fun r => (length (fst r), length (snd r))) (parse (ex_pre_attr ++ bytes_of_string "c}" ++ nl)) = Done (1, 0) /\
  loop_heads (ex_pre_attr ++ bytes_of_string "c = z" ++ nl) = [0; 6; 14; 20] /\
  loop_heads (ex_pre_attr ++ bytes_of_string "c}" ++ nl) = [0; 17].
Proof. vm_compute. repeat split; reflexivity. Qed.

(* an instance of C03_containment_wellformed: pre = "z = w\n# note\n", E = "a = ok\n", D = "a = { FUN(\n" *)
Definition ex_pre : bytes := bytes_of_string "z = w" ++ nl ++ nl ++ bytes_of_string "## group" ++ nl.
Example C03_example_containment :
  parse (ex_pre ++ ex_good ++ ex_post) =
    Done ([msg "z" "w" None; GroupComment (Comment [bytes_of_string "group"]);
           msg "a" "ok" None; msg "b" "x" None; msg "c" "y" None], []) /\
  omap (fun r => (mts (fst r), length (snd r))) (parse (ex_pre ++ ex_bad ++ ex_post)) =
    Done ([msg "z" "w" None; msg "b" "x" None; msg "c" "y" None], 1) /\
  loop_heads (ex_pre ++ ex_good ++ ex_post) = [0; 7; 16; 23; 29; 35] /\
  loop_heads (ex_pre ++ ex_bad ++ ex_post) = [0; 7; 16; 27; 33; 39] /\
  length ex_pre = 16 /\ length (ex_pre ++ ex_good) = 23 /\ length (ex_pre ++ ex_bad) = 27.
Proof. vm_compute. repeat split; reflexivity. Qed.

(* every documented violation, end to end (the source is the lines joined by '\n', plus a final '\n'):
   exactly one Junk and one error, no message or term admitted *)
Definition rejected (lines : list string) : bool :=
  match parse (bytes_of_string (String.concat (String "010" EmptyString) lines) ++ nl) with
  | Done ([Junk _], [_]) => true
  | _ => false
  end.
Local Open Scope string_scope.
Example C03_example_violations_rejected :
  forallb rejected
    [ ["a = { $x ->"; " [one] 1"; "}"]                        (* no default variant *)
    ; ["a = { $x ->"; " *[one] 1"; " *[two] 2"; "}"]          (* duplicate default variant *)
    ; ["a = { msg ->"; " *[one] 1"; "}"]                      (* message reference as selector *)
    ; ["a = { -term ->"; " *[one] 1"; "}"]                    (* term reference as selector *)
    ; ["a = { -term.attr }"]                                  (* term attribute as placeable *)
    ; ["a = { FUN(x: 1, 2) }"]                                (* positional after named argument *)
    ; ["a = { FUN(x: 1, x: 2) }"]                             (* duplicate named argument *)
    ; ["a = { fun(1) }"]                                      (* lower-case callee *)
    ; ["a = { ""\q"" }"]                                      (* bad escape *)
    ; ["a = { ""abc }"]                                       (* unterminated string *)
    ; ["a = }"]                                               (* unbalanced brace *)
    ; ["a = { $x"]                                            (* unbalanced brace (open) *)
    ; ["a ="]                                                 (* missing value *)
    ; ["-t ="]                                                (* missing value (term) *)
    ]%list = true.
Proof. vm_compute. reflexivity. Qed.
Local Close Scope string_scope.

Print Assumptions C03_suffix_independence_knot.
Print Assumptions C03_suffix_independence_get_entry.
Print Assumptions C03_suffix_independence_get_entry_runtime.
Print Assumptions C03_suffix_independence_recover.
Print Assumptions C03_suffix_independence_parse_loop.
Print Assumptions C03_suffix_independence_parse_runtime_loop.
Print Assumptions C03_suffix_independence.
Print Assumptions C03_entries_after_unchanged.
Print Assumptions C03_entries_after_head.
Print Assumptions C03_loop_heads_sound.
Print Assumptions C03_entries_before_unchanged.
Print Assumptions C03_containment.
Print Assumptions C03_containment_wellformed.
Print Assumptions C03_heads_extend.
Print Assumptions C03_violation_multiple_default.
Print Assumptions C03_violation_missing_default.
Print Assumptions C03_violation_message_reference_as_selector.
Print Assumptions C03_violation_message_attribute_as_selector.
Print Assumptions C03_violation_term_reference_as_selector.
Print Assumptions C03_violation_term_attribute_as_placeable.
Print Assumptions C03_violation_positional_after_named.
Print Assumptions C03_violation_duplicate_named.
Print Assumptions C03_violation_forbidden_callee.
Print Assumptions C03_violation_named_argument_not_literal.
Print Assumptions C03_violation_unterminated_string.
Print Assumptions C03_violation_bad_escape.
Print Assumptions C03_violation_unbalanced_brace.
Print Assumptions C03_violation_message_without_value.
Print Assumptions C03_violation_missing_variant_value.
Print Assumptions C03_violation_bad_unicode_escape.
Print Assumptions C03_violation_term_without_value.
Print Assumptions C03_entry_error_is_junk.

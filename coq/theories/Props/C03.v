(* Props/C03.v — property C03, accounting half: "Syntax errors are contained: Junk accounting and
   per-entry recovery".  Model: Syntax/ParserModel.v (parse / parse_runtime); proofs:
   Syntax/ParserAccounting.v.

   Everything is stated for EVERY byte string `bs` on which the model returns (`= Done`): no UTF-8
   validity hypothesis and no fuel hypothesis is used (that the model always returns on valid UTF-8
   is C01 / ParserTotal.v, not needed here).  The definitions below are restated in full so that the
   statements can be read here; they are convertible with the ones used in ParserAccounting.v.

   The containment half of C03 (damaging one entry leaves the others as before) is checked on the
   implementation by props/C03.py; it is not claimed here.                                        *)
From FluentV Require Import Syntax.ParserModel.
From FluentV Require Syntax.ParserAccounting.

(* the contents of the Junk entries of a resource body, in order *)
Fixpoint junks (body : list entry) : list bytes :=
  match body with
  | [] => []
  | Junk c :: r => c :: junks r
  | _ :: r => junks r
  end.

Definition is_junk (e : entry) : bool := match e with Junk _ => true | _ => false end.

(* offset a is at the start of a line *)
Definition line_start (bs : bytes) (a : nat) : Prop := a = 0 \/ nth_error bs (a - 1) = Some 10%N.

(* a byte that can begin an entry: ASCII letter, '-' or '#' (helper.rs scan_to_next_entry_start) *)
Definition entry_char (b : N) : bool := is_ascii_alphabetic b || N.eqb b 45 || N.eqb b 35.

(* offset b is where a following entry begins: just after a '\n', on an entry_char byte *)
Definition entry_line_start (bs : bytes) (b : nat) : Prop :=
  0 < b /\ nth_error bs (b - 1) = Some 10%N /\
  exists c, nth_error bs b = Some c /\ entry_char c = true.

(* Junk `content` is accounted for by error `e` *)
Definition junk_matches (bs : bytes) (content : bytes) (e : perror) : Prop :=
  exists a b,
    eslice e = Some (a, b) /\                        (* the error carries a slice range a..b            *)
    slice bs a b = Done content /\                   (* the Junk is exactly &source[a..b] (char bounds) *)
    a < b <= length bs /\                            (* non-empty, in range                             *)
    line_start bs a /\                               (* starts at a line start                          *)
    (b = length bs \/ entry_line_start bs b) /\      (* ends where the next entry begins, or at the end *)
    a <= pos_start e <= b.                           (* and contains the error position                 *)

(* slice ranges of the errors are pairwise disjoint and in source order *)
Definition ranges_ordered (errs : list perror) : Prop :=
  forall i j ei ej ai bi aj bj,
    i < j -> nth_error errs i = Some ei -> nth_error errs j = Some ej ->
    eslice ei = Some (ai, bi) -> eslice ej = Some (aj, bj) -> bi <= aj.

(* entry x was produced by an Ok result of get_entry started at an entry start p (with entry_start = p),
   possibly with the preceding comment attached (core.rs:44-58) *)
Definition admitted (bs : bytes) (x : entry) : Prop :=
  exists n p q e, get_entry bs n p p = Ok e q /\ (x = e \/ exists c, x = attach e c).
Definition admitted_rt (bs : bytes) (x : entry) : Prop :=
  exists n p q, get_entry_runtime bs n p p = Ok (Some x) q.

(* ---- parser::parse -------------------------------------------------------------------------- *)

(* "the parser reports success exactly when the tree has no Junk" (Ok(resource) iff errs = []) *)
Theorem C03_ok_iff_no_junk : forall bs body errs,
  parse bs = Done (body, errs) -> (errs = [] <-> junks body = []).
Proof. exact ParserAccounting.parse_ok_iff_no_junk. Qed.

(* "errors and Junk entries correspond one-to-one in source order, each Junk holds exactly the source
   text of its error's slice range (a range on character boundaries that starts at a line start, ends
   where the next entry begins and contains the error position)" *)
Theorem C03_accounting : forall bs body errs,
  parse bs = Done (body, errs) -> Forall2 (junk_matches bs) (junks body) errs.
Proof. exact ParserAccounting.parse_accounting. Qed.

(* "in source order": the ranges are disjoint and increasing *)
Theorem C03_order : forall bs body errs,
  parse bs = Done (body, errs) -> ranges_ordered errs.
Proof. exact ParserAccounting.parse_order. Qed.

(* "an entry that breaks a syntax rule is never admitted as a message or term", at the level of the
   entry loop: whatever is in the body and is not Junk came out of get_entry with Ok; when get_entry
   returns Err the loop pushes a Junk (and one error) instead.  Which inputs make get_entry return Err
   (the list of documented violations) is the containment half, exercised by props/C03.py. *)
Theorem C03_admitted_not_junk : forall bs body errs,
  parse bs = Done (body, errs) -> Forall (fun x => is_junk x = true \/ admitted bs x) body.
Proof. exact ParserAccounting.parse_admitted. Qed.

(* ---- parser::parse_runtime ------------------------------------------------------------------ *)

Theorem C03_runtime_ok_iff_no_junk : forall bs body errs,
  parse_runtime bs = Done (body, errs) -> (errs = [] <-> junks body = []).
Proof. exact ParserAccounting.parse_runtime_ok_iff_no_junk. Qed.

Theorem C03_runtime_accounting : forall bs body errs,
  parse_runtime bs = Done (body, errs) -> Forall2 (junk_matches bs) (junks body) errs.
Proof. exact ParserAccounting.parse_runtime_accounting. Qed.

Theorem C03_runtime_order : forall bs body errs,
  parse_runtime bs = Done (body, errs) -> ranges_ordered errs.
Proof. exact ParserAccounting.parse_runtime_order. Qed.

Theorem C03_runtime_admitted_not_junk : forall bs body errs,
  parse_runtime bs = Done (body, errs) -> Forall (fun x => is_junk x = true \/ admitted_rt bs x) body.
Proof. exact ParserAccounting.parse_runtime_admitted. Qed.

(* ---- non-vacuity witnesses ------------------------------------------------------------------ *)
Definition nl : bytes := [10%N].

(* "a = { FUN(\nb = x\nc = y\n": one Junk "a = { FUN(\n" (range 0..11, error at 10), b and c survive *)
Definition ex_junk_first : bytes :=
  bytes_of_string "a = { FUN(" ++ nl ++ bytes_of_string "b = x" ++ nl ++ bytes_of_string "c = y" ++ nl.

Example C03_example_junk_then_messages :
  parse ex_junk_first =
  Done ([Junk (bytes_of_string "a = { FUN(" ++ nl);
         Message (bytes_of_string "b") (Some (Pattern [TextElement (bytes_of_string "x")])) [] None;
         Message (bytes_of_string "c") (Some (Pattern [TextElement (bytes_of_string "y")])) [] None],
        [PError ExpectedInlineExpression 10 11 (Some (0, 11))]).
Proof. vm_compute. reflexivity. Qed.

Example C03_example_junk_then_messages_runtime :
  parse_runtime ex_junk_first = parse ex_junk_first.
Proof. vm_compute. reflexivity. Qed.

(* Junk between entries; the first error position (detected at 28, inside the attribute line) is
   clamped to the rewound '\n' at 20; the second Junk ends with CR LF; a comment in between. *)
Definition ex_junk_between : bytes :=
  bytes_of_string "ok = fine" ++ nl ++
  bytes_of_string "bad = { $x" ++ nl ++ bytes_of_string "  .attr = still bad" ++ nl ++ nl ++
  bytes_of_string "# note" ++ nl ++
  bytes_of_string "-t = { 1 2 }" ++ [13; 10]%N ++
  bytes_of_string "z = last".

Example C03_example_junk_between :
  omap (fun r => (junks (fst r), map (fun e => (pos_start e, eslice e)) (snd r), length (fst r)))
       (parse ex_junk_between) =
  Done ([bytes_of_string "bad = { $x" ++ nl ++ bytes_of_string "  .attr = still bad" ++ nl ++ nl;
         bytes_of_string "-t = { 1 2 }" ++ [13; 10]%N],
        [(20, Some (10, 42)); (58, Some (49, 63))],
        5).
Proof. vm_compute. reflexivity. Qed.

Example C03_example_junk_between_runtime :
  omap (fun r => (junks (fst r), map (fun e => (pos_start e, eslice e)) (snd r), map is_junk (fst r)))
       (parse_runtime ex_junk_between) =
  Done ([bytes_of_string "bad = { $x" ++ nl ++ bytes_of_string "  .attr = still bad" ++ nl ++ nl;
         bytes_of_string "-t = { 1 2 }" ++ [13; 10]%N],
        [(20, Some (10, 42)); (58, Some (49, 63))],
        [false; true; true; false]).
Proof. vm_compute. reflexivity. Qed.

(* no errors, no Junk *)
Example C03_example_clean :
  omap (fun r => (junks (fst r), snd r)) (parse (bytes_of_string "a = b" ++ nl ++ bytes_of_string "-t = u")) =
  Done ([], []).
Proof. vm_compute. reflexivity. Qed.

(* Props/C12.v — Numbers keep their written precision and select the locale's plural category.
   Statements only; the proofs are in Bundle/NumberSpecProofs.v.  The specification side (literal grammar,
   positional value, canonical printing, CLDR operands of the written digits, option semantics of NUMBER,
   first-match selection) is Bundle/NumberSpec.v; the model of the code is Bundle/Number.v (number.rs,
   builtins.rs, intl_pluralrules operands) and Bundle/ResolverModel.v (types/mod.rs matches, expression.rs).

   Quantification.  "All decimal literals" = all byte strings s accepted by the recogniser `parse_literal` of
   the grammar -?d+(.d+)? — C12_literal_grammar says that these are exactly the texts of well-formed
   (sign, integer digits, optional fraction digits) triples; there is no bound on their length.
   `f64_from_str_exact` is the exact-decimal stand-in for std's float parser (Number.v header): it IS the real
   parser only within `exact_guard` (at most 15 significant digits; measured on the real code, finding D15
   beyond), which is why the literal theorems carry that hypothesis although the model itself is exact.
   `rules` — the PluralRules object constructed for the bundle's first locale — is third-party code
   (intl_pluralrules): a section variable.                                                              *)
From FluentV Require Import Base.Bytes Base.Outcome Syntax.Ast Bundle.Args Bundle.ArgsProofs Bundle.Number Bundle.NumberConsts
  Bundle.NumberProofs Bundle.Plural Bundle.ResolverAst Bundle.ResolverModel Bundle.NumberSpec Bundle.NumberSpecProofs
  Gen.Extracted.
Local Open Scope N_scope.

(* ---------- the quantifier: the literal grammar ---------- *)
Theorem C12_literal_grammar :
  forall s l, parse_literal s = Some l <-> (lit_wf l = true /\ s = lit_text l).
Proof.
  intros s l. split; [apply parse_literal_sound|]. intros [Hwf ->]. now apply parse_literal_complete.
Qed.

(* ---------- "formats with at least the fraction digits it was written with and the same numeric value" ----------
   For every literal s within the guard: FluentNumber::from_str accepts it; as_string gives s with the leading
   zeros of the integer part stripped ("007" -> "7", "00.10" -> "0.10", "-0" stays "-0") and EVERY written
   fraction digit kept; the number held is the number written; minimum_fraction_digits is the number of
   written fraction digits; the printed text is again a literal, with the same fraction digits and value. *)
Theorem C12_print :
  forall s l, parse_literal s = Some l -> exact_guard l = true ->
  exists n, fnumber_from_str f64_from_str_exact s = Some n /\
            fnumber_as_string n = canonical_print l /\
            fval_is (n_value n) (l_neg l) (lit_abs l) /\
            o_minimum_fraction_digits (n_options n) = option_map (fun f => N.of_nat (length f)) (l_frac l) /\
            parse_literal (canonical_print l) = Some (canonical l) /\
            l_frac (canonical l) = l_frac l /\ l_neg (canonical l) = l_neg l /\
            dec_same (lit_abs (canonical l)) (lit_abs l).
Proof.
  intros s l Hp _. apply parse_literal_sound in Hp as [Hwf ->].
  exists (literal_number l).
  split; [now apply from_str_literal|]. split; [now apply as_string_literal|]. split; [now apply value_literal|].
  split; [reflexivity|]. split; [apply parse_literal_complete; now apply canonical_wf|].
  split; [reflexivity|]. split; [reflexivity|]. apply canonical_same_value.
Qed.

(* the same through the resolver: a number-literal placeable `{ s }` writes that text, and a numeric-string
   argument (FluentValue::try_number) is that number — for every bundle, scope and fuel; no formatter set *)
Theorem C12_print_placeable :
  forall overflow_checks call_function transform rules custom_as_string unescape_write unescape_to_string b args
         fuel sc s l,
  parse_literal s = Some l -> exact_guard l = true ->
  inline_write overflow_checks call_function transform None rules custom_as_string unescape_write unescape_to_string
    f64_from_str_exact b args (S fuel) (NumberLiteral s) sc = Done ([Txt (canonical_print l)], sc) /\
  exists n, try_number f64_from_str_exact s = VNumber n /\ fnumber_as_string n = canonical_print l.
Proof.
  intros until l. intros Hp _. apply parse_literal_sound in Hp as [Hwf ->].
  assert (E : try_number f64_from_str_exact (lit_text l) = VNumber (literal_number l))
    by (unfold try_number; now rewrite from_str_literal).
  split.
  - cbn [inline_write]. rewrite E. unfold value_write, apply_formatter. now rewrite as_string_literal.
  - exists (literal_number l). split; [exact E | now apply as_string_literal].
Qed.

(* ---------- plural operands = the CLDR operands of the WRITTEN digits ----------
   (n, i, v, w, f, t with the visible fraction digits: "1" has v = 0, "1.0" has v = 1 and f = 0) *)
Theorem C12_operands :
  forall s l, parse_literal s = Some l -> exact_guard l = true -> digits_fit_u64 l = true ->
  exists n ops, fnumber_from_str f64_from_str_exact s = Some n /\ fnumber_operands n = Done ops /\
                ops_agree ops (cldr_operands l).
Proof.
  intros s l Hp Hg Hfit. apply parse_literal_sound in Hp as [Hwf ->].
  exists (literal_number l), (literal_operands l). split; [now apply from_str_literal|]. split.
  - apply operands_literal; [exact Hwf | now apply guard_no_panic].
  - rewrite <- (saturated_fits l Hfit). now apply literal_operands_agree.
Qed.

(* beyond the u64 range (20 and more integer digits, 20 and more visible fraction digits): no panic, i and f
   saturate at 2^64-1 (the D10 / D28 fixes), v, w, t and n stay exact *)
Theorem C12_operands_beyond :
  forall s l, parse_literal s = Some l -> exact_guard l = true ->
  exists n ops, fnumber_from_str f64_from_str_exact s = Some n /\ fnumber_operands n = Done ops /\
                ops_agree ops (saturated_operands l).
Proof.
  intros s l Hp Hg. apply parse_literal_sound in Hp as [Hwf ->].
  exists (literal_number l), (literal_operands l). split; [now apply from_str_literal|]. split.
  - apply operands_literal; [exact Hwf | now apply guard_no_panic].
  - now apply literal_operands_agree.
Qed.

(* never Panic: for every literal within the guard (any number of digits), and for every number in the range of an
   f64 with EVERY minimum_fraction_digits (what NUMBER(x, minimumFractionDigits: k) can produce) *)
Theorem C12_operands_total :
  (forall s l, parse_literal s = Some l -> exact_guard l = true ->
     exists n ops, fnumber_from_str f64_from_str_exact s = Some n /\ fnumber_operands n = Done ops) /\
  (forall n : fnumber, fval_in_f64_range (n_value n) -> exists ops, fnumber_operands n = Done ops).
Proof.
  split.
  - intros s l Hp Hg. destruct (C12_operands_beyond s l Hp Hg) as (n & ops & H1 & H2 & _). eauto.
  - exact fnumber_operands_total.
Qed.

(* the list-based CLDR operands read arithmetically: n = i + f/10^v, f < 10^v, f = t * 10^(v-w), t < 10^w and t has
   no trailing zero (or w = 0) — i.e. w, t are f with the trailing zeros removed *)
Theorem C12_cldr_trailing_zeros :
  forall l, lit_wf l = true -> cldr_arith (cldr_operands l).
Proof. exact cldr_operands_arith. Qed.

(* ---------- "NUMBER() options given in the translation override those of the value" ----------
   NUMBER(x, named) keeps x's value and sets exactly the options named with a value of the right kind — strings for
   type / style / currency / currencyDisplay / useGrouping, numbers (`as usize`) for the five digit options —
   overriding x's own; every option not named (or named with a value of the wrong kind) keeps x's value;
   unknown keys change nothing (number_options_spec looks only the ten names up).  `named` has one entry per
   key, as every FluentArgs has (C11). A first argument that is not a number gives an error value. *)
Theorem C12_number_opts :
  (forall x rest named, NoDup (map fst named) ->
     NUMBER (VNumber x :: rest) named = VNumber (FNum (n_value x) (number_options_spec (n_options x) named))) /\
  (forall positional named, match positional with VNumber _ :: _ => False | _ => True end ->
     NUMBER positional named = VError).
Proof. split; [exact NUMBER_spec | exact NUMBER_not_number]. Qed.

(* ... for the argument list as WRITTEN in the call: FluentArgs collected from the written (name, value) pairs
   holds, per name, the last value written *)
Theorem C12_number_opts_resolved :
  forall kvs named x rest, Args.from_iter fvalue kvs = Done named ->
  NUMBER (VNumber x :: rest) named = VNumber (FNum (n_value x) (number_options_spec (n_options x) named)) /\
  forall k, named_lookup named k = last_write fvalue kvs k.
Proof.
  intros kvs named x rest H. destruct (named_of_written kvs named H) as [Hnd Hl].
  split; [now apply NUMBER_spec | exact Hl].
Qed.

(* ---------- selection ---------- *)
(* D14: a numeric key is compared with the selector by VALUE — the model's `a.value == b.value` is arithmetic
   equality of the two decimals (cross-multiplication; -0 = 0; NaN equals nothing) and looks at no option *)
Theorem C12_numeric_key :
  (forall a b, fval_digits a = true -> fval_digits b = true -> fval_eqb a b = same_number a b) /\
  (forall rules a b sc, value_matches rules (VNumber a) (VNumber b) sc = Done (fval_eqb (n_value a) (n_value b), sc)) /\
  (forall s v, f64_from_str_exact s = Some v -> fval_digits v = true).
Proof. split; [exact fval_eqb_same_number | split; [reflexivity | exact f64_from_str_exact_digits]]. Qed.

Section C12_select.
Variable overflow_checks : bool.
Variable call_function : bytes -> list fvalue -> fargs -> fvalue.
Variable transform : option (bytes -> bytes).
Variable formatter : option (fvalue -> option bytes).
Variable rules : ntype -> rules_fn.              (* PluralRules::construct(first locale of the bundle, type) *)
Variable custom_as_string : bytes -> bytes.
Variable unescape_write : bytes -> bytes.
Variable unescape_to_string : bytes -> bytes.
Variable f64_from_str : bytes -> option fval.
Variable b : bundle.
Variable args : option fargs.
(* std's float parser returns numbers (digit strings in the model); true of f64_from_str_exact: C12_numeric_key *)
Hypothesis parser_digits : forall s v, f64_from_str s = Some v -> fval_digits v = true.

(* the first loop of Expression::write on a selector NUMBER `sel` with plural operands `ops`: the variant found is
   the FIRST whose key is a number literal numerically equal to sel, or a plural keyword equal to
   rules (type of sel) ops — `first_satisfied`; the scope changes only in the memoizer (C12_locale) *)
Theorem C12_select :
  forall variants sel ops sc,
  fval_digits (n_value sel) = true -> fnumber_operands sel = Done ops -> cache_ok rules (sc_intls sc) ->
  exists sc', find_variant rules f64_from_str variants (VNumber sel) sc =
              Done (first_satisfied rules f64_from_str sel ops variants, sc') /\
              cache_step rules sc sc'.
Proof. intros. now apply find_variant_number. Qed.

(* the whole select expression: the pattern written is that variant's, otherwise the default variant's
   (`selected`); without a default, MissingDefault is reported *)
Theorem C12_select_expression :
  forall fuel selector variants sc sel sc1 ops,
  inline_resolve overflow_checks call_function transform formatter rules custom_as_string unescape_write
    unescape_to_string f64_from_str b args fuel selector sc = Done (VNumber sel, sc1) ->
  fval_digits (n_value sel) = true -> fnumber_operands sel = Done ops -> cache_ok rules (sc_intls sc1) ->
  exists sc2, cache_step rules sc1 sc2 /\
    expression_write overflow_checks call_function transform formatter rules custom_as_string unescape_write
      unescape_to_string f64_from_str b args (S fuel) (Select selector variants) sc =
    match selected rules f64_from_str sel ops variants with
    | Some value => pattern_write overflow_checks call_function transform formatter rules custom_as_string
                      unescape_write unescape_to_string f64_from_str b args fuel None value sc2
    | None => Done ([], add_error sc2 MissingDefault)
    end.
Proof. intros. eapply select_expression; eassumption. Qed.

(* "an exact numeric key wins when it precedes": if no key before it is satisfied, a numeric key equal to the
   selector is taken whatever category keys follow; and a satisfied key is never overtaken by a later one *)
Theorem C12_exact_key_first :
  forall sel ops pre lit a value d post,
  (forall k v d', In (Variant k v d') pre -> key_satisfied rules f64_from_str sel ops k = false) ->
  f64_from_str lit = Some a -> same_number a (n_value sel) = true ->
  selected rules f64_from_str sel ops (pre ++ Variant (KeyNumber lit) value d :: post) = Some value.
Proof.
  intros sel ops pre lit a value d post Hpre Ha Heq. unfold selected.
  assert (E : first_satisfied rules f64_from_str sel ops (pre ++ Variant (KeyNumber lit) value d :: post) = Some value).
  { induction pre as [|[k v d'] pre IH]; cbn [app first_satisfied key_satisfied].
    - now rewrite Ha, Heq.
    - rewrite (Hpre k v d' (or_introl eq_refl)). apply IH. intros k0 v0 d0 Hin. eapply Hpre. right. exact Hin. }
  now rewrite E.
Qed.

(* "the rule of the bundle's first locale": the rules object a key test uses is `rules ty` — constructed when the
   memoizer has none for that type, kept, found again afterwards (so a second test constructs nothing), and never
   replaced.  PARTIAL: that `rules` IS PluralRules::construct(FIRST locale, ty), and what that third-party object
   computes (intl_pluralrules, CLDR tables), is outside the model: the extraction instantiates `rules` with
   Bundle/Plural.v rules_for_locale (first locale) and the implementation-only oracle decides it on locale lists. *)
Theorem C12_locale_partial :
  forall c ty, cache_ok rules c ->
  let '(r, c') := with_try_get rules c ty in
  r = rules ty /\ cache_ok rules c' /\ cache_extends c c' /\ cache_find c' ty = Some (rules ty) /\
  with_try_get rules c' ty = (rules ty, c') /\
  (forall r0, cache_find c ty = Some r0 -> c' = c).
Proof.
  intros c ty Hok. pose proof (with_try_get_spec rules c ty Hok) as W.
  destruct (with_try_get rules c ty) as [r c']. destruct W as (Hr & Hok' & Hext & Hfind & Hsame).
  repeat split; try assumption. unfold with_try_get. now rewrite Hfind.
Qed.

End C12_select.

(* the chain for a LITERAL selector `{ s -> ... }` ("1 is one but 1.0 is other"): the number selected on is the literal's,
   typed cardinal, and the operands handed to `rules` are the CLDR operands of the written digits (saturated beyond u64) *)
Theorem C12_select_literal :
  forall overflow_checks call_function transform formatter rules custom_as_string unescape_write unescape_to_string b args
         fuel variants sc s l,
  parse_literal s = Some l -> exact_guard l = true -> cache_ok rules (sc_intls sc) ->
  exists n ops sc2,
    fnumber_from_str f64_from_str_exact s = Some n /\ o_type (n_options n) = Cardinal /\
    fnumber_operands n = Done ops /\ ops_agree ops (saturated_operands l) /\ cache_step rules sc sc2 /\
    expression_write overflow_checks call_function transform formatter rules custom_as_string unescape_write
      unescape_to_string f64_from_str_exact b args (S (S fuel)) (Select (NumberLiteral s) variants) sc =
    match selected rules f64_from_str_exact n ops variants with
    | Some value => pattern_write overflow_checks call_function transform formatter rules custom_as_string
                      unescape_write unescape_to_string f64_from_str_exact b args (S fuel) None value sc2
    | None => Done ([], add_error sc2 MissingDefault)
    end.
Proof.
  intros until l. intros Hp Hg Hok. apply parse_literal_sound in Hp as [Hwf ->].
  assert (Hops : fnumber_operands (literal_number l) = Done (literal_operands l))
    by (apply operands_literal; [exact Hwf | now apply guard_no_panic]).
  assert (Hd : fval_digits (n_value (literal_number l)) = true)
    by (eapply f64_from_str_exact_digits; apply f64_exact_literal; exact Hwf).
  assert (Hir : inline_resolve overflow_checks call_function transform formatter rules custom_as_string unescape_write
                  unescape_to_string f64_from_str_exact b args (S fuel) (NumberLiteral (lit_text l)) sc =
                Done (VNumber (literal_number l), sc))
    by (cbn [inline_resolve]; unfold try_number; now rewrite from_str_literal).
  destruct (select_expression overflow_checks call_function transform formatter rules custom_as_string unescape_write
              unescape_to_string f64_from_str_exact b args f64_from_str_exact_digits (S fuel) (NumberLiteral (lit_text l))
              variants sc (literal_number l) sc (literal_operands l) Hir Hd Hops Hok) as (sc2 & Hstep & E).
  exists (literal_number l), (literal_operands l), sc2.
  split; [now apply from_str_literal|]. split; [reflexivity|]. split; [exact Hops|].
  split; [now apply literal_operands_agree|]. split; [exact Hstep | exact E].
Qed.

(* ---------- non-vacuity and the examples of the property text ---------- *)
Definition bs (x : string) : bytes := bytes_of_string x.
Definition ex_parse (x : string) : option fnumber := fnumber_from_str f64_from_str_exact (bs x).
Definition ex_print (x : string) : option bytes := option_map fnumber_as_string (ex_parse x).
Definition ex_ops (x : string) :=
  match ex_parse x with
  | Some n => match fnumber_operands n with
              | Done o => Some (fval_to_string (op_n o), op_i o, op_v o, op_w o, op_f o, op_t o)
              | _ => None
              end
  | None => None
  end.

Example C12_example_prints :
  ex_print "007" = Some (bs "7") /\ ex_print "-0" = Some (bs "-0") /\ ex_print "0.50" = Some (bs "0.50") /\
  ex_print "00.10" = Some (bs "0.10") /\ ex_print "-007.500" = Some (bs "-7.500") /\ ex_print "1.0" = Some (bs "1.0") /\
  ex_print "1.0000000000000000000000000" = Some (bs "1.0000000000000000000000000").
Proof. vm_compute. repeat split. Qed.

Example C12_example_guard :
  option_map exact_guard (parse_literal (bs "123456789012345.000")) = Some true /\
  option_map exact_guard (parse_literal (bs "0.000000000000000000123456789012345")) = Some true /\
  option_map exact_guard (parse_literal (bs "1.000000000000000001")) = Some false /\
  option_map exact_guard (parse_literal (bs "9007199254740993")) = Some false /\
  parse_literal (bs "1e5") = None /\ parse_literal (bs ".5") = None /\ parse_literal (bs "5.") = None /\ parse_literal (bs "+1") = None.
Proof. vm_compute. repeat split. Qed.

(* 1 has v = 0; 1.0 has v = 1, f = 0; 1.50 has v = 2, w = 1, f = 50, t = 5 *)
Example C12_example_operands :
  ex_ops "1" = Some (bs "1", 1, 0, 0, 0, 0) /\ ex_ops "1.0" = Some (bs "1", 1, 1, 0, 0, 0) /\
  ex_ops "1.50" = Some (bs "1.5", 1, 2, 1, 50, 5) /\ ex_ops "-00.10" = Some (bs "0.1", 0, 2, 1, 10, 1).
Proof. vm_compute. repeat split. Qed.

(* a 25-fraction-digit literal does not panic: f stays 0 for an all-zero fraction (D28), saturates otherwise (D10) *)
Example C12_example_25_digits :
  ex_ops "1.0000000000000000000000000" = Some (bs "1", 1, 25, 0, 0, 0) /\
  ex_ops "1.5000000000000000000000000" = Some (bs "1.5", 1, 25, 1, u64_max, 5) /\
  ex_ops "100000000000000000000" = Some (bs "100000000000000000000", u64_max, 0, 0, 0, 0).
Proof. vm_compute. repeat split. Qed.

(* en: "1" is one, "1.0" is other — through the select expression of the resolver model *)
Definition ex_variant (k : variant_key) (text : string) (d : bool) := Variant k (Pattern [TextElement (bs text)]) d.
Definition ex_select (loc : string) (selector : inline) (variants : list variant) (args : option fargs) : option (bytes * nat) :=
  let p := Pattern [PlaceableElement (Select selector variants)] in
  let bd := Bundle [(bs "NUMBER", EFunction FnNUMBER)] false in
  match format_pattern true (fun _ _ _ => VError) None None (rules_for_locale (bs loc)) (fun x => x) (fun x => x) (fun x => x)
          f64_from_str_exact bd args (fuel_of bd p) None p [] with
  | Done (t, sc) => Some (t, length (sc_errors sc))
  | _ => None
  end.
Definition one_other := [ex_variant (KeyIdentifier (bs "one")) "ONE" false; ex_variant (KeyIdentifier (bs "other")) "OTHER" true].

Example C12_example_en :
  ex_select "en" (NumberLiteral (bs "1")) one_other None = Some (bs "ONE", O) /\
  ex_select "en" (NumberLiteral (bs "1.0")) one_other None = Some (bs "OTHER", O) /\
  ex_select "pl" (NumberLiteral (bs "5")) [ex_variant (KeyIdentifier (bs "many")) "MANY" false; ex_variant (KeyIdentifier (bs "other")) "OTHER" true] None
    = Some (bs "MANY", O).
Proof. vm_compute. repeat split. Qed.

(* an exact numeric key wins when it precedes the category key, and only then; D14: NUMBER(1, type: "ordinal") still
   matches [1] *)
Example C12_example_key_order :
  let exact_first := [ex_variant (KeyNumber (bs "1")) "EXACT" false; ex_variant (KeyIdentifier (bs "one")) "ONE" false; ex_variant (KeyIdentifier (bs "other")) "OTHER" true] in
  let cat_first := [ex_variant (KeyIdentifier (bs "one")) "ONE" false; ex_variant (KeyNumber (bs "1")) "EXACT" false; ex_variant (KeyIdentifier (bs "other")) "OTHER" true] in
  let ordinal_1 := FunctionReference (bs "NUMBER") (CallArguments [NumberLiteral (bs "1")] [NamedArgument (bs "type") (StringLiteral (bs "ordinal"))]) in
  ex_select "en" (NumberLiteral (bs "1")) exact_first None = Some (bs "EXACT", O) /\
  ex_select "en" (NumberLiteral (bs "1")) cat_first None = Some (bs "ONE", O) /\
  ex_select "en" (NumberLiteral (bs "1.0")) cat_first None = Some (bs "EXACT", O) /\
  ex_select "en" ordinal_1 [ex_variant (KeyNumber (bs "1.00")) "EXACT" false; ex_variant (KeyIdentifier (bs "other")) "OTHER" true] None = Some (bs "EXACT", O).
Proof. vm_compute. repeat split. Qed.

(* NUMBER(2.50, minimumFractionDigits: 3, type: "ordinal", type2: "x", style: 7): the two named options of the right kind are
   set, the value's own written fraction digits are overridden, an unknown key and a wrong-kind value are ignored *)
Example C12_example_number_opts :
  match ex_parse "2.50", Args.from_iter fvalue
          [(bs "minimumFractionDigits", try_number f64_from_str_exact (bs "3")); (bs "type", VString (bs "ordinal"));
           (bs "type2", VString (bs "x")); (bs "style", try_number f64_from_str_exact (bs "7"))] with
  | Some x, Done named =>
      match NUMBER [VNumber x] named with
      | VNumber n => Some (fnumber_as_string n, o_type (n_options n), o_style (n_options n), o_minimum_fraction_digits (n_options n))
      | _ => None
      end
  | _, _ => None
  end = Some (bs "2.500", Ordinal, StyleDecimal, Some 3).
Proof. vm_compute. reflexivity. Qed.


(* the NUMBER() option keys honoured by the model are exactly those written in types/number.rs now
   (Gen/Extracted.v is regenerated from /repo on every run): no other key has an effect, and every listed key has one *)
Theorem C12_option_keys_from_source :
  (forall o key v, ~ In key NUMBER_STRING_OPTION_KEYS -> merge_one o key (VString v) = o) /\
  (forall o key n, ~ In key NUMBER_NUMBER_OPTION_KEYS -> merge_one o key (VNumber n) = o) /\
  forallb (fun k => existsb (fun v => changes_default k (VString (bytes_of_string v)))
                            ["ordinal"; "percent"; "USD"; "code"; "false"]%string) NUMBER_STRING_OPTION_KEYS = true /\
  forallb (fun k => changes_default k (VNumber (FNum (FDec false [51]%N []) default_options))) NUMBER_NUMBER_OPTION_KEYS = true.
Proof.
  split; [exact merge_string_keys_from_source|]. split; [exact merge_number_keys_from_source|].
  split; [exact source_string_keys_honoured | exact source_number_keys_honoured].
Qed.

(* Props/C08.v — Formatting is a pure function; string and writer APIs agree.
   Statements only; proofs are in Bundle/ResolverPure.v (on top of Bundle/ResolverSim.v).

   In Gallina every function is pure; purity is made non-vacuous by modelling the only state that
   survives a call — the bundle's `intls` memoizer (here: the table of constructed PluralRules) —
   explicitly: every entry point takes the memoizer content at the time of the call and the final
   scope carries what it holds afterwards (`sc_intls`).  `cache_ok` = every cached rules object
   computes what a freshly constructed one does (the memoizer invariant, C14).

   History (D22, fixed in /repo by "format_pattern does not run the value formatter on the resolved
   text"): format_pattern used to end with `value.into_string(&scope)`, which ran the value
   formatter (`set_formatter`) on the resolved result as a whole, while write_pattern did not; a
   formatter returning Some for FluentValue::String made the two differ.  C08_write_eq_format now
   holds for EVERY formatter (example C08_example_string_formatter).  Reverting the fix
   (tools/mutants/revert_D22/patch.diff) breaks the correspondence on every case with the `all`
   formatter and the oracle of props/C08.py reports format_pattern != write_pattern on the corpus
   witness `hello = Hello { $name }`.                                                            *)
From FluentV Require Import Base.Bytes Base.Outcome Syntax.Ast Bundle.Args Bundle.ArgsProofs Bundle.Number
  Bundle.ResolverAst Bundle.ResolverModel Bundle.ResolverSim Bundle.ResolverPure Gen.Extracted.
From Coq Require Import Sorting.Permutation.

Section C08.
Variable overflow_checks : bool.
Variable call_function : bytes -> list fvalue -> fargs -> fvalue.
Variable transform : option (bytes -> bytes).
Variable formatter : option (fvalue -> option bytes).
Variable rules : ntype -> rules_fn.
Variable custom_as_string : bytes -> bytes.
Variable unescape_write : bytes -> bytes.
Variable unescape_to_string : bytes -> bytes.
Variable f64_from_str : bytes -> option fval.
Variable b : bundle.

Notation write := (write_pattern overflow_checks call_function transform formatter rules custom_as_string
                     unescape_write unescape_to_string f64_from_str b).
Notation format := (format_pattern overflow_checks call_function transform formatter rules custom_as_string
                      unescape_write unescape_to_string f64_from_str b).

(* "formatting to a string and formatting into a writer produce the same text and the same error
   list": format_pattern (Pattern::resolve with its single-text shortcut, then into_string) returns
   exactly the bytes write_pattern (Pattern::write) writes, with the same final scope (errors,
   function calls, memoizer) — for every fuel, so also the same Panic / OutOfFuel — and for every
   transform and every value formatter (no hypothesis). *)
Theorem C08_write_eq_format :
  forall args fuel top p c,
    format args (S fuel) top p c =
    match write args (S fuel) top p c with
    | Done (o, sc) => Done (flatten o, sc)
    | Panic t => Panic t
    | OutOfFuel => OutOfFuel
    end.
Proof. intros. apply format_eq_write_all. Qed.

(* "three stringification paths": FluentValue::write, as_string and into_string are one function *)
Theorem C08_stringify_agree :
  forall v,
    value_write formatter custom_as_string v = value_as_string formatter custom_as_string v /\
    value_as_string formatter custom_as_string v = value_into_string formatter custom_as_string v.
Proof. exact (stringify_agree formatter custom_as_string). Qed.

(* "The result does not depend on … cached plural rules": two calls that differ only in what the
   memoizer holds give the same tokens / text and the same scope up to the memoizer, and leave
   the memoizer invariant in force *)
Theorem C08_cache_indep :
  forall args fuel top p c1 c2,
    cache_ok rules c1 -> cache_ok rules c2 ->
    observe (write args fuel top p c1) = observe (write args fuel top p c2) /\
    observe_f (format args fuel top p c1) = observe_f (format args fuel top p c2) /\
    cache_ok rules (cache_after c1 (write args fuel top p c1)) /\
    cache_ok rules (cache_after c1 (format args fuel top p c1)).
Proof.
  intros args fuel top p c1 c2 H1 H2.
  destruct (write_cache_indep overflow_checks call_function transform formatter rules custom_as_string
              unescape_write unescape_to_string f64_from_str b args fuel top p c1 c2 H1 H2) as (A & B & _).
  destruct (format_cache_indep overflow_checks call_function transform formatter rules custom_as_string
              unescape_write unescape_to_string f64_from_str b args fuel top p c1 c2 H1 H2) as (C & D & _).
  auto.
Qed.

(* "repeating the call any number of times, in any order relative to other format calls on the same
   bundle, produces identical results": after ANY two histories of format/write requests on a
   fresh bundle (each request starts with the memoizer the previous one left), the same request
   gives the same observable result *)
Theorem C08_history_indep :
  forall (reqs1 reqs2 : list request) args fuel top p,
    let h := history overflow_checks call_function transform formatter rules custom_as_string
               unescape_write unescape_to_string f64_from_str b [] in
    observe (write args fuel top p (h reqs1)) = observe (write args fuel top p (h reqs2)) /\
    observe_f (format args fuel top p (h reqs1)) = observe_f (format args fuel top p (h reqs2)).
Proof. intros. apply history_indep. Qed.

End C08.

(* "… or on how the arguments were inserted": FluentArgs collected from the same key/value pairs
   (distinct keys) in any order are the same value *)
Theorem C08_args_order :
  forall V (kvs1 kvs2 : list (bytes * V)),
    Permutation kvs1 kvs2 -> NoDup (map fst kvs1) -> from_iter V kvs1 = from_iter V kvs2.
Proof. exact from_iter_perm. Qed.

(* ---------- non-vacuity and the excluded class ---------- *)
Definition ex_call (_ : bytes) (_ : list fvalue) (_ : fargs) : fvalue := VError.
Definition ex_rules (_ : ntype) (_ : operands) : pcat := OTHER.
Definition ex_id (x : bytes) : bytes := x.
Definition s (x : string) : bytes := bytes_of_string x.
Definition ex_pattern : pattern :=
  Pattern [TextElement (s "Hello "); PlaceableElement (Inline (VariableReference (s "name")))].
Definition ex_args : option fargs := Some [(s "name", VString (s "X"))].
Definition ex_b : bundle := Bundle [] false.

Example C08_example_agree :
  (match format_pattern true ex_call None None ex_rules ex_id ex_id ex_id f64_from_str_exact ex_b ex_args 9 None ex_pattern [] with
   | Done (t, _) => Some t | _ => None end) = Some (s "Hello X") /\
  (match write_pattern true ex_call None None ex_rules ex_id ex_id ex_id f64_from_str_exact ex_b ex_args 9 None ex_pattern [] with
   | Done (o, _) => Some (flatten o) | _ => None end) = Some (s "Hello X").
Proof. split; vm_compute; reflexivity. Qed.

(* D22 (fixed): formatter String(s) -> "<s>".  Both entry points give "Hello <X>": the formatter is
   applied to the interpolated value, not to the resolved text as a whole. *)
Definition ex_formatter : option (fvalue -> option bytes) :=
  Some (fun v => match v with VString x => Some ([60%N] ++ x ++ [62%N])%list | _ => None end).

Example C08_example_string_formatter :
  (match format_pattern true ex_call None ex_formatter ex_rules ex_id ex_id ex_id f64_from_str_exact ex_b ex_args 9 None ex_pattern [] with
   | Done (t, _) => Some t | _ => None end) = Some (s "Hello <X>") /\
  (match write_pattern true ex_call None ex_formatter ex_rules ex_id ex_id ex_id f64_from_str_exact ex_b ex_args 9 None ex_pattern [] with
   | Done (o, _) => Some (flatten o) | _ => None end) = Some (s "Hello <X>") /\
  (* the single-text shortcut of Pattern::resolve: no formatter there either *)
  (match format_pattern true ex_call None ex_formatter ex_rules ex_id ex_id ex_id f64_from_str_exact ex_b None 9 None
           (Pattern [TextElement (s "Hello")]) [] with
   | Done (t, _) => Some t | _ => None end) = Some (s "Hello").
Proof. repeat split; vm_compute; reflexivity. Qed.

(* Memo/Concurrent.v — model of intl-memoizer/src/concurrent.rs (the Mutex-based IntlLangMemoizer)
   shared by several threads.  Definitions only.

   concurrent.rs with_try_get:
       let mut map = self.map.lock().unwrap();          // guard `map` lives to the end of the function
       let cache = map.entry::<HashMap<I::Args, I>>().or_insert_with(HashMap::new);
       let e = match cache.entry(args.clone()) { Occupied => .., Vacant => { construct(..)?; insert } };
       Ok(cb(e))                                        // still under the guard (e borrows from it)
   The guard is taken first and dropped last (also on the `?` path), so the whole call — lookup,
   construct, insert, callback — is ONE critical section of the single mutex.  The model therefore takes
   one with_try_get as one atomic step.  This granularity is a reading of the code, not a theorem; it is
   supported by the shuttle schedule exploration of props/C14.py on the real concurrent.rs.

   A thread is the list of requests it still has to issue; a schedule is a list of thread ids: the
   scheduled thread performs its next with_try_get (scheduling a finished or non-existent thread is a
   no-op).  There is no get_for_lang here: concurrent::IntlLangMemoizer is created with `new(lang)` and
   shared by reference / Arc.                                                                       *)
From FluentV Require Export Memo.Memoizer.

Definition request := (type_id * args * cb_id)%type.

Section Conc.
Variables I E R : Type.
Variable construct : lang -> type_id -> args -> nat -> result I E.
Variable callback : cb_id -> I -> R.

Record cstate := mk_cstate {
  c_memo : lmemo I;                                   (* the data behind the Mutex *)
  c_counter : nat;                                    (* construct calls so far *)
  c_trace : list cevent;                              (* ghost: construct log, newest first *)
  c_progs : list (list request);                      (* per thread: requests still to issue *)
  c_results : list (list (request * result R E))      (* per thread: what it got back, oldest first *)
}.

(* concurrent.rs IntlLangMemoizer::with_try_get — body identical to lib.rs, under the lock *)
Definition c_with_try_get := with_try_get I E R construct callback.

(* concurrent.rs IntlLangMemoizer::new, then the threads are spawned *)
Definition c_init (l : lang) (threads : list (list request)) : cstate :=
  mk_cstate (lm_new I l) 0 [] threads (map (fun _ => []) threads).

Definition sched_step (s : cstate) (tid : nat) : cstate :=
  match nth_error (c_progs s) tid with
  | Some (rq :: rest) =>
      let '(t, a, cb) := rq in
      let '(lm', n', r, evs) := c_with_try_get (c_memo s) (c_counter s) t a cb in
      mk_cstate lm' n' (evs ++ c_trace s) (set_nth tid rest (c_progs s))
                (set_nth tid (nth tid (c_results s) [] ++ [(rq, r)]) (c_results s))
  | _ => s
  end.

Definition run_schedule (l : lang) (threads : list (list request)) (sched : list nat) : cstate :=
  fold_left sched_step sched (c_init l threads).

(* the sequential order a schedule induces: (thread, request) in execution order *)
Fixpoint linearize (progs : list (list request)) (sched : list nat) : list (nat * request) :=
  match sched with
  | [] => []
  | tid :: r =>
      match nth_error progs tid with
      | Some (rq :: rest) => (tid, rq) :: linearize (set_nth tid rest progs) r
      | _ => linearize progs r
      end
  end.

(* that order as a single-threaded program of the sequential model: one handle (0) on one memoizer *)
Definition op_of (x : nat * request) : op :=
  let '(_, (t, a, cb)) := x in OpWith 0 t a cb.
Definition seq_program (l : lang) (lin : list (nat * request)) : list op := OpGet l :: map op_of lin.

(* what thread tid sees of a sequential run: its own (request, result) pairs, in order *)
Fixpoint pick (tid : nat) (xs : list ((nat * request) * result R E)) : list (request * result R E) :=
  match xs with
  | [] => []
  | ((t, rq), r) :: rest => if Nat.eqb t tid then (rq, r) :: pick tid rest else pick tid rest
  end.

(* a schedule that lets every thread finish *)
Definition finished (s : cstate) : bool := forallb (fun p => match p with [] => true | _ => false end) (c_progs s).

(* all complete schedules of threads with the given numbers of requests (used by the extracted model
   to enumerate the outcomes of a shuttle scenario; fuel = total number of requests) *)
Fixpoint dec_nth (i : nat) (l : list nat) : list nat :=
  match l, i with
  | [], _ => []
  | x :: r, O => pred x :: r
  | x :: r, S i' => x :: dec_nth i' r
  end.
Fixpoint all_schedules (fuel : nat) (remaining : list nat) : list (list nat) :=
  match fuel with
  | O => [[]]
  | S f =>
      if forallb (Nat.eqb 0) remaining then [[]]
      else flat_map (fun tid => if Nat.eqb (nth tid remaining 0) 0 then []
                                else map (cons tid) (all_schedules f (dec_nth tid remaining)))
                    (seq 0 (length remaining))
  end.

End Conc.
